(* Executable model of reamber's osu!mania reader/writer at character level (definitions only).
   Anchors: reamber/osu/OsuMap.py (read, write), OsuMapMeta.py (_read_meta_string_list,
   write_meta_string_list), OsuNoteMeta.py, OsuTimingPointMeta.py, OsuHit.py, OsuHold.py, OsuBpm.py,
   OsuSv.py, OsuSample.py, OsuSampleSet.py, lists/.   option = a Python exception propagates.
   Numbers: Z for the int-typed fields, exact Q for offsets / bpm / multipliers / float metadata.
   Float PRINTING (repr / :g) is not modelled: the writer emits numeric tokens [WN q] which stand for
   "a decimal text that float() reads back as q" and [WI q] for the int-typed attributes (str(int) / ':g' of
   an int: "a text that int() reads back as q"); everything else is emitted as literal text. *)
From Coq Require Import String Ascii.
From Coq Require Import ZArith QArith Qround Qabs List Bool.
From RV Require Import Base.PyNum Base.Text.
Import ListNotations.
Open Scope Z_scope.

(* ------------------------------------------------------------------ in-memory chart *)
Record note := mkNote { n_off : Q; n_col : Z; n_len : Q;            (* n_len unused (0) for hits *)
                        n_hs : Z; n_ss : Z; n_as : Z; n_cs : Z; n_vol : Z; n_file : text }.
Record bpmpt := mkBpm { b_off : Q; b_bpm : Q; b_met : Z; b_ss : Z; b_ssi : Z; b_vol : Z; b_kiai : bool }.
Record svpt := mkSv { s_off : Q; s_mul : Q; s_ss : Z; s_ssi : Z; s_vol : Z; s_kiai : bool }.
Record sample := mkSample { sm_off : Q; sm_file : text; sm_vol : Z }.
Inductive mval := MStr (s : text) | MNum (q : Q) | MBool (b : bool) | MTags (l : list text).
(* c_meta: the 30 key:value attributes in the order of [meta_keys] below *)
Record chart := mkChart { c_meta : list mval; c_bg : text; c_samples : list sample;
                          c_bpms : list bpmpt; c_svs : list svpt; c_hits : list note; c_holds : list note }.

Definition obind {A B} (o : option A) (f : A -> option B) : option B := match o with Some x => f x | None => None end.
Notation "'do' x <- o ; k" := (obind o (fun x => k)) (at level 200, x name, o at level 100, k at level 200).

Fixpoint omap {A B} (f : A -> option B) (l : list A) : option (list B) :=
  match l with
  | [] => Some []
  | x :: l' => do y <- f x; do r <- omap f l'; Some (y :: r)
  end.

(* ------------------------------------------------------------------ OsuNoteMeta *)
(* max(min(int(x_axis * keys // 512), keys - 1), 0): integer floor division (x and keys are ints) *)
Definition x_to_col (x k : Z) : Z := Z.max (Z.min (x * k / 512) (k - 1)) 0.
(* int(floor(((512.0 * column) + 256.0) / keys)) *)
Definition col_to_x (c k : Z) : Z := Qfloor (inject_Z (512 * c + 256) / inject_Z k).

Definition COMMA := 44. Definition COLON := 58. Definition QUOTE := 34. Definition SPACE := 32. Definition NL := 10.

Definition is_hit (s : text) : bool := (count COLON s =? 4)%nat && (count COMMA s =? 5)%nat.
Definition is_hold (s : text) : bool := (count COLON s =? 5)%nat && (count COMMA s =? 5)%nat.

(* ------------------------------------------------------------------ OsuTimingPointMeta *)
Definition tp_kind_is (d : text) (s : text) : bool :=
  let f := split_on COMMA s in
  if (length f =? 8)%nat then match nth_text f 6 with Some x => text_eqb x d | None => false end else false.
Definition is_timing_point := tp_kind_is (t "1").
Definition is_slider_velocity := tp_kind_is (t "0").

(* ------------------------------------------------------------------ read_string *)
Definition last_text (l : list text) : text := last l [].

(* OsuHit.read_string(s, keys, as_dict=True) *)
Definition read_hit (s : text) (k : Z) : option note :=
  if negb (is_hit s) then None else
  let sc := split_on COMMA s in
  let scl := split_on COLON (last_text sc) in
  do f2 <- nth_text sc 2; do off <- py_float f2;
  do f0 <- nth_text sc 0; do x <- py_int f0;
  do f4 <- nth_text sc 4; do hs <- py_int f4;
  do c0 <- nth_text scl 0; do ss <- py_int c0;
  do c1 <- nth_text scl 1; do ads <- py_int c1;
  do c2 <- nth_text scl 2; do cs <- py_int c2;
  do c3 <- nth_text scl 3; do vol <- py_int c3;
  do c4 <- nth_text scl 4;
  Some (mkNote off (x_to_col x k) 0 hs ss ads cs vol c4).

(* OsuHold.read_string *)
Definition read_hold (s : text) (k : Z) : option note :=
  if negb (is_hold s) then None else
  let sc := split_on COMMA s in
  let scl := split_on COLON (last_text sc) in
  do f2 <- nth_text sc 2; do off <- py_float f2;
  do f0 <- nth_text sc 0; do x <- py_int f0;
  do c0 <- nth_text scl 0; do en <- py_float c0;
  do f4 <- nth_text sc 4; do hs <- py_int f4;
  do c1 <- nth_text scl 1; do ss <- py_int c1;
  do c2 <- nth_text scl 2; do ads <- py_int c2;
  do c3 <- nth_text scl 3; do cs <- py_int c3;
  do c4 <- nth_text scl 4; do vol <- py_int c4;
  do c5 <- nth_text scl 5;
  Some (mkNote off (x_to_col x k) (Qred (en - off)) hs ss ads cs vol c5).

Definition zbool (z : Z) : bool := negb (z =? 0).

(* OsuBpm.read_string: bpm = 60000.0 / float(beatLength) *)
Definition read_bpm (s : text) : option bpmpt :=
  if negb (is_timing_point s) then None else
  let sc := split_on COMMA s in
  do f0 <- nth_text sc 0; do off <- py_float f0;
  do f1 <- nth_text sc 1; do code <- py_float f1;
  if Qeq_bool code 0 then None else
  do f2 <- nth_text sc 2; do met <- py_int f2;
  do f3 <- nth_text sc 3; do ss <- py_int f3;
  do f4 <- nth_text sc 4; do ssi <- py_int f4;
  do f5 <- nth_text sc 5; do vol <- py_int f5;
  do f7 <- nth_text sc 7; do ki <- py_int f7;
  Some (mkBpm off (Qred (60000 / code)) met ss ssi vol (zbool ki)).

(* OsuSv.read_string: multiplier = -100.0 / float(beatLength) *)
Definition read_sv (s : text) : option svpt :=
  if negb (is_slider_velocity s) then None else
  let sc := split_on COMMA s in
  do f0 <- nth_text sc 0; do off <- py_float f0;
  do f1 <- nth_text sc 1; do code <- py_float f1;
  if Qeq_bool code 0 then None else
  do f3 <- nth_text sc 3; do ss <- py_int f3;
  do f4 <- nth_text sc 4; do ssi <- py_int f4;
  do f5 <- nth_text sc 5; do vol <- py_int f5;
  do f7 <- nth_text sc 7; do ki <- py_int f7;
  Some (mkSv off (Qred ((-100) / code)) ss ssi vol (zbool ki)).

(* OsuSample.read_string *)
Definition read_sample (s : text) : option sample :=
  let sc := split_on COMMA s in
  do f1 <- nth_text sc 1; do off <- py_float f1;
  do f3 <- nth_text sc 3;
  do f4 <- nth_text sc 4; do vol <- py_int f4;
  Some (mkSample off f3 vol).

(* ------------------------------------------------------------------ metadata reader *)
Inductive mkind := KStr | KInt | KBool | KFloat | KSampleSet | KTags.

Definition meta_keys : list (text * mkind) :=
  [ (t "AudioFilename", KStr); (t "AudioLeadIn", KInt); (t "PreviewTime", KInt); (t "Countdown", KBool);
    (t "SampleSet", KSampleSet); (t "StackLeniency", KFloat); (t "Mode", KInt); (t "LetterboxInBreaks", KBool);
    (t "SpecialStyle", KBool); (t "WidescreenStoryboard", KBool);
    (t "DistanceSpacing", KFloat); (t "BeatDivisor", KInt); (t "GridSize", KInt); (t "TimelineZoom", KFloat);
    (t "Title", KStr); (t "TitleUnicode", KStr); (t "Artist", KStr); (t "ArtistUnicode", KStr); (t "Creator", KStr);
    (t "Version", KStr); (t "Source", KStr); (t "Tags", KTags); (t "BeatmapID", KInt); (t "BeatmapSetID", KInt);
    (t "HPDrainRate", KFloat); (t "CircleSize", KFloat); (t "OverallDifficulty", KFloat); (t "ApproachRate", KFloat);
    (t "SliderMultiplier", KFloat); (t "SliderTickRate", KFloat) ].

(* dataclass defaults of OsuMapMeta (tags defaults to "" which joins to the empty text) *)
Definition meta_default : list mval :=
  [ MStr []; MNum 0; MNum (-1); MBool false; MNum 0; MNum (7#10); MNum 3; MBool false; MBool false; MBool true;
    MNum 4; MNum 4; MNum 8; MNum (3#10);
    MStr []; MStr []; MStr []; MStr []; MStr []; MStr []; MStr []; MTags []; MNum 0; MNum (-1);
    MNum 5; MNum 4; MNum 5; MNum 5; MNum (14#10); MNum 1 ].

Definition IX_TITLE := 14%nat. Definition IX_ARTIST := 16%nat. Definition IX_CS := 25%nat.

(* OsuSampleSet.from_string / to_string *)
Definition sampleset_names : list text := [t "None"; t "Normal"; t "Soft"; t "Drum"].
Definition sampleset_from_string (s : text) : Z :=
  if text_eqb s (t "None") then 0 else if text_eqb s (t "Normal") then 1
  else if text_eqb s (t "Soft") then 2 else if text_eqb s (t "Drum") then 3 else -1.
Definition sampleset_to_string (q : Q) : text :=
  if Qeq_bool q 0 then t "None" else if Qeq_bool q 1 then t "Normal"
  else if Qeq_bool q 2 then t "Soft" else if Qeq_bool q 3 then t "Drum" else t "Invalid".

Definition nonempty (s : text) : bool := match s with [] => false | _ => true end.

(* v = None: the line had no ':' so v is the empty list object and every handler raises *)
Definition read_meta_value (kd : mkind) (v : option text) : option mval :=
  do v <- v;
  match kd with
  | KStr => Some (MStr (strip v))
  | KInt => do z <- py_int v; Some (MNum (inject_Z z))
  | KBool => do z <- py_int v; Some (MBool (zbool z))
  | KFloat => do q <- py_float v; Some (MNum q)
  | KSampleSet => Some (MNum (inject_Z (sampleset_from_string (strip v))))
  | KTags => Some (MTags (map strip (filter nonempty (split_on SPACE v))))
  end.

Fixpoint find_key (k : text) (tbl : list (text * mkind)) (i : nat) : option (nat * mkind) :=
  match tbl with
  | [] => None
  | (name, kd) :: tbl' => if text_eqb k name then Some (i, kd) else find_key k tbl' (S i)
  end.

Fixpoint set_nth {A} (l : list A) (i : nat) (x : A) : list A :=
  match l, i with
  | [], _ => []
  | _ :: l', O => x :: l'
  | y :: l', S i' => y :: set_nth l' i' x
  end.

Record mstate := mkMS { ms_meta : list mval; ms_bg : text; ms_samples : list sample }.

Definition BG_MARK := t "//Background and Video events".
Definition SAMPLE_MARK := t "//Storyboard Sound Samples".

(* one iteration of the loop of _read_meta_string_list; [all] = every line given, [e] = index *)
Definition read_meta_line (all : list text) (e : nat) (line : text) (st : mstate) : option mstate :=
  if negb (nonempty line) then Some st else
  let ps := split_once COLON line in
  let k := hd [] ps in
  let v := nth_text ps 1 in                                  (* k, *v = line.split(":", 1); v = v[0] *)
  do st1 <- match find_key k meta_keys 0 with
            | Some (i, kd) => do mv <- read_meta_value kd v;
                              Some (mkMS (set_nth (ms_meta st) i mv) (ms_bg st) (ms_samples st))
            | None => Some st
            end;
  do st2 <- (if text_eqb k BG_MARK then
               do nx <- nth_text all (S e);                  (* lines[e + 1]: IndexError *)
               Some (mkMS (ms_meta st1) (py_slice nx (find QUOTE nx + 1) (rfind QUOTE nx)) (ms_samples st1))
             else Some st1);
  if text_eqb k SAMPLE_MARK then
    do ss <- omap read_sample (filter (startswith (t "Sample")) (skipn (S e) all));
    Some (mkMS (ms_meta st2) (ms_bg st2) ss)
  else Some st2.

Fixpoint read_meta_go (all : list text) (e : nat) (rest : list text) (st : mstate) : option mstate :=
  match rest with
  | [] => Some st
  | line :: rest' => do st' <- read_meta_line all e line st; read_meta_go all (S e) rest' st'
  end.
Definition read_meta (lines : list text) : option mstate :=
  read_meta_go lines 0 lines (mkMS meta_default [] []).

Definition meta_num (m : list mval) (i : nat) : Q := match nth i m (MNum 0) with MNum q => q | MBool b => if b then 1 else 0 | _ => 0 end.
Definition meta_str (m : list mval) (i : nat) : text := match nth i m (MStr []) with MStr s => s | _ => [] end.
Definition meta_bool (m : list mval) (i : nat) : bool := match nth i m (MBool false) with MBool b => b | MNum q => negb (Qeq_bool q 0) | _ => false end.
Definition meta_tags (m : list mval) (i : nat) : list text := match nth i m (MTags []) with MTags l => l | _ => [] end.

(* ------------------------------------------------------------------ OsuMap.read *)
Definition TP_HEADER := t "[TimingPoints]".
Definition HO_HEADER := t "[HitObjects]".

Definition osu_read (lines0 : list text) : option chart :=
  let lines := map strip lines0 in
  do ix_tp <- index_of TP_HEADER lines;
  do ix_ho <- index_of HO_HEADER lines;
  do ms <- read_meta (py_slice_to lines ix_tp);
  let tps := py_slice lines (ix_tp + 1) ix_ho in
  let hos := py_slice_from lines (ix_ho + 1) in
  do svs <- omap read_sv (filter is_slider_velocity tps);
  do bpms <- omap read_bpm (filter is_timing_point tps);
  let k := qtrunc (meta_num (ms_meta ms) IX_CS) in          (* int(self.circle_size) *)
  do hits <- omap (fun s => read_hit s k) (filter is_hit hos);
  do holds <- omap (fun s => read_hold s k) (filter is_hold hos);
  Some (mkChart (ms_meta ms) (ms_bg ms) (ms_samples ms) bpms svs hits holds).

(* ------------------------------------------------------------------ writers *)
(* a written line is a sequence of tokens: literal text, a float printed by repr / :g (WN), or the value of
   an int-typed attribute printed by str / :g (WI: no decimal point, read back by int()) *)
Inductive wtok := WT (s : text) | WN (q : Q) | WI (q : Q).
Definition wline := list wtok.

(* OsuHit.write_string(keys) *)
Definition write_hit (n : note) (k : Z) : text :=
  join COMMA [show_int (col_to_x (n_col n) k); t "192"; show_int (qtrunc (n_off n)); t "1"; show_int (n_hs n);
              join COLON [show_int (n_ss n); show_int (n_as n); show_int (n_cs n); show_int (n_vol n); n_file n]].
(* OsuHold.write_string(keys) *)
Definition write_hold (n : note) (k : Z) : text :=
  join COMMA [show_int (col_to_x (n_col n) k); t "192"; show_int (qtrunc (n_off n)); t "128"; show_int (n_hs n);
              join COLON [show_int (qtrunc (n_off n + n_len n)); show_int (n_ss n); show_int (n_as n);
                          show_int (n_cs n); show_int (n_vol n); n_file n]].

Definition bool_z (b : bool) : Z := if b then 1 else 0.
Definition tp_tail (met ss ssi vol : Z) (kind : Z) (kiai : bool) : text :=
  COMMA :: join COMMA [show_int met; show_int ss; show_int ssi; show_int vol; show_int kind; show_int (bool_z kiai)].

(* OsuBpm.write_string: offset and 60000.0 / bpm printed as floats *)
Definition write_bpm (b : bpmpt) : option wline :=
  if Qeq_bool (b_bpm b) 0 then None else
  Some [WN (b_off b); WT [COMMA]; WN (Qred (60000 / b_bpm b)); WT (tp_tail (b_met b) (b_ss b) (b_ssi b) (b_vol b) 1 (b_kiai b))].
(* OsuSv.write_string: metronome is always written as 4 *)
Definition write_sv (s : svpt) : option wline :=
  if Qeq_bool (s_mul s) 0 then None else
  Some [WN (s_off s); WT [COMMA]; WN (Qred ((-100) / s_mul s)); WT (tp_tail 4 (s_ss s) (s_ssi s) (s_vol s) 0 (s_kiai s))].
(* OsuSample.write_string *)
Definition write_sample (s : sample) : text :=
  t "Sample," ++ show_int (qtrunc (sm_off s)) ++ t ",0," ++ sm_file s ++ COMMA :: show_int (sm_vol s).

(* sorted(..., key=offset): Python's sort is stable *)
Fixpoint insert_by_off (x : bool * note) (l : list (bool * note)) : list (bool * note) :=
  match l with
  | [] => [x]
  | y :: l' => if Qlt_bool (n_off (snd y)) (n_off (snd x)) then y :: insert_by_off x l' else x :: l
  end.
Definition sort_by_off (l : list (bool * note)) : list (bool * note) := fold_right insert_by_off [] l.

(* unidecode(...).replace("\n", " "): a transliterated value stays on its line (repo commit fde22cd) *)
Definition one_line (s : text) : text := map (fun c => if c =? NL then SPACE else c) s.

(* write_meta_string_list; ut / ua = unidecode(title) / unidecode(artist) (external oracle) *)
Definition write_meta (c : chart) (ut ua : text) : list wline :=
  let m := c_meta c in
  let s i := meta_str m i in let n i := meta_num m i in let b i := show_int (bool_z (meta_bool m i)) in
  [ [WT (t "osu file format v14")]; [WT []]; [WT (t "[General]")];
    [WT (t "AudioFilename: " ++ s 0%nat)];
    [WT (t "AudioLeadIn: "); WI (n 1%nat)];
    [WT (t "PreviewTime: " ++ show_int (qtrunc (n 2%nat)))];
    [WT (t "Countdown: " ++ b 3%nat)];
    [WT (t "SampleSet: " ++ sampleset_to_string (n 4%nat))];
    [WT (t "StackLeniency: "); WN (n 5%nat)];
    [WT (t "Mode: "); WI (n 6%nat)];
    [WT (t "LetterboxInBreaks: " ++ b 7%nat)];
    [WT (t "SpecialStyle: " ++ b 8%nat)];
    [WT (t "WidescreenStoryboard: " ++ b 9%nat)];
    [WT []]; [WT (t "[Editor]")];
    [WT (t "DistanceSpacing: "); WN (n 10%nat)];
    [WT (t "BeatDivisor: "); WI (n 11%nat)];
    [WT (t "GridSize: "); WI (n 12%nat)];
    [WT (t "TimelineZoom: "); WN (n 13%nat)];
    [WT []]; [WT (t "[Metadata]")];
    [WT (t "Title:" ++ one_line ut)];
    [WT (t "TitleUnicode:" ++ s 15%nat)];
    [WT (t "Artist:" ++ one_line ua)];
    [WT (t "ArtistUnicode:" ++ s 17%nat)];
    [WT (t "Creator:" ++ s 18%nat)];
    [WT (t "Version:" ++ s 19%nat)];
    [WT (t "Source:" ++ s 20%nat)];
    [WT (t "Tags:" ++ join SPACE (meta_tags m 21%nat))];
    [WT (t "BeatmapID:"); WI (n 22%nat)];
    [WT (t "BeatmapSetID:"); WI (n 23%nat)];
    [WT []]; [WT (t "[Difficulty]")];
    [WT (t "HPDrainRate:"); WN (n 24%nat)];
    [WT (t "CircleSize:"); WN (n 25%nat)];
    [WT (t "OverallDifficulty:"); WN (n 26%nat)];
    [WT (t "ApproachRate:"); WN (n 27%nat)];
    [WT (t "SliderMultiplier:"); WN (n 28%nat)];
    [WT (t "SliderTickRate:"); WN (n 29%nat)];
    [WT []]; [WT (t "[Events]")];
    [WT BG_MARK];
    [WT (t "0,0," ++ QUOTE :: c_bg c ++ QUOTE :: t ",0,0")];
    [WT (t "//Break Periods")];
    [WT (t "//Storyboard Layer 0 (Background)")];
    [WT (t "//Storyboard Layer 1 (Fail)")];
    [WT (t "//Storyboard Layer 2 (Pass)")];
    [WT (t "//Storyboard Layer 3 (Foreground)")];
    [WT (t "//Storyboard Layer 4 (Overlay)")];
    [WT SAMPLE_MARK] ]
  ++ map (fun x => [WT (write_sample x)]) (c_samples c).

Definition write_notes (c : chart) (k : Z) : list text :=
  map (fun p : bool * note => if fst p then write_hold (snd p) k else write_hit (snd p) k)
      (sort_by_off (map (fun x => (true, x)) (c_holds c) ++ map (fun x => (false, x)) (c_hits c))).

(* OsuMap.write(): a list of strings, two of which carry embedded newlines *)
Definition osu_write (c : chart) (ut ua : text) : option (list wline) :=
  let k := qtrunc (meta_num (c_meta c) IX_CS) in
  do bl <- omap write_bpm (c_bpms c);
  do sl <- omap write_sv (c_svs c);
  if (k <=? 0) && negb (match c_holds c, c_hits c with [], [] => true | _, _ => false end)
  then None                                                  (* assert keys > 0 *)
  else Some (write_meta c ut ua
             ++ [[WT (NL :: TP_HEADER)]] ++ bl ++ sl
             ++ [[WT (NL :: NL :: HO_HEADER)]]
             ++ map (fun s => [WT s]) (write_notes c k)).

(* HISTORICAL: write_meta_string_list before repo commit fde22cd wrote unidecode(title) / unidecode(artist) as they are,
   line feeds included (unidecode maps U+2028 / U+2029 to line feeds).  Not part of the model any more. *)
Definition write_meta_OLD (c : chart) (ut ua : text) : list wline :=
  let m := c_meta c in
  let s i := meta_str m i in let n i := meta_num m i in let b i := show_int (bool_z (meta_bool m i)) in
  [ [WT (t "osu file format v14")]; [WT []]; [WT (t "[General]")];
    [WT (t "AudioFilename: " ++ s 0%nat)];
    [WT (t "AudioLeadIn: "); WI (n 1%nat)];
    [WT (t "PreviewTime: " ++ show_int (qtrunc (n 2%nat)))];
    [WT (t "Countdown: " ++ b 3%nat)];
    [WT (t "SampleSet: " ++ sampleset_to_string (n 4%nat))];
    [WT (t "StackLeniency: "); WN (n 5%nat)];
    [WT (t "Mode: "); WI (n 6%nat)];
    [WT (t "LetterboxInBreaks: " ++ b 7%nat)];
    [WT (t "SpecialStyle: " ++ b 8%nat)];
    [WT (t "WidescreenStoryboard: " ++ b 9%nat)];
    [WT []]; [WT (t "[Editor]")];
    [WT (t "DistanceSpacing: "); WN (n 10%nat)];
    [WT (t "BeatDivisor: "); WI (n 11%nat)];
    [WT (t "GridSize: "); WI (n 12%nat)];
    [WT (t "TimelineZoom: "); WN (n 13%nat)];
    [WT []]; [WT (t "[Metadata]")];
    [WT (t "Title:" ++ ut)];
    [WT (t "TitleUnicode:" ++ s 15%nat)];
    [WT (t "Artist:" ++ ua)];
    [WT (t "ArtistUnicode:" ++ s 17%nat)];
    [WT (t "Creator:" ++ s 18%nat)];
    [WT (t "Version:" ++ s 19%nat)];
    [WT (t "Source:" ++ s 20%nat)];
    [WT (t "Tags:" ++ join SPACE (meta_tags m 21%nat))];
    [WT (t "BeatmapID:"); WI (n 22%nat)];
    [WT (t "BeatmapSetID:"); WI (n 23%nat)];
    [WT []]; [WT (t "[Difficulty]")];
    [WT (t "HPDrainRate:"); WN (n 24%nat)];
    [WT (t "CircleSize:"); WN (n 25%nat)];
    [WT (t "OverallDifficulty:"); WN (n 26%nat)];
    [WT (t "ApproachRate:"); WN (n 27%nat)];
    [WT (t "SliderMultiplier:"); WN (n 28%nat)];
    [WT (t "SliderTickRate:"); WN (n 29%nat)];
    [WT []]; [WT (t "[Events]")];
    [WT BG_MARK];
    [WT (t "0,0," ++ QUOTE :: c_bg c ++ QUOTE :: t ",0,0")];
    [WT (t "//Break Periods")];
    [WT (t "//Storyboard Layer 0 (Background)")];
    [WT (t "//Storyboard Layer 1 (Fail)")];
    [WT (t "//Storyboard Layer 2 (Pass)")];
    [WT (t "//Storyboard Layer 3 (Foreground)")];
    [WT (t "//Storyboard Layer 4 (Overlay)")];
    [WT SAMPLE_MARK] ]
  ++ map (fun x => [WT (write_sample x)]) (c_samples c).


Definition osu_write_OLD (c : chart) (ut ua : text) : option (list wline) :=
  let k := qtrunc (meta_num (c_meta c) IX_CS) in
  do bl <- omap write_bpm (c_bpms c);
  do sl <- omap write_sv (c_svs c);
  if (k <=? 0) && negb (match c_holds c, c_hits c with [], [] => true | _, _ => false end)
  then None                                                  (* assert keys > 0 *)
  else Some (write_meta_OLD c ut ua
             ++ [[WT (NL :: TP_HEADER)]] ++ bl ++ sl
             ++ [[WT (NL :: NL :: HO_HEADER)]]
             ++ map (fun s => [WT s]) (write_notes c k)).


(* "\n".join(lines).split("\n"): the lines a file written by write_file is read back as *)
Definition file_lines (ls : list text) : list text := split_on NL (join NL ls).
