(* Decidable guards of the BMS follow-up theorems (C04 tempo list on measure lines, C05 chart-level round trip).
   Definitions only. *)
From Coq Require Import ZArith QArith Qround Qabs List Bool.
From RV Require Import Base.PyNum Timing.Snap Formats.BMSText Formats.BMS Formats.BMSSpec.
Import ListNotations.
Open Scope Z_scope.

(* C04: every tempo object (channel 03 / 08) of the text sits at position 0 of its measure: the tempo script needs no
   reseating (TimingMap.reseat() returns the tempo points of the script themselves) *)
Definition bms_tempo_on_lines (lines : list text) : bool :=
  forallb (fun o => negb (is_tempo_chan (o_chan o)) || Qeq_bool (o_pos o) 0) (flat_map objs_of_line lines).

(* C05: what the chart must satisfy, beyond write_dom, for the written text to lie in the reader's text-level domain.
   [text_end_ok t]: t is not empty and does not end in a blank (BMSMap.read strips every line: a header line whose value is
   empty or ends in a blank is not read back as written) *)
Definition text_end_ok (t : text) : bool := negb (is_space (last t 32)).
Definition S_RESERVED : list text := [S_TITLE; S_ARTIST; S_BPM; S_PLAYLEVEL].
(* header guards: values not ending in blanks; misc keys pairwise distinct, upper case, none of the keys the writer emits,
   not starting with WAV / BPM (the reader files such keys under its sample / tempo tables); sample ids pairwise distinct
   and upper case *)
Definition header_guards (c : wchart) : bool :=
  text_end_ok (w_title c) && text_end_ok (w_artist c) && text_end_ok (w_version c)
  && forallb (fun kv => text_end_ok (snd kv) && forallb (fun ch => negb (is_lower ch)) (fst kv)
                        && negb (existsb (text_eqb (fst kv)) S_RESERVED)
                        && negb (starts_with S_WAV (fst kv)) && negb (starts_with S_BPM (fst kv))) (w_misc c)
  && no_dup_by text_eqb (map fst (w_misc c))
  && forallb (fun kv => text_end_ok (snd kv) && forallb (fun ch => negb (is_lower ch)) (fst kv)) (w_samples c)
  && no_dup_by text_eqb (map fst (w_samples c)).
