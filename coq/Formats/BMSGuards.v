(* Decidable guards of the BMS follow-up theorems (C04 tempo list on measure lines, C05 chart-level round trip).
   Definitions only. *)
From Coq Require Import ZArith QArith Qround Qabs List Bool.
From RV Require Import Base.PyNum Timing.Snap Formats.BMSText Formats.BMS Formats.BMSSpec.
Import ListNotations.
Open Scope Z_scope.

(* C04: every tempo object (channel 03 / 08) of the text sits at position 0 of its measure: the tempo script needs no
   reseating (TimingMap.reseat() returns the tempo points of the script themselves) *)
Definition bms_tempo_on_lines (lines : list text) : bool :=
  forallb (fun o => negb (is_tempo_chan (o_chan o)) || Qeq_bool (o_pos o) 0) (flat_map objs_of_line lines).

(* C05: what the chart must satisfy, beyond write_dom, for the written text to lie in the reader's text-level domain.
   [text_end_ok t]: t is not empty and does not end in a blank (BMSMap.read strips every line: a header line whose value is
   empty or ends in a blank is not read back as written) *)
Definition text_end_ok (t : text) : bool := negb (is_space (last t 32)).
Definition S_RESERVED : list text := [S_TITLE; S_ARTIST; S_BPM; S_PLAYLEVEL].
(* header guards: values not ending in blanks; misc keys pairwise distinct, upper case, none of the keys the writer emits,
   not starting with WAV / BPM (the reader files such keys under its sample / tempo tables); sample ids pairwise distinct
   and upper case *)
Definition header_guards (c : wchart) : bool :=
  text_end_ok (w_title c) && text_end_ok (w_artist c) && text_end_ok (w_version c)
  && forallb (fun kv => text_end_ok (snd kv) && forallb (fun ch => negb (is_lower ch)) (fst kv)
                        && negb (existsb (text_eqb (fst kv)) S_RESERVED)
                        && negb (starts_with S_WAV (fst kv)) && negb (starts_with S_BPM (fst kv))) (w_misc c)
  && no_dup_by text_eqb (map fst (w_misc c))
  && forallb (fun kv => text_end_ok (snd kv) && forallb (fun ch => negb (is_lower ch)) (fst kv)) (w_samples c)
  && no_dup_by text_eqb (map fst (w_samples c)).

(* C04, runner only: wf_bms_lines with ONE clause weakened -- the id part (last two characters) of a '#WAVxx' / '#BPMxx'
   key may hold lower-case letters (ids are exact byte strings: '0a' and '0A' are different ids; header NAMES stay upper
   case).  Texts in this domain but outside wf_bms_lines are outside the domain of the C04 theorems (text_dom asks for
   upper-case keys); they are judged per run by correspondence with the model and by the oracle c04_specb. *)
Definition key_name_part (k : text) : text :=
  if (length k =? 5)%nat && (starts_with S_WAV k || starts_with S_BPM k) then firstn 3 k else k.
Definition wf_bms_lines_ids (lay : slayout) (lines : list text) : bool :=
  let hs := headers_of lines in
  let objs := flat_map objs_of_line lines in
  forallb (fun l => text_eqb (strip l) l && line_kind_ok l) lines
  && no_dup_by text_eqb (map fst hs)
  && forallb (fun kv => is_ascii_text (fst kv) && negb (text_eqb (strip (snd kv)) []) && text_eqb (strip (snd kv)) (snd kv)
                         && forallb (fun c => negb (is_lower c)) (key_name_part (fst kv))) hs
  && forallb (fun l => match data_line l with
                       | Some (_, ch, data) => negb (text_eqb ch CH_TIME_SIG) && (length data <=? 384)%nat
                       | None => true end) lines
  && forallb (fun kv => if starts_with S_WAV (fst kv) || (starts_with S_BPM (fst kv) && negb (text_eqb (fst kv) S_BPM))
                        then (length (fst kv) =? 5)%nat && is_b36_pair (skipn 3 (fst kv)) else true) hs
  && match hlookup S_LNOBJ hs with Some v => is_b36_pair v && negb (text_eqb v ID_NONE) | None => true end
  && match bms_denote lay lines with
     | None => false
     | Some d =>
         Qlt_bool 0 (d_bpm0 d) && forallb (fun tb => Qlt_bool 0 (snd tb)) (d_tempo d)
         && match hlookup S_BPM hs with Some v => match parse_decimal v with Some q => Qlt_bool 0 q | None => false end | None => false end
     end
  && no_dup_by same_pos (filter (fun o => is_tempo_chan (o_chan o)) objs)
  && no_dup_by (fun a b => same_pos a b
                           && match lane_of lay (o_chan a), lane_of lay (o_chan b) with
                              | Some x, Some y => x =? y | _, _ => false end)
               (filter (fun o => match lane_of lay (o_chan o) with Some _ => true | None => false end) objs).
