(* Executable model of reamber's StepMania reader and writer (C02 / C03).  Definitions only.
     SMMapSet.read  = sm_read     (SMMapSetMeta._read_metadata, _read_bpms, SMMap.read, SMMapMeta._read_note_metadata,
                                   SMMap._read_notes; times through TimingMap.from_bpm_changes_snap(reseat=False).offsets,
                                   the chart's tempo list through from_bpm_changes_snap(reseat=True))
     SMMapSet.write = sm_write    (SMMapSetMeta._write_metadata, SMMap.write; beats through BpmList.to_timing_map +
                                   TimingMap.beats(Snapper()))
   None = a raised exception.  Not modelled (None): non-empty #STOPS.
   Floats: every number is its exact rational; float printing is left abstract (tokens TNum/TRnd2).
   THE model is the [current] variant (all flags true) = the code in /repo after the repairs 16f3fe3, d872b70, d64b5ab.
   The three OLD_* variants reproduce one former defect each and exist only for the _refuted witnesses in Proofs/. *)
From Coq Require Import String ZArith QArith Qround Qabs List Bool.
From RV Require Import Base.PyNum Timing.Snapper Timing.Snap Timing.TimingMap Timing.Reseat Formats.SMText.
Import ListNotations.
Open Scope Q_scope.

Inductive kind := KHit | KHold | KRoll | KMine | KLift | KFake | KKey.
Definition kind_eqb (a b : kind) : bool :=
  match a, b with
  | KHit, KHit | KHold, KHold | KRoll, KRoll | KMine, KMine | KLift, KLift | KFake, KFake | KKey, KKey => true
  | _, _ => false
  end.

Record smchart := mkChart {
  c_type : text; c_desc : text; c_diff : text; c_meter : Z; c_radar : list Q;
  c_bpms : list (Q * Q * Q);                       (* offset, bpm, metronome *)
  c_hits : list (Q * Z); c_holds : list (Q * Z * Q); c_rolls : list (Q * Z * Q);   (* offset, column[, length] *)
  c_mines : list (Q * Z); c_lifts : list (Q * Z); c_fakes : list (Q * Z); c_keys : list (Q * Z) }.

(* text fields in this order: TITLE SUBTITLE ARTIST TITLETRANSLIT SUBTITLETRANSLIT ARTISTTRANSLIT GENRE CREDIT
   BANNER BACKGROUND LYRICSPATH CDTITLE MUSIC DISPLAYBPM BGCHANGES FGCHANGES *)
Record smset := mkSet {
  s_txt : list text; s_offset : option Q; s_sstart : Q; s_slen : Q; s_sel : bool; s_maps : list smchart }.

(* live constants (SMConst, SMMap.METRONOME/MAX_SNAP/MAX_KEYS, SMMapChartTypes.get_keys, the Snapper table) *)
Record smconf := mkConf {
  k_hit : Z; k_hold_head : Z; k_hold_tail : Z; k_roll_head : Z; k_roll_tail : Z;
  k_mine : Z; k_lift : Z; k_fake : Z; k_key : Z;
  k_metronome : Z; k_max_snap : Z; k_max_keys : Z;
  k_chart_keys : list (text * option Z);
  k_tbl : list Q }.

Record variant := mkVar { v_sel : bool; v_pad : bool; v_stops : bool }.
Definition current : variant := mkVar true true true.
(* OLD behaviours, one former defect each (v_sel / v_pad / v_stops = false) *)
Definition OLD_selectable_bare_no : variant := mkVar false true true.   (* before 16f3fe3: selectable=False written as "NO;" *)
Definition OLD_pad_0000 : variant := mkVar true false true.             (* before d872b70: empty measures padded with "0000" *)
Definition OLD_stops_none : variant := mkVar true true false.           (* before d64b5ab: no #STOPS tag -> stops=None -> AttributeError *)

Definition text_tags : list text :=
  map tx ["#TITLE"; "#SUBTITLE"; "#ARTIST"; "#TITLETRANSLIT"; "#SUBTITLETRANSLIT"; "#ARTISTTRANSLIT"; "#GENRE";
          "#CREDIT"; "#BANNER"; "#BACKGROUND"; "#LYRICSPATH"; "#CDTITLE"; "#MUSIC"; "#DISPLAYBPM"; "#BGCHANGES";
          "#FGCHANGES"]%string.
Definition n_text_tags : nat := 16.

Fixpoint index_of (t : text) (l : list text) (i : nat) : option nat :=
  match l with
  | [] => None
  | x :: l' => if text_eqb t x then Some i else index_of t l' (S i)
  end.

Definition get_keys (cf : smconf) (ty : text) : option Z :=
  match find (fun p => text_eqb ty (fst p)) (k_chart_keys cf) with
  | Some (_, k) => k
  | None => None
  end.

Fixpoint map_opt {A B} (f : A -> option B) (l : list A) : option (list B) :=
  match l with
  | [] => Some []
  | x :: l' => match f x, map_opt f l' with Some y, Some r => Some (y :: r) | _, _ => None end
  end.

(* ============================== READER ============================== *)
Section Reader.
Variable cf : smconf.
Variable v : variant.

Record meta_st := mkMeta {
  m_txt : list text; m_offset : option Q; m_sstart : Q; m_slen : Q; m_sel : bool;
  m_bcs : option (list bcs); m_stops : bool }.

Definition meta_init : meta_st :=
  mkMeta (repeat [] n_text_tags) None 0 10 true None (v_stops v).

(* SMMapSetMeta._read_bpms *)
Definition read_bpm_pair (line : text) : option bcs :=
  match split_on 61 line with
  | [b; p] =>
      match parse_decimal b, parse_decimal p with
      | Some beat, Some bpm =>
          match snap_norm 0 beat 4 with
          | Some s => Some (mkBcs bpm 4 s)
          | None => None
          end
      | _, _ => None
      end
  | _ => None
  end.
Definition read_bpms (val : text) : option (list bcs) := map_opt read_bpm_pair (split_on 44 val).

(* one token of the metadata list *)
Definition read_meta_token (st : meta_st) (line : text) : option meta_st :=
  match line with
  | [] => Some st
  | _ =>
    match map strip (split_on 58 line) with
    | [] => Some st
    | s0 :: rest =>
      match s0 with
      | [] => Some st
      | _ =>
        let s0 := if starts_with [35%Z] s0 then s0 else slice_from_rfind 35 s0 in
        let s1 := nth_error rest 0 in
        let upd (f : text -> option meta_st) := match s1 with None => None | Some x => f (strip x) end in
        match index_of s0 text_tags 0 with
        | Some i => upd (fun x => Some (mkMeta (replace_at i x (m_txt st)) (m_offset st) (m_sstart st) (m_slen st)
                                             (m_sel st) (m_bcs st) (m_stops st)))
        | None =>
          if text_eqb s0 (tx "#OFFSET") then
            upd (fun x => match parse_decimal x with
                          | Some q => Some (mkMeta (m_txt st) (Some (Qred (- (q * 1000)))) (m_sstart st) (m_slen st)
                                                   (m_sel st) (m_bcs st) (m_stops st))
                          | None => None end)
          else if text_eqb s0 (tx "#BPMS") then
            upd (fun x => match read_bpms x with
                          | Some l => Some (mkMeta (m_txt st) (m_offset st) (m_sstart st) (m_slen st)
                                                   (m_sel st) (Some l) (m_stops st))
                          | None => None end)
          else if text_eqb s0 (tx "#STOPS") then
            upd (fun x =>
              match m_bcs st, m_offset st with
              | Some l, Some off =>
                  match from_bcs off l with
                  | None => None
                  | Some _ =>
                      if forallb (fun ln => match ln with [] => true | _ => false end) (split_on 44 x)
                      then Some (mkMeta (m_txt st) (m_offset st) (m_sstart st) (m_slen st) (m_sel st) (m_bcs st) true)
                      else None        (* stops are outside the model *)
                  end
              | _, _ => None
              end)
          else if text_eqb s0 (tx "#SAMPLESTART") then
            upd (fun x => match parse_decimal x with
                          | Some q => Some (mkMeta (m_txt st) (m_offset st) (Qred (q * 1000)) (m_slen st)
                                                   (m_sel st) (m_bcs st) (m_stops st))
                          | None => None end)
          else if text_eqb s0 (tx "#SAMPLELENGTH") then
            upd (fun x => match parse_decimal x with
                          | Some q => Some (mkMeta (m_txt st) (m_offset st) (m_sstart st) (Qred (q * 1000))
                                                   (m_sel st) (m_bcs st) (m_stops st))
                          | None => None end)
          else if text_eqb s0 (tx "#SELECTABLE") then
            upd (fun x => Some (mkMeta (m_txt st) (m_offset st) (m_sstart st) (m_slen st)
                                       (text_eqb x (tx "YES")) (m_bcs st) (m_stops st)))
          else Some st
        end
      end
    end
  end.

Fixpoint read_metadata (st : meta_st) (lines : list text) : option meta_st :=
  match lines with
  | [] => Some st
  | l :: r => match read_meta_token st l with Some st' => read_metadata st' r | None => None end
  end.

(* ---- SMMap._read_notes ---- *)
Definition hentry := (snap * option snap)%type.
Record nst := mkNst { n_simple : list (kind * Z * snap);      (* reversed reading order *)
                      n_holds : list (list hentry); n_rolls : list (list hentry) }.

Definition is_open (l : list hentry) : bool :=
  match rev l with (_, None) :: _ => true | _ => false end.
Definition close_last (l : list hentry) (t : snap) : list hentry :=
  match rev l with (h, _) :: r => rev ((h, Some t) :: r) | [] => [] end.

Definition read_char (st : nst) (so : snap) (col : nat) (c : Z) : option nst :=
  let simple k := if (Z.of_nat col <? k_max_keys cf)%Z
                  then Some (mkNst ((k, Z.of_nat col, so) :: n_simple st) (n_holds st) (n_rolls st)) else None in
  if (c =? k_hit cf)%Z then simple KHit
  else if (c =? k_mine cf)%Z then simple KMine
  else if (c =? k_hold_head cf)%Z then
    match nth_error (n_holds st) col with
    | Some l => Some (mkNst (n_simple st) (replace_at col (l ++ [(so, None)]) (n_holds st)) (n_rolls st))
    | None => None end
  else if (c =? k_roll_head cf)%Z then
    match nth_error (n_rolls st) col with
    | Some l => Some (mkNst (n_simple st) (n_holds st) (replace_at col (l ++ [(so, None)]) (n_rolls st)))
    | None => None end
  else if (c =? k_roll_tail cf)%Z then
    match nth_error (n_holds st) col, nth_error (n_rolls st) col with
    | Some hl, Some rl =>
        if is_open hl then Some (mkNst (n_simple st) (replace_at col (close_last hl so) (n_holds st)) (n_rolls st))
        else if is_open rl then Some (mkNst (n_simple st) (n_holds st) (replace_at col (close_last rl so) (n_rolls st)))
        else None                                   (* IndexError("Hold/Roll failed to find head note") *)
    | _, _ => None
    end
  else if (c =? k_lift cf)%Z then simple KLift
  else if (c =? k_fake cf)%Z then simple KFake
  else if (c =? k_key cf)%Z then simple KKey
  else Some st.

Fixpoint read_row (st : nst) (so : snap) (col : nat) (row : text) : option nst :=
  match row with
  | [] => Some st
  | c :: row' =>
      if (c =? 48)%Z then read_row st so (S col) row'
      else match read_char st so col c with
           | Some st' => read_row st' so (S col) row'
           | None => None
           end
  end.

(* rows of one beat: snap = Fraction(j, len(beat_str)) *)
Fixpoint read_beat_rows (st : nst) (measure beat : Z) (n : Z) (j : Z) (rows : list text) : option nst :=
  match rows with
  | [] => Some st
  | r :: rows' =>
      match snap_norm measure (inject_Z beat + Qred (inject_Z j / inject_Z n)) 4 with
      | None => None
      | Some so =>
          match read_row st so 0 r with
          | Some st' => read_beat_rows st' measure beat n (j + 1) rows'
          | None => None
          end
      end
  end.

(* beat_str = measure_str[int(beat*len/4) : int((beat+1)*len/4)] *)
Definition beat_slice (rows : list text) (beat : Z) : list text :=
  let len := Z.of_nat (length rows) in
  let lo := (beat * len / k_metronome cf)%Z in
  let hi := ((beat + 1) * len / k_metronome cf)%Z in
  firstn (Z.to_nat (hi - lo)) (skipn (Z.to_nat lo) rows).

(* a row line with a non-'0' character needs a Snap; a row of only '0' creates none, so an all-'0' line never fails *)
Fixpoint read_measure_beats (st : nst) (measure : Z) (rows : list text) (beats : list Z) : option nst :=
  match beats with
  | [] => Some st
  | b :: beats' =>
      let sl := beat_slice rows b in
      match read_beat_rows st measure b (Z.of_nat (length sl)) 0 sl with
      | Some st' => read_measure_beats st' measure rows beats'
      | None => None
      end
  end.

Definition measure_rows (m : text) : list text :=
  filter (fun l => negb (contains (tx "//") l) && match l with [] => false | _ => true end) (split_on 10 m).

Fixpoint read_measures (st : nst) (measure : Z) (ms : list text) : option nst :=
  match ms with
  | [] => Some st
  | m :: ms' =>
      match read_measure_beats st measure (measure_rows m)
                               (map Z.of_nat (seq 0 (Z.to_nat (k_metronome cf)))) with
      | Some st' => read_measures st' (measure + 1) ms'
      | None => None
      end
  end.

Fixpoint lookup_snap (s : snap) (l : list (snap * Q)) : option Q :=
  match l with
  | [] => None
  | (k, x) :: l' => if snap_eq k s then Some x else lookup_snap s l'
  end.

Definition all_closed (l : list (list hentry)) : bool :=
  forallb (forallb (fun e : hentry => match snd e with Some _ => true | None => false end)) l.

(* _expand: for k, snaps in enumerate(snaps_s) *)
Definition expand_simple (mp : list (snap * Q)) (k : kind) (evs : list (kind * Z * snap)) (ncols : nat)
  : option (list (Q * Z)) :=
  map_opt (fun e : kind * Z * snap => match lookup_snap (snd e) mp with
                                      | Some o => Some (o, snd (fst e)) | None => None end)
          (flat_map (fun c => filter (fun e : kind * Z * snap => kind_eqb (fst (fst e)) k && (snd (fst e) =? Z.of_nat c)%Z) evs)
                    (seq 0 ncols)).
Definition expand_hold (mp : list (snap * Q)) (l : list (list hentry)) : option (list (Q * Z * Q)) :=
  map_opt (fun ce : Z * hentry =>
             match snd (snd ce) with
             | None => None
             | Some t => match lookup_snap (fst (snd ce)) mp, lookup_snap t mp with
                         | Some ho, Some to => Some (ho, fst ce, Qred (to - ho))
                         | _, _ => None end
             end)
          (flat_map (fun cl : nat * list hentry => map (fun e => (Z.of_nat (fst cl), e)) (snd cl))
                    (combine (seq 0 (length l)) l)).

Definition hold_snaps (l : list (list hentry)) : list snap :=
  flat_map (fun hl => flat_map (fun e : hentry => fst e :: match snd e with Some t => [t] | None => [] end) hl) l.

Record notes_out := mkNotes { o_bpms : list (Q * Q * Q);
  o_hits : list (Q * Z); o_holds : list (Q * Z * Q); o_rolls : list (Q * Z * Q);
  o_mines : list (Q * Z); o_lifts : list (Q * Z); o_fakes : list (Q * Z); o_keys : list (Q * Z) }.

Definition read_notes (note_data : text) (init : option Q) (bcss : option (list bcs)) (stops : bool)
  : option notes_out :=
  match init, bcss with
  | Some init, Some bcss =>
    match from_bcs init bcss, from_bcs_reseat init bcss with
    | Some bcos, Some rbcos =>
      let ncols := Z.to_nat (k_max_keys cf) in
      let st0 := mkNst [] (repeat [] ncols) (repeat [] ncols) in
      match read_measures st0 0 (split_on 44 note_data) with
      | None => None
      | Some st =>
        let evs := rev (n_simple st) in
        let qs := map (fun e : kind * Z * snap => snd e) evs ++ hold_snaps (n_holds st) ++ hold_snaps (n_rolls st) in
        match tm_offsets (k_tbl cf) bcos qs with
        | None => None
        | Some os =>
          let mp := combine qs os in
          if negb (all_closed (n_holds st) && all_closed (n_rolls st)) then None      (* zip over a bare Snap: TypeError *)
          else if negb stops then None                                                (* stops is None: AttributeError *)
          else
          match expand_simple mp KHit evs ncols, expand_hold mp (n_holds st), expand_simple mp KFake evs ncols,
                expand_simple mp KLift evs ncols, expand_simple mp KKey evs ncols, expand_simple mp KMine evs ncols,
                expand_hold mp (n_rolls st) with
          | Some hits, Some holds, Some fakes, Some lifts, Some keys, Some mines, Some rolls =>
              Some (mkNotes (map (fun b => (bo_off b, bo_bpm b, 4)) rbcos) hits holds rolls mines lifts fakes keys)
          | _, _, _, _, _, _, _ => None
          end
        end
      end
    | _, _ => None
    end
  | _, _ => None
  end.

(* SMMap.read:  _, *note_metadata, note_data = s.split(":") *)
Definition read_chart (tok : text) (init : option Q) (bcss : option (list bcs)) (stops : bool) : option smchart :=
  match split_on 58 tok with
  | _ :: (_ :: _) as rest =>
      let mid := removelast rest in
      let data := last rest [] in
      match nth_error mid 0, nth_error mid 1, nth_error mid 2, nth_error mid 3, nth_error mid 4 with
      | Some a, Some b, Some c, Some d, Some e =>
          match parse_int (strip d), map_opt parse_decimal (split_on 44 (strip e)) with
          | Some meter, Some radar =>
              match read_notes data init bcss stops with
              | Some n => Some (mkChart (strip a) (strip b) (strip c) meter radar (o_bpms n) (o_hits n) (o_holds n)
                                        (o_rolls n) (o_mines n) (o_lifts n) (o_fakes n) (o_keys n))
              | None => None
              end
          | _, _ => None
          end
      | _, _, _, _, _ => None
      end
  | _ => None
  end.

(* SMMapSet.read *)
Definition sm_read (txt : text) : option smset :=
  let toks := map strip (split_on 59 txt) in
  let maps := filter (contains (tx "#NOTES:")) toks in
  let meta := filter (fun t => negb (contains (tx "#NOTES:") t)) toks in
  match read_metadata meta_init meta with
  | None => None
  | Some st =>
      match map_opt (fun t => read_chart t (m_offset st) (m_bcs st) (m_stops st)) maps with
      | None => None
      | Some cs => Some (mkSet (m_txt st) (m_offset st) (m_sstart st) (m_slen st) (m_sel st) cs)
      end
  end.
End Reader.

(* ============================== WRITER ============================== *)
Inductive tok :=
| TLit (t : text)          (* these exact characters *)
| TNum (q : Q)             (* str(float) / repr of a float whose value is q *)
| TRnd2 (q : Q).           (* repr(round(float(q), 6))  — six decimals since /repo 6b5cf38 (two before; the name is historic) *)

Section Writer.
Variable cf : smconf.
Variable v : variant.

Definition L (s : string) : tok := TLit (tx s).

Definition bcos_of (bpms : list (Q * Q * Q)) : list bco :=
  map (fun b : Q * Q * Q => mkBco (snd (fst b)) (snd b) (fst (fst b))) bpms.

Definition chart_events (c : smchart) : list (Q * Z * Z) :=      (* offset, column, char — the order of SMMap.write *)
  let simple ch := map (fun n : Q * Z => (fst n, snd n, ch)) in
  let heads ch := map (fun h : Q * Z * Q => (fst (fst h), snd (fst h), ch)) in
  let tails ch := map (fun h : Q * Z * Q => (Qred (fst (fst h) + snd h), snd (fst h), ch)) in
  simple (k_hit cf) (c_hits c) ++ heads (k_hold_head cf) (c_holds c) ++ tails (k_hold_tail cf) (c_holds c)
  ++ heads (k_roll_head cf) (c_rolls c) ++ tails (k_roll_tail cf) (c_rolls c)
  ++ simple (k_fake cf) (c_fakes c) ++ simple (k_key cf) (c_keys c) ++ simple (k_lift cf) (c_lifts c)
  ++ simple (k_mine cf) (c_mines c).

(* placed note: measure, num, den, column, char *)
Record placed := mkPl { p_measure : Z; p_num : Z; p_den : Z; p_col : Z; p_char : Z }.
Definition place (beat : Q) (col ch : Z) : placed :=
  let den := (Z.pos (Qden beat) * k_metronome cf)%Z in
  mkPl (Qfloor (beat / inject_Z (k_metronome cf))) (Qnum beat mod den)%Z den col ch.

Definition lcm_and_cap (x y : Z) : Z := Z.min (Z.lcm x y) (k_max_snap cf).
Definition den_max_of (dens : list Z) : Z :=
  match dens with
  | [] => k_max_snap cf
  | d :: r => Z.min (fold_left lcm_and_cap r d) (k_max_snap cf)
  end.

Fixpoint insert_z (x : Z) (l : list Z) : list Z :=
  match l with
  | [] => [x]
  | y :: l' => if (x <? y)%Z then x :: l else if (x =? y)%Z then l else y :: insert_z x l'
  end.
Definition measures_of (ps : list placed) : list Z := fold_right insert_z [] (map p_measure ps).

Definition set_cell (lines : list (list Z)) (row col : Z) (keys : Z) (ch : Z) : option (list (list Z)) :=
  let c := if (col <? 0)%Z then (col + keys)%Z else col in
  if (c <? 0)%Z || (keys <=? c)%Z then None
  else match nth_error lines (Z.to_nat row) with
       | None => None
       | Some ln => Some (replace_at (Z.to_nat row) (replace_at (Z.to_nat c) ch ln) lines)
       end.

Fixpoint fill_lines (lines : list (list Z)) (g : list placed) (den_max keys : Z) : option (list (list Z)) :=
  match g with
  | [] => Some lines
  | p :: g' =>
      let row := (p_num p * den_max / p_den p)%Z in       (* int(num * (den_max / den)) *)
      match set_cell lines row (p_col p) keys (p_char p) with
      | Some lines' => fill_lines lines' g' den_max keys
      | None => None
      end
  end.

Definition nl : text := [10%Z].
Definition pad_measure (keys : option Z) : text :=
  let row := if v_pad v then match keys with Some k => repeat 48%Z (Z.to_nat k) | None => [] end
             else tx "0000" in
  join nl (repeat row (Z.to_nat (k_metronome cf))).

Fixpoint write_measures (ps : list placed) (keys : option Z) (prev : Z) (ms : list Z) : option (list text) :=
  match ms with
  | [] => Some []
  | m :: ms' =>
      let pads := repeat (pad_measure keys) (Z.to_nat (m - prev - 1)) in
      let g := filter (fun p => (p_measure p =? m)%Z) ps in
      let den_max := den_max_of (map p_den g) in
      match keys with
      | None => None                                       (* range(None): TypeError *)
      | Some k =>
          match fill_lines (repeat (repeat 48%Z (Z.to_nat k)) (Z.to_nat den_max)) g den_max k,
                write_measures ps keys m ms' with
          | Some lines, Some rest => Some (pads ++ join nl lines :: rest)
          | _, _ => None
          end
      end
  end.

Fixpoint intersperse {A} (sep : A) (l : list A) : list A :=
  match l with
  | [] => []
  | [a] => [a]
  | a :: l' => a :: sep :: intersperse sep l'
  end.

Definition chart_placed (c : smchart) : option (list placed) :=
  let evs := chart_events c in
  match tm_beats (k_tbl cf) (bcos_of (c_bpms c)) (map (fun e : Q * Z * Z => fst (fst e)) evs) with
  | None => None
  | Some beats =>
      Some (map (fun be : Q * (Q * Z * Z) => place (fst be) (snd (fst (snd be))) (snd (snd be))) (combine beats evs))
  end.

Definition chart_body (c : smchart) : option text :=
  match chart_placed c with
  | None => None
  | Some ps =>
      match write_measures ps (get_keys cf (c_type c)) (-1) (measures_of ps) with
      | None => None
      | Some out => Some (join [10%Z; 44%Z; 10%Z] out)
      end
  end.

(* SMMap.write: the list of lines (each a token list) *)
Definition write_chart (c : smchart) : option (list (list tok)) :=
  match chart_body c with
  | None => None
  | Some body =>
      Some [ [L "//------"; TLit (c_type c); L "["; TLit (show_int (c_meter c)); L " "; TLit (c_diff c); L "]------"];
             [L "#NOTES:"];
             [L "     "; TLit (c_type c); L ":"];
             [L "     "; TLit (c_desc c); L ":"];
             [L "     "; TLit (c_diff c); L ":"];
             [L "     "; TLit (show_int (c_meter c)); L ":"];
             (L "     " :: intersperse (L ",") (map TNum (c_radar c))) ++ [L ":"];
             [TLit body];
             [TLit [59%Z; 10%Z; 10%Z]] ]
  end.

(* SMMapSetMeta._write_metadata *)
Definition write_metadata (s : smset) : option (list (list tok)) :=
  match s_maps s, s_offset s with
  | c0 :: _, Some off =>
      match tm_beats (k_tbl cf) (bcos_of (c_bpms c0)) (map (fun b : Q * Q * Q => fst (fst b)) (c_bpms c0)) with
      | None => None
      | Some bb =>
          let t i := TLit (nth i (s_txt s) []) in
          let pairs := map (fun p : Q * (Q * Q * Q) => [TRnd2 (fst p); L "="; TNum (snd (fst (snd p)))]) (combine bb (c_bpms c0)) in
          Some [ [L "#TITLE:"; t 0%nat; L ";"]; [L "#SUBTITLE:"; t 1%nat; L ";"]; [L "#ARTIST:"; t 2%nat; L ";"];
                 [L "#TITLETRANSLIT:"; t 3%nat; L ";"]; [L "#SUBTITLETRANSLIT:"; t 4%nat; L ";"];
                 [L "#ARTISTTRANSLIT:"; t 5%nat; L ";"]; [L "#GENRE:"; t 6%nat; L ";"]; [L "#CREDIT:"; t 7%nat; L ";"];
                 [L "#BANNER:"; t 8%nat; L ";"]; [L "#BACKGROUND:"; t 9%nat; L ";"]; [L "#LYRICSPATH:"; t 10%nat; L ";"];
                 [L "#CDTITLE:"; t 11%nat; L ";"]; [L "#MUSIC:"; t 12%nat; L ";"];
                 [L "#OFFSET:"; TNum (Qred (- (off / 1000))); L ";"];
                 (L "#BPMS:" :: concat (intersperse [TLit [44%Z; 10%Z]] pairs)) ++ [L ";"];
                 [L "#STOPS:;"];
                 [L "#SAMPLESTART:"; TNum (Qred (s_sstart s / 1000)); L ";"];
                 [L "#SAMPLELENGTH:"; TNum (Qred (s_slen s / 1000)); L ";"];
                 [L "#DISPLAYBPM:"; t 13%nat; L ";"];
                 (if s_sel s then [L "#SELECTABLE:YES;"] else if v_sel v then [L "#SELECTABLE:NO;"] else [L "NO;"]);
                 [L "#BGCHANGES:"; t 14%nat; L ";"]; [L "#FGCHANGES:"; t 15%nat; L ";"] ]
      end
  | _, _ => None
  end.

(* SMMapSet.write: "\n".join(lines) *)
Definition sm_write (s : smset) : option (list tok) :=
  match write_metadata s, map_opt write_chart (s_maps s) with
  | Some m, Some cs => Some (concat (intersperse [TLit nl] (m ++ concat cs)))
  | _, _ => None
  end.
End Writer.

(* ---- the rendering relation: a text is a rendering of a token list when literals match exactly and each
   numeric token is a decimal numeral denoting the value (TNum, up to the float-conversion slack tol) or a
   six-decimal numeral within half a millionth of it (TRnd2) ---- *)
Definition is_num_char (c : Z) : bool :=
  is_digit c || (c =? 43)%Z || (c =? 45)%Z || (c =? 46)%Z || (c =? 101)%Z || (c =? 69)%Z.
Fixpoint span_num (s : text) : text * text :=
  match s with
  | x :: s' => if is_num_char x then let '(a, b) := span_num s' in (x :: a, b) else ([], s)
  | [] => ([], [])
  end.
Definition num_close (tol v q : Q) : bool := Qle_bool (Qabs (v - q)) (tol * (1 + Qabs q)).
Definition is_millionth (x : Q) : bool := Qeq_bool (x * 1000000) (inject_Z (Qfloor (x * 1000000))).
Definition rnd_half : Q := 1 # 2000000.            (* half of the last printed digit *)

Fixpoint match_toks (tol : Q) (toks : list tok) (s : text) : bool :=
  match toks with
  | [] => match s with [] => true | _ => false end
  | TLit t :: r => match drop_prefix t s with Some s' => match_toks tol r s' | None => false end
  | TNum q :: r =>
      let '(n, s') := span_num s in
      match parse_decimal n with
      | Some x => num_close tol x q && match_toks tol r s'
      | None => false
      end
  | TRnd2 q :: r =>
      let '(n, s') := span_num s in
      match parse_decimal n with
      | Some x => is_millionth x && Qle_bool (Qabs (x - q)) (rnd_half + tol) && match_toks tol r s'
      | None => false
      end
  end.
