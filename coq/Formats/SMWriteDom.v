(* C03: the decidable EXACT domain of the whole-file writer theorem (Proofs/SMWriteWhole*.v).  Definitions only.
   Everything is a condition on the in-memory mapset, stated through the SPECIFICATION functions of the timing
   engine (Integrate.time_of / Domain2.beats_at / Domain.domainb), never through the writer's own output:
     - 16 tame text fields; at least one chart; #OFFSET = the first tempo offset;
     - the tempo rows of the first chart are the millisecond form of a tempo script on the snap grid
       (bco_to_bcs gives the script l, l is in C10's domainb with metronome 4, from_bcs init l gives back the sorted
       rows literally), pairwise distinct offsets, positive bpm, each tempo beat a millionth (the writer prints
       tempo beats with six decimals) and pairwise distinct;
     - every chart: supported type, tame type/desc/diff, non-empty radar, the same tempo rows (literally),
       columns in range, hold lengths > 0, long notes of a column disjoint, every event time (heads and tails
       included) at or after the first tempo point and on the snap grid relative to the active tempo, no two events
       with the same column and the same beat, and for every measure the TRUE lcm of the row denominators <= 384. *)
From Coq Require Import String ZArith QArith Qround Qabs List Bool Sorting.Permutation.
From RV Require Import Base.PyNum Timing.Snapper Timing.Snap Timing.TimingMap Timing.Reseat Timing.Integrate
  Timing.Domain Timing.Domain2 Formats.SMText Formats.SM Formats.SMSpec.
Import ListNotations.
Open Scope Q_scope.

(* strings the writer can embed in an item: no ; : newline, no comment opener, no surrounding blanks *)
Definition tame_str (t : text) : bool :=
  negb (existsb (fun c => (c =? 59)%Z || (c =? 58)%Z || (c =? 10)%Z || (c =? 13)%Z) t)
  && negb (contains (tx "//") t) && text_eqb (strip t) t.

(* literal (Leibniz) equality of rationals, decided on numerator and denominator *)
Definition q_same (a b : Q) : bool := (Qnum a =? Qnum b)%Z && (Qden a =? Qden b)%positive.
Definition bco_same (a b : bco) : bool :=
  q_same (bo_bpm a) (bo_bpm b) && q_same (bo_met a) (bo_met b) && q_same (bo_off a) (bo_off b).
Definition row_same (a b : Q * Q * Q) : bool :=
  q_same (fst (fst a)) (fst (fst b)) && q_same (snd (fst a)) (snd (fst b)) && q_same (snd a) (snd b).

(* no two (beat, column) pairs with equal beats and the same column *)
Fixpoint distinct_bc (l : list (Q * Z)) : bool :=
  match l with
  | [] => true
  | x :: r => negb (existsb (fun y : Q * Z => Qeq_bool (fst x) (fst y) && (snd x =? snd y)%Z) r) && distinct_bc r
  end.

(* long notes of one column do not overlap (strictly: the next head comes after the previous tail) *)
Fixpoint longs_disjoint (l : list (Q * Z * Q)) : bool :=
  match l with
  | [] => true
  | a :: r =>
      forallb (fun b : Q * Z * Q =>
                 negb (snd (fst a) =? snd (fst b))%Z
                 || Qlt_bool (fst (fst a) + snd a) (fst (fst b)) || Qlt_bool (fst (fst b) + snd b) (fst (fst a))) r
      && longs_disjoint r
  end.

Definition true_lcm (dens : list Z) : Z := fold_left Z.lcm dens 1%Z.

(* ---- the conclusion: what the written text must denote ---- *)
(* same column, time and length equal as numbers *)
Definition note_eqv (a b : note4) : Prop :=
  fst (fst a) = fst (fst b) /\ snd (fst a) == snd (fst b) /\ snd a == snd b.
(* the same notes up to order: nothing invented, nothing dropped *)
Definition perm_eqv (a b : list note4) : Prop := exists a', Permutation a a' /\ Forall2 note_eqv a' b.
Definition all_kinds : list kind := [KHit; KHold; KRoll; KMine; KLift; KFake; KKey].
Definition chart_list (c : smchart) (k : kind) : list note4 :=
  match k with
  | KHit => simple4 (c_hits c) | KHold => hold4 (c_holds c) | KRoll => hold4 (c_rolls c) | KMine => simple4 (c_mines c)
  | KLift => simple4 (c_lifts c) | KFake => simple4 (c_fakes c) | KKey => simple4 (c_keys c)
  end.
(* a denoted chart is the in-memory chart: header fields equal, and for every kind the denoted notes are the chart's *)
Definition chart_denotes (dc : dchart) (c : smchart) : Prop :=
  header_match 0 dc c = true /\ forall k, perm_eqv (dnotes_of k (d_notes dc)) (chart_list c k).

Section Dom.
Variable cf : smconf.
Let tbl := k_tbl cf.

(* the tempo script and the time of its first change, re-derived from the millisecond rows *)
Definition tempo_script_of (rows : list (Q * Q * Q)) : option (Q * list bcs) :=
  match sort_by bco_lt (bcos_of rows), bco_to_bcs tbl (bcos_of rows) with
  | b0 :: _, Some l => Some (bo_off b0, l)
  | _, _ => None
  end.

Definition time_okb (init : Q) (l : list bcs) (o : Q) : bool := Qle_bool init o && time_on_gridb tbl init l o.

Definition tempo_domb (rows : list (Q * Q * Q)) (init : Q) (l : list bcs) : bool :=
  let B := bcos_of rows in
  let SB := sort_by bco_lt B in
  domainb tbl l [] && same_met l && forallb (fun x => Qeq_bool (bs_met x) 4) l
  && distinct_offsb B
  && forallb (fun r : Q * Q * Q => Qlt_bool 0 (snd (fst r))) rows
  && match from_bcs init l with Some bc => forallb2 bco_same bc SB | None => false end
  && dom_beats_posb tbl 0 init l (map bs_snap l) (map bo_off SB)
  && distinct_q (map (fun x => abs_beat (bs_snap x)) l)
  && forallb (fun x => is_millionth (abs_beat (bs_snap x))) l
  && forallb (fun r : Q * Q * Q => time_okb init l (fst (fst r))) rows.

(* the cumulative beat of a time: the integral of bpm/60000 (Domain2.beats_at), in lowest terms *)
Definition spec_beat (init : Q) (l : list bcs) (o : Q) : Q := Qred (beats_at init l o).

(* where the format puts an event: measure = beat // 4, position (beat mod 4)/4 as num/den (SM.place is exactly this) *)
Definition spec_placed (init : Q) (l : list bcs) (c : smchart) : list placed :=
  map (fun e : Q * Z * Z => place cf (spec_beat init l (fst (fst e))) (snd (fst e)) (snd e)) (chart_events cf c).

Definition exact_measures (ps : list placed) : bool :=
  forallb (fun m => (true_lcm (map p_den (filter (fun p => (p_measure p =? m)%Z) ps)) <=? k_max_snap cf)%Z)
          (measures_of ps).

Definition chart_common_domb (c0 c : smchart) (init : Q) (l : list bcs) : bool :=
  match ref_keys (c_type c), get_keys cf (c_type c) with
  | Some keys, Some keys' =>
      (keys =? keys')%Z
      && tame_str (c_type c) && tame_str (c_desc c) && tame_str (c_diff c)
      && match c_radar c with [] => false | _ => true end
      && forallb2 row_same (c_bpms c0) (c_bpms c)
      && forallb (fun e : Q * Z * Z => (0 <=? snd (fst e))%Z && (snd (fst e) <? keys)%Z) (chart_events cf c)
      && forallb (fun h : Q * Z * Q => Qlt_bool 0 (snd h)) (c_holds c ++ c_rolls c)
      && longs_disjoint (c_holds c ++ c_rolls c)
      && forallb (fun e : Q * Z * Z => time_okb init l (fst (fst e))) (chart_events cf c)
  | _, _ => false
  end.

(* exact regime: distinct (beat, column), true lcm of every measure within the cap *)
Definition chart_domb (c0 c : smchart) (init : Q) (l : list bcs) : bool :=
  chart_common_domb c0 c init l
  && distinct_bc (map (fun e : Q * Z * Z => (spec_beat init l (fst (fst e)), snd (fst e))) (chart_events cf c))
  && exact_measures (spec_placed init l c).

Definition set_common_domb (s : smset) (init : Q) (l : list bcs) (c0 : smchart) : bool :=
  forallb tame_str (s_txt s) && (length (s_txt s) =? 16)%nat
  && tempo_domb (c_bpms c0) init l
  && match s_offset s with Some o => Qeq_bool o init | None => false end.

(* the set-level domain, generic in the per-chart condition *)
Definition c03_dom_with (chartdom : smchart -> smchart -> Q -> list bcs -> bool) (s : smset) : bool :=
  match s_maps s with
  | [] => false
  | c0 :: _ =>
      match tempo_script_of (c_bpms c0) with
      | None => false
      | Some (init, l) =>
          set_common_domb s init l c0 && forallb (fun c => chartdom c0 c init l) (s_maps s)
      end
  end.
Definition c03_domb_gen (s : smset) : bool := c03_dom_with chart_domb s.

(* ---- cap regime: some measure needs more than 384 rows; objects are written in row floor(pos * 384) ---- *)
(* the cell (measure, row, column) of a placed note, rows counted with the writer's capped row count of its measure *)
Definition cell_of_placed (ps : list placed) (p : placed) : Z * Z * Z :=
  let dm := den_max_of cf (map p_den (filter (fun q => (p_measure q =? p_measure p)%Z) ps)) in
  (p_measure p, (p_num p * dm / p_den p)%Z, p_col p).
Fixpoint distinct_cells (l : list (Z * Z * Z)) : bool :=
  match l with
  | [] => true
  | (a, b, c) :: r => negb (existsb (fun x : Z * Z * Z => let '(a', b', c') := x in (a =? a')%Z && (b =? b')%Z && (c =? c')%Z) r)
                      && distinct_cells r
  end.
Definition chart_cap_domb (c0 c : smchart) (init : Q) (l : list bcs) : bool :=
  chart_common_domb c0 c init l
  && distinct_cells (map (cell_of_placed (spec_placed init l c)) (spec_placed init l c)).
Definition c03_cap_domb_gen (s : smset) : bool := c03_dom_with chart_cap_domb s.

(* what a chart denotes in the cap regime: every object is read at the time of the row it was written in, and that
   row's beat wb satisfies  wb <= beat < wb + 4/384  (the object's beat rounded down to the row grid, less than one
   384th of a measure early; exactly the beat whenever the measure did not hit the cap) *)
Definition cap_time (init : Q) (l : list bcs) (w : Q) : Q := time_of init l (snap_of_beat w).
Definition cap_row_of (init : Q) (l : list bcs) (o w : Q) : Prop := w <= spec_beat init l o /\ spec_beat init l o < w + (4 # 384).
Definition cap_note_rel (init : Q) (l : list bcs) (x y : note4) : Prop :=
  fst (fst x) = fst (fst y)
  /\ exists wh, cap_row_of init l (snd (fst y)) wh /\ snd (fst x) == cap_time init l wh
      /\ ((snd x == 0 /\ snd y == 0)
          \/ exists wt, cap_row_of init l (Qred (snd (fst y) + snd y)) wt /\ snd x == cap_time init l wt - cap_time init l wh).
Definition chart_cap_denotes (init : Q) (l : list bcs) (dc : dchart) (c : smchart) : Prop :=
  header_match 0 dc c = true
  /\ forall k, exists a', Permutation (dnotes_of k (d_notes dc)) a' /\ Forall2 (cap_note_rel init l) a' (chart_list c k).
End Dom.

(* the extra condition for reading a written file back (Props/C03.v : C03_sm_write_read_back): the beats of the tempo
   changes lie on the READER's 1/48 grid - the reach of the reading theorem C02, whose domain c02_domb asks for it; not a
   loss of the implementation (C03_read_back_guard_not_necessary) - stated on the mapset, with beats >= 0 and distinct *)
Definition readback_guard_gen (cf : smconf) (s : smset) : bool :=
  match s_maps s with
  | [] => false
  | c0 :: _ =>
      match tempo_script_of cf (c_bpms c0) with
      | None => false
      | Some (init, l) =>
          let bs := map (fun r : Q * Q * Q => spec_beat init l (fst (fst r))) (c_bpms c0) in
          forallb (fun b => on_grid48 b && Qle_bool 0 b) bs && distinct_q bs
      end
  end.
