(* Text helpers for the StepMania model (C02/C03): text = list of Unicode code points.
   Python str.split(c) on one character, str.strip(), substring test, rfind, decimal parsing
   (the subset of float()/int() syntax the .sm dialect uses), decimal printing of ints. Definitions only. *)
From Coq Require Import ZArith QArith List Bool String Ascii.
Import ListNotations.
Open Scope Z_scope.

Definition text := list Z.

(* constants of the model are written as Coq strings and converted; generated cases never use strings *)
Definition tx (s : string) : text := map (fun a => Z.of_N (N_of_ascii a)) (list_ascii_of_string s).

Fixpoint text_eqb (a b : text) : bool :=
  match a, b with
  | [], [] => true
  | x :: a', y :: b' => (x =? y) && text_eqb a' b'
  | _, _ => false
  end.

(* linear-time reverse (List.rev is quadratic); frev l = rev l by List.rev_alt *)
Definition frev {A} (l : list A) : list A := rev_append l [].

(* str.split(c): never returns the empty list *)
Fixpoint split_go (c : Z) (cur : text) (s : text) : list text :=
  match s with
  | [] => [frev cur]
  | x :: s' => if x =? c then frev cur :: split_go c [] s' else split_go c (x :: cur) s'
  end.
Definition split_on (c : Z) (s : text) : list text := split_go c [] s.

Fixpoint join (sep : text) (l : list text) : text :=
  match l with
  | [] => []
  | [a] => a
  | a :: l' => a ++ sep ++ join sep l'
  end.

(* code points c with chr(c).isspace() — pinned here, compared with the live table in Props *)
Definition py_ws : list Z :=
  [9; 10; 11; 12; 13; 28; 29; 30; 31; 32; 133; 160; 5760; 8192; 8193; 8194; 8195; 8196; 8197; 8198;
   8199; 8200; 8201; 8202; 8232; 8233; 8239; 8287; 12288].
Definition is_ws (c : Z) : bool := existsb (Z.eqb c) py_ws.

Fixpoint lstrip (s : text) : text :=
  match s with
  | x :: s' => if is_ws x then lstrip s' else s
  | [] => []
  end.
Definition rstrip (s : text) : text := frev (lstrip (frev s)).
Definition strip (s : text) : text := rstrip (lstrip s).

Fixpoint starts_with (p s : text) : bool :=
  match p, s with
  | [], _ => true
  | x :: p', y :: s' => (x =? y) && starts_with p' s'
  | _ :: _, [] => false
  end.
Fixpoint drop_prefix (p s : text) : option text :=
  match p, s with
  | [], _ => Some s
  | x :: p', y :: s' => if x =? y then drop_prefix p' s' else None
  | _ :: _, [] => None
  end.
(* sub in s *)
Fixpoint contains (sub s : text) : bool :=
  starts_with sub s || match s with [] => false | _ :: s' => contains sub s' end.

(* s[s.rfind(c):] — when c does not occur rfind is -1 and the slice is the last character *)
Fixpoint from_last_go (c : Z) (s : text) (best : option text) : option text :=
  match s with
  | [] => best
  | x :: s' => from_last_go c s' (if x =? c then Some s else best)
  end.
Definition slice_from_rfind (c : Z) (s : text) : text :=
  match from_last_go c s None with
  | Some r => r
  | None => match frev s with [] => [] | x :: _ => [x] end
  end.

(* text up to the first occurrence of sub (whole text if absent) *)
Fixpoint before_sub (sub s : text) : text :=
  match s with
  | [] => []
  | x :: s' => if starts_with sub s then [] else x :: before_sub sub s'
  end.

(* ---- numbers ---- *)
Definition is_digit (c : Z) : bool := (48 <=? c) && (c <=? 57).
Fixpoint digits_val (acc : Z) (s : text) : Z :=
  match s with [] => acc | x :: s' => digits_val (acc * 10 + (x - 48)) s' end.
Fixpoint span_digits (s : text) : text * text :=
  match s with
  | x :: s' => if is_digit x then let '(a, b) := span_digits s' in (x :: a, b) else ([], s)
  | [] => ([], [])
  end.
Definition take_sign (s : text) : bool * text :=   (* true = negative *)
  match s with
  | 45 :: s' => (true, s')
  | 43 :: s' => (false, s')
  | _ => (false, s)
  end.

(* int(s) for [+-]?digits (after strip) *)
Definition parse_int (s : text) : option Z :=
  let '(neg, r) := take_sign (strip s) in
  let '(d, rest) := span_digits r in
  match d, rest with
  | _ :: _, [] => Some (if neg then - digits_val 0 d else digits_val 0 d)
  | _, _ => None
  end.

Open Scope Q_scope.
Definition pow10 (n : nat) : positive := Nat.iter n (Pos.mul 10) 1%positive.
(* float(s) on the decimal grammar  [+-]? (d+ [. d*]? | . d+) ([eE] [+-]? d+)?   — exact value *)
Definition parse_decimal (s : text) : option Q :=
  let '(neg, r) := take_sign (strip s) in
  let '(ip, r1) := span_digits r in
  let '(fp, r2) := match r1 with 46%Z :: r1' => span_digits r1' | _ => ([], r1) end in
  match ip, fp with
  | [], [] => None
  | _, _ =>
    let mant := digits_val 0 (ip ++ fp) in
    let base := Qmake mant (pow10 (List.length fp)) in
    let v := match r2 with
      | [] => Some base
      | e :: r3 =>
        if ((e =? 101) || (e =? 69))%Z then
          let '(eneg, r4) := take_sign r3 in
          let '(ed, r5) := span_digits r4 in
          match ed, r5 with
          | _ :: _, [] =>
              let p := inject_Z (Z.pow 10 (digits_val 0 ed)) in
              Some (if eneg then base / p else base * p)
          | _, _ => None
          end
        else None
      end in
    match v with
    | Some v => Some (Qred (if neg then - v else v))
    | None => None
    end
  end.

(* str(int) *)
Fixpoint show_nat_go (fuel : nat) (n : Z) (acc : text) : text :=
  match fuel with
  | O => acc
  | S f => let acc' := (48 + n mod 10)%Z :: acc in
           if (n / 10 =? 0)%Z then acc' else show_nat_go f (n / 10)%Z acc'
  end.
Definition show_int (z : Z) : text :=
  if (z <? 0)%Z then 45%Z :: show_nat_go (S (Z.to_nat (Z.log2 (- z)))) (- z)%Z []
  else show_nat_go (S (Z.to_nat (Z.log2 z))) z [].
