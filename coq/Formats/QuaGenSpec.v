(* C06 — the SHAPE of a generation document (definitions only; used by Proofs/QuaGenProofs.v; decidable, so it can be evaluated on any document).
   gen_docb d: d is a well-formed written document (wf_qua_docb) whose top-level keys are exactly the 21 metadata keys in
   the order of the reference table followed by TimingPoints, SliderVelocities, HitObjects; Tags is a string equal to the
   blank-join of its own words; every timing point / scroll velocity carries StartTime and its value key; every note
   carries StartTime, Lane and KeySounds; hits come before holds; all hits list their keys in one order, all holds in one
   order with EndTime last.  This is what QuaMap.write produces (C06_written_doc_has_generation_shape) and the domain on
   which write o read is the identity (C06_generation_doc_fixed).
   pts_canonb d: every timing point lists [StartTime; Bpm], every scroll velocity [StartTime; Multiplier], in this order. *)
From Coq Require Import ZArith List Bool.
From RV Require Import Base.PyNum Formats.Qua Formats.QuaSpec.
Import ListNotations.
Open Scope Z_scope.

Definition sec_keys : list Z := [K_TimingPoints; K_SliderVelocities; K_HitObjects].
Definition is_hold (r : row) : bool := has_key K_EndTime r.
Fixpoint hits_first (l : list row) : bool :=
  match l with [] => true | r :: t => if is_hold r then forallb is_hold t else hits_first t end.
Definition last_is (k : Z) (l : list Z) : bool := match rev l with x :: _ => x =? k | [] => false end.
Definition uniform (recs : list row) : bool :=
  match recs with [] => true | r0 :: _ => forallb (fun r => listZ_eqb (map fst r) (map fst r0)) recs end.
Definition notes_shape (recs : list row) : bool :=
  hits_first recs
  && uniform (filter (fun r => negb (is_hold r)) recs) && uniform (filter is_hold recs)
  && forallb (fun r => has_key K_StartTime r && has_key K_Lane r && has_key K_KeySounds r) recs
  && forallb (fun r => last_is K_EndTime (map fst r)) (filter is_hold recs).
Definition points_shape (kval : Z) (recs : list row) : bool :=
  forallb (fun r => has_key K_StartTime r && has_key kval r) recs.
Definition tags_norm (kvs : row) : bool :=
  match assoc K_Tags kvs with Some (YStr s) => text_eqb (join_sp (words s)) s | _ => false end.
Definition on_rows (p : list row -> bool) (v : option ytree) : bool :=
  match v with Some v' => match as_rows v' with Some recs => p recs | None => false end | None => false end.
Definition gen_docb (d : ytree) : bool :=
  wf_qua_docb d &&
  match d with
  | YMap kvs =>
      listZ_eqb (map fst kvs) (map fst ref_meta_table ++ sec_keys) && tags_norm kvs
      && on_rows (points_shape K_Bpm) (assoc K_TimingPoints kvs)
      && on_rows (points_shape K_Multiplier) (assoc K_SliderVelocities kvs)
      && on_rows notes_shape (assoc K_HitObjects kvs)
  | _ => false
  end.
(* the point records carry StartTime first (what the second and every later generation looks like) *)
Definition pts_canon (kval : Z) (recs : list row) : bool := forallb (fun r => listZ_eqb (map fst r) [K_StartTime; kval]) recs.
Definition pts_canonb (d : ytree) : bool :=
  match d with
  | YMap kvs => on_rows (pts_canon K_Bpm) (assoc K_TimingPoints kvs) && on_rows (pts_canon K_Multiplier) (assoc K_SliderVelocities kvs)
  | _ => false
  end.

