(* Executable model of reamber.bms.BMSMap: read (lines -> chart) and write (chart -> lines), on decoded
   lines (the shift_jis codec is an oracle outside the model).  Definitions only.  None = an exception.
   Times go through the timing model of C10/C11 (Timing/*.v) exactly as the code does:
     reader  TimingMap.from_bpm_changes_snap(0, bcs_s, reseat=False).offsets(snaps)   = from_bcs / tm_offsets
             tm.reseat().bpm_changes_offset                                            = tm_reseat
     writer  TimingMap.from_bpm_changes_offset(bpms).snaps(offsets, Snapper())         = tm_snaps          *)
From Coq Require Import ZArith QArith Qround Qabs List Bool.
From RV Require Import Base.PyNum Timing.Snapper Timing.Snap Timing.TimingMap Timing.Reseat Formats.BMSText.
Import ListNotations.
Open Scope Z_scope.

(* ---- channel layouts: (channel id, value); value >= 0 column, -1 TIME_SIG, -2 BPM_CHANGE, -3 EXBPM_CHANGE ---- *)
Definition layout := list (text * Z).
Definition V_TIME_SIG : Z := -1.
Definition V_BPM : Z := -2.
Definition V_EXBPM : Z := -3.

(* Python dict with insertion order: assignment to an existing key keeps its position *)
Section Dict.
  Context {V : Type}.
  Fixpoint dict_set (k : text) (v : V) (d : list (text * V)) : list (text * V) :=
    match d with
    | [] => [(k, v)]
    | (k', v') :: d' => if text_eqb k k' then (k, v) :: d' else (k', v') :: dict_set k v d'
    end.
  Fixpoint dict_get (k : text) (d : list (text * V)) : option V :=
    match d with
    | [] => None
    | (k', v') :: d' => if text_eqb k k' then Some v' else dict_get k d'
    end.
  Definition dict_remove (k : text) (d : list (text * V)) : list (text * V) :=
    filter (fun kv => negb (text_eqb k (fst kv))) d.
End Dict.

(* config[channel] *)
Definition layout_get (cfg : layout) (ch : text) : option Z := dict_get ch cfg.
(* {v: k for k, v in config.items()}[v] : the last key carrying v *)
Definition layout_rev (cfg : layout) (v : Z) : option text :=
  fold_left (fun acc kv => if snd kv =? v then Some (fst kv) else acc) cfg None.
(* {v: k for k, v in samples.items()}.get(s) *)
Definition samples_rev (smp : list (text * text)) (s : text) : option text :=
  fold_left (fun acc kv => if text_eqb (snd kv) s then Some (fst kv) else acc) smp None.

(* literal keys *)
Definition K_ARTIST : text := [65;82;84;73;83;84].
Definition K_TITLE : text := [84;73;84;76;69].
Definition K_PLAYLEVEL : text := [80;76;65;89;76;69;86;69;76].
Definition K_LNOBJ : text := [76;78;79;66;74].
Definition K_BPM : text := [66;80;77].
Definition K_WAV : text := [87;65;86].

(* ================================================================ reader ================================================================ *)
Record note_entry := mkNE { ne_measure : text; ne_channel : text; ne_seq : text }.
Definition header := list (text * text).

(* one iteration of the line loop of BMSMap.read (the line is already stripped); notes are kept newest first *)
Definition classify_line (st : header * list note_entry) (line : text) : option (header * list note_entry) :=
  let '(hdr, notes) := st in
  if starts_with [35] line then
    match split_first 32 line with                      (* line.encode(..).strip().split(b" ", 1) *)
    | (k, Some v) => Some (dict_set (skipn 1 k) v hdr, notes)
    | (w, None) =>
        match nth_error w 1 with
        | None => None                                   (* line_split[0][1] : IndexError *)
        | Some c =>
            if is_digit c then
              match split_all 58 w with                  (* command, data = ....split(b":") *)
              | [command; data] => Some (hdr, mkNE (slice 1 4 command) (slice 4 6 command) data :: notes)
              | _ => None                                (* ValueError: unpack *)
              end
            else Some st
        end
    end
  else Some st.

Fixpoint classify_lines (st : header * list note_entry) (lines : list text) : option (header * list note_entry) :=
  match lines with
  | [] => Some st
  | l :: ls => match classify_line st (strip l) with None => None | Some st' => classify_lines st' ls end
  end.

Record bms_meta := mkMeta {
  m_title : text; m_artist : text; m_version : text; m_lnobj : text;
  m_exbpms : list (text * Q); m_samples : list (text * text); m_misc : header; m_bpm : Q }.

Definition get_or (d : header) (k : text) : text := match dict_get k d with Some v => v | None => [] end.

Fixpoint read_exbpms (d : header) (acc : list (text * Q)) : option (list (text * Q)) :=
  match d with
  | [] => Some acc
  | (k, v) :: d' =>
      if starts_with K_BPM (map upper k) && (length k =? 5)%nat then
        match parse_decimal v with
        | None => None                                   (* float(v): ValueError *)
        | Some q => read_exbpms d' (dict_set (skipn 3 k) q acc)
        end
      else read_exbpms d' acc
  end.
Definition is_exbpm_key (k : text) : bool := starts_with K_BPM (map upper k) && (length k =? 5)%nat.
Definition is_wav_key (k : text) : bool := starts_with K_WAV (map upper k).
Definition last2 (k : text) : text := skipn (length k - 2) k.
Definition read_samples (d : header) : list (text * text) :=
  fold_left (fun acc kv => if is_wav_key (fst kv) then dict_set (last2 (fst kv)) (snd kv) acc else acc) d [].

(* BMSMap._read_file_header *)
Definition read_file_header (d : header) : option bms_meta :=
  match read_exbpms d [] with
  | None => None
  | Some ex =>
      let smp := read_samples d in
      let d1 := filter (fun kv => negb (is_exbpm_key (fst kv) || is_wav_key (fst kv))) d in
      match dict_get K_BPM d1 with
      | None => None                                     (* data.pop(b"BPM"): KeyError *)
      | Some v =>
          match parse_decimal v with
          | None => None
          | Some bpm =>
              Some (mkMeta (get_or d K_TITLE) (get_or d K_ARTIST) (get_or d K_PLAYLEVEL) (get_or d K_LNOBJ)
                           ex smp (dict_remove K_BPM d1) bpm)
          end
      end
  end.

(* parse state of _read_notes: tempo changes and the note objects of the lanes, newest first *)
Record hitp := mkHitp { hp_col : Z; hp_sample : text; hp_snap : snap }.
Record holdp := mkHoldp { lp_hit : hitp; lp_tail : snap }.
Record lobj := mkLobj { lo_col : Z; lo_snap : snap; lo_pair : text }.      (* lane_objs[column].append((snap, pair)) *)
Record rstate := mkRS { r_bcs : list bcs; r_objs : list lobj; r_ts : list (Z * Q) }.

Fixpoint ts_get (m : Z) (ts : list (Z * Q)) : option Q :=
  match ts with [] => None | (k, v) :: r => if k =? m then Some v else ts_get m r end.
Fixpoint ts_set (m : Z) (q : Q) (ts : list (Z * Q)) : list (Z * Q) :=
  match ts with [] => [(m, q)] | (k, v) :: r => if k =? m then (m, q) :: r else (k, v) :: ts_set m q r end.

Definition text_is (a b : text) : bool := text_eqb a b.
Definition PAIR00 : text := [48;48].
Definition PAIR0 : text := [48].

Section ReadNotes.
  Variable cfg : layout.
  Variable max_keys : Z.
  Variable meta : bms_meta.
  Variables (ch_ts ch_bpm ch_ex : text).

  (* body of  for i, pair in enumerate(pairs)  *)
  Definition read_pair (measure : Z) (channel : text) (division : Z) (metronome : Q)
             (st : rstate) (ip : Z * text) : option rstate :=
    let '(i, pr) := ip in
    if text_is pr PAIR00 || text_is pr PAIR0 then Some st
    else if division =? 0 then None                                  (* Fraction(i, 0) *)
    else
      let beat := Qred ((inject_Z i / inject_Z division) * metronome)%Q in
      if text_is channel ch_bpm || text_is channel ch_ex then
        let nb := if text_is channel ch_bpm
                  then match hex_parse2 pr with Some v => Some (inject_Z v) | None => None end   (* int(pr, 16) *)
                  else dict_get pr (m_exbpms meta) in                                             (* self.exbpms[pr] *)
        match nb with
        | None => None
        | Some bpm =>
            match snap_norm measure beat metronome with
            | None => None
            | Some s => Some (mkRS (mkBcs bpm metronome s :: r_bcs st) (r_objs st) (r_ts st))
            end
        end
      else
        match layout_get cfg channel with
        | None => Some st
        | Some column =>
            if (column <? 0) || (max_keys <=? column) then None        (* lane_objs[column] *)
            else Some (mkRS (r_bcs st) (mkLobj column (mkSnap measure beat 0) pr :: r_objs st) (r_ts st))
        end.

  Fixpoint read_pairs (measure : Z) (channel : text) (division : Z) (metronome : Q)
           (st : rstate) (i : Z) (pairs : list text) : option rstate :=
    match pairs with
    | [] => Some st
    | p :: ps =>
        match read_pair measure channel division metronome st (i, p) with
        | None => None
        | Some st' => read_pairs measure channel division metronome st' (i + 1) ps
        end
    end.

  (* body of  for d in data  *)
  Definition read_entry (st : rstate) (d : note_entry) : option rstate :=
    match parse_nat (ne_measure d) with
    | None => None                                                     (* int(d["measure"]) *)
    | Some measure =>
        if text_is (ne_channel d) ch_ts then
          match parse_decimal (ne_seq d) with
          | None => None
          | Some f => Some (mkRS (r_bcs st) (r_objs st) (ts_set measure (Qred (f * 4)%Q) (r_ts st)))
          end
        else
          let division := Z.of_nat (length (ne_seq d)) / 2 in
          let metronome := match ts_get measure (r_ts st) with Some q => q | None => 4%Q end in
          read_pairs measure (ne_channel d) division metronome st 0 (chunks2 (ne_seq d))
    end.

  Fixpoint read_entries (st : rstate) (ds : list note_entry) : option rstate :=
    match ds with
    | [] => Some st
    | d :: ds' => match read_entry st d with None => None | Some st' => read_entries st' ds' end
    end.
End ReadNotes.

Record hit := mkHit { h_col : Z; h_off : Q; h_sample : text }.
Record hold := mkHold { ho_col : Z; ho_off : Q; ho_len : Q; ho_sample : text }.
Record bms_chart := mkChart { c_hits : list hit; c_holds : list hold; c_bpms : list bco; c_meta : bms_meta }.

(* the pairing loop after the line loop, for one lane: objects in time order (stable sort by Snap); an LNOBJ object
   pops the last hit of the lane (None: 'Failed to match LN Tail'); hits / holds newest first while scanning *)
Fixpoint pair_lane (lnobj : text) (samples : list (text * text)) (hits_rev : list hitp) (holds_rev : list holdp)
         (objs : list lobj) : option (list hitp * list holdp) :=
  match objs with
  | [] => Some (rev hits_rev, rev holds_rev)
  | o :: r =>
      if text_eqb (lo_pair o) lnobj then
        match hits_rev with
        | [] => None
        | h :: hs => pair_lane lnobj samples hs (mkHoldp h (lo_snap o) :: holds_rev) r
        end
      else
        let smp := match dict_get (lo_pair o) samples with Some v => v | None => [] end in
        pair_lane lnobj samples (mkHitp (lo_col o) smp (lo_snap o) :: hits_rev) holds_rev r
  end.
Definition lobj_lt (a b : lobj) : bool := snap_lt (lo_snap a) (lo_snap b).
(* for column, objs in enumerate(lane_objs): ... ; results by column, inside a column in time order *)
Fixpoint pair_lanes (lnobj : text) (samples : list (text * text)) (objs : list lobj) (cols : list nat)
  : option (list hitp * list holdp) :=
  match cols with
  | [] => Some ([], [])
  | k :: ks =>
      match pair_lane lnobj samples [] [] (sort_by lobj_lt (filter (fun o => lo_col o =? Z.of_nat k) objs)),
            pair_lanes lnobj samples objs ks with
      | Some (hs, ls), Some (hs', ls') => Some (hs ++ hs', ls ++ ls')
      | _, _ => None
      end
  end.

Fixpoint zip3 {A B C D} (f : A -> B -> C -> D) (a : list A) (b : list B) (c : list C) : list D :=
  match a, b, c with
  | x :: a', y :: b', z :: c' => f x y z :: zip3 f a' b' c'
  | _, _, _ => []
  end.

(* the measure-0 override (the header tempo is dropped when the FIRST parsed tempo object sits at measure 0 beat 0)
   followed by  bcs_s.sort(key=lambda x: x.snap)  *)
Definition override_sort (bcs_s : list bcs) : list bcs :=
  sort_by bcs_lt (match bcs_s with
                  | b0 :: b1 :: rest =>
                      if (s_m (bs_snap b1) =? 0) && Qeq_bool (s_b (bs_snap b1)) 0 then b1 :: rest else bcs_s
                  | _ => bcs_s
                  end).

(* BMSMap._read_notes, the part after the line loop: lane pairing, measure-0 override, sort, TimingMap, offsets, reseat *)
Definition notes_of_state (tbl : list Q) (max_keys : Z) (meta : bms_meta) (st : rstate)
  : option (list hit * list hold * list bco) :=
  match from_bcs 0 (override_sort (rev (r_bcs st))) with
  | None => None
  | Some tm =>
    match pair_lanes (m_lnobj meta) (m_samples meta) (rev (r_objs st)) (seq 0 (Z.to_nat max_keys)) with
    | None => None                                             (* Failed to match LN Tail *)
    | Some (hits, holds) =>
      let hits_out :=
        match hits with
        | [] => Some []
        | _ => match tm_offsets tbl tm (map hp_snap hits) with
               | None => None
               | Some offs => Some (map (fun p => mkHit (hp_col (fst p)) (snd p) (hp_sample (fst p))) (combine hits offs))
               end
        end in
      let holds_out :=
        match holds with
        | [] => Some []
        | _ => match tm_offsets tbl tm (map (fun h => hp_snap (lp_hit h)) holds),
                     tm_offsets tbl tm (map lp_tail holds) with
               | Some oh, Some ot =>
                   Some (zip3 (fun h a b => mkHold (hp_col (lp_hit h)) a (Qred (b - a)) (hp_sample (lp_hit h))) holds oh ot)
               | _, _ => None
               end
        end in
      match hits_out, holds_out, tm_reseat tbl tm with
      | Some hs, Some ls, Some bp => Some (hs, ls, bp)
      | _, _, _ => None
      end
    end
  end.

(* BMSMap._read_notes *)
Definition read_notes (tbl : list Q) (cfg : layout) (max_keys : Z) (meta : bms_meta) (data : list note_entry)
  : option (list hit * list hold * list bco) :=
  match layout_rev cfg V_TIME_SIG, layout_rev cfg V_BPM, layout_rev cfg V_EXBPM with
  | Some ch_ts, Some ch_bpm, Some ch_ex =>
      let bcs0 := mkBcs (m_bpm meta) 4 (mkSnap 0 0 4) in
      match read_entries cfg max_keys meta ch_ts ch_bpm ch_ex (mkRS [bcs0] [] []) data with
      | None => None
      | Some st => notes_of_state tbl max_keys meta st
      end
  | _, _, _ => None                                                    (* config_rev[...] : KeyError *)
  end.

(* BMSMap.read(lines, note_channel_config) *)
Definition bms_read (tbl : list Q) (cfg : layout) (max_keys : Z) (lines : list text) : option bms_chart :=
  match classify_lines ([], []) lines with
  | None => None
  | Some (hdr, notes_rev) =>
      match read_file_header hdr with
      | None => None
      | Some meta =>
          match read_notes tbl cfg max_keys meta (rev notes_rev) with
          | None => None
          | Some (hs, ls, bp) => Some (mkChart hs ls bp meta)
          end
      end
  end.

(* ================================================================ find_lcm ================================================================ *)
Fixpoint set_nth {A} (i : nat) (x : A) (l : list A) : list A :=
  match l, i with
  | [], _ => []
  | _ :: l', O => x :: l'
  | y :: l', S i' => y :: set_nth i' x l'
  end.

(* the body of the double loop: a = working list (None = consumed), a_ = results *)
Definition lcm_step (thr : Z) (i j : nat) (st : list (option Z) * list Z) : list (option Z) * list Z :=
  let '(a, a_) := st in
  if Nat.eqb i j then st
  else match nth i a None, nth j a None with
       | Some b, Some c =>
           let l := Z.lcm b c in
           if l <? thr then (set_nth j None (set_nth i (Some l) a), set_nth j l a_) else st
       | _, _ => st
       end.
Definition lcm_loops (thr : Z) (n : nat) (st : list (option Z) * list Z) : list (option Z) * list Z :=
  fold_left (fun st i => fold_left (fun st j => lcm_step thr i j st) (seq 0 n) st) (seq 0 n) st.
Fixpoint lcm_finish (a : list (option Z)) (a_ : list Z) : list Z :=
  match a, a_ with
  | x :: a', y :: r => (if y =? 0 then match x with Some v => v | None => 0 end else y) :: lcm_finish a' r
  | _, _ => []
  end.
Definition find_lcm (thr : Z) (a : list Z) : list Z :=
  let n := length a in
  let '(a1, a_) := lcm_loops thr n (map Some a, repeat 0 n) in
  lcm_finish a1 a_.

(* ================================================================ writer ================================================================ *)
Record wchart := mkW {
  w_hits : list hit; w_holds : list hold; w_bpms : list bco;
  w_samples : list (text * text); w_lnobj : text;
  w_title : text; w_artist : text; w_version : text; w_misc : header }.

(* a written line; the initial tempo is printed with str(float) (an oracle): compared by value *)
Inductive wline := WText (t : text) | WBpm0 (q : Q).

Definition T_TITLE : text := [35;84;73;84;76;69;32].
Definition T_ARTIST : text := [35;65;82;84;73;83;84;32].
Definition T_BPM : text := [35;66;80;77].
Definition T_PLAYLEVEL : text := [35;80;76;65;89;76;69;86;69;76;32].
Definition T_LNOBJ : text := [35;76;78;79;66;74;32].
Definition T_WAV : text := [35;87;65;86].

Definition MAX_BPMS : nat := 35 * 36 + 35.

(* BMSMap._write_file_header *)
Definition write_header (c : wchart) : option (list wline) :=
  match w_bpms c with
  | [] => None                                                        (* self.bpms[0] *)
  | b0 :: _ =>
      if negb (length (w_bpms c) <? MAX_BPMS)%nat then None            (* assert *)
      else
        let misc := map (fun kv => WText ([35] ++ fst kv ++ [32] ++ snd kv)) (w_misc c) in
        let lnobj := match w_lnobj c with [] => [] | l => T_LNOBJ ++ l end in
        let ex := map (fun eb => WText (T_BPM ++ b36_pair (Z.of_nat (fst eb)) ++ [32] ++ fmt_fixed 3 (bo_bpm (snd eb))))
                      (combine (seq 1 (length (w_bpms c))) (w_bpms c)) in
        let wavs := map (fun kv => WText (T_WAV ++ fst kv ++ [32] ++ snd kv)) (w_samples c) in
        Some ([WText (T_TITLE ++ w_title c); WText (T_ARTIST ++ w_artist c); WBpm0 (bo_bpm b0);
               WText (T_PLAYLEVEL ++ w_version c)] ++ misc ++ [WText lnobj] ++ ex ++ wavs)
  end.

(* the slot table df(channel, value, measure, den, num) *)
Record wrow := mkRow { wr_measure : Z; wr_channel : text; wr_value : text; wr_den : Z; wr_num : Z }.

Definition row_of (s : snap) (channel value : text) : wrow :=
  mkRow (s_m s) channel value
        (qtrunc (inject_Z (Zpos (Qden (s_b s))) * s_met s)%Q)        (* beat.denominator * metronome, astype(int) *)
        (Qnum (s_b s)).

Fixpoint all_some' {A} (l : list (option A)) : option (list A) :=
  match l with
  | [] => Some []
  | None :: _ => None
  | Some x :: l' => match all_some' l' with Some r => Some (x :: r) | None => None end
  end.

Definition same_group (a b : wrow) : bool := (wr_measure a =? wr_measure b) && text_eqb (wr_channel a) (wr_channel b).

(* df.loc[group, "new_den"] = find_lcm(group dens, 100) : row r gets the entry at its position inside its group *)
Definition new_dens (thr : Z) (rows : list wrow) : list Z :=
  (fix go (before : list wrow) (rest : list wrow) : list Z :=
     match rest with
     | [] => []
     | r :: rest' =>
         let grp := filter (same_group r) rows in
         let pos := length (filter (same_group r) before) in
         nth pos (find_lcm thr (map wr_den grp)) 0 :: go (before ++ [r]) rest'
     end) [] rows.

Fixpoint text_lt (a b : text) : bool :=
  match a, b with
  | [], [] => false
  | [], _ :: _ => true
  | _ :: _, [] => false
  | x :: a', y :: b' => (x <? y) || ((x =? y) && text_lt a' b')
  end.

(* row with its slot in a line of L = new_den slots *)
Record wslot := mkSlot { ws_measure : Z; ws_channel : text; ws_L : Z; ws_slot : Z; ws_value : text }.
Definition slot_key_lt (a b : wslot) : bool :=
  (ws_measure a <? ws_measure b)
  || ((ws_measure a =? ws_measure b)
      && (text_lt (ws_channel a) (ws_channel b)
          || (text_eqb (ws_channel a) (ws_channel b) && (ws_L a <? ws_L b)))).
Definition slot_key_eq (a b : wslot) : bool :=
  (ws_measure a =? ws_measure b) && text_eqb (ws_channel a) (ws_channel b) && (ws_L a =? ws_L b).

(* num *= new_den / den ; int(row["num"]) *)
Definition slot_of (r : wrow) (L : Z) : wslot :=
  mkSlot (wr_measure r) (wr_channel r) L
         (qtrunc (Qred (inject_Z (wr_num r) * (inject_Z L / inject_Z (wr_den r)))%Q)) (wr_value r).

(* seq = [b"00"] * den ; seq[int(num)] = value  (None: IndexError) *)
Fixpoint fill_slots (seq : list text) (rows : list wslot) : option (list text) :=
  match rows with
  | [] => Some seq
  | r :: rows' =>
      if (ws_slot r <? 0) || (Z.of_nat (length seq) <=? ws_slot r) then None
      else fill_slots (set_nth (Z.to_nat (ws_slot r)) (ws_value r) seq) rows'
  end.

Definition line_of_group (g : list wslot) : option text :=
  match g with
  | [] => Some []
  | r :: _ =>
      match fill_slots (repeat PAIR00 (Z.to_nat (ws_L r))) g with
      | None => None
      | Some seq => Some ([35] ++ show3 (ws_measure r) ++ ws_channel r ++ [58] ++ concat seq)
      end
  end.

(* consecutive runs of equal key in a sorted list *)
Fixpoint group_runs (l : list wslot) (cur : list wslot) : list (list wslot) :=
  match l with
  | [] => match cur with [] => [] | _ => [rev cur] end
  | r :: l' =>
      match cur with
      | [] => group_runs l' [r]
      | c :: _ => if slot_key_eq c r then group_runs l' (r :: cur) else rev cur :: group_runs l' [r]
      end
  end.

Definition DEFAULT_SAMPLE : text := [48;49].
Definition LCM_THRESHOLD : Z := 100.

(* BMSMap._write_notes *)
(* the four tm.snaps(...) calls on hits, hold heads, hold tails and tempo points *)
Record wsnaps := mkSn { sn_hits : list snap; sn_heads : list snap; sn_tails : list snap; sn_bpms : list snap }.
Definition write_snaps (tbl : list Q) (c : wchart) : option wsnaps :=
  let tm := w_bpms c in
  match tm_snaps tbl tm (map h_off (w_hits c)),
        tm_snaps tbl tm (map ho_off (w_holds c)),
        tm_snaps tbl tm (map (fun h => Qred (ho_off h + ho_len h)%Q) (w_holds c)),
        tm_snaps tbl tm (map bo_off (w_bpms c)) with
  | Some sh, Some shead, Some stail, Some sb => Some (mkSn sh shead stail sb)
  | _, _, _, _ => None
  end.

Definition write_rows_of (tbl : list Q) (cfg : layout) (dflt : text) (c : wchart) (sn : option wsnaps) : option (list wrow) :=
  let tm := w_bpms c in
  let sample_id (s : text) := match samples_rev (w_samples c) s with Some k => k | None => dflt end in
  match sn with
  | Some (mkSn sh shead stail sb) =>
      let metro := filter (fun b => negb (Qeq_bool (bo_met b) 4)) (w_bpms c) in
      match (match metro with [] => Some [] | _ => tm_snaps tbl tm (map bo_off metro) end) with
      | None => None
      | Some sm =>
          let hits := map (fun p => match layout_rev cfg (h_col (snd p)) with
                                    | Some ch => Some (row_of (fst p) ch (sample_id (h_sample (snd p)))) | None => None end)
                          (combine sh (w_hits c)) in
          let heads := map (fun p => match layout_rev cfg (ho_col (snd p)) with
                                     | Some ch => Some (row_of (fst p) ch (sample_id (ho_sample (snd p)))) | None => None end)
                           (combine shead (w_holds c)) in
          let tails := map (fun p => match layout_rev cfg (ho_col (snd p)) with
                                     | Some ch => Some (row_of (fst p) ch (w_lnobj c)) | None => None end)
                           (combine stail (w_holds c)) in
          match all_some' hits, all_some' heads, all_some' tails, layout_rev cfg V_EXBPM with
          | Some rh, Some rhd, Some rt, Some chx =>
              let bp := map (fun p => row_of (snd p) chx (b36_pair (Z.of_nat (fst p)))) (combine (seq 1 (length sb)) sb) in
              match metro, layout_rev cfg V_TIME_SIG with
              | [], _ => Some (rh ++ rhd ++ rt ++ bp)
              | _, None => None
              | _, Some cht =>
                  let ts := map (fun p => row_of (fst p) cht (fmt_fixed 4 (bo_met (snd p) / 4)%Q)) (combine sm metro) in
                  Some (rh ++ rhd ++ rt ++ bp ++ ts)
              end
          | _, _, _, _ => None                                         (* channel_map[...] : KeyError *)
          end
      end
  | None => None
  end.
Definition write_rows (tbl : list Q) (cfg : layout) (dflt : text) (c : wchart) : option (list wrow) :=
  write_rows_of tbl cfg dflt c (write_snaps tbl c).

Definition write_note_lines (rows : list wrow) : option (list text) :=
  let nd := new_dens LCM_THRESHOLD rows in
  let slots := map (fun p => slot_of (fst p) (snd p)) (combine rows nd) in
  let sorted := sort_by slot_key_lt slots in
  all_some' (map line_of_group (group_runs sorted [])).

(* BMSMap.write(note_channel_config, no_sample_default): the lines of the byte string split at "\r\n".
   [sn] is write_snaps tbl c (a parameter only so that a caller can share the computation). *)
Definition bms_write_with (tbl : list Q) (cfg : layout) (dflt : text) (c : wchart) (sn : option wsnaps) : option (list wline) :=
  match write_header c with
  | None => None
  | Some hd =>
      match write_rows_of tbl cfg dflt c sn with
      | None => None
      | Some rows =>
          match write_note_lines rows with
          | None => None
          | Some ls => Some (hd ++ [WText []] ++ map WText ls)
          end
      end
  end.
Definition bms_write (tbl : list Q) (cfg : layout) (dflt : text) (c : wchart) : option (list wline) :=
  bms_write_with tbl cfg dflt c (write_snaps tbl c).
