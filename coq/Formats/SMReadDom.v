(* C02: the decidable DOMAIN of the whole-file reading theorem (Proofs/SMReadWhole.v, Props/C02.v), as a boolean
   predicate on the TEXT.  Definitions only; shared by the proofs and by the correspondence runner Corr/RunC02.v, which
   evaluates exactly this predicate as `wf` on every generated text.
     c02_domb txt  =  the text is well formed for the reference semantics (sm_denote txt = Some d)
                      /\ c02_dom d          rows per measure a multiple of 4, tempo beats on the 1/48 grid and distinct
                      /\ dialect2 txt       the reader's dialect, stated on the reader's own decomposition of the text
                                            (pieces between ';', parts between ':', measures between ',', lines)
                      /\ hdr_ok d           header items: one #OFFSET, one #BPMS, both before any #STOPS, numbers parse.
   Every clause excludes a corner on which reamber's reader and the format disagree; each corner is a _refuted theorem
   with a concrete witness in Proofs/SMReadWhole.v. *)
From Coq Require Import String ZArith QArith Qround List Bool.
From RV Require Import Base.PyNum Timing.Snapper Timing.Snap Timing.TimingMap Timing.Reseat Timing.Integrate
  Formats.SMText Formats.SM Formats.SMSpec.
Import ListNotations.
Open Scope Z_scope.

(* no separator character c inside a comment ("//" up to the end of its line); incom = inside a comment *)
Fixpoint sep_outside (c : Z) (incom : bool) (s : text) : bool :=
  match s with
  | [] => true
  | x :: s' =>
      if x =? 10 then sep_outside c false s'
      else if incom then negb (x =? c) && sep_outside c true s'
      else if starts_with (tx "//") s then sep_outside c true s'
      else sep_outside c false s'
  end.

Definition all_ws (s : text) : bool := forallb is_ws s.
Definition no_comment (s : text) : bool := negb (contains (tx "//") s).

(* a tag: '#' followed by characters that are not blanks, '#' or '/' *)
Definition tag_tame (t : text) : bool :=
  match t with
  | 35 :: r => forallb (fun c => negb (is_ws c) && negb (c =? 35) && negb (c =? 47)) r
  | _ => false
  end.

(* the part of a piece before its first ':' : blank lines and whole-line comments, then the tag on the last line *)
Definition blank_or_comment (l : text) : bool := all_ws l || starts_with (tx "//") (lstrip l).
Definition head_tag (q0 : text) : text := lstrip (last (split_on 10 q0) []).
Definition head_ok (q0 : text) : bool :=
  forallb blank_or_comment (removelast (split_on 10 q0)) && tag_tame (head_tag q0).

(* a line of note data: a whole-line comment, or a row without blanks (or an empty line) *)
Definition line_ok (l : text) : bool :=
  if contains (tx "//") l then starts_with (tx "//") (lstrip l) else negb (existsb is_ws l).
Definition data_ok (c6 : text) : bool :=
  sep_outside 44 false c6 && forallb (fun m => forallb line_ok (split_on 10 m)) (split_on 44 c6).

(* one ';'-piece: comments only before the tag and (for #NOTES) inside the note data, never containing ':' *)
Definition piece_ok (p : text) : bool :=
  sep_outside 58 false p &&
  match split_on 58 p with
  | q0 :: rest =>
      head_ok q0 &&
      (if text_eqb (head_tag q0) (tx "#NOTES")
       then match rest with
            | [c1; c2; c3; c4; c5; c6] => forallb no_comment [c1; c2; c3; c4; c5] && data_ok c6
            | _ => false end
       else match rest with
            | [q1] => no_comment q1
            | _ => false end)
  | [] => false
  end.

Definition dialect2 (txt : text) : bool :=
  sep_outside 59 false txt &&
  (let ps := split_on 59 txt in all_ws (last ps []) && forallb piece_ok (removelast ps)).

(* header items (tag, stripped value) in file order: so/sb = an #OFFSET / a #BPMS item has been seen *)
Definition is_someb {A} (o : option A) : bool := match o with Some _ => true | None => false end.
Definition bpms_parse (v : text) : option (list (Q * Q)) :=
  match map_opt (fun p => parse_pair (strip p)) (split_on 44 v) with
  | Some pairs => if forallb (fun p : Q * Q => Qle_bool 0 (fst p)) pairs then Some pairs else None
  | None => None
  end.
Fixpoint hdr_scan (so sb : bool) (fields : list (text * text)) : bool :=
  match fields with
  | [] => true
  | (t, v) :: r =>
      if text_eqb t (tx "#OFFSET") then negb so && is_someb (parse_decimal v) && hdr_scan true sb r
      else if text_eqb t (tx "#BPMS") then negb sb && is_someb (bpms_parse v) && hdr_scan so true r
      else if text_eqb t (tx "#STOPS") then
        so && sb && forallb (fun ln => match ln with [] => true | _ => false end) (split_on 44 v) && hdr_scan so sb r
      else if text_eqb t (tx "#SAMPLESTART") || text_eqb t (tx "#SAMPLELENGTH") then
        is_someb (parse_decimal v) && hdr_scan so sb r
      else hdr_scan so sb r
  end.
Definition hdr_ok (d : dfile) : bool := hdr_scan false false (d_items d).

(* THE domain of the whole-file theorem *)
Definition c02_domb (txt : text) : bool :=
  match sm_denote txt with
  | Some d => c02_dom d && dialect2 txt && hdr_ok d
  | None => false
  end.

(* tempo changes on measure lines: every #BPMS beat is a multiple of 4 (then the reader does not reseat: the chart's tempo
   list is the file's tempo list, row by row - C02_sm_read_tempo_list_on_lines) *)
Definition is_mult4 (x : Q) : bool := Qeq_bool (x / 4) (inject_Z (Qfloor (x / 4))).
Definition tempo_on_lines (d : dfile) : bool := forallb (fun tp : Q * Q * Q => is_mult4 (fst (fst tp))) (d_tempo d).
Definition sm_tempo_on_lines (txt : text) : bool :=
  match sm_denote txt with Some d => tempo_on_lines d | None => false end.

(* table obligation used to derive the C10 timing domain from the 1/48 grid: every k/48 is a snapper fraction *)
Definition grid48_in_table (tbl : list Q) : bool :=
  forallb (fun k => existsb (Qeq_bool (inject_Z (Z.of_nat k) / 48)) tbl) (seq 0 48).
