(* C06 — SPECIFICATION / oracle, written from the property statement and DESIGN appendix B.2, not from the
   implementation's algorithm.  Only the data types (ytree, frame, chart, assoc) come from Formats/Qua.v.

   B.2: a .qua document is a YAML mapping.  HitObjects: each entry has StartTime (int ms, default 0),
   Lane (1-based int, default 1), optional EndTime (present => hold of duration EndTime - StartTime),
   KeySounds (list, default empty).  TimingPoints: StartTime (default 0), Bpm (default 120).
   SliderVelocities: StartTime (default 0), Multiplier (default 1.0).  The 21 top-level metadata keys with
   their declared types; Tags is a blank-separated string.  A written document may contain only these keys
   and types (ints for times and lanes, floats for bpm/multiplier, lists for KeySounds), no NaN. *)
From Coq Require Import ZArith QArith Qround Qabs List Bool Permutation.
From RV Require Import Base.PyNum Formats.Qua.
Import ListNotations.
Open Scope Z_scope.

(* ---- what a chart is, independent of representation ---- *)
Record noteD := mkNote { n_lane : Z; n_start : Q; n_end : option Q (* Some e: hold ending at e *); n_ks : list text }.
Record den := mkDen { d_notes : list noteD; d_bpms : list (Q * Q); d_svs : list (Q * Q);
                      d_meta : list (option ytree) (* per reference key; None = not declared *) }.

(* ---- reference table of the format's metadata keys: (key id, type)  0 str 1 int 2 float 3 bool 4 list of str ---- *)
Definition ref_meta_table : list (Z * Z) :=
  [(101, 0) (* AudioFile *); (102, 1) (* SongPreviewTime *); (103, 0) (* BackgroundFile *); (104, 0) (* BannerFile *);
   (105, 0) (* Genre *); (106, 3) (* BPMDoesNotAffectScrollVelocity *); (107, 2) (* InitialScrollVelocity *);
   (108, 3) (* HasScratchKey *); (109, 1) (* MapId *); (110, 1) (* MapSetId *); (111, 0) (* Mode *); (112, 0) (* Title *);
   (113, 0) (* Artist *); (114, 0) (* Source *); (115, 0) (* Tags: blank-separated string *); (116, 0) (* Creator *);
   (117, 0) (* DifficultyName *); (118, 0) (* Description *); (119, 4) (* EditorLayers *); (120, 4) (* CustomAudioSamples *);
   (121, 4) (* SoundEffects *)].
Definition ref_tags_key := 115.
Definition sections : list Z := [K_HitObjects; K_TimingPoints; K_SliderVelocities].

Definition is_text_list (l : list ytree) : bool := forallb (fun x => match x with YStr _ => true | _ => false end) l.
Definition texts_of (l : list ytree) : list text := flat_map (fun x => match x with YStr s => [s] | _ => [] end) l.
Definition has_type (ty : Z) (v : ytree) : bool :=
  match v with
  | YStr _ => ty =? 0
  | YInt _ => (ty =? 1) || (ty =? 2)            (* YAML writes an integral float as an int scalar or a float *)
  | YFloat _ => ty =? 2
  | YBool _ => ty =? 3
  | YList l => (ty =? 4) && is_text_list l
  | _ => false
  end.

(* blank-separated words of a string *)
Fixpoint words_go (s : text) (cur : text) : list text :=
  match s with
  | [] => match cur with [] => [] | _ => [rev cur] end
  | c :: t => if c =? 32 then match cur with [] => words_go t [] | _ => rev cur :: words_go t [] end
              else words_go t (c :: cur)
  end.
Definition words (s : text) : list text := words_go s [].

Definition num (v : ytree) : option Q := match v with YInt z => Some (inject_Z z) | YFloat q => Some q | _ => None end.
Definition int_of (v : ytree) : option Z := match v with YInt z => Some z | _ => None end.
Definition get_default {A} (k : Z) (r : row) (f : ytree -> option A) (d : A) : option A :=
  match assoc k r with Some v => f v | None => Some d end.
Definition ks_of (v : ytree) : option (list text) :=
  match v with YList l => if is_text_list l then Some (texts_of l) else None | _ => None end.

(* ---- qua_denote: what a document declares ---- *)
Definition note_denote (v : ytree) : option noteD :=
  match v with
  | YMap r =>
      match get_default K_StartTime r num 0%Q, get_default K_Lane r int_of 1, get_default K_KeySounds r ks_of [] with
      | Some s, Some l, Some ks =>
          match assoc K_EndTime r with
          | None => Some (mkNote l s None ks)
          | Some e => match num e with Some e' => Some (mkNote l s (Some e') ks) | None => None end
          end
      | _, _, _ => None
      end
  | _ => None
  end.
Definition point_denote (kval : Z) (dflt : Q) (v : ytree) : option (Q * Q) :=
  match v with
  | YMap r => match get_default K_StartTime r num 0%Q, get_default kval r num dflt with
              | Some s, Some x => Some (s, x) | _, _ => None end
  | _ => None
  end.
Definition section_denote {A} (f : ytree -> option A) (k : Z) (d : row) : option (list A) :=
  match assoc k d with Some (YList l) => omap f l | _ => None end.
Definition meta_denote (d : row) : option (list (option ytree)) :=
  omap (fun kt => let '(k, ty) := kt in
          match assoc k d with
          | None => Some None
          | Some v => if k =? ref_tags_key then
                        match v with YStr s => Some (Some (YList (map YStr (words s)))) | _ => None end
                      else if has_type ty v then Some (Some v) else None
          end) ref_meta_table.
Definition qua_denote (doc : ytree) : option den :=
  match doc with
  | YMap d =>
      match section_denote note_denote K_HitObjects d, section_denote (point_denote K_Bpm 120%Q) K_TimingPoints d,
            section_denote (point_denote K_Multiplier 1%Q) K_SliderVelocities d, meta_denote d with
      | Some n, Some b, Some s, Some m => Some (mkDen n b s m)
      | _, _, _, _ => None
      end
  | _ => None
  end.

(* ---- chart_denote: what an in-memory chart is (hits, then holds; column c is lane c+1) ---- *)
Definition lane_of (v : ytree) : option Z :=
  match v with
  | YInt z => Some (z + 1)
  | YFloat q => if Qeq_bool q (inject_Z (Qfloor q)) then Some (Qfloor q + 1) else None
  | _ => None
  end.
Definition hit_row_denote (r : row) : option noteD :=
  match assoc N_offset r, assoc N_column r, assoc N_keysounds r with
  | Some o, Some c, Some k =>
      match num o, lane_of c, ks_of k with Some o', Some l, Some ks => Some (mkNote l o' None ks) | _, _, _ => None end
  | _, _, _ => None
  end.
Definition hold_row_denote (r : row) : option noteD :=
  match assoc N_offset r, assoc N_column r, assoc N_keysounds r, assoc N_length r with
  | Some o, Some c, Some k, Some ln =>
      match num o, lane_of c, ks_of k, num ln with
      | Some o', Some l, Some ks, Some ln' => Some (mkNote l o' (Some (Qred (o' + ln'))) ks) | _, _, _, _ => None end
  | _, _, _, _ => None
  end.
Definition point_row_denote (cval : Z) (r : row) : option (Q * Q) :=
  match assoc N_offset r, assoc cval r with
  | Some o, Some x => match num o, num x with Some o', Some x' => Some (o', x') | _, _ => None end
  | _, _ => None
  end.
Definition chart_denote (c : chart) : option den :=
  match omap hit_row_denote (f_rows (c_hits c)), omap hold_row_denote (f_rows (c_holds c)),
        omap (point_row_denote N_bpm) (f_rows (c_bpms c)), omap (point_row_denote N_multiplier) (f_rows (c_svs c)) with
  | Some h, Some l, Some b, Some s =>
      if Nat.eqb (length (c_meta c)) (length ref_meta_table) then Some (mkDen (h ++ l) b s (map Some (c_meta c))) else None
  | _, _, _, _ => None
  end.

(* ---- "the same chart": exactly (multisets), or with every time moved by less than 1 ms ---- *)
Definition oq_eqb (a b : option Q) : bool :=
  match a, b with None, None => true | Some x, Some y => Qeq_bool x y | _, _ => false end.
Fixpoint texts_eqb (a b : list text) : bool :=
  match a, b with [], [] => true | x :: a', y :: b' => text_eqb x y && texts_eqb a' b' | _, _ => false end.
Definition note_eqb (a b : noteD) : bool :=
  (n_lane a =? n_lane b) && Qeq_bool (n_start a) (n_start b) && oq_eqb (n_end a) (n_end b) && texts_eqb (n_ks a) (n_ks b).
Definition pt_eqb (a b : Q * Q) : bool := Qeq_bool (fst a) (fst b) && Qeq_bool (snd a) (snd b).
Definition lt1 (a b : Q) : bool := Qlt_bool (Qabs (a - b)) 1.
Definition note_closeb (a b : noteD) : bool :=
  (n_lane a =? n_lane b) && lt1 (n_start a) (n_start b)
  && match n_end a, n_end b with None, None => true | Some x, Some y => lt1 x y | _, _ => false end
  && texts_eqb (n_ks a) (n_ks b).
Definition pt_closeb (a b : Q * Q) : bool := lt1 (fst a) (fst b) && Qeq_bool (snd a) (snd b).

(* multiset equality by removal *)
Fixpoint remove1 {A} (eqb : A -> A -> bool) (x : A) (l : list A) : option (list A) :=
  match l with
  | [] => None
  | y :: t => if eqb x y then Some t else match remove1 eqb x t with Some t' => Some (y :: t') | None => None end
  end.
Fixpoint perm_eqb {A} (eqb : A -> A -> bool) (a b : list A) : bool :=
  match a with
  | [] => match b with [] => true | _ => false end
  | x :: a' => match remove1 eqb x b with Some b' => perm_eqb eqb a' b' | None => false end
  end.
Fixpoint all2 {A B} (p : A -> B -> bool) (a : list A) (b : list B) : bool :=
  match a, b with [] , [] => true | x :: a', y :: b' => p x y && all2 p a' b' | _, _ => false end.

(* metadata: a declared value must be the value; an undeclared key must hold a value of the key's type *)
Definition meta_refinesb (declared actual : list (option ytree)) : bool :=
  all2 (fun kt da => let '(d, a) := da in
          match d, a with
          | Some v, Some w => tree_eqb true v w
          | None, Some w => has_type (if fst kt =? ref_tags_key then 4 else snd kt) w  (* Tags denote a word list *)
          | _, None => false
          end) ref_meta_table (combine declared actual)
  && Nat.eqb (length declared) (length ref_meta_table) && Nat.eqb (length actual) (length ref_meta_table).
Definition all_declared (m : list (option ytree)) : bool := forallb (fun x => match x with Some _ => true | None => false end) m.

Definition den_eqb (e a : den) : bool :=
  perm_eqb note_eqb (d_notes e) (d_notes a) && perm_eqb pt_eqb (d_bpms e) (d_bpms a)
  && perm_eqb pt_eqb (d_svs e) (d_svs a) && meta_refinesb (d_meta e) (d_meta a).
(* positional: the writer keeps the order hits-then-holds, which is more than the property asks;
   den_close (below) is the property's relation and den_closeb soundly implies it *)
Definition den_closeb (e a : den) : bool :=
  all2 note_closeb (d_notes e) (d_notes a) && all2 pt_closeb (d_bpms e) (d_bpms a)
  && all2 pt_closeb (d_svs e) (d_svs a) && meta_refinesb (d_meta e) (d_meta a).

(* declarative versions *)
Definition den_eq (e a : den) : Prop :=
  (exists n', Permutation (d_notes a) n' /\ Forall2 (fun x y => note_eqb x y = true) (d_notes e) n') /\
  (exists b', Permutation (d_bpms a) b' /\ Forall2 (fun x y => pt_eqb x y = true) (d_bpms e) b') /\
  (exists s', Permutation (d_svs a) s' /\ Forall2 (fun x y => pt_eqb x y = true) (d_svs e) s') /\
  meta_refinesb (d_meta e) (d_meta a) = true.
Definition note_close (a b : noteD) : Prop :=
  n_lane a = n_lane b /\ (Qabs (n_start a - n_start b) < 1)%Q /\
  match n_end a, n_end b with None, None => True | Some x, Some y => (Qabs (x - y) < 1)%Q | _, _ => False end /\
  texts_eqb (n_ks a) (n_ks b) = true.
Definition pt_close (a b : Q * Q) : Prop := (Qabs (fst a - fst b) < 1)%Q /\ (snd a == snd b)%Q.
Definition den_close (e a : den) : Prop :=
  (exists n', Permutation (d_notes a) n' /\ Forall2 note_close (d_notes e) n') /\
  (exists b', Permutation (d_bpms a) b' /\ Forall2 pt_close (d_bpms e) b') /\
  (exists s', Permutation (d_svs a) s' /\ Forall2 pt_close (d_svs e) s') /\
  meta_refinesb (d_meta e) (d_meta a) = true.

(* ---- well-formed WRITTEN document: only format keys, format types, no NaN ---- *)
Fixpoint nodupZ (l : list Z) : bool := match l with [] => true | x :: t => negb (memZ x t) && nodupZ t end.
Definition rec_okb (allowed : list (Z * (ytree -> bool))) (v : ytree) : bool :=
  match v with
  | YMap r => nodupZ (map fst r)
              && forallb (fun kv => match assoc (fst kv) allowed with Some p => p (snd kv) | None => false end) r
  | _ => false
  end.
Definition is_int (v : ytree) : bool := match v with YInt _ => true | _ => false end.
Definition is_lane (v : ytree) : bool := match v with YInt z => 1 <=? z | _ => false end.
Definition is_float (v : ytree) : bool := match v with YFloat _ => true | _ => false end.
Definition is_ks (v : ytree) : bool := match v with YList l => is_text_list l | _ => false end.
Definition note_keys := [(K_StartTime, is_int); (K_Lane, is_lane); (K_EndTime, is_int); (K_KeySounds, is_ks)].
Definition tp_keys := [(K_StartTime, is_int); (K_Bpm, is_float)].
Definition sv_keys := [(K_StartTime, is_int); (K_Multiplier, is_float)].
Definition section_okb (allowed : list (Z * (ytree -> bool))) (k : Z) (d : row) : bool :=
  match assoc k d with Some (YList l) => forallb (rec_okb allowed) l | _ => false end.
Definition wf_qua_docb (doc : ytree) : bool :=
  match doc with
  | YMap d =>
      nodupZ (map fst d)
      && forallb (fun kv => memZ (fst kv) sections
                            || match assoc (fst kv) ref_meta_table with
                               | Some ty => has_type ty (snd kv) | None => false end) d
      && section_okb note_keys K_HitObjects d && section_okb tp_keys K_TimingPoints d
      && section_okb sv_keys K_SliderVelocities d
  | _ => false
  end.

(* ---- domain of READ documents: denotable, records carry only format keys, no duplicate keys ---- *)
Definition is_num (v : ytree) : bool := match v with YInt _ | YFloat _ => true | _ => false end.
Definition note_keys_in := [(K_StartTime, is_int); (K_Lane, is_lane); (K_EndTime, is_int); (K_KeySounds, is_ks)].
Definition tp_keys_in := [(K_StartTime, is_int); (K_Bpm, is_num)].
Definition sv_keys_in := [(K_StartTime, is_int); (K_Multiplier, is_num)].
Definition wf_docb (doc : ytree) : bool :=
  match doc with
  | YMap d =>
      nodupZ (map fst d)
      && forallb (fun kv => memZ (fst kv) sections
                            || match assoc (fst kv) ref_meta_table with
                               | Some ty => has_type ty (snd kv) | None => true (* foreign top-level keys are ignored *) end) d
      && section_okb note_keys_in K_HitObjects d && section_okb tp_keys_in K_TimingPoints d
      && section_okb sv_keys_in K_SliderVelocities d
  | _ => false
  end.

(* ---- domain of in-memory charts.
   loose : what the property quantifies over, including what the converters and the reader hand to the writer
           today (an extra `index` column, keysounds cells that are NaN, InitialScrollVelocity = '');
   strict: declared columns only, keysounds are lists, metadata typed. ---- *)
Definition cell_col (v : ytree) : bool := match lane_of v with Some l => 1 <=? l | None => false end.
Definition cell_ks (loose : bool) (v : ytree) : bool :=
  match v with YList l => is_text_list l | YNaN => loose | _ => false end.
Fixpoint listZ_eqb (a b : list Z) : bool :=
  match a, b with [], [] => true | x :: a', y :: b' => (x =? y) && listZ_eqb a' b' | _, _ => false end.
Definition frame_okb (declared : list (Z * (ytree -> bool))) (loose : bool) (f : frame) : bool :=
  nodupZ (f_cols f)
  && forallb (fun c => memZ c (f_cols f)) (map fst declared)
  && forallb (fun c => has_key c declared || (loose && (c =? N_index))) (f_cols f)
  && forallb (fun r => listZ_eqb (map fst r) (f_cols f)
                       && forallb (fun kv => match assoc (fst kv) declared with
                                             | Some p => p (snd kv) | None => is_int (snd kv) end) r) (f_rows f).
Definition hit_decl (loose : bool) := [(N_offset, is_num); (N_column, cell_col); (N_keysounds, cell_ks loose)].
Definition hold_decl (loose : bool) := [(N_offset, is_num); (N_column, cell_col); (N_keysounds, cell_ks loose); (N_length, is_num)].
Definition bpm_decl := [(N_offset, is_num); (N_bpm, is_num); (N_metronome, is_num)].
Definition sv_decl := [(N_offset, is_num); (N_multiplier, is_num)].
Definition tag_okb (v : ytree) : bool :=
  match v with YStr s => negb (memZ 32 s) && match s with [] => false | _ => true end | _ => false end.
Definition meta_okb (loose : bool) (m : list ytree) : bool :=
  all2 (fun kt v =>
          if fst kt =? ref_tags_key then match v with YList l => forallb tag_okb l | _ => false end
          else has_type (snd kt) v
               || (loose && (fst kt =? K_InitialScrollVelocity) && match v with YStr [] => true | _ => false end))
       ref_meta_table m.
Definition wf_chartb (loose : bool) (c : chart) : bool :=
  frame_okb (hit_decl loose) loose (c_hits c) && frame_okb (hold_decl loose) loose (c_holds c)
  && frame_okb bpm_decl loose (c_bpms c) && frame_okb sv_decl loose (c_svs c) && meta_okb loose (c_meta c).

(* ---- the oracles evaluated on the implementation's outputs ---- *)
(* reading: the chart obtained is the chart the document declares *)
Definition read_specb (doc : ytree) (out : option chart) : bool :=
  match out with
  | Some c => match qua_denote doc, chart_denote c with Some e, Some a => den_eqb e a | _, _ => false end
  | None => false
  end.
(* writing: a well-formed document declaring every metadata key and denoting the chart up to < 1 ms *)
Definition write_specb (c : chart) (out : option ytree) : bool :=
  match out with
  | Some d => wf_qua_docb d
              && match qua_denote d, chart_denote c with
                 | Some e, Some a => den_closeb e a && all_declared (d_meta e) | _, _ => false end
  | None => false
  end.
(* write after read: a well-formed document denoting what the source document denotes *)
Definition rw_specb (doc : ytree) (out : option ytree) : bool :=
  match out with
  | Some d => wf_qua_docb d
              && match qua_denote doc, qua_denote d with
                 | Some e, Some a => perm_eqb note_eqb (d_notes e) (d_notes a) && perm_eqb pt_eqb (d_bpms e) (d_bpms a)
                                     && perm_eqb pt_eqb (d_svs e) (d_svs a) && meta_refinesb (d_meta e) (d_meta a)
                                     && all_declared (d_meta a)
                 | _, _ => false end
  | None => false
  end.
(* read after write: the chart read back is the chart written, times moved by < 1 ms *)
Definition wr_specb (c : chart) (out : option chart) : bool :=
  match out with
  | Some c' => match chart_denote c, chart_denote c' with Some e, Some a => den_closeb e a | _, _ => false end
  | None => false
  end.
