(* Text helpers for the BMS model and specification.  Text is a list of code points (Z).
   Definitions only (proofs about them are in Proofs/BMSProofs.v). *)
From Coq Require Import ZArith QArith Qround List Bool.
From RV Require Import Base.PyNum.
Import ListNotations.
Open Scope Z_scope.

Definition text := list Z.

(* compact literals for generated cases: runs of one character are written  R c n *)
Inductive seg := L (l : list Z) | R (c : Z) (n : nat).
Definition tx (l : list seg) : text :=
  flat_map (fun s => match s with L l => l | R c n => repeat c n end) l.

Fixpoint text_eqb (a b : text) : bool :=
  match a, b with
  | [], [] => true
  | x :: a', y :: b' => (x =? y) && text_eqb a' b'
  | _, _ => false
  end.

(* Python slicing t[i:j] for 0 <= i <= j *)
Definition slice (i j : nat) (t : text) : text := firstn (j - i) (skipn i t).

Fixpoint starts_with (p t : text) : bool :=
  match p, t with
  | [], _ => true
  | x :: p', y :: t' => (x =? y) && starts_with p' t'
  | _ :: _, [] => false
  end.

(* ---- whitespace (str.strip(): the ASCII part and the Latin-1/Unicode blanks that shift_jis text can hold) ---- *)
Definition is_space (c : Z) : bool :=
  ((9 <=? c) && (c <=? 13)) || ((28 <=? c) && (c <=? 32)) || (c =? 133) || (c =? 160) || (c =? 12288).
Fixpoint lstrip (t : text) : text :=
  match t with
  | c :: t' => if is_space c then lstrip t' else t
  | [] => []
  end.
Definition strip (t : text) : text := rev (lstrip (rev (lstrip t))).

(* ---- splitting ---- *)
(* t.split(c, 1): (before, Some after) at the first c, or (t, None) *)
Fixpoint split_first (c : Z) (t : text) : text * option text :=
  match t with
  | [] => ([], None)
  | x :: t' =>
      if x =? c then ([], Some t')
      else let '(a, b) := split_first c t' in (x :: a, b)
  end.
(* t.split(c) *)
Fixpoint split_all (c : Z) (t : text) : list text :=
  match t with
  | [] => [[]]
  | x :: t' =>
      match split_all c t' with
      | [] => [[]]                       (* unreachable *)
      | hd :: tl => if x =? c then [] :: hd :: tl else (x :: hd) :: tl
      end
  end.

(* [s[i:i+2] for i in range(0, len(s), 2)] *)
Fixpoint chunks2 (t : text) : list text :=
  match t with
  | [] => []
  | [x] => [[x]]
  | x :: y :: t' => [x; y] :: chunks2 t'
  end.

(* ---- digits ---- *)
Definition is_digit (c : Z) : bool := (48 <=? c) && (c <=? 57).
Definition is_upper (c : Z) : bool := (65 <=? c) && (c <=? 90).
Definition is_lower (c : Z) : bool := (97 <=? c) && (c <=? 122).
Definition upper (c : Z) : Z := if is_lower c then c - 32 else c.

(* value of a base-36 digit (int(s, 36) accepts both cases) *)
Definition b36_val (c : Z) : option Z :=
  if is_digit c then Some (c - 48)
  else if is_upper c then Some (c - 55)
  else if is_lower c then Some (c - 87)
  else None.
Definition hex_val (c : Z) : option Z :=
  match b36_val c with Some v => if v <? 16 then Some v else None | None => None end.
(* numpy.base_repr digit *)
Definition b36_char (v : Z) : Z := if v <? 10 then 48 + v else 55 + v.

(* base_repr(n, 36).zfill(2) for 0 <= n < 1296 *)
Definition b36_pair (n : Z) : text := [b36_char (n / 36); b36_char (n mod 36)].
Definition b36_parse2 (t : text) : option Z :=
  match t with
  | [a; b] => match b36_val a, b36_val b with Some x, Some y => Some (36 * x + y) | _, _ => None end
  | _ => None
  end.
Definition hex_pair (n : Z) : text := [b36_char (n / 16); b36_char (n mod 16)].
Definition hex_parse2 (t : text) : option Z :=
  match t with
  | [a; b] => match hex_val a, hex_val b with Some x, Some y => Some (16 * x + y) | _, _ => None end
  | _ => None
  end.
Definition is_b36_pair (t : text) : bool := match b36_parse2 t with Some _ => true | None => false end.

(* decimal: all characters digits, at least one *)
Fixpoint digits_val (acc : Z) (t : text) : option Z :=
  match t with
  | [] => Some acc
  | c :: t' => if is_digit c then digits_val (10 * acc + (c - 48)) t' else None
  end.
Definition parse_nat (t : text) : option Z :=
  match t with [] => None | _ => digits_val 0 t end.

(* str(n) for n >= 0, by fuel on the number of digits *)
Fixpoint show_nat_go (fuel : nat) (n : Z) (acc : text) : text :=
  match fuel with
  | O => acc
  | S f => let acc' := (48 + n mod 10) :: acc in
           if n / 10 =? 0 then acc' else show_nat_go f (n / 10) acc'
  end.
Definition show_nat (n : Z) : text := show_nat_go (S (Z.to_nat (Z.log2 n))) n [].
Definition zfill (w : nat) (t : text) : text := repeat 48 (w - length t) ++ t.
(* f"{n:03}" for n >= 0 *)
Definition show3 (n : Z) : text := zfill 3 (show_nat n).

(* ---- decimal numbers: float(b"...") / Fraction("...") on  [sign] digits [. digits] [e [sign] digits] ---- *)
Definition pow10 (n : Z) : Z := Z.pow 10 n.
Definition parse_sign (t : text) : bool * text :=
  match t with
  | 45 :: t' => (true, t')
  | 43 :: t' => (false, t')
  | _ => (false, t)
  end.
Definition parse_int_signed (t : text) : option Z :=
  let '(neg, r) := parse_sign t in
  match parse_nat r with Some v => Some (if neg then - v else v) | None => None end.
Definition split_exp (t : text) : text * option text :=
  match split_first 101 t with
  | (a, Some b) => (a, Some b)
  | (_, None) => split_first 69 t
  end.
Definition parse_decimal (t0 : text) : option Q :=
  let t := strip t0 in
  let '(neg, r) := parse_sign t in
  let '(mant, ex) := split_exp r in
  let '(ip, fp) := split_first 46 mant in
  let fpt := match fp with Some f => f | None => [] end in
  match ip, fpt with
  | [], [] => None
  | _, _ =>
    match digits_val 0 ip, digits_val 0 fpt with
    | Some i, Some f =>
        let m := (i * pow10 (Z.of_nat (length fpt)) + f)%Z in
        let base := Qmake (if neg then - m else m) (Z.to_pos (pow10 (Z.of_nat (length fpt)))) in
        match ex with
        | None => Some (Qred base)
        | Some e =>
            match parse_int_signed e with
            | None => None
            | Some ev =>
                if (0 <=? ev)%Z then Some (Qred (base * inject_Z (pow10 ev)))
                else Some (Qred (base / inject_Z (pow10 (- ev))))
            end
        end
    | _, _ => None
    end
  end.

(* ---- f"{x:.Nf}": decimal rounding, ties to even, of an exact rational ---- *)
Definition round_half_even (x : Q) : Z :=
  let f := Qfloor x in
  let r := (x - inject_Z f)%Q in
  if Qlt_bool r (1 # 2) then f
  else if Qlt_bool (1 # 2) r then (f + 1)
  else if Z.even f then f else f + 1.
Definition fmt_fixed (digits : nat) (x : Q) : text :=
  let neg := Qlt_bool x 0 in
  let ax := if neg then Qopp x else x in
  let sc := pow10 (Z.of_nat digits) in
  let n := round_half_even (ax * inject_Z sc)%Q in
  (if neg then [45] else []) ++ show_nat (n / sc) ++ [46] ++ zfill digits (show_nat (n mod sc)).
