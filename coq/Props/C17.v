(* C17 — full-LN generation.  Property theorems only: each is closed by [exact] from Proofs/FullLNProofs.v.

   Model: Algo/FullLN.v (full_ln = full_ln_sorted after the stable sort; full_ln_sorted is everything after the
   sort, for an arbitrary frame s).  Specification: Algo/FullLNSpec.v (Spec, written from the property text).
   Domain: wf_chart (one m.hits that is a HitList, one m.holds that is a HoldList, hits without and holds with a
   length), gap >= 0 where stated.  Whatever other lists the chart has (StepMania mines, rolls, ...) - no guard:
   since commit 2c338d8 of the tree under test only m.hits and m.holds are stacked.  The old stacking by type is
   kept as a clearly named variant (full_ln_old_by_type) only to state what was wrong with it. *)
From Coq Require Import ZArith List Bool Permutation Sorted.
From RV Require Import Algo.FullLN Algo.FullLNSpec Proofs.FullLNProofs.
From RV Require Corr.RunC17.
Import ListNotations.
Open Scope Z_scope.

(* The result satisfies the per-column rule, whatever sorted order the (unstable) sort returns for tied notes:
   one output per input note at the same time and column, every note but the last of its column filled by the
   gap/threshold rule, the last kept with kind and length, tempo and other lists unchanged. *)
Theorem C17_full_ln_spec : forall m s gap thr m',
  wf_chart m = true ->
  Permutation s (stacked m) -> SortedOff s ->
  full_ln_sorted m s gap thr = Some m' -> Spec m gap thr m'.
Proof. exact full_ln_sorted_spec. Qed.

(* ... in particular for the model's own stable sort *)
Theorem C17_full_ln_spec_stable : forall m gap thr m',
  wf_chart m = true -> full_ln m gap thr = Some m' -> Spec m gap thr m'.
Proof. exact full_ln_spec. Qed.

(* the operation does not fail *)
Theorem C17_full_ln_defined : forall m s gap thr,
  wf_chart m = true -> exists m', full_ln_sorted m s gap thr = Some m'.
Proof. exact full_ln_sorted_defined. Qed.

(* note count: the multiset of (column, time) is preserved *)
Theorem C17_full_ln_count : forall m s gap thr m',
  wf_chart m = true -> Permutation s (stacked m) -> SortedOff s ->
  full_ln_sorted m s gap thr = Some m' -> CountKept (chart_notes m) (chart_notes m').
Proof. exact full_ln_sorted_count. Qed.

(* no hold of the result passes a later note of its column *)
Theorem C17_full_ln_no_overlap : forall m s gap thr m',
  wf_chart m = true -> 0 <= gap -> Permutation s (stacked m) -> SortedOff s ->
  full_ln_sorted m s gap thr = Some m' -> NoOverlap (chart_notes m) (chart_notes m').
Proof. exact full_ln_sorted_no_overlap. Qed.

(* in every non-empty column some note at the greatest time is in the result unchanged *)
Theorem C17_full_ln_last_kept : forall m s gap thr m',
  wf_chart m = true -> Permutation s (stacked m) -> SortedOff s ->
  full_ln_sorted m s gap thr = Some m' -> LastKept (chart_notes m) (chart_notes m').
Proof. exact full_ln_sorted_last_kept. Qed.

(* the boolean oracle evaluated on implementation outputs is sound for the specification and its consequences *)
Theorem C17_specb_sound : forall m gap thr o, specb m gap thr o = true -> SpecO m gap thr o.
Proof. exact specb_sound. Qed.

(* ... and complete: the oracle decides the specification, so a `false` on an implementation output is a genuine
   counter-example to the property's statement *)
Theorem C17_specb_decides : forall m gap thr o, specb m gap thr o = true <-> SpecO m gap thr o.
Proof. exact specb_decides. Qed.

Theorem C17_specb_consequences : forall m gap thr m',
  specb m gap thr (Some m') = true -> 0 <= gap ->
  Spec m gap thr m' /\ CountKept (chart_notes m) (chart_notes m') /\
  NoOverlap (chart_notes m) (chart_notes m') /\ LastKept (chart_notes m) (chart_notes m').
Proof. exact specb_consequences. Qed.

(* the specification alone implies the three consequences (used for both model and implementation outputs) *)
Theorem C17_spec_count : forall gap thr I O, NotesSpec gap thr I O -> CountKept I O.
Proof. exact count_of_spec. Qed.
Theorem C17_spec_no_overlap : forall gap thr I O, 0 <= gap -> NotesSpec gap thr I O -> NoOverlap I O.
Proof. exact no_overlap_of_spec. Qed.
Theorem C17_spec_last_kept : forall gap thr I O, NotesSpec gap thr I O -> LastKept I O.
Proof. exact last_kept_of_spec. Qed.

(* Agreement under the correspondence relation evaluated on every run (Corr/RunC17.v: equal to the model's output as
   multisets of rows for some admissible order of tied notes, other lists and layout equal) transfers the theorem
   to the implementation's output. *)
Theorem C17_corr_transfers : forall m gap thr out,
  wf_chart m = true -> RunC17.corr m gap thr out = true -> SpecO m gap thr out.
Proof. exact corr_transfers. Qed.

(* ---- the OLD variant (stacking by type, before the repair) does not conserve the note count: a StepMania chart with
   one hit and one mine gives 2 notes in hits/holds plus the mine; the current model satisfies the oracle on it *)
Theorem C17_old_by_type_count_refuted :
  exists m gap thr m', wf_chart m = true /\ 0 <= gap /\ 0 <= thr /\
    full_ln_old_by_type m gap thr = Some m' /\ ~ CountKept (chart_notes m) (chart_notes m').
Proof. exact old_by_type_count_refuted. Qed.

Theorem C17_sm_witness_now_ok :
  wf_chart sm_witness = true /\ specb sm_witness 150 100 (full_ln sm_witness 150 100) = true.
Proof. exact sm_witness_now_ok. Qed.

(* ---- non-vacuity: a chart inside the domain on which every branch is taken (hold generated, hit generated,
   tie at equal time, last hold kept, last hit kept, single-note column, other lists - also a HitList subclass - carried over) *)
Example C17_nonvacuous :
  let m := [ mkTL SOther CHit [mkNote 0 200 None] [9];      (* e.g. StepMania mines: left alone *)
             mkTL SOther CNone [] [7; 8];
             mkTL SHits CHit [mkNote 0 0 None; mkNote 0 1000 None; mkNote 2 300 None; mkNote 0 400 None] [];
             mkTL SHolds CHold [mkNote 0 400 (Some 50); mkNote 1 0 (Some 10); mkNote 1 700 (Some 2000)] [] ] in
  wf_chart m = true /\
  full_ln m 150 100 =
    Some [ mkTL SOther CHit [mkNote 0 200 None] [9];
           mkTL SOther CNone [] [7; 8];
           mkTL SHits CHit [mkNote 0 400 None; mkNote 0 1000 None; mkNote 2 300 None] [];
           mkTL SHolds CHold [mkNote 0 0 (Some 250); mkNote 0 400 (Some 450); mkNote 1 0 (Some 550);
                                    mkNote 1 700 (Some 2000)] [] ] /\
  specb m 150 100 (full_ln m 150 100) = true.
Proof. vm_compute. repeat split; reflexivity. Qed.
