(* C20 - pattern grouping and combinations.  Property theorems only: each is closed by [exact] from
   Proofs/PatternProofs.v (finite witnesses by vm_compute there). *)
From Coq Require Import ZArith List Bool Permutation Sorted.
From RV Require Import Algo.PtnFilter Algo.Pattern Algo.PatternSpec Proofs.PatternProofs.
Import ListNotations.
Open Scope Z_scope.

(* Pattern(...) / Pattern.from_note_lists(...): the pattern holds every note of every list, one tail per
   hold when tails are requested, ordered by time. *)
Theorem C20_pattern_rows : forall nls tails,
  init_spec (expected_rows nls tails) (from_note_lists nls tails).
Proof. exact from_note_lists_spec. Qed.

(* group() succeeds for every v >= 0 and h in {None, 0, 1, ...} *)
Theorem C20_group_defined : forall df v h aj,
  0 <= v -> match h with None => True | Some hw => 0 <= hw end -> exists gs, group df v h aj = Some gs.
Proof. exact group_defined. Qed.

(* every note lies in exactly one group (as a multiset of rows) *)
Theorem C20_group_partition : forall df v h aj gs,
  StronglySorted by_off df -> group df v h aj = Some gs -> Permutation (concat gs) df.
Proof. exact group_partition. Qed.

(* every group has a first note, and all its times / columns lie in the vertical / horizontal window of it *)
Theorem C20_group_windows : forall df v h aj gs g,
  StronglySorted by_off df -> group df v h aj = Some gs -> In g gs ->
  exists r0 rest, g = r0 :: rest /\
    Forall (fun r => noff r0 <= noff r <= noff r0 + v /\
                     match h with None => True | Some hw => Z.abs (ncol r - ncol r0) <= hw end) g.
Proof. exact group_windows. Qed.

(* no column repeats inside a group when jacks are avoided *)
Theorem C20_group_no_jack : forall df v h gs g,
  StronglySorted by_off df -> group df v h true = Some gs -> In g gs -> NoDup (map ncol g).
Proof. exact group_no_jack. Qed.

(* the three facts together, in the form the oracle checks *)
Theorem C20_group_spec : forall df v h aj gs,
  StronglySorted by_off df -> group df v h aj = Some gs -> group_spec df v h aj gs.
Proof. exact group_spec_holds. Qed.

(* the boolean oracles evaluated on implementation outputs decide the specification *)
Theorem C20_group_oracle : forall df v h aj gs, group_specb df v h aj gs = true <-> group_spec df v h aj gs.
Proof. exact group_specb_iff. Qed.
Theorem C20_init_oracle : forall rows df, init_specb rows df = true <-> init_spec rows df.
Proof. exact init_specb_iff. Qed.
Theorem C20_combos_oracle : forall groups size ms2 cf kf tf out,
  combos_specb groups size ms2 cf kf tf out = true <-> combos_spec groups size ms2 cf kf tf out.
Proof. exact combos_specb_iff. Qed.

(* THE property for combinations: inside the domain (size >= 2; filter rows as wide as the combination; with a
   column filter: keys >= 1 and all columns of the pattern and of the filter within 0..keys-1), for every
   chord-size, column and type filter, combinations() succeeds and reports exactly the allowed sequences -
   as a multiset: none missing, none extra (consecutive pairs of them with make_size2). *)
Theorem C20_combos_exact : forall groups size ms2 cf kf tf,
  wf_combos groups size cf kf tf = true ->
  exists out, combinations groups size ms2 cf kf tf = Some out /\ combos_spec groups size ms2 cf kf tf out.
Proof. exact combos_exact. Qed.

(* The two templates, for all groups whose columns lie in 0..keys-1 (keys >= 1): template_jacks reports exactly
   the jacks of the requested length (same column, no hold tail), template_chord_stream exactly the pairs from
   consecutive chords of the requested sizes (not in one column unless include_jack, no hold tail), as pairs. *)
Theorem C20_template_jacks_exact : forall groups minlen keys,
  2 <= minlen -> cols_within keys groups ->
  exists out, template_jacks groups minlen keys = Some out /\ jacks_spec groups (Z.to_nat minlen) keys out.
Proof. exact template_jacks_exact. Qed.

Theorem C20_template_chord_stream_exact : forall groups p s keys al ij,
  (ij = false -> cols_within keys groups) ->
  exists out, template_chord_stream groups p s keys al ij = Some out /\
              chord_stream_spec groups p s keys al ij out.
Proof. exact template_chord_stream_exact. Qed.

(* History: before commit 1bc6769 PtnFilterChord.filter was numpy's element-wise `data in self.ar`.  Of that
   OLD variant of the model the statement is FALSE (witness: chord sizes (2,1) let through by [[2,2]]), also
   through the chord-stream template; what it computed instead is characterised exactly. *)
Theorem C20_combos_old_exact_refuted :
  exists df v h aj gs size cf out,
    StronglySorted by_off df /\ group df v h aj = Some gs /\
    wf_combos gs size (Some cf) None None = true /\
    chord_create (In2 2 [[2; 2]]) 4 0 false = Some cf /\
    combinations_old gs size false (Some cf) None None = Some out /\
    ~ combos_spec gs size false (Some cf) None None out.
Proof. exact combos_old_exact_refuted. Qed.

Theorem C20_chord_stream_old_refuted :
  exists gs out,
    template_chord_stream_old gs 2 2 4 false true = Some out /\ ~ chord_stream_spec gs 2 2 4 false true out.
Proof. exact chord_stream_old_refuted. Qed.

Theorem C20_combos_old_char : forall groups size ms2 cf kf tf,
  wf_combos groups size cf kf tf = true ->
  exists out, combinations_old groups size ms2 cf kf tf = Some out /\
              Permutation (concat out) (reported ms2 (passed_seqs (chord_passes cf) groups size kf tf)).
Proof. exact combos_old_char. Qed.

(* the expected list read declaratively *)
Theorem C20_allowed_seqs_meaning : forall groups size cf kf tf s,
  In s (allowed_seqs groups size cf kf tf) <->
  exists chunk, In chunk (windows size groups) /\ chord_allowed cf chunk = true /\
              Forall2 (@In note) s chunk /\ cols_allowed kf s = true /\ types_allowed tf s = true.
Proof. exact allowed_seqs_In. Qed.

(* ---- the filter constructors' option expansion ---- *)
(* np.unique keeps exactly the rows built; REPEAT = every translate of a base row that stays within 0..keys-1 *)
Theorem C20_filter_create_repeat : forall keys rows out,
  repeat_expand keys rows = Some out -> forall r, In r out <-> repeat_rows keys rows r.
Proof. exact repeat_expand_In. Qed.
Theorem C20_filter_create_hmirror : forall keys rows r, In r (hmirror keys rows) <-> hmirror_rows keys rows r.
Proof. exact hmirror_In. Qed.
Theorem C20_filter_create_vmirror : forall rows r, In r (@vmirror Z rows) <-> vmirror_rows rows r.
Proof. exact (@vmirror_In Z). Qed.
Theorem C20_filter_create_type_mirror : forall rows r, In r (@vmirror ntype rows) <-> vmirror_rows rows r.
Proof. exact (@vmirror_In ntype). Qed.
Theorem C20_filter_create_any_order : forall rows r, In r (flat_map (@perms Z) rows) <-> any_order_rows rows r.
Proof. exact (@any_order_In Z). Qed.
Theorem C20_filter_create_type_any_order : forall rows r, In r (flat_map (@perms ntype) rows) <-> any_order_rows rows r.
Proof. exact (@any_order_In ntype). Qed.
Theorem C20_filter_create_and_lower : forall rows r,
  In r (rows ++ cart (map (fun i => zrange 1 (i + 1)) (colwise Z.max rows))) <-> and_lower_rows rows r.
Proof. exact and_lower_In. Qed.
Theorem C20_filter_create_and_higher : forall keys rows r,
  In r (rows ++ cart (map (fun i => zrange i (keys + 1)) (colwise Z.min rows))) <-> and_higher_rows keys rows r.
Proof. exact and_higher_In. Qed.

(* how the constructors compose them *)
Theorem C20_combo_create : forall w rows keys options excl f,
  combo_create (In2 w rows) keys options excl = Some f ->
  f_w f = w /\ f_keys f = keys /\ f_inv f = excl /\
  exists rows1,
    (if Z.testbit options 0 then forall r, In r rows1 <-> repeat_rows keys rows r else rows1 = rows) /\
    forall r, In r (f_ar f) <->
      In r (let rows2 := if Z.testbit options 1 then hmirror keys rows1 else rows1 in
            if Z.testbit options 2 then vmirror rows2 else rows2).
Proof. exact combo_create_rows. Qed.
Theorem C20_chord_create : forall w rows keys options excl f,
  chord_create (In2 w rows) keys options excl = Some f ->
  f_w f = w /\ f_inv f = excl /\
  forall r, In r (f_ar f) <->
    In r (let rows1 := if Z.testbit options 2
                       then rows ++ cart (map (fun i => zrange i (keys + 1)) (colwise Z.min rows)) else rows in
          let rows2 := if Z.testbit options 1
                       then rows1 ++ cart (map (fun i => zrange 1 (i + 1)) (colwise Z.max rows1)) else rows1 in
          if Z.testbit options 0 then flat_map perms rows2 else rows2).
Proof. exact chord_create_rows. Qed.
Theorem C20_type_create : forall w rows options excl f,
  type_create (In2 w rows) options excl = Some f ->
  t_w f = w /\ t_inv f = excl /\
  forall r, In r (t_ar f) <->
    In r (if Z.testbit options 0 then flat_map perms rows
          else if Z.testbit options 1 then vmirror rows else rows).
Proof. exact type_create_rows. Qed.

(* non-vacuity: the eight-note pattern of the test-suite (with a hold and its tail), v = 100, jacks avoided,
   groups into three groups that satisfy the specification, and its size-3 combinations under a column
   filter and a type filter are exactly the allowed ones *)
Example C20_nonvacuous :
  let df := [mkN 0 0 THit; mkN 1 0 THit; mkN 1 100 THit; mkN 2 100 THold; mkN 2 200 TTail; mkN 3 200 THit; mkN 2 300 THit] in
  let kf := mkNF 3 [[1; 2; 2]] 4 false in
  let tf := mkTF 3 [[TTail; TObject; TObject]] true in
  match group df 100 None true with
  | Some gs => (length gs =? 3)%nat && group_specb df 100 None true gs && wf_combos gs 3 None (Some kf) (Some tf)
               && match combinations gs 3 false None (Some kf) (Some tf) with
                  | Some out => negb (length (concat out) =? 0)%nat && combos_specb gs 3 false None (Some kf) (Some tf) out
                  | None => false end
  | None => false
  end = true.
Proof. vm_compute. reflexivity. Qed.
