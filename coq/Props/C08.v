(* C08 — converters.  Property theorems only. *)
From Coq Require Import ZArith QArith Qround List Bool.
From RV Require Import Base.PyNum Frame.Frame Convert.Cast Map.StackerSpec Proofs.CastProofs.
Import ListNotations.
Open Scope Q_scope.

(* ConvertBase.cast, for EVERY source frame (any row labels, any row order - i.e. whatever history produced the
   source): the target has exactly the declared fields, one row per source row with fresh labels, every mapped column
   is the source column copied by position (so nothing is missing), every other field has its declared default. *)
Theorem C08_cast_exact : forall src declared defaults mapping,
  nodupb declared = true -> length defaults = length declared ->
  nodupb (targets mapping) = true ->
  (forall t s, In (t, s) mapping -> existsb (Z.eqb t) declared = true /\ source_ok src s) ->
  exists out, cast src declared defaults mapping = Some out
    /\ fcols out = declared
    /\ nrows out = nrows src
    /\ labels out = map (fun i => Z.of_nat i) (seq 0 (nrows src))
    /\ (forall t s, In (t, s) mapping -> col_vals out t = source_vals src s)
    /\ (forall d i, col_index d declared = Some i -> existsb (Z.eqb d) (targets mapping) = false ->
          col_vals out d = Some (repeat (nth i defaults CNaN) (nrows src))).
Proof. exact cast_exact. Qed.

(* the converted values depend on the source's rows only, never on its labels *)
Theorem C08_labels_irrelevant : forall f g c, fcols f = fcols g -> abs_rows f = abs_rows g -> col_vals f c = col_vals g c.
Proof. exact col_vals_abs. Qed.

(* non-vacuity: a source with labels 4,5 (as left by a filter) and an extra game-specific field; target with a list default *)
Example C08_example :
  let src := mkFrame [0; 1; 99]%Z [(4%Z, [CNum 1000; CNum 2; CStr 7]); (5%Z, [CNum 2000; CNum 3; CStr 8])] in
  match cast src [0; 1; 50]%Z [CNum 0; CNum 0; CList []] [(0, FromCol 0); (1, FromCol 1)]%Z with
  | Some out => cast_specb src [0; 1; 50]%Z [CNum 0; CNum 0; CList []] [(0, FromCol 0); (1, FromCol 1)]%Z out = true
                /\ labels out = [0; 1]%Z
  | None => False
  end.
Proof. vm_compute. split; reflexivity. Qed.
