(* C08 — converters.  Property theorems only. *)
From Coq Require Import String ZArith QArith Qround List Bool.
From RV Require Import Base.PyNum Frame.Frame Convert.Cast Map.StackerSpec Proofs.CastProofs.
From RV Require Import Generated.Tables Convert.Converters Proofs.ConvertersProofs.
Import ListNotations.
Open Scope Q_scope.

(* ConvertBase.cast, for EVERY source frame (any row labels, any row order - i.e. whatever history produced the
   source): the target has exactly the declared fields, one row per source row with fresh labels, every mapped column
   is the source column copied by position (so nothing is missing), every other field has its declared default. *)
Theorem C08_cast_exact : forall src declared defaults mapping,
  nodupb declared = true -> length defaults = length declared ->
  nodupb (targets mapping) = true ->
  (forall t s, In (t, s) mapping -> existsb (Z.eqb t) declared = true /\ source_ok src s) ->
  exists out, cast src declared defaults mapping = Some out
    /\ fcols out = declared
    /\ nrows out = nrows src
    /\ labels out = map (fun i => Z.of_nat i) (seq 0 (nrows src))
    /\ (forall t s, In (t, s) mapping -> col_vals out t = source_vals src s)
    /\ (forall d i, col_index d declared = Some i -> existsb (Z.eqb d) (targets mapping) = false ->
          col_vals out d = Some (repeat (nth i defaults CNaN) (nrows src))).
Proof. exact cast_exact. Qed.

(* the converted values depend on the source's rows only, never on its labels *)
Theorem C08_labels_irrelevant : forall f g c, fcols f = fcols g -> abs_rows f = abs_rows g -> col_vals f c = col_vals g c.
Proof. exact col_vals_abs. Qed.

(* non-vacuity: a source with labels 4,5 (as left by a filter) and an extra game-specific field; target with a list default *)
Example C08_example :
  let src := mkFrame [0; 1; 99]%Z [(4%Z, [CNum 1000; CNum 2; CStr 7]); (5%Z, [CNum 2000; CNum 3; CStr 8])] in
  match cast src [0; 1; 50]%Z [CNum 0; CNum 0; CList []] [(0, FromCol 0); (1, FromCol 1)]%Z with
  | Some out => cast_specb src [0; 1; 50]%Z [CNum 0; CNum 0; CList []] [(0, FromCol 0); (1, FromCol 1)]%Z out = true
                /\ labels out = [0; 1]%Z
  | None => False
  end.
Proof. vm_compute. split; reflexivity. Qed.

(* ------------------------------------------------------------------------------------------------------------------
   The 16 converters and convert_merge.  Their DESCRIPTIONS (Tables.convert.converters) are regenerated from the
   Python source of the tree under test on every run; `conv_chart` / `conv_run` (Convert/Converters.v) give them
   meaning through `cast`; `conv_okb` is the boolean well-formedness check of a description. *)

(* Every description that passes conv_okb, applied to ANY source chart of its domain (chart_wfb: the source class's
   lists are there with their declared columns and nothing missing in them - row labels, row order, extra columns and
   therefore the history that produced the chart are arbitrary; the metadata expressions evaluate), yields a target
   chart in which (chart_preserved):
   - hits, holds, tempo points and - when both games have them - scroll velocities have one row per source row and,
     row by row in the source's order, the source's offset / column / length / bpm / multiplier, the note column moved
     only by the explicit shift argument of the converters that have one;
   - the lists are exactly the target chart class's lists with exactly its declared columns;
   - no value is missing in a column declared with a default other than NaN;
   - every metadata assignment took effect, and the target's title / artist / creator / difficulty-name attribute
     holds the text of the source's (re-encoded for BMS bytes, inside "Level <n>" for O2Jam levels, ...). *)
Theorem C08_converter_preserves : forall d a sm k src oracle,
  conv_okb d = true -> chart_wfb d a sm k src oracle = true ->
  exists out, conv_chart d a sm k src oracle = Some out /\ chart_preserved d a sm k src oracle out.
Proof. exact conv_chart_preserves. Qed.

(* mapsets: one target chart per source chart, in order, each related to its source chart as above *)
Theorem C08_one_chart_per_source_chart : forall d a src oracle,
  conv_okb d = true -> srcset_wfb d a src oracle = true ->
  exists outs, conv_run d a src oracle = Some outs
    /\ length outs = length (ss_charts src)
    /\ forall i c, nth_error (ss_charts src) i = Some c ->
         exists out, nth_error outs i = Some out
           /\ conv_chart d a (ss_meta src) i c (nth i oracle empty_chart) = Some out
           /\ chart_preserved d a (ss_meta src) i c (nth i oracle empty_chart) out.
Proof. exact conv_run_one_per_chart. Qed.

(* whatever operations produced the source: two source charts with the same rows (labels differ) convert identically *)
Theorem C08_converter_labels_irrelevant : forall d a sm k c c' oracle,
  same_rows c c' -> conv_chart d a sm k c oracle = conv_chart d a sm k c' oracle.
Proof. exact conv_chart_labels_irrelevant. Qed.

(* THE OBLIGATION RE-CHECKED AGAINST THE CODE ON EVERY RUN: every converter found in the tree passes conv_okb ... *)
Theorem C08_all_shipped_converters_ok :
  forallb (fun p => conv_okb (snd p)) Tables.convert.converters = true.
Proof. exact shipped_ok. Qed.
(* ... they are the 16 converters and convert_merge ... *)
Theorem C08_all_converters_listed :
  map (fun p => cd_name (snd p)) Tables.convert.converters
  = ["BMSToOsu"; "BMSToQua"; "BMSToSM"; "O2JToBMS"; "O2JToOsu"; "O2JToQua"; "O2JToSM"; "O2JToSM.merge"; "OsuToBMS";
     "OsuToQua"; "OsuToSM"; "QuaToBMS"; "QuaToOsu"; "QuaToSM"; "SMToBMS"; "SMToOsu"; "SMToQua"]%string.
Proof. vm_compute. reflexivity. Qed.
(* ... the translator's name tables agree with the reference constants of the specification ... *)
Theorem C08_names_agree :
  names_agreeb reference_field_names Tables.convert.field_names
  && names_agreeb reference_list_names Tables.convert.list_names
  && names_agreeb reference_column_names Tables.convert.column_names = true.
Proof. vm_compute. reflexivity. Qed.
(* ... hence the theorem holds of each of them *)
Theorem C08_shipped_converter_preserves : forall n d a src oracle,
  In (n, d) Tables.convert.converters -> srcset_wfb d a src oracle = true ->
  exists outs, conv_run d a src oracle = Some outs
    /\ length outs = length (ss_charts src)
    /\ forall i c, nth_error (ss_charts src) i = Some c ->
         exists out, nth_error outs i = Some out
           /\ chart_preserved d a (ss_meta src) i c (nth i oracle empty_chart) out.
Proof. exact shipped_preserves. Qed.

(* non-vacuity: a hand-written description of the shape of QuaToBMS (three casts, the shift, encoded title) applied to
   a source whose hits carry labels 4,5 (as left by a filter), are out of time order and have an extra field 99 *)
Definition example_desc : conv_desc :=
  mkConv "Example" G_QUA G_BMS ShOne false true false
    [(L_HITS, [0; 1]%Z); (L_HOLDS, [0; 1; 2]%Z); (L_BPMS, [0; 3]%Z)]
    [(L_HITS, ([0; 1; 50]%Z, [RNum 0; RNum 0; RNum 0])); (L_HOLDS, ([0; 1; 2]%Z, [RNum 0; RNum 0; RNum 0]));
     (L_BPMS, ([0; 3; 4]%Z, [RNum 0; RNum 0; RNum 4]))]
    [F_TITLE; F_ARTIST; F_DIFFICULTY_NAME] [] [F_TITLE; F_ARTIST; F_VERSION] []
    []
    [SCast L_HITS L_HITS [0; 1; 50]%Z [RNum 0; RNum 0; RNum 0] [(0%Z, FromColumn 0%Z); (1%Z, FromColumn 1%Z)];
     SCast L_HOLDS L_HOLDS [0; 1; 2]%Z [RNum 0; RNum 0; RNum 0] [(0%Z, FromColumn 0%Z); (1%Z, FromColumn 1%Z); (2%Z, FromColumn 2%Z)];
     SCast L_BPMS L_BPMS [0; 3; 4]%Z [RNum 0; RNum 0; RNum 4] [(0%Z, FromColumn 0%Z); (3%Z, FromColumn 3%Z)];
     SShift;
     SMeta false F_TITLE (EEncodeSjis (EAttr false F_TITLE));
     SMeta false F_ARTIST (EEncodeSjis (EAttr false F_ARTIST));
     SMeta false F_VERSION (EEncodeSjis (EAttr false F_DIFFICULTY_NAME))]
    [].
Example C08_converter_example :
  let src := mkChart
    [(L_HITS, mkFrame [0; 1; 99]%Z [(4%Z, [CNum 2000; CNum 3; CStr 7]); (5%Z, [CNum 1000; CNum 2; CStr 8])]);
     (L_HOLDS, mkFrame [0; 1; 2]%Z [(0%Z, [CNum 500; CNum 0; CNum 250])]);
     (L_BPMS, mkFrame [0; 3; 4]%Z [(9%Z, [CNum 0; CNum 120; CNum 4])])]
    [((false, F_TITLE), MText [65; 66]%Z); ((false, F_ARTIST), MText [67]%Z); ((false, F_DIFFICULTY_NAME), MText [72; 68]%Z)] in
  let a := mkArgs 1 false [] in
  conv_okb example_desc = true /\ chart_wfb example_desc a [] 0 src empty_chart = true
  /\ conv_chart example_desc a [] 0 src empty_chart
     = Some (mkChart
         [(L_HITS, mkFrame [0; 1; 50]%Z [(0%Z, [CNum 2000; CNum 4; CNum 0]); (1%Z, [CNum 1000; CNum 3; CNum 0])]);
          (L_HOLDS, mkFrame [0; 1; 2]%Z [(0%Z, [CNum 500; CNum 1; CNum 250])]);
          (L_BPMS, mkFrame [0; 3; 4]%Z [(0%Z, [CNum 0; CNum 120; CNum 4])])]
         [((false, F_VERSION), MBytes [72; 68]%Z); ((false, F_ARTIST), MBytes [67]%Z); ((false, F_TITLE), MBytes [65; 66]%Z)]).
Proof. vm_compute. repeat split; reflexivity. Qed.
