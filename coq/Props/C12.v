(* C12 — stacking writes through.  Property theorems only. *)
From Coq Require Import ZArith QArith Qround List Bool.
From RV Require Import Base.PyNum Frame.Frame Map.Stacker Map.StackerSpec Proofs.StackerProofs Proofs.StackerHistory.
Import ListNotations.
Open Scope Q_scope.

(* stack() of any well-formed lists (any contents, empty lists, any columns) yields a coherent stacker:
   its copy restricted to each list's columns is that list *)
Theorem C12_stack_coherent : forall ls, forallb wf_ulist ls = true -> coherentP ls (st_rows (stack_init ls)).
Proof. exact stack_init_coherent. Qed.

(* an edit through a coherent stack (whole column or conditional selection, scalar or per-row operand,
   = + - * /) leaves the lists exactly as the same assignment applied to each list separately *)
Theorem C12_edit_is_per_list : forall ls rows op,
  forallb wf_ulist ls = true -> coherentP ls rows ->
  snd (stack_step ls (mkStacker (map (fun u => length (u_rows u)) ls) rows) op) = per_list op ls.
Proof. exact stack_step_refines. Qed.

(* ... and coherence is an invariant, so the statement extends to every sequence of stack operations *)
Theorem C12_coherence_preserved : forall ls rows op,
  length rows = fold_right (fun u n => (length (u_rows u) + n)%nat) O ls ->
  let st' := stack_apply op (mkStacker (map (fun u => length (u_rows u)) ls) rows) in
  coherentP (unstack ls (st_rows st')) (st_rows st').
Proof. exact coherence_preserved. Qed.

(* every history: ONE stacker taken from any well-formed lists, ANY sequence of edits through it (each edit writes
   back into the lists): the lists end up exactly as the same edits applied to each list separately ... *)
Theorem C12_history_is_per_list : forall ls ops,
  forallb wf_ulist ls = true ->
  fst (run_stack ls (st_rows (stack_init ls)) ops) = per_list_all ops ls.
Proof. exact stack_history. Qed.

(* ... the stacker's copy agrees with the lists at every point of the history ... *)
Theorem C12_history_coherent : forall ls ops,
  forallb wf_ulist ls = true ->
  coherentP (fst (run_stack ls (st_rows (stack_init ls)) ops)) (snd (run_stack ls (st_rows (stack_init ls)) ops)).
Proof. exact stack_history_coherent. Qed.

(* ... and no history changes the columns or the length of any list *)
Theorem C12_history_shape_kept : forall ops ls,
  map u_cols (per_list_all ops ls) = map u_cols ls /\
  map (fun u => length (u_rows u)) (per_list_all ops ls) = map (fun u => length (u_rows u)) ls.
Proof. exact per_list_all_shape. Qed.

(* outside the statement (one stack, edits through it): a SECOND stacker taken before the first one's edit writes its
   stale copy back - the property text scopes the guarantee to edits through a coherent stack *)
Example C12_stale_second_stacker :
  let ls := [mkUlist [0]%Z [[CNum 10]]] in
  let s2 := st_rows (stack_init ls) in
  let ls1 := fst (run_stack ls (st_rows (stack_init ls)) [SAssign 0 AMul (OScalar 2)]) in
  fst (run_stack ls1 s2 [SAssign 0 AAdd (OScalar 1)]) = [mkUlist [0]%Z [[CNum 11]]]
  /\ per_list_all [SAssign 0 AMul (OScalar 2); SAssign 0 AAdd (OScalar 1)] ls = [mkUlist [0]%Z [[CNum 21]]].
Proof. exact second_stacker_is_stale. Qed.

(* nothing else changes: list lengths and columns are kept ... *)
Theorem C12_shape_kept : forall op ls,
  map u_cols (per_list op ls) = map u_cols ls /\
  map (fun u => length (u_rows u)) (per_list op ls) = map (fun u => length (u_rows u)) ls.
Proof. exact per_list_shape. Qed.

(* ... a list that lacks the property is untouched ... *)
Theorem C12_lacking_untouched : forall cols k o rows vs d sc,
  notin k cols -> list_assign cols k o rows vs d sc = rows.
Proof. exact list_assign_notin. Qed.

(* ... and so are the rows a conditional assignment does not select *)
Theorem C12_unselected_untouched : forall cols keys o v rows m,
  forallb negb m = true -> list_loc cols m keys o v rows = rows.
Proof. exact list_loc_false. Qed.

(* non-vacuity: a chart with hits and a tempo list; doubling offsets through the stack *)
Example C12_example :
  let hits := mkUlist [0; 1]%Z [[CNum 1000; CNum 1]; [CNum 2000; CNum 2]] in
  let bpms := mkUlist [0; 3]%Z [[CNum 0; CNum 120]] in
  let ls := [hits; bpms] in
  forallb wf_ulist ls = true /\
  snd (stack_step ls (stack_init ls) (SAssign 0 AMul (OScalar 2)))
  = [mkUlist [0; 1]%Z [[CNum 2000; CNum 1]; [CNum 4000; CNum 2]]; mkUlist [0; 3]%Z [[CNum 0; CNum 120]]].
Proof. vm_compute. split; reflexivity. Qed.
