(* C16 — timed lists behave like ordered collections of their rows.  Property theorems only. *)
From Coq Require Import ZArith QArith Qround List Bool Sorting.Permutation.
From RV Require Import Base.PyNum Frame.Frame Lists.TimedList Lists.SeqSpec Proofs.TimedListProofs Corr.RunC16 Proofs.CtorProofs.
Import ListNotations.
Open Scope Q_scope.

(* One step, every list kind, EVERY frame state (any labels, any row order, duplicates, NaN cells):
   what the list operation returns is what the same operation on the plain sequence of rows returns
   (sorting: some permutation sorted by offset; labels never matter). *)
Theorem C16_step_refines : forall hold allowed f o,
  refines (fcols f) (seq_step hold allowed (fcols f) (abs_rows f) o) (tl_step hold allowed f o).
Proof. exact step_refines. Qed.

(* Every finite history of operations: each step refines the sequence semantics of the state it starts from. *)
Theorem C16_history_refines : forall hold allowed ops f, history_refines hold allowed f ops.
Proof. exact history_refines_all. Qed.

(* sorting returns a permutation of the rows that is sorted by offset *)
Theorem C16_sorted : forall asc f,
  Permutation (abs_rows f) (abs_rows (sort_values COL_OFFSET asc f))
  /\ sorted_prop (fcols f) asc (abs_rows (sort_values COL_OFFSET asc f))
  /\ fcols (sort_values COL_OFFSET asc f) = fcols f.
Proof. exact sort_values_refines. Qed.

(* a list built from items, from a dict, as an empty list of n rows or from nothing has exactly the declared fields
   (and empty(n) has n rows of the declared defaults) - for every list class (declared fields and defaults are parameters
   regenerated from the live classes and fed to the runner per case) *)
Theorem C16_constructors_declared_fields : forall kind declared defaults n items,
  ctor_spec kind declared defaults n items (ctor_model kind declared defaults n items) = true.
Proof. exact ctor_model_meets_spec. Qed.

(* non-vacuity: a concrete hold list with ties, non-default labels; inclusive flag matters *)
Example C16_example :
  let f := mkFrame [0; 1; 2]%Z [(5%Z, [CNum 1000; CNum 2; CNum 250]); (3%Z, [CNum 500; CNum 0; CNum 500]); (9%Z, [CNum 1000; CNum 1; CNum 0])] in
  meets (fcols f) (seq_step true [0; 1; 2]%Z (fcols f) (abs_rows f) (OHAfter 1000 true true))
        (tl_step true [0; 1; 2]%Z f (OHAfter 1000 true true)) = true
  /\ nrows (next_state f (tl_step true [0; 1; 2]%Z f (OHAfter 1000 true true))) = 3%nat
  /\ nrows (next_state f (tl_step true [0; 1; 2]%Z f (OHAfter 1000 false true))) = 1%nat.
Proof. vm_compute. repeat split; reflexivity. Qed.
