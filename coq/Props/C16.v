(* C16 — timed lists behave like sequences of rows.  Property theorems only. *)
From Coq Require Import ZArith QArith Qround List Bool.
From RV Require Import Base.PyNum Frame.Frame Lists.TimedList Lists.SeqSpec.
Import ListNotations.
Open Scope Q_scope.

Example C16_example :
  let f := mkFrame [0; 1]%Z [(5%Z, [CNum 1000; CNum 2]); (3%Z, [CNum 500; CNum 0]); (9%Z, [CNum 1000; CNum 1])] in
  meets (fcols f) (seq_step false [0; 1]%Z (fcols f) (abs_rows f) (OAfter 1000 true)) (tl_step false [0; 1]%Z f (OAfter 1000 true)) = true.
Proof. vm_compute. reflexivity. Qed.
