(* C02 — StepMania reading.  Property theorems only: each is closed by [exact] from Proofs/SM*.v, or by
   vm_compute for obligations on the tables regenerated from the live classes. *)
From Coq Require Import String ZArith QArith Qround Qabs List Bool.
From RV Require Import Base.PyNum Timing.Snapper Timing.Snap Timing.TimingMap Timing.Reseat Timing.Integrate
  Timing.Domain Formats.SMText Formats.SM Formats.SMSpec Formats.SMReadDom Generated.Tables Proofs.SMWitness Proofs.SMProofs Proofs.SMReadProofs
  Proofs.SMCanon Proofs.SMReadWitness Proofs.SMReadRefuted Proofs.SMReadWhole.
Import ListNotations.
Open Scope Q_scope.

(* ---- table obligations (re-checked on every run against the live SMConst / SMMap / SMMapChartTypes / str.isspace) ---- *)
Theorem C02_constants_are_reference :
  live_conf = ref_conf Tables.snapper_table Tables.sm.chart_keys.
Proof. vm_compute. reflexivity. Qed.

Theorem C02_chart_types_are_reference :
  flat_map (fun p : text * option Z => match snd p with Some k => [(fst p, k)] | None => [] end) Tables.sm.chart_keys
  = ref_chart_keys.
Proof. vm_compute. reflexivity. Qed.

Theorem C02_whitespace_is_reference : Tables.sm.py_whitespace = py_ws.
Proof. vm_compute. reflexivity. Qed.

Theorem C02_tail_symbol_distinct :
  (k_roll_tail live_conf =? k_hit live_conf)%Z = false /\ (k_roll_tail live_conf =? k_mine live_conf)%Z = false /\
  (k_roll_tail live_conf =? k_hold_head live_conf)%Z = false /\ (k_roll_tail live_conf =? k_roll_head live_conf)%Z = false.
Proof. vm_compute. auto. Qed.

Theorem C02_metronome_is_4 : k_metronome live_conf = 4%Z.
Proof. vm_compute. reflexivity. Qed.

(* ---- slicing: in a measure of n = 4k rows, beat b gets rows [bk, (b+1)k), the four slices are the measure in order,
   row j of beat b is row bk+j of the measure, and its Snap beat b + Fraction(j,k) is 4(bk+j)/n ---- *)
Theorem C02_slice_row_beat : forall k b j : Z, (0 < k)%Z ->
  inject_Z b + inject_Z j / inject_Z k == 4 * inject_Z (b * k + j) / inject_Z (4 * k).
Proof. exact slice_row_beat_arith. Qed.

Theorem C02_slices_partition : forall (rows : list text) (k : Z),
  (0 <= k)%Z -> Z.of_nat (length rows) = (4 * k)%Z ->
  beat_slice live_conf rows 0 ++ beat_slice live_conf rows 1 ++ beat_slice live_conf rows 2 ++ beat_slice live_conf rows 3 = rows.
Proof. exact (slices_partition live_conf C02_metronome_is_4). Qed.

Theorem C02_slice_row_index : forall (rows : list text) (k b : Z) (j : nat),
  (0 <= k)%Z -> (0 <= b)%Z -> Z.of_nat (length rows) = (4 * k)%Z -> (j < Z.to_nat k)%nat ->
  nth_error (beat_slice live_conf rows b) j = nth_error rows (Z.to_nat (b * k) + j).
Proof. exact (slice_row_index live_conf C02_metronome_is_4). Qed.

(* ---- head/tail pairing: a '3' closes the open hold head of its column if there is one, else the open roll head,
   else the read fails; with one head open per column (the format's rule) that is "3 closes the open head" ---- *)
Theorem C02_tail_closes_open_head : forall (st : nst) (so : snap) (col : nat) (hl rl : list hentry),
  nth_error (n_holds st) col = Some hl -> nth_error (n_rolls st) col = Some rl ->
  read_char live_conf st so col (k_roll_tail live_conf) =
    if is_open hl then Some (mkNst (n_simple st) (replace_at col (close_last hl so) (n_holds st)) (n_rolls st))
    else if is_open rl then Some (mkNst (n_simple st) (n_holds st) (replace_at col (close_last rl so) (n_rolls st)))
    else None.
Proof. exact (tail_closes_open_head live_conf C02_tail_symbol_distinct). Qed.

Theorem C02_tail_pairs_the_open_head : forall (st : nst) (so : snap) (col : nat) (pre : list hentry) (h : snap) (rl : list hentry),
  nth_error (n_holds st) col = Some (pre ++ [(h, None)]) -> nth_error (n_rolls st) col = Some rl ->
  read_char live_conf st so col (k_roll_tail live_conf)
  = Some (mkNst (n_simple st) (replace_at col (pre ++ [(h, Some so)]) (n_holds st)) (n_rolls st)).
Proof. exact (tail_pairs_the_open_head live_conf C02_tail_symbol_distinct). Qed.

(* ---- every chart of the file is returned, in file order, each read from its own #NOTES token ---- *)
Theorem C02_sm_read_all_charts : forall (v : variant) (txt : text) (s : smset),
  sm_read live_conf v txt = Some s ->
  let toks := filter (contains (tx "#NOTES:")) (map strip (split_on 59 txt)) in
  length (s_maps s) = length toks /\
  forall i tok, nth_error toks i = Some tok ->
    exists c st, nth_error (s_maps s) i = Some c /\
                 read_chart live_conf tok (m_offset st) (m_bcs st) (m_stops st) = Some c /\
                 s_offset s = m_offset st.
Proof. exact (sm_read_all_charts live_conf). Qed.

(* ---- object times: with the file's tempo script in the domain of C10's closed form (head at beat 0, strictly increasing,
   pairwise on the snap grid: the runner checks on every generated text that C02's 1/48-grid domain implies it) every hit,
   mine, lift, fake and keysound returned by _read_notes sits at Integrate.time_of of the Snap of its row, every hold and
   roll at the time of its head Snap with length = time of tail Snap - time of head Snap ---- *)
Theorem C02_snapper_table_ok : table_ok (1 # 96) (k_tbl live_conf) = true.
Proof. vm_compute. reflexivity. Qed.

Theorem C02_read_times_integrate : forall (data : text) (init : Q) (bcss : list bcs) (n : notes_out),
  read_notes live_conf data (Some init) (Some bcss) true = Some n ->
  exists st, read_measures live_conf (st0 live_conf) 0 (split_on 44 data) = Some st /\
    (let l := sort_by bcs_lt bcss in
     domainb (k_tbl live_conf) l (queries st) = true ->
     simple_at init l st KHit (o_hits n) /\ simple_at init l st KMine (o_mines n) /\ simple_at init l st KLift (o_lifts n)
     /\ simple_at init l st KFake (o_fakes n) /\ simple_at init l st KKey (o_keys n)
     /\ holds_at init l (n_holds st) (o_holds n) /\ holds_at init l (n_rolls st) (o_rolls n)).
Proof. exact (read_notes_times live_conf C02_snapper_table_ok). Qed.

(* ==== THE WHOLE-FILE THEOREM ====
   For EVERY text in the decidable domain c02_domb (Formats/SMReadDom.v — a boolean predicate on the text, the one the
   correspondence runner evaluates as `wf` on every generated text): the text is well formed for the reference semantics,
   SMMapSet.read succeeds, and its result is exactly what sm_denote defines (file_rel): one chart per #NOTES item in file
   order with its header fields; for each of the seven kinds (hits, holds, rolls, mines, lifts, fakes, keysounds) the
   returned list is a PERMUTATION of the denoted objects (column, time, length) — nothing invented, nothing dropped — where
   the denoted time of a row is Integrate.time_of of its position (row r of n in measure m = beat 4m + 4r/n) under the
   #BPMS script from -#OFFSET and a hold/roll is paired with the '3' that closes it; every tempo change of the file is in
   each chart's tempo list at its millisecond position; the runner's oracle read_spec (tolerance 0) accepts the result.
   Table obligations: the live constants are the reference ones, the snapper table is well formed and contains every k/48
   (this is how the C10 timing domain `domainb` is DERIVED from the 1/48 grid instead of being assumed). *)
Theorem C02_grid48_in_table : grid48_in_table Tables.snapper_table = true.
Proof. vm_compute. reflexivity. Qed.

Theorem C02_sm_read_denotes : forall txt : text, c02_domb txt = true ->
  exists d s, sm_denote txt = Some d /\ sm_read live_conf current txt = Some s /\ file_rel d s /\ read_spec 0 d s = true
              /\ s_offset s = Some (d_beat0 d).
Proof. exact (sm_read_spec_conf live_conf _ _ C02_constants_are_reference C02_snapper_table_ok C02_grid48_in_table). Qed.

(* file_rel spelled out (what "exactly what sm_denote defines" means) *)
Theorem C02_file_rel_meaning : forall d s, file_rel d s <->
  Forall2 (fun dc c =>
    header_match 0 dc c = true
    /\ (forall kl, In kl (chart_objs c) -> Permutation.Permutation (snd kl) (dnotes_of (fst kl) (d_notes dc)))
    /\ (forall tp : Q * Q * Q, In tp (d_tempo d) -> exists b, In b (c_bpms c) /\ fst (fst b) == snd tp)
    /\ (forall kl, In kl (chart_objs c) -> forall x y, In x (snd kl) -> In y (snd kl) -> cmp_ok note4_lt x y))
  (d_charts d) (s_maps s).
Proof. exact (fun d s => conj (fun H => H) (fun H => H)). Qed.

(* ---- the READ chart's tempo list when the tempo changes are on measure lines (guard sm_tempo_on_lines: every #BPMS beat is
   a multiple of 4): the reader does not reseat, and every chart's tempo list IS the file's tempo list - same number of
   rows, in beat order, each at the millisecond position of its beat (Integrate.time_of from -#OFFSET), with its bpm,
   metronome 4 ---- *)
Theorem C02_sm_read_tempo_list_on_lines : forall txt : text, c02_domb txt = true -> sm_tempo_on_lines txt = true ->
  exists d s, sm_denote txt = Some d /\ sm_read live_conf current txt = Some s /\ tempo_exact d s.
Proof. exact (sm_read_tempo_lines_conf live_conf _ _ C02_constants_are_reference C02_snapper_table_ok C02_grid48_in_table). Qed.
Theorem C02_tempo_exact_meaning : forall d s, tempo_exact d s <->
  Forall (fun c => Forall2 (fun (b tp : Q * Q * Q) => fst (fst b) == snd tp /\ snd (fst b) = snd (fst tp) /\ snd b = 4) (c_bpms c) (d_tempo d)) (s_maps s).
Proof. exact (fun d s => conj (fun H => H) (fun H => H)). Qed.
Example C02_example_on_lines :
  c02_domb w_read_on_lines = true /\ sm_tempo_on_lines w_read_on_lines = true /\
  match sm_denote w_read_on_lines, sm_read live_conf current w_read_on_lines with
  | Some d, Some s => (length (d_tempo d) =? 2)%nat && forallb (fun c => (length (c_bpms c) =? 2)%nat) (s_maps s)
  | _, _ => false end = true.
Proof. exact sm_read_example_on_lines. Qed.

(* ---- the statement over the FORMER domain (well formed + c02_dom + dialect_ok) is FALSE of the faithful model: seven
   corners, each a concrete text (replayed on the real code: same behaviour), each excluded by one clause of c02_domb ---- *)
Theorem C02_sm_read_refuted_semicolon_in_comment :
  exists txt, in_c02_domain txt = true /\ c02_domb txt = false /\ reads_other txt = true.
Proof. exact sm_read_refuted_semicolon_in_comment. Qed.
Theorem C02_sm_read_refuted_trailing_comment_tag :
  exists txt, in_c02_domain txt = true /\ c02_domb txt = false /\ read_fails txt = true.
Proof. exact sm_read_refuted_trailing_comment_tag. Qed.
Theorem C02_sm_read_refuted_nested_notes_tag :
  exists txt, in_c02_domain txt = true /\ c02_domb txt = false /\ read_fails txt = true.
Proof. exact sm_read_refuted_nested_notes_tag. Qed.
Theorem C02_sm_read_refuted_bad_samplestart :
  exists txt, in_c02_domain txt = true /\ c02_domb txt = false /\ read_fails txt = true.
Proof. exact sm_read_refuted_bad_samplestart. Qed.
Theorem C02_sm_read_refuted_tag_blank :
  exists txt, in_c02_domain txt = true /\ c02_domb txt = false /\ reads_other txt = true.
Proof. exact sm_read_refuted_tag_blank. Qed.
Theorem C02_sm_read_refuted_dup_offset :
  exists txt, in_c02_domain txt = true /\ c02_domb txt = false /\ read_fails txt = true.
Proof. exact sm_read_refuted_dup_offset. Qed.
Theorem C02_sm_read_refuted_bpms_after_stops :
  exists txt, in_c02_domain txt = true /\ c02_domb txt = false /\ read_fails txt = true.
Proof. exact sm_read_refuted_bpms_after_stops. Qed.

(* non-vacuity of c02_domb: two charts (dance-single and kb7-single), holds and rolls across measures, a mid-measure tempo
   change, comments, every symbol 1 2 3 4 M L F K *)
Example C02_example_two_charts :
  c02_domb w_read_two_charts = true /\
  match sm_denote w_read_two_charts with
  | Some d => (length (d_charts d) =? 2)%nat && (length (d_tempo d) =? 2)%nat
              && (10 <=? length (flat_map d_notes (d_charts d)))%nat
              && forallb (fun k => existsb (fun n => kind_eqb (dn_kind n) k) (flat_map d_notes (d_charts d)))
                         [KHit; KHold; KRoll; KMine; KLift; KFake; KKey]
  | None => false end = true.
Proof. exact sm_read_example_two_charts. Qed.

(* ---- former defect (OLD_stops_none, before d64b5ab): a text without a #STOPS tag was not read (AttributeError);
   the current reader reads it and returns what the format says ---- *)
Theorem C02_sm_read_refuted_OLD_no_stops_tag :
  exists txt, in_c02_domain txt = true /\ sm_read live_conf OLD_stops_none txt = None.
Proof. exact sm_read_refuted_OLD_no_stops_tag. Qed.

Theorem C02_sm_read_no_stops_tag_current :
  in_c02_domain w_read_txt = true /\ has_no_stops_item w_read_txt = true /\
  match sm_denote w_read_txt, sm_read live_conf current w_read_txt with
  | Some d, Some s => read_spec 0 d s
  | _, _ => false end = true.
Proof. exact sm_read_no_stops_tag_current. Qed.

(* non-vacuity: a text in the domain (comments, mid-measure tempo change, hold and roll across measures, a mine)
   that the reader reads and whose result is exactly the denotation *)
Example C02_example_in_domain :
  in_c02_domain w_read_txt2 = true /\
  match sm_denote w_read_txt2, sm_read live_conf current w_read_txt2 with
  | Some d, Some s => read_spec 0 d s && negb (length (d_tempo d) <? 2)%nat && negb (length (flat_map d_notes (d_charts d)) <? 4)%nat
  | _, _ => false end = true.
Proof. exact sm_read_example. Qed.
