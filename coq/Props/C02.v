(* C02 — StepMania reading.  Property theorems only. *)
From Coq Require Import String ZArith QArith Qround Qabs List Bool.
From RV Require Import Base.PyNum Timing.Snapper Timing.Snap Timing.TimingMap Timing.Integrate
  Formats.SMText Formats.SM Formats.SMSpec Generated.Tables.
Import ListNotations.
Open Scope Q_scope.

Definition live_conf : smconf :=
  mkConf Tables.sm.hit_string Tables.sm.hold_string_head Tables.sm.hold_string_tail Tables.sm.roll_string_head
         Tables.sm.roll_string_tail Tables.sm.mine_string Tables.sm.lift_string Tables.sm.fake_string
         Tables.sm.keysound_string Tables.sm.metronome Tables.sm.max_snap Tables.sm.max_keys
         Tables.sm.chart_keys Tables.snapper_table.

(* Table obligations, re-checked against the tables regenerated from the live classes on every run:
   the note symbols, METRONOME, MAX_SNAP, MAX_KEYS are the reference format constants; the chart types with a
   declared key count are exactly the reference ones; Python's whitespace set is the pinned one. *)
Theorem C02_constants_are_reference :
  live_conf = ref_conf Tables.snapper_table Tables.sm.chart_keys.
Proof. vm_compute. reflexivity. Qed.

Theorem C02_chart_types_are_reference :
  flat_map (fun p : text * option Z => match snd p with Some k => [(fst p, k)] | None => [] end) Tables.sm.chart_keys
  = ref_chart_keys.
Proof. vm_compute. reflexivity. Qed.

Theorem C02_whitespace_is_reference : Tables.sm.py_whitespace = py_ws.
Proof. vm_compute. reflexivity. Qed.
