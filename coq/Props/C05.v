(* C05 — BMS writing.  Property theorems only: each closed by [exact] from Proofs/BMS*Proofs.v, table obligations and
   concrete witnesses by vm_compute.
   Whole file: C05_bms_write_denotes -- for every layout satisfying the layout obligations and every chart of the
   decidable domain write_dom, BMSMap.write succeeds and the written lines denote the chart (every hit, hold head, LN tail
   and tempo object exactly once at its own position; times exact on the snap grid and within 1/192 beat otherwise; tempo
   changes, header fields and WAV table reproduced).  C05_bms_write_read composes it with C04's text-level read theorem:
   BMSMap.read (BMSMap.write c) is c whenever the written text lies in the reader's text-level domain.
   Without the ':.3f' guard of write_dom the statement is FALSE of the faithful model (C05_write_denotes_refuted_3f =
   known finding bpm-3f-rounding). *)
From Coq Require Import ZArith QArith Qround Qabs List Bool.
From RV Require Import Base.PyNum Timing.Snapper Timing.Snap Timing.TimingMap Timing.Reseat Timing.Integrate
  Formats.BMSText Formats.BMS Formats.BMSSpec Timing.Domain Timing.Domain2 Generated.Tables Proofs.BMSProofs Proofs.BMSWriteProofs
  Proofs.BMSWriteLaneProofs Proofs.BMSWriteFinalProofs Proofs.BMSRoundTripProofs Proofs.BMSWriteAnyOrderProofs Proofs.BMSWriteGuardsProofs.
From Coq Require Import Sorting.Permutation.
From RV Require Import Formats.BMSGuards Formats.Timeline Proofs.BMSParseProofs Proofs.BMSWriteReadChartProofs Proofs.BMSTimelineProofs.
Open Scope Z_scope.
Import ListNotations.
Open Scope Z_scope.

Definition tbl := Tables.snapper_table.
Definition lay_BME : layout := Tables.bms.layout_BME.
Definition DFLT : text := [48;49].

(* ---- table obligations (regenerated from the live BMSChannel on every run): each layout injective both ways,
   two-character base-36 channel ids, header channels 02/03/08, columns below MAX_KEYS ---- *)
Theorem C05_layouts_ok : forallb (layout_ok Tables.bms.max_keys) Tables.bms.layouts = true.
Proof. vm_compute. reflexivity. Qed.
Theorem C05_lane_lookup_inverse : forall lay v ch,
  layout_ok Tables.bms.max_keys lay = true -> layout_rev lay v = Some ch -> layout_get lay ch = Some v.
Proof. exact (layout_rev_get Tables.bms.max_keys). Qed.

(* ---- find_lcm(a, threshold), for every list of positive integers and every threshold: one result per input, every
   input divides its result, every result is positive and is the input itself or below the threshold ---- *)
Theorem C05_find_lcm_spec : forall (thr : Z) (a : list Z),
  Forall (fun x => 0 < x) a ->
  length (find_lcm thr a) = length a /\
  forall k, (k < length a)%nat ->
    (nth k a 0 | nth k (find_lcm thr a) 0) /\ 0 < nth k (find_lcm thr a) 0
    /\ (nth k (find_lcm thr a) 0 = nth k a 0 \/ nth k (find_lcm thr a) 0 < thr).
Proof. exact find_lcm_spec. Qed.

(* ---- slot arithmetic: a row at measure fraction num/den lands in slot num*(L/den) of a line of L slots when den | L;
   the slot is an integer inside the line and denotes the same fraction of the measure (int() truncates nothing) ---- *)
Theorem C05_slot_arith : forall (r : wrow) (L : Z),
  0 < wr_den r -> (wr_den r | L) -> 0 <= wr_num r < wr_den r -> 0 < L ->
  let s := ws_slot (slot_of r L) in
  s = wr_num r * (L / wr_den r) /\ 0 <= s < L
  /\ (inject_Z s / inject_Z L == inject_Z (wr_num r) / inject_Z (wr_den r))%Q.
Proof. exact slot_arith. Qed.

(* ---- bms_write_wf, line level: a data line is '#' mmm cc ':' followed by exactly L two-character pairs
   (even data length), the measure field has three digits and is read back, ids are base-36 pairs read back ---- *)
Theorem C05_written_line_shape : forall (g : list wslot) (r : wslot) (rest : list wslot) (line : text),
  g = r :: rest -> 0 <= ws_L r ->
  Forall (fun x => length (ws_value x) = 2%nat) g ->
  line_of_group g = Some line ->
  exists data, line = [35] ++ show3 (ws_measure r) ++ ws_channel r ++ [58] ++ data
               /\ length data = (2 * Z.to_nat (ws_L r))%nat.
Proof. exact written_line_shape. Qed.
(* bms_write_wf for the note section as a whole: every line assembled from a slot table whose values are two-character
   ids is '#' mmm cc ':' followed by an even number of characters *)
Theorem C05_written_lines_shape : forall (slots : list wslot) (ls : list text),
  Forall (fun s => length (ws_value s) = 2%nat /\ 0 <= ws_L s) slots ->
  lines_of_slots slots = Some ls ->
  Forall line_shape ls.
Proof. exact written_lines_shape. Qed.
Theorem C05_write_note_lines_is_lines_of_slots : forall rows,
  write_note_lines rows =
  lines_of_slots (map (fun p => slot_of (fst p) (snd p)) (combine rows (new_dens LCM_THRESHOLD rows))).
Proof. exact write_note_lines_unfold. Qed.
Theorem C05_line_read_back : forall m a b data,
  0 <= m < 1000 -> data_line ([35] ++ show3 m ++ [a; b] ++ [58] ++ data) = Some (m, [a; b], data).
Proof. exact data_line_written. Qed.
Theorem C05_tempo_id_roundtrip : forall n, 0 <= n < 1296 ->
  b36_parse2 (b36_pair n) = Some n /\ is_b36_pair (b36_pair n) = true.
Proof. exact (fun n H => conj (b36_roundtrip n H) (b36_pair_is_pair n H)). Qed.
Theorem C05_tempo_ids_distinct : forall a b, 0 <= a < 1296 -> 0 <= b < 1296 -> b36_pair a = b36_pair b -> a = b.
Proof. exact b36_pair_injective. Qed.

(* ---- the slot table as a whole: every row's line length new_den is a positive multiple of the row's denominator
   (find_lcm applied to its (measure, channel) group), hence every object (hit, hold head, LN tail, tempo object) is put
   at a slot inside its line denoting exactly its own fraction num/den of the measure; and two written objects share
   (measure, channel, position) only if their rows did (uniqueness part of bms_write_wf) ---- *)
Theorem C05_new_dens_divisible : forall (thr : Z) (rows : list wrow),
  Forall (fun r => 0 < wr_den r) rows ->
  Forall2 (fun r L => (wr_den r | L) /\ 0 < L) rows (new_dens thr rows).
Proof. exact new_dens_divisible. Qed.
Theorem C05_write_slots_positions : forall rows : list wrow,
  Forall (fun r => 0 < wr_den r /\ 0 <= wr_num r < wr_den r) rows ->
  Forall2 slot_rel rows (map (fun p => slot_of (fst p) (snd p)) (combine rows (new_dens LCM_THRESHOLD rows))).
Proof. exact write_slots_positions. Qed.
Theorem C05_written_positions_unique : forall r s r' s',
  slot_rel r s -> slot_rel r' s' ->
  ws_measure s = ws_measure s' -> ws_channel s = ws_channel s' ->
  (inject_Z (ws_slot s) / inject_Z (ws_L s) == inject_Z (ws_slot s') / inject_Z (ws_L s'))%Q ->
  wr_measure r = wr_measure r' /\ wr_channel r = wr_channel r'
  /\ (inject_Z (wr_num r) / inject_Z (wr_den r) == inject_Z (wr_num r') / inject_Z (wr_den r'))%Q.
Proof. exact written_positions_unique. Qed.

(* ---- bms_no_merge, line level: filling distinct in-range slots of an empty line with non-00 ids puts exactly one
   object per row on the line (nothing merged, nothing dropped) ---- *)
Theorem C05_no_merge : forall (rows : list wslot) (L : nat) (out : list text),
  Forall (fun r => text_eqb (ws_value r) PAIR00 = false) rows ->
  NoDup (map ws_slot rows) ->
  fill_slots (repeat PAIR00 L) rows = Some out ->
  length (filter (fun t => negb (text_eqb t PAIR00)) out) = length rows.
Proof. exact fill_slots_no_merge. Qed.

(* ---- the note section as a whole (Proofs/BMSWriteProofs.v): the lines assembled from a row table hold, as objects of
   the format, exactly the rows -- every row once at its own measure, channel and measure fraction, nothing merged, nothing
   dropped -- whenever the rows are well-formed and pairwise at different (measure, channel, fraction) ---- *)
Theorem C05_write_note_lines_objs : forall rows : list wrow,
  Forall row_wf rows -> NoDup (map row_key rows) ->
  exists ls, write_note_lines rows = Some ls
             /\ Permutation (flat_map objs_of_line ls) (map row_obj rows)
             /\ Forall (fun l => exists m ch data, data_line l = Some (m, ch, data)) ls.
Proof. exact write_note_lines_objs. Qed.
(* ---- one lane (Proofs/BMSWriteLaneProofs.v): ANY listing of the objects of a set of hits and (head, LNOBJ tail) pairs
   -- positions pairwise distinct, head before tail, nothing of the lane strictly inside a pair -- is read by the
   reference interpreter (time order, a tail closes the object just before it) to exactly those hits and pairs ---- *)
Theorem C05_lane_pairs : forall (lnobj : text) (items : list item),
  Forall (item_ok lnobj) items ->
  no_dup_by same_pos (flat_map item_objs items) = true ->
  (forall hd tl o, In (IHold hd tl) items -> In o (flat_map item_objs items) -> ~ (obj_lt hd o = true /\ obj_lt o tl = true)) ->
  forall mine, Permutation mine (flat_map item_objs items) ->
  exists hs ls, pair_ln lnobj None (sort_by obj_lt mine) = Some (hs, ls)
                /\ Permutation hs (hits_of items) /\ Permutation ls (holds_of items).
Proof. exact lane_pairs. Qed.

(* ---- bms_write_denotes (Proofs/BMSWriteFinalProofs.v).  For every layout and every chart of write_dom (decidable):
   layout obligations; wf_wchart at tolerance 0 (the quantifier + format guards: first tempo point at 0, 4/4 on measure
   lines, measure < 1000, < 1295 tempo points, no two objects of a lane in one grid slot, nothing inside a hold of its
   lane, ids base-36 other than 00 / LNOBJ); tempo_dom (tempo list in time order, in reduced fractions the millisecond
   form of a script of C10's on-grid domain); metronome 4 and tempos that ':.3f' prints without loss; one-word misc keys.
   Whatever str(float) prints for '#BPM' (any rendering r that parses as a decimal): the write succeeds, bms_denote accepts
   the lines, and written_denotes holds: hits and holds as multisets, column exactly, the time within 1/192 beat of the
   in-memory time and EQUAL to it on the snap grid (C10's time_on_gridb), the sample registered under the written id, the
   tempo changes at the in-memory times with the in-memory tempos, title / artist / level / LNOBJ / WAV table / misc. ---- *)
Theorem C05_table_ok : table_ok (1 # 96) tbl = true.
Proof. vm_compute. reflexivity. Qed.
Theorem C05_bms_write_denotes : forall (mk : Z) (lay : layout) (dflt : text) (c : wchart) (r : Q -> text),
  write_dom tbl mk lay dflt c = true -> (forall q, parse_decimal (r q) <> None) ->
  exists ls l d, bms_write tbl lay dflt c = Some ls /\ wscript tbl c = Some l
    /\ bms_denote lay (map (render_with r) ls) = Some d /\ written_denotes tbl dflt c l d.
Proof. exact (bms_write_denotes tbl C05_table_ok). Qed.
(* ---- bms_write_read = C05_bms_write_denotes composed with C04's text-level read theorem: whenever the written text lies
   in the reader's text-level domain (text_domb and read_guards, both decidable on the written lines) and BMSMap.read
   returns a chart, it is the chart written (read_back: rows as multisets, times within 1/192 beat and exact on the grid,
   header fields and WAV table exactly) ---- *)
Theorem C05_bms_write_read : forall (mk : Z) (lay : layout) (dflt : text) (c : wchart) (r : Q -> text),
  write_dom tbl mk lay dflt c = true -> (forall q, parse_decimal (r q) <> None) ->
  exists ls l d, bms_write tbl lay dflt c = Some ls /\ wscript tbl c = Some l
    /\ bms_denote lay (map (render_with r) ls) = Some d /\ written_denotes tbl dflt c l d
    /\ forall c', text_domb lay (map (render_with r) ls) = true -> read_guards tbl (map (render_with r) ls) = true ->
                  bms_read tbl lay mk (map (render_with r) ls) = Some c' -> read_back tbl dflt c l c'.
Proof. exact (bms_write_read tbl C05_table_ok). Qed.

(* ---- the whole-file statement is refuted: '#BPMxx' is printed with ':.3f' (133.3333333 -> 133.333), the written
   tempo timeline is not the chart's and the note at measure 100 denotes 180000.45 ms instead of 180000 ---- *)
Definition w_bad : wchart := (mkW [(mkHit 0%Z (240000000000000#1333333333) (tx[])%Z)] [] [(mkBco (1333333333#10000000) 4 (0#1))] [] (tx[L[90;90]])%Z (tx[L[116]])%Z (tx[L[97]])%Z (tx[L[49]])%Z []).
Theorem C05_write_denotes_refuted_3f :
  exists c ls, wf_wchart 0 tbl lay_BME DFLT c = true
               /\ bms_write tbl lay_BME DFLT c = Some ls
               /\ c05_specb 0 tbl lay_BME c (map render_wline ls) = false.
Proof.
  exists w_bad. eexists. split; [vm_compute; reflexivity|]. split; [vm_compute; reflexivity|]. vm_compute. reflexivity.
Qed.
(* the same chart with a three-decimal tempo is written to a file that denotes it *)
Definition w_ok3 : wchart := (mkW [(mkHit 0%Z (24000000000#133333) (tx[])%Z)] [] [(mkBco (133333#1000) 4 (0#1))] [] (tx[L[90;90]])%Z (tx[L[116]])%Z (tx[L[97]])%Z (tx[L[49]])%Z []).
Example C05_three_decimals_ok :
  wf_wchart 0 tbl lay_BME DFLT w_ok3
  && match bms_write tbl lay_BME DFLT w_ok3 with Some ls => c05_specb 0 tbl lay_BME w_ok3 (map render_wline ls) | None => false end = true.
Proof. vm_compute. reflexivity. Qed.

(* ---- non-vacuity: a chart inside the domain (two tempo points, on-grid thirds / 96ths / sevenths, an off-grid hit, two
   holds, known and unknown samples) is written to lines that are valid and denote it ---- *)
Definition w_good : wchart := (mkW [(mkHit 0%Z (0#1) (tx[L[107;46;119;97;118]])%Z); (mkHit 1%Z (500#3) (tx[])%Z); (mkHit 1%Z (250#1) (tx[L[120]])%Z); (mkHit 5%Z (48625#24) (tx[L[107;46;119;97;118]])%Z); (mkHit 3%Z (2777#1) (tx[])%Z); (mkHit 7%Z (4400#1) (tx[L[107;46;119;97;118]])%Z)] [(mkHold 2%Z (1000#1) (750#1) (tx[L[107;46;119;97;118]])%Z); (mkHold 2%Z (4400#1) (617#5) (tx[])%Z)] [(mkBco (120#1) 4 (0#1)); (mkBco (150#1) 4 (4000#1))] [((tx[L[48;65]])%Z, (tx[L[107;46;119;97;118]])%Z)] (tx[L[90;90]])%Z (tx[L[116]])%Z (tx[L[97]])%Z (tx[L[49]])%Z [((tx[L[71;69;78;82;69]])%Z, (tx[L[103]])%Z)]).
Example C05_nonvacuous :
  wf_wchart 0 tbl lay_BME DFLT w_good
  && match bms_write tbl lay_BME DFLT w_good with
     | Some ls => c05_specb 0 tbl lay_BME w_good (map render_wline ls) && (9 <? Z.of_nat (length ls))
     | None => false
     end = true.
Proof. vm_compute. reflexivity. Qed.

(* ---- non-vacuity of write_dom: the chart above lies in the theorem's domain under BME and under a non-BME layout (PMS);
   the witness of the known finding does not (the ':.3f' guard is what excludes it); the file written under PMS lies in
   the reader's text-level domain and is read back (6 hits, 2 holds, the two tempo points) ---- *)
Definition lay_PMS : layout := Tables.bms.layout_PMS.
Example C05_write_dom_nonvacuous :
  write_dom tbl Tables.bms.max_keys lay_BME DFLT w_good && write_dom tbl Tables.bms.max_keys lay_PMS DFLT w_good
  && negb (write_dom tbl Tables.bms.max_keys lay_BME DFLT w_bad) && forallb bpm_3f_ok (w_bpms w_good) && negb (forallb bpm_3f_ok (w_bpms w_bad)) = true.
Proof. vm_compute. reflexivity. Qed.
Example C05_round_trip_nonvacuous :
  match bms_write tbl lay_PMS DFLT w_good with
  | Some ls =>
      let lines := map render_wline ls in
      text_domb lay_PMS lines && read_guards tbl lines
      && match bms_read tbl lay_PMS Tables.bms.max_keys lines with
         | Some c' => (length (c_hits c') =? 6)%nat && (length (c_holds c') =? 2)%nat && (length (c_bpms c') =? 2)%nat
         | None => false
         end
  | None => false
  end = true.
Proof. vm_compute. reflexivity. Qed.

(* ================================================================ tempo rows in ANY order ================================================================ *)
(* The property ranges over all charts: the tempo rows need not be in time order (C15: row order must not matter).  The
   writer's '#BPM' header takes the FIRST ROW's tempo and the '#BPMxx' ids follow row order, so the written text depends on
   the row order; what it denotes does not.
   C05_bms_write_denotes_any_order: for every chart cs of write_dom and EVERY permutation p of its tempo rows (the offsets of
   a list of write_dom are pairwise distinct), BMSMap.write of the chart with rows p succeeds, bms_denote accepts the lines,
   and written_denotes_any holds: hits and holds exactly as in C05_bms_write_denotes (multisets; column; time within 1/192
   beat and equal on the grid; sample), the tempo changes of the file are the rows IN TIME ORDER at the in-memory times with
   the in-memory tempos, the tempo in force at position 0 is the tempo of the EARLIEST row, header fields / WAV table / misc
   retained; and the '#BPM' header prints the first row's tempo (replaced, per the format, by the channel-08 object the
   writer puts at measure 0 position 0).  Uses C10_any_order (sort + distinct keys) through sort_any_order. *)
Theorem C05_bms_write_denotes_any_order : forall (mk : Z) (lay : layout) (dflt : text) (cs : wchart) (p : list bco) (r : Q -> text),
  write_dom tbl mk lay dflt cs = true -> Permutation p (w_bpms cs) -> (forall q, parse_decimal (r q) <> None) ->
  exists ls l d, bms_write tbl lay dflt (with_bpms cs p) = Some ls /\ wscript tbl (with_bpms cs p) = Some l
    /\ wscript tbl cs = Some l
    /\ bms_denote lay (map (render_with r) ls) = Some d /\ written_denotes_any tbl dflt (with_bpms cs p) l d
    /\ exists b0 rest, p = b0 :: rest /\ hlookup S_BPM (d_headers d) = Some (r (bo_bpm b0)).
Proof. exact (bms_write_denotes_perm tbl C05_table_ok). Qed.
(* the same on the decidable domain write_dom_any (= the chart with its rows put in time order lies in write_dom); it
   contains write_dom and every row permutation of a chart of write_dom *)
Theorem C05_bms_write_denotes_any_order_dom : forall (mk : Z) (lay : layout) (dflt : text) (c : wchart) (r : Q -> text),
  write_dom_any tbl mk lay dflt c = true -> (forall q, parse_decimal (r q) <> None) ->
  exists ls l d, bms_write tbl lay dflt c = Some ls /\ wscript tbl c = Some l
    /\ bms_denote lay (map (render_with r) ls) = Some d /\ written_denotes_any tbl dflt c l d
    /\ exists b0 rest, w_bpms c = b0 :: rest /\ hlookup S_BPM (d_headers d) = Some (r (bo_bpm b0)).
Proof. exact (bms_write_denotes_any_order tbl C05_table_ok). Qed.
Theorem C05_write_dom_any_contains : forall mk lay dflt c,
  write_dom tbl mk lay dflt c = true -> write_dom_any tbl mk lay dflt c = true.
Proof. exact (write_dom_any_of_write_dom tbl C05_table_ok). Qed.
Theorem C05_write_dom_any_perm : forall mk lay dflt cs p,
  write_dom tbl mk lay dflt cs = true -> Permutation p (w_bpms cs) -> write_dom_any tbl mk lay dflt (with_bpms cs p) = true.
Proof. exact (write_dom_any_perm tbl C05_table_ok). Qed.
(* read after write, rows in any order (hypotheses on the written text as in C05_bms_write_read) *)
Theorem C05_bms_write_read_any_order : forall (mk : Z) (lay : layout) (dflt : text) (c : wchart) (r : Q -> text),
  write_dom_any tbl mk lay dflt c = true -> (forall q, parse_decimal (r q) <> None) ->
  exists ls l d, bms_write tbl lay dflt c = Some ls /\ wscript tbl c = Some l
    /\ bms_denote lay (map (render_with r) ls) = Some d /\ written_denotes_any tbl dflt c l d
    /\ forall c', text_domb lay (map (render_with r) ls) = true -> read_guards tbl (map (render_with r) ls) = true ->
                  bms_read tbl lay mk (map (render_with r) ls) = Some c' -> read_back tbl dflt c l c'.
Proof. exact (bms_write_read_any_order tbl C05_table_ok). Qed.

(* ---- the '#BPM' header line.  "The header '#BPM' shows the chart's initial tempo" is FALSE for rows out of time order
   (witness: w_good with its two tempo rows swapped: '#BPM 150', initial tempo 120) -- the file nevertheless denotes the
   chart (c05_specb true, initial tempo 120: the object at measure 0 position 0 replaces the header).  It holds under the
   narrowest guard: the first row is the earliest tempo point. ---- *)
Definition w_swapped : wchart := with_bpms w_good (rev (w_bpms w_good)).
Theorem C05_header_bpm_initial_refuted :
  exists c, write_dom_any tbl Tables.bms.max_keys lay_BME DFLT c = true
    /\ match bms_write tbl lay_BME DFLT c with
       | Some ls => match bms_denote lay_BME (map render_wline ls) with
                    | Some d => existsb (fun w => match w with WBpm0 q => negb (Qeq_bool q (d_bpm0 d)) | WText _ => false end) ls
                                && c05_specb 0 tbl lay_BME c (map render_wline ls)
                    | None => false
                    end
       | None => false
       end = true.
Proof. exists w_swapped. split; vm_compute; reflexivity. Qed.
Theorem C05_header_bpm_initial : forall (mk : Z) (lay : layout) (dflt : text) (c : wchart) (r : Q -> text),
  write_dom_any tbl mk lay dflt c = true -> first_row_earliest c = true -> (forall q, parse_decimal (r q) <> None) ->
  exists ls d, bms_write tbl lay dflt c = Some ls /\ bms_denote lay (map (render_with r) ls) = Some d
    /\ hlookup S_BPM (d_headers d) = Some (r (d_bpm0 d)).
Proof. exact (header_bpm_initial tbl C05_table_ok). Qed.

(* non-vacuity: the two-row chart with its rows swapped, and a three-row chart listed as (2nd, 3rd, 1st), lie in
   write_dom_any and not in write_dom; their first row is not the earliest; the written lines pass the oracle, lie in the
   reader's text-level domain and satisfy read_guards (the origin tempo object is the first tempo object listed) *)
Definition w_three : wchart := with_bpms w_good [mkBco (150#1) 4 (4000#1); mkBco (100#1) 4 (7200#1); mkBco (120#1) 4 (0#1)].
Example C05_any_order_nonvacuous :
  forallb (fun c => write_dom_any tbl Tables.bms.max_keys lay_BME DFLT c && negb (write_dom tbl Tables.bms.max_keys lay_BME DFLT c)
                    && negb (first_row_earliest c)
                    && match bms_write tbl lay_BME DFLT c with
                       | Some ls => let lines := map render_wline ls in
                                    c05_specb 0 tbl lay_BME c lines && text_domb lay_BME lines && read_guards tbl lines
                       | None => false
                       end) [w_swapped; w_three] = true.
Proof. vm_compute. reflexivity. Qed.

(* ---- the reader's guards of the written file, derived from the chart alone (Proofs/BMSWriteGuardsProofs.v), rows in any
   order: the note lines are written in (measure, channel, line length) order, so the objects of the text come with
   non-decreasing measures; tempo rows lie on measure lines, so every tempo object but the one at position 0 sits at
   measure >= 1; hence the tempo object at the origin is the FIRST tempo object the text lists, whatever ids the rows got,
   and the tempo objects are pairwise on the grid.  The round trip is left with the single hypothesis text_domb. ---- *)
Theorem C05_write_note_lines_sorted : forall rows ls, Forall row_wf rows -> write_note_lines rows = Some ls ->
  Sorted.StronglySorted (fun a b => o_measure a <= o_measure b) (flat_map objs_of_line ls).
Proof. exact write_note_lines_sorted. Qed.
Theorem C05_written_read_guards : forall (mk : Z) (lay : layout) (dflt : text) (c : wchart) (r : Q -> text) (ls : list wline),
  write_dom_any tbl mk lay dflt c = true -> bms_write tbl lay dflt c = Some ls ->
  read_guards tbl (map (render_with r) ls) = true.
Proof. exact (written_read_guards tbl C05_table_ok). Qed.
Theorem C05_bms_write_read_guarded : forall (mk : Z) (lay : layout) (dflt : text) (c : wchart) (r : Q -> text),
  write_dom_any tbl mk lay dflt c = true -> (forall q, parse_decimal (r q) <> None) ->
  exists ls l d, bms_write tbl lay dflt c = Some ls /\ wscript tbl c = Some l
    /\ bms_denote lay (map (render_with r) ls) = Some d /\ written_denotes_any tbl dflt c l d
    /\ read_guards tbl (map (render_with r) ls) = true
    /\ forall c', text_domb lay (map (render_with r) ls) = true ->
                  bms_read tbl lay mk (map (render_with r) ls) = Some c' -> read_back tbl dflt c l c'.
Proof. exact (bms_write_read_guarded tbl C05_table_ok). Qed.

(* ======================================================================================================================
   Reading back with chart-level hypotheses only (Proofs/BMSWrittenTextProofs.v, BMSWriteReadChartProofs.v).
   header_guards (Formats/BMSGuards.v, decidable on the chart): title / artist / level / misc values / sample file names not
   empty and not ending in a blank; misc keys pairwise distinct, upper case, none of TITLE / ARTIST / BPM / PLAYLEVEL, not
   starting with WAV or BPM; sample ids pairwise distinct and upper case.
   C05_written_text_dom: for every chart of write_dom_any with header_guards, the written text lies in the reader's
   text-level domain (text_dom) and all its tempo objects sit on measure lines (bms_tempo_on_lines).
   C05_bms_write_read_chart: hence BMSMap.read(BMSMap.write(c)) RETURNS and is c: hits and holds as multisets (column and
   sample exactly, times within 1/192 beat and exact on the grid), title / artist / level / LNOBJ / WAV table exactly, tempo
   list = the tempo rows in time order (time by value, tempo exactly, metronome 4).
   Which guards reflect a real loss of the writer/reader pair: C05_round_trip_refuted_title_blank (a title ending in a blank
   comes back without it: BMSMap.read strips every line) and C05_round_trip_refuted_misc_wav (a misc key starting with WAV is
   filed by the reader under its sample table and disappears from misc); both replayed on the real code.  The other clauses
   (non-empty values, upper-case keys, BPM-prefixed misc keys) are demanded by C04's text-level domain, not by the code: the
   real pair reads such files back unchanged (checked by hand).
   ====================================================================================================================== *)
Theorem C05_written_text_dom : forall (mk : Z) (lay : layout) (dflt : text) (c : wchart) (r : Q -> text) (ls : list wline),
  write_dom_any tbl mk lay dflt c = true -> header_guards c = true ->
  (forall q, parse_decimal (r q) <> None) -> (forall q, text_end_ok (r q) = true) ->
  bms_write tbl lay dflt c = Some ls ->
  text_dom lay (map (render_with r) ls) /\ bms_tempo_on_lines (map (render_with r) ls) = true.
Proof. exact (written_text_dom tbl C05_table_ok). Qed.
Theorem C05_bms_write_read_chart : forall (mk : Z) (lay : layout) (dflt : text) (c : wchart) (r : Q -> text),
  write_dom_any tbl mk lay dflt c = true -> header_guards c = true ->
  (forall q, parse_decimal (r q) <> None) -> (forall q, text_end_ok (r q) = true) ->
  exists ls l d c', bms_write tbl lay dflt c = Some ls /\ wscript tbl c = Some l
    /\ bms_denote lay (map (render_with r) ls) = Some d /\ written_denotes_any tbl dflt c l d
    /\ bms_read tbl lay mk (map (render_with r) ls) = Some c' /\ read_back tbl dflt c l c'
    /\ Forall2 (fun b b' => (bo_off b' == bo_off b)%Q /\ bo_bpm b' = bo_bpm b /\ bo_met b' = 4%Q) (sort_by bco_lt (w_bpms c)) (c_bpms c').
Proof. exact (bms_write_read_chart tbl C05_table_ok). Qed.

Definition w_title_blank : wchart := mkW (w_hits w_good) (w_holds w_good) (w_bpms w_good) (w_samples w_good) (w_lnobj w_good) [116;32] (w_artist w_good) (w_version w_good) (w_misc w_good).
Definition w_misc_wave : wchart := mkW (w_hits w_good) (w_holds w_good) (w_bpms w_good) (w_samples w_good) (w_lnobj w_good) (w_title w_good) (w_artist w_good) (w_version w_good) [([87;65;86;69], [120])].
Theorem C05_round_trip_refuted_title_blank :
  exists c ls c', write_dom_any tbl Tables.bms.max_keys lay_BME DFLT c = true /\ header_guards c = false
    /\ bms_write tbl lay_BME DFLT c = Some ls /\ bms_read tbl lay_BME Tables.bms.max_keys (map render_wline ls) = Some c'
    /\ w_title c = [116; 32] /\ m_title (c_meta c') = [116].
Proof.
  exists w_title_blank. eexists. eexists. split; [vm_compute; reflexivity|]. split; [vm_compute; reflexivity|].
  split; [vm_compute; reflexivity|]. split; [vm_compute; reflexivity|]. split; vm_compute; reflexivity.
Qed.
Theorem C05_round_trip_refuted_misc_wav :
  exists c ls c', write_dom_any tbl Tables.bms.max_keys lay_BME DFLT c = true /\ header_guards c = false
    /\ bms_write tbl lay_BME DFLT c = Some ls /\ bms_read tbl lay_BME Tables.bms.max_keys (map render_wline ls) = Some c'
    /\ w_misc c = [([87;65;86;69], [120])]
    /\ existsb (fun kv => text_eqb (fst kv) [87;65;86;69]) (m_misc (c_meta c')) = false
    /\ existsb (fun kv => text_eqb (fst kv) [86;69] && text_eqb (snd kv) [120]) (m_samples (c_meta c')) = true.
Proof.
  exists w_misc_wave. eexists. eexists. split; [vm_compute; reflexivity|]. split; [vm_compute; reflexivity|].
  split; [vm_compute; reflexivity|]. split; [vm_compute; reflexivity|]. split; [vm_compute; reflexivity|]. split; vm_compute; reflexivity.
Qed.
Example C05_header_guards_nonvacuous :
  header_guards w_good && header_guards w_three && write_dom_any tbl Tables.bms.max_keys lay_PMS DFLT w_three
  && forallb (fun q => text_end_ok (fmt_fixed 7 q)) [120%Q; 150%Q; 100%Q] = true.
Proof. vm_compute. reflexivity. Qed.

(* ======================================================================================================================
   For C09 (Proofs/BMSTimelineProofs.v): C05's bound as TIMELINE closeness (Formats/Timeline.v).  tl_of_wchart c = the chart's
   notes and its tempo points in time order; the timeline the written file denotes is close to it with every time within
   res_of FBms = 1/192 beat at the local tempo (bl_near over the chart's own tempo points), tempo points exactly.
   ====================================================================================================================== *)
Theorem C05_bms_write_timeline : forall (mk : Z) (lay : layout) (dflt : text) (c : wchart) (r : Q -> text),
  write_dom tbl mk lay dflt c = true -> (forall q, parse_decimal (r q) <> None) ->
  exists ls l d, bms_write tbl lay dflt c = Some ls /\ wscript tbl c = Some l
    /\ bms_denote lay (map (render_with r) ls) = Some d /\ written_denotes tbl dflt c l d
    /\ timeline_close_by (res_of FBms (tl_tempo (tl_of_wchart c))) 0 (tl_of_bms d) (tl_of_wchart c).
Proof. exact (bms_write_timeline tbl C05_table_ok). Qed.
Theorem C05_bms_write_timeline_any_order : forall (mk : Z) (lay : layout) (dflt : text) (c : wchart) (r : Q -> text),
  write_dom_any tbl mk lay dflt c = true -> (forall q, parse_decimal (r q) <> None) ->
  exists ls l d, bms_write tbl lay dflt c = Some ls /\ wscript tbl c = Some l
    /\ bms_denote lay (map (render_with r) ls) = Some d /\ written_denotes_any tbl dflt c l d
    /\ timeline_close_by (res_of FBms (tl_tempo (tl_of_wchart c))) 0 (tl_of_bms d) (tl_of_wchart c).
Proof. exact (bms_write_timeline_any_order tbl C05_table_ok). Qed.
