(* C09 — read -> convert -> write yields a valid target file with the source's timeline.
   Property theorems only: each is closed by [exact] from Proofs/PipelineProofs.v / Proofs/PipelineCompose.v (table
   obligations and concrete witnesses by vm_compute).

   What is proved for ALL inputs:
     * the comparison [timeline_close] is reflexive, symmetric, composes (triangle: resolutions add up), is monotone,
       invariant under row order and compatible with the converters' column shift; the boolean comparison the runner
       evaluates on the implementation's files soundly implies it; the resolution of a pair is the coarser of the two;
     * every adapter maps "same denotation" to "same timeline";
     * END TO END, for each of the 16 pairs, C09_<a>_to_<b>_pipeline: source FILE in the decidable domain of the reader's
       whole-file theorem (C01 / C06 / C02 / C04 / C07) -> reader MODEL -> EVERY frame-level chart carrying the rows read
       (hits, long notes, tempo points; any other columns, labels, lists, metadata) inside the converter's decidable domain
       chart_wfb -> the GENERATED converter description d (In (n, d) Tables.convert.converters, translated from the converters'
       source on every run; conv_okb d by C08_all_shipped_converters_ok; C09_pair_converters_shipped: the 16 names exist with
       the right games) -> the chart of the target game with the converted rows and ANY other attributes for which it lies
       in the writer's decidable domain -> writer MODEL (C06 / C01 six-decimal printer / C03 / C05) -> a well-formed file
       whose timeline (reference semantics of the target format) is within the stated bound of the source file's timeline
       (reference semantics of the source format), columns moved by the converter's own shift argument:
           -> Quaver: 1 ms, bpm exact      -> osu!: 1 ms, bpm within 2e-9 (1 + B)
           -> StepMania: exact inside c03_domb (the exact domain of C03)
           -> BMS: inside write_dom every start, end and tempo point within 1/192 beat at the local tempo (res_of FBms, by
              C05_bms_write_timeline); exact on the snap grid (the _exact_on_grid forms).
       Inclusion "converted chart is in the writer's domain" is PROVED for Quaver targets (typed metadata, columns >= 0;
       for O2Jam sources also the columns) and is an explicit decidable hypothesis for osu! / StepMania / BMS targets.
     ALL 16 pairs are full.  StepMania / BMS SOURCES carry one more decidable guard on the TEXT: every tempo change on a measure
     line (sm_tempo_on_lines / bms_tempo_on_lines; C02_sm_read_tempo_list_on_lines / C04_bms_read_tempo_list_on_lines then
     determine the chart's tempo list).  Tempo changes OFF the measure lines are outside these theorems on purpose: there the
     reader reseats them and the written file's tempo differs - the known finding tempo-reseated (a defect of the library, open).
   GENERAL forms kept under their _partial names (they say more: any text in the reader's domain, per chart under the decidable
   sm_tempo_same / bms_tempo_same 'the chart's tempo list is the file's'): sm->osu, sm->qua, sm->bms, bms->osu, bms->qua, bms->sm.
   NOT composed for any pair: the metadata path (C08's subject) - the written chart has the converted ROWS and arbitrary
   other attributes.  The runner (Corr/RunC09.v) decides the property on the implementation's files for every case. *)
From Coq Require Import ZArith QArith Qround Qabs List Bool Permutation.
From Coq Require Import String.
From RV Require Import Base.PyNum Formats.Timeline Generated.Tables Proofs.PipelineProofs Proofs.PipelineCompose.
From RV Require Import Convert.Converters.
From RV Require Formats.Osu Formats.OsuSpec Formats.Qua Formats.QuaSpec Formats.SM Formats.SMSpec Formats.BMSSpec
  Formats.O2J Formats.O2JSpec Corr.RunC09.
Import ListNotations.
Open Scope Q_scope.

(* ---- table obligation (re-checked against the regenerated table on every run): the OJN header layout ---- *)
Theorem C09_ojn_layout_is_reference : Tables.c07.layout = O2JSpec.ref_layout.
Proof. vm_compute. reflexivity. Qed.

(* ================= the comparison ================= *)
Theorem C09_timeline_close_refl : forall r e a, 0 <= r -> 0 <= e -> timeline_close r e a a.
Proof. exact timeline_close_refl. Qed.
Theorem C09_timeline_close_sym : forall r e a b, timeline_close r e a b -> timeline_close r e b a.
Proof. exact timeline_close_sym. Qed.
(* triangle: a file within r1 of a chart that is within r2 of another file is within r1 + r2 of that file *)
Theorem C09_timeline_close_triangle : forall r1 e1 r2 e2 a b c,
  timeline_close r1 e1 a b -> timeline_close r2 e2 b c -> timeline_close (r1 + r2) (e1 + e2) a c.
Proof. exact timeline_close_trans. Qed.
Theorem C09_timeline_close_monotone : forall r e r' e' a b, r <= r' -> e <= e' -> timeline_close r e a b -> timeline_close r' e' a b.
Proof. exact timeline_close_weaken. Qed.
Theorem C09_timeline_close_row_order : forall r e a a' b b',
  Permutation (tl_notes a) (tl_notes a') -> Permutation (tl_tempo a) (tl_tempo a') ->
  Permutation (tl_notes b) (tl_notes b') -> Permutation (tl_tempo b) (tl_tempo b') ->
  timeline_close r e a b -> timeline_close r e a' b'.
Proof. exact timeline_close_perm. Qed.
Theorem C09_timeline_close_shift : forall r e s a b, timeline_close r e a b -> timeline_close r e (tl_shift s a) (tl_shift s b).
Proof. exact timeline_close_shift. Qed.
(* local (tempo-dependent) bounds: a constant bound is a special case, and a local bound below R gives the constant R *)
Theorem C09_local_bound_const : forall r e a b, timeline_close_by (fun _ => r) e a b <-> timeline_close r e a b.
Proof. exact timeline_close_by_const. Qed.
Theorem C09_local_bound_below : forall rf R e a b, (forall t, rf t <= R) -> timeline_close_by rf e a b -> timeline_close R e a b.
Proof. exact timeline_close_by_bound. Qed.
(* the oracle of Corr/RunC09.v: a `true` means the declarative relation, with the coarser of the two resolutions *)
Theorem C09_oracle_sound : forall fa fb slack e src tgt,
  c09_timeline_ok fa fb slack e src tgt = true -> timeline_close_by (res_pair fa fb (tl_tempo src) slack) e tgt src.
Proof. exact c09_timeline_ok_sound. Qed.
Theorem C09_resolution_is_the_coarser : forall fa fb tempo slack t,
  res_pair fa fb tempo slack t == Qmax' (res_of fa tempo t) (res_of fb tempo t) + slack
  /\ res_of fa tempo t + slack <= res_pair fa fb tempo slack t /\ res_of fb tempo t + slack <= res_pair fa fb tempo slack t
  /\ res_pair fa fb tempo slack t == res_pair fb fa tempo slack t.
Proof. exact res_pair_coarser. Qed.

(* ================= the adapters: same denotation -> same timeline ================= *)
Theorem C09_adapter_quaver_close : forall e a, QuaSpec.den_close e a -> timeline_close 1 0 (tl_of_qua e) (tl_of_qua a).
Proof. exact tl_of_qua_close. Qed.
Theorem C09_adapter_quaver_eq : forall e a, QuaSpec.den_eq e a -> timeline_close 0 0 (tl_of_qua e) (tl_of_qua a).
Proof. exact tl_of_qua_eq. Qed.
Theorem C09_adapter_o2jam_close : forall tol a b, 0 <= tol -> O2JSpec.map_matches tol a b ->
  timeline_close (3 * tol) 0 (tl_of_omap a) (tl_of_omap b).
Proof. exact tl_of_omap_close. Qed.
Theorem C09_adapter_o2jam_equiv : forall a b,
  Permutation (O2J.om_hits a) (O2J.om_hits b) -> Permutation (O2J.om_holds a) (O2J.om_holds b) -> O2J.om_bpms a = O2J.om_bpms b ->
  timeline_close 0 0 (tl_of_omap a) (tl_of_omap b).
Proof. exact tl_of_omap_equiv. Qed.
Theorem C09_adapter_osu_row_order : forall d d',
  Permutation (OsuSpec.d_hits d) (OsuSpec.d_hits d') -> Permutation (OsuSpec.d_holds d) (OsuSpec.d_holds d') ->
  Permutation (OsuSpec.d_bpms d) (OsuSpec.d_bpms d') -> timeline_close 0 0 (tl_of_osu d) (tl_of_osu d').
Proof. exact tl_of_osu_perm. Qed.
Theorem C09_adapter_sm_row_order : forall d d' c c',
  Permutation (SMSpec.d_notes c) (SMSpec.d_notes c') -> Permutation (SMSpec.d_tempo d) (SMSpec.d_tempo d') ->
  timeline_close 0 0 (tl_of_sm_chart d c) (tl_of_sm_chart d' c').
Proof. exact tl_of_sm_perm. Qed.
Theorem C09_adapter_bms_row_order : forall d d',
  Permutation (BMSSpec.d_hits d) (BMSSpec.d_hits d') -> Permutation (BMSSpec.d_holds d) (BMSSpec.d_holds d') ->
  Permutation (BMSSpec.d_tempo d) (BMSSpec.d_tempo d') -> timeline_close 0 0 (tl_of_bms d) (tl_of_bms d').
Proof. exact tl_of_bms_perm. Qed.

(* ================= END TO END: O2Jam -> Quaver =================
   For EVERY well-formed OJN file f (C07's domain), any trailing bytes, any metadata of the declared types, and every
   difficulty k: the reader model (O2J.read_fixed, proved against ojn_denote in C07) returns a chart; the converter
   (o2j_to_qua = ConvertBase.cast with O2JToQua's mappings, the model proved exact in C08, + the metadata) turns it into a
   chart inside the Quaver writer's strict domain; the writer model (Qua.Live.write, C06) produces a document that is
   well-formed (wf_qua_docb), declares every metadata key, and whose timeline under Quaver's format semantics
   (qua_denote) equals the timeline the OJN file denotes under O2Jam's format semantics (ojn_denote): same notes in the
   same columns, every start and end and every tempo point within 1 ms - the coarser of the two resolutions - and the same
   bpm values.  Hypotheses, explicit: wf_file f; the 21 metadata attributes typed (meta_okb false meta; the converter's
   metadata wiring is checked per run by C08); the table obligation C09_ojn_layout_is_reference. *)
Theorem C09_o2j_to_qua_pipeline : forall f trail meta, O2JSpec.wf_file f = true -> QuaSpec.meta_okb false meta = true ->
  exists o d, O2J.read_fixed (O2JSpec.encode_file f ++ trail) = Some o /\ O2JSpec.ojn_denote f = Some d
    /\ List.length (O2J.os_maps o) = List.length (O2J.os_maps d)
    /\ forall k mo md, nth_error (O2J.os_maps o) k = Some mo -> nth_error (O2J.os_maps d) k = Some md ->
       exists c doc e, o2j_to_qua meta mo = Some c /\ Qua.Live.write c = Some doc
         /\ QuaSpec.wf_qua_docb doc = true /\ QuaSpec.qua_denote doc = Some e /\ QuaSpec.all_declared (QuaSpec.d_meta e) = true
         /\ timeline_close 1 0 (tl_of_qua e) (tl_of_omap md).
Proof. exact (o2j_to_qua_pipeline C09_ojn_layout_is_reference). Qed.
(* the converter of that theorem IS the cast of C08 with O2JToQua's mappings, computed on every list of records *)
Theorem C09_o2j_to_qua_is_cast : forall meta m, o2j_to_qua meta m = Some (q_chart meta m).
Proof. exact o2j_to_qua_explicit. Qed.
(* "the reader's output satisfies the writer's wf": lanes 0..6 are valid Quaver columns, every cell is numeric *)
Theorem C09_converted_chart_in_writer_domain : forall meta m,
  Forall (fun h => (0 <= O2J.h_col h)%Z) (O2J.om_hits m) -> Forall (fun h => (0 <= O2J.l_col h)%Z) (O2J.om_holds m) ->
  QuaSpec.meta_okb false meta = true -> QuaSpec.wf_chartb false (q_chart meta m) = true.
Proof. exact q_chart_wf. Qed.

(* ================= the building blocks of the per-pair theorems ================= *)
Theorem C09_pipeline_compose : forall r1 e1 r2 e2 s src chart_a chart_b tgt,
  timeline_close r1 e1 chart_a src -> timeline_close 0 0 chart_b (tl_shift s chart_a) -> timeline_close r2 e2 tgt chart_b ->
  timeline_close (r1 + r2) (e1 + e2) tgt (tl_shift s src).
Proof. exact pipeline_compose. Qed.
Theorem C09_quaver_reader_half : forall doc, QuaSpec.wf_docb doc = true ->
  exists c e a, Qua.Live.read doc = Some c /\ QuaSpec.qua_denote doc = Some e /\ QuaSpec.chart_denote c = Some a
                /\ timeline_close 0 0 (tl_of_qua a) (tl_of_qua e).
Proof. exact qua_reader_half. Qed.
Theorem C09_quaver_writer_half : forall c, QuaSpec.wf_chartb false c = true ->
  exists doc e a, Qua.Live.write c = Some doc /\ QuaSpec.wf_qua_docb doc = true /\ QuaSpec.qua_denote doc = Some e
                  /\ QuaSpec.chart_denote c = Some a /\ timeline_close 1 0 (tl_of_qua e) (tl_of_qua a).
Proof. exact qua_writer_half. Qed.
Theorem C09_o2jam_reader_half : forall f trail, O2JSpec.wf_file f = true ->
  exists o d, O2J.read_fixed (O2JSpec.encode_file f ++ trail) = Some o /\ O2JSpec.ojn_denote f = Some d
    /\ forall k mo md, nth_error (O2J.os_maps o) k = Some mo -> nth_error (O2J.os_maps d) k = Some md ->
        timeline_close 0 0 (tl_of_omap mo) (tl_of_omap md)
        /\ Forall (fun n => (0 <= tn_col n < 7)%Z) (tl_notes (tl_of_omap md)).
Proof. exact (o2j_reader_half C09_ojn_layout_is_reference). Qed.

(* the converter step shared by all pairs: C08_converter_preserves read on the rows *)
Theorem C09_converter_carries_rows : forall d a sm k cs oracle sz rA tsrc rq eq_,
  conv_okb d = true -> chart_wfb d a sm k cs oracle = true -> a_shift a = inject_Z sz ->
  rows_of_cchart cs = Some rA -> timeline_close rq eq_ (tl_of_rows rA) tsrc ->
  exists out, conv_chart d a sm k cs oracle = Some out
    /\ rows_of_cchart out = Some (shift_rows (conv_shift d sz) rA)
    /\ timeline_close rq eq_ (tl_of_rows (shift_rows (conv_shift d sz) rA)) (tl_shift (conv_shift d sz) tsrc).
Proof. exact convert_step. Qed.
(* re-checked against the code on every run: the 16 converters exist, between the games they are named after *)
Theorem C09_pair_converters_shipped :
  forallb (fun t => match conv_named (fst (fst t)) with
                    | Some d => (cd_src_game d =? snd (fst t))%Z && (cd_tgt_game d =? snd t)%Z | None => false end) pair_table = true.
Proof. exact pair_converters_shipped. Qed.
Theorem C09_named_converter_is_shipped : forall name d, conv_named name = Some d -> exists n, In (n, d) Tables.convert.converters.
Proof. exact conv_named_in. Qed.

(* ================= END TO END, the 16 pairs (see the header for the common shape) ================= *)
(* osu! -> Quaver.  Reader C01_osu_read_denotes (wf_read_text /\ strict_read_text), writer C06 (inclusion in the writer's domain
   PROVED from typed metadata and columns >= 0; the latter is kept as the decidable hypothesis cols_nonneg).  1 ms, bpm exact. *)
Theorem C09_osu_to_qua_pipeline :
  forall (n : Z) (d : conv_desc) (lines : list Text.text) (a : cargs) (sm : meta) (k : nat) 
         (oracle : chart) (sz : Z) (meta : list Qua.ytree),
       In (n, d) converters ->
       OsuSpec.wf_read_text lines = true ->
       OsuSpec.strict_read_text lines = true ->
       a_shift a = inject_Z sz ->
       QuaSpec.meta_okb false meta = true ->
       exists (dsrc : OsuSpec.dchart) (c : Osu.chart),
         OsuSpec.osu_denote lines = Some dsrc /\
         Osu.osu_read lines = Some c /\
         (forall cs : chart,
          rows_of_cchart cs = Some (rows_of_osu c) ->
          chart_wfb d a sm k cs oracle = true ->
          exists (out : chart) (r' : rows),
            conv_chart d a sm k cs oracle = Some out /\
            rows_of_cchart out = Some r' /\
            (cols_nonneg r' = true ->
             QuaSpec.wf_chartb false (build_qua r' meta) = true /\
             (exists (doc : Qua.ytree) (e : QuaSpec.den),
                Qua.Live.write (build_qua r' meta) = Some doc /\
                QuaSpec.wf_qua_docb doc = true /\
                QuaSpec.qua_denote doc = Some e /\
                timeline_close 1 0 (tl_of_qua e) (tl_shift (conv_shift d sz) (tl_of_osu dsrc))))).
Proof. exact osu_to_qua_pipeline. Qed.

(* Quaver -> osu!.  Reader C06 (wf_docb), writer C01 with the six-decimal printer (wdom6: decidable hypothesis on the built chart).
   1 ms; bpm within OSU_BPM_EPS B = 2e-9 * (1 + B) for a bound B on the tempo values (six-decimal beatLength). *)
Theorem C09_qua_to_osu_pipeline :
  forall (n : Z) (d : conv_desc) (doc : Qua.ytree) (a : cargs) (sm : meta) (k : nat) 
         (oracle : chart) (sz : Z) (p : osu_rest) (ut ua : Text.text) (B : Q),
       In (n, d) converters ->
       QuaSpec.wf_docb doc = true ->
       a_shift a = inject_Z sz ->
       exists (c : Qua.chart) (e : QuaSpec.den) (rA : rows),
         Qua.Live.read doc = Some c /\
         QuaSpec.qua_denote doc = Some e /\
         rows_of_qua c = Some rA /\
         (forall cs : chart,
          rows_of_cchart cs = Some rA ->
          chart_wfb d a sm k cs oracle = true ->
          exists (out : chart) (r' : rows),
            conv_chart d a sm k cs oracle = Some out /\
            rows_of_cchart out = Some r' /\
            (OsuWhole.wdom6 (build_osu r' p) ut ua = true ->
             (forall b : Q * Q, In b (r_bpms r') -> Qabs (snd b) <= B) ->
             exists (text : list Text.text) (dt : OsuSpec.dchart),
               OsuWhole.written6 (build_osu r' p) ut ua = Some text /\
               OsuSpec.wf_osu_text text = true /\
               OsuSpec.osu_denote text = Some dt /\
               timeline_close 1 (OSU_BPM_EPS B) (tl_of_osu dt) (tl_shift (conv_shift d sz) (tl_of_qua e)))).
Proof. exact qua_to_osu_pipeline. Qed.

(* O2Jam -> osu!, per difficulty.  Reader C07 (wf_file, byte level), writer C01 (wdom6 hypothesis). *)
Theorem C09_o2j_to_osu_pipeline :
  forall (n : Z) (d : conv_desc) (f : O2JSpec.ofile) (trail : list Z) (a : cargs) (sm : meta) 
         (oracle : chart) (sz : Z) (p : osu_rest) (ut ua : Text.text) (B : Q),
       Tables.c07.layout = O2JSpec.ref_layout ->
       In (n, d) converters ->
       O2JSpec.wf_file f = true ->
       a_shift a = inject_Z sz ->
       exists o dn : O2J.oset,
         O2J.read_fixed (O2JSpec.encode_file f ++ trail) = Some o /\
         O2JSpec.ojn_denote f = Some dn /\
         (forall (k : nat) (mo md : O2J.omap),
          nth_error (O2J.os_maps o) k = Some mo ->
          nth_error (O2J.os_maps dn) k = Some md ->
          forall cs : chart,
          rows_of_cchart cs = Some (rows_of_omap mo) ->
          chart_wfb d a sm k cs oracle = true ->
          exists (out : chart) (r' : rows),
            conv_chart d a sm k cs oracle = Some out /\
            rows_of_cchart out = Some r' /\
            (OsuWhole.wdom6 (build_osu r' p) ut ua = true ->
             (forall b : Q * Q, In b (r_bpms r') -> Qabs (snd b) <= B) ->
             exists (text : list Text.text) (dt : OsuSpec.dchart),
               OsuWhole.written6 (build_osu r' p) ut ua = Some text /\
               OsuSpec.wf_osu_text text = true /\
               OsuSpec.osu_denote text = Some dt /\
               timeline_close 1 (OSU_BPM_EPS B) (tl_of_osu dt) (tl_shift (conv_shift d sz) (tl_of_omap md)))).
Proof. exact o2j_to_osu_pipeline. Qed.

(* O2Jam -> Quaver THROUGH THE CONVERTER DESCRIPTION, per difficulty; inclusion in the writer's domain proved (lanes 0..6, shift >= 0). *)
Theorem C09_o2j_to_qua_conv_pipeline :
  forall (n : Z) (d : conv_desc) (f : O2JSpec.ofile) (trail : list Z) (a : cargs) (sm : meta) 
         (oracle : chart) (sz : Z) (meta : list Qua.ytree),
       Tables.c07.layout = O2JSpec.ref_layout ->
       In (n, d) converters ->
       O2JSpec.wf_file f = true ->
       a_shift a = inject_Z sz ->
       (0 <= conv_shift d sz)%Z ->
       QuaSpec.meta_okb false meta = true ->
       exists o dn : O2J.oset,
         O2J.read_fixed (O2JSpec.encode_file f ++ trail) = Some o /\
         O2JSpec.ojn_denote f = Some dn /\
         (forall (k : nat) (mo md : O2J.omap),
          nth_error (O2J.os_maps o) k = Some mo ->
          nth_error (O2J.os_maps dn) k = Some md ->
          forall cs : chart,
          rows_of_cchart cs = Some (rows_of_omap mo) ->
          chart_wfb d a sm k cs oracle = true ->
          exists (out : chart) (r' : rows),
            conv_chart d a sm k cs oracle = Some out /\
            rows_of_cchart out = Some r' /\
            QuaSpec.wf_chartb false (build_qua r' meta) = true /\
            (exists (doc : Qua.ytree) (e : QuaSpec.den),
               Qua.Live.write (build_qua r' meta) = Some doc /\
               QuaSpec.wf_qua_docb doc = true /\
               QuaSpec.qua_denote doc = Some e /\
               timeline_close 1 0 (tl_of_qua e) (tl_shift (conv_shift d sz) (tl_of_omap md)))).
Proof. exact o2j_to_qua_conv_pipeline. Qed.

(* osu! -> StepMania: EXACT (0 ms) inside the exact domain c03_domb of the converted chart (decidable hypothesis; distinct_offs is
   implied by it but kept explicit).  Every rendering txt of the written tokens. *)
Theorem C09_osu_to_sm_pipeline :
  forall (n : Z) (d : conv_desc) (lines : list Text.text) (a : cargs) (sm : meta) (k : nat) 
         (oracle : chart) (sz : Z) (p : sm_rest),
       In (n, d) converters ->
       OsuSpec.wf_read_text lines = true ->
       OsuSpec.strict_read_text lines = true ->
       a_shift a = inject_Z sz ->
       exists (dsrc : OsuSpec.dchart) (c : Osu.chart),
         OsuSpec.osu_denote lines = Some dsrc /\
         Osu.osu_read lines = Some c /\
         (forall cs : chart,
          rows_of_cchart cs = Some (rows_of_osu c) ->
          chart_wfb d a sm k cs oracle = true ->
          exists (out : chart) (r' : rows),
            conv_chart d a sm k cs oracle = Some out /\
            rows_of_cchart out = Some r' /\
            (SMWriteWholeFile.c03_domb (build_sm r' p) = true ->
             distinct_offs (r_bpms r') ->
             exists toks : list SM.tok,
               SM.sm_write SMProofs.live_conf SM.current (build_sm r' p) = Some toks /\
               (forall txt : SMText.text,
                SM.match_toks 0 toks txt = true ->
                exists (dt : SMSpec.dfile) (dc : SMSpec.dchart),
                  SMSpec.sm_denote txt = Some dt /\
                  SMSpec.d_charts dt = [dc] /\
                  timeline_close 0 0 (tl_of_sm_chart dt dc) (tl_shift (conv_shift d sz) (tl_of_osu dsrc))))).
Proof. exact osu_to_sm_pipeline. Qed.

(* Quaver -> StepMania (as above). *)
Theorem C09_qua_to_sm_pipeline :
  forall (n : Z) (d : conv_desc) (doc : Qua.ytree) (a : cargs) (sm : meta) (k : nat) 
         (oracle : chart) (sz : Z) (p : sm_rest),
       In (n, d) converters ->
       QuaSpec.wf_docb doc = true ->
       a_shift a = inject_Z sz ->
       exists (c : Qua.chart) (e : QuaSpec.den) (rA : rows),
         Qua.Live.read doc = Some c /\
         QuaSpec.qua_denote doc = Some e /\
         rows_of_qua c = Some rA /\
         (forall cs : chart,
          rows_of_cchart cs = Some rA ->
          chart_wfb d a sm k cs oracle = true ->
          exists (out : chart) (r' : rows),
            conv_chart d a sm k cs oracle = Some out /\
            rows_of_cchart out = Some r' /\
            (SMWriteWholeFile.c03_domb (build_sm r' p) = true ->
             distinct_offs (r_bpms r') ->
             exists toks : list SM.tok,
               SM.sm_write SMProofs.live_conf SM.current (build_sm r' p) = Some toks /\
               (forall txt : SMText.text,
                SM.match_toks 0 toks txt = true ->
                exists (dt : SMSpec.dfile) (dc : SMSpec.dchart),
                  SMSpec.sm_denote txt = Some dt /\
                  SMSpec.d_charts dt = [dc] /\
                  timeline_close 0 0 (tl_of_sm_chart dt dc) (tl_shift (conv_shift d sz) (tl_of_qua e))))).
Proof. exact qua_to_sm_pipeline. Qed.

(* O2Jam -> StepMania, per difficulty (as above). *)
Theorem C09_o2j_to_sm_pipeline :
  forall (n : Z) (d : conv_desc) (f : O2JSpec.ofile) (trail : list Z) (a : cargs) (sm : meta) 
         (oracle : chart) (sz : Z) (p : sm_rest),
       Tables.c07.layout = O2JSpec.ref_layout ->
       In (n, d) converters ->
       O2JSpec.wf_file f = true ->
       a_shift a = inject_Z sz ->
       exists o dn : O2J.oset,
         O2J.read_fixed (O2JSpec.encode_file f ++ trail) = Some o /\
         O2JSpec.ojn_denote f = Some dn /\
         (forall (k : nat) (mo md : O2J.omap),
          nth_error (O2J.os_maps o) k = Some mo ->
          nth_error (O2J.os_maps dn) k = Some md ->
          forall cs : chart,
          rows_of_cchart cs = Some (rows_of_omap mo) ->
          chart_wfb d a sm k cs oracle = true ->
          exists (out : chart) (r' : rows),
            conv_chart d a sm k cs oracle = Some out /\
            rows_of_cchart out = Some r' /\
            (SMWriteWholeFile.c03_domb (build_sm r' p) = true ->
             distinct_offs (r_bpms r') ->
             exists toks : list SM.tok,
               SM.sm_write SMProofs.live_conf SM.current (build_sm r' p) = Some toks /\
               (forall txt : SMText.text,
                SM.match_toks 0 toks txt = true ->
                exists (dt : SMSpec.dfile) (dc : SMSpec.dchart),
                  SMSpec.sm_denote txt = Some dt /\
                  SMSpec.d_charts dt = [dc] /\
                  timeline_close 0 0 (tl_of_sm_chart dt dc) (tl_shift (conv_shift d sz) (tl_of_omap md))))).
Proof. exact o2j_to_sm_pipeline. Qed.

(* StepMania -> osu!, per chart, FULL for texts in c02_domb whose #BPMS beats are multiples of 4 (sm_tempo_on_lines, decidable on the
   text): by C02_sm_read_tempo_list_on_lines the chart's tempo list IS the denoted one.  Tempo changes off the measure lines are
   reseated by the reader: the known finding tempo-reseated (general case: C09_sm_to_osu_pipeline_partial). *)
Theorem C09_sm_to_osu_pipeline :
  forall (n : Z) (d : conv_desc) (txt : list Z) (a : cargs) (oracle : chart) (sz : Z),
       In (n, d) converters ->
       SMReadDom.c02_domb txt = true ->
       SMReadDom.sm_tempo_on_lines txt = true ->
       a_shift a = inject_Z sz ->
       forall (p : osu_rest) (ut ua : Text.text) (B : Q),
       exists (ds : SMSpec.dfile) (s : SM.smset),
         SMSpec.sm_denote txt = Some ds /\
         SM.sm_read SMProofs.live_conf SM.current txt = Some s /\
         (forall (k : nat) (dc : SMSpec.dchart) (c : SM.smchart),
          nth_error (SMSpec.d_charts ds) k = Some dc ->
          nth_error (SM.s_maps s) k = Some c ->
          forall (sm : meta) (cs : chart),
          rows_of_cchart cs = Some (rows_of_smchart c) ->
          chart_wfb d a sm k cs oracle = true ->
          exists (out : chart) (r' : rows),
            conv_chart d a sm k cs oracle = Some out /\
            rows_of_cchart out = Some r' /\
            (OsuWhole.wdom6 (build_osu r' p) ut ua = true ->
             (forall b : Q * Q, In b (r_bpms r') -> Qabs (snd b) <= B) ->
             exists (text : list Text.text) (dt : OsuSpec.dchart),
               OsuWhole.written6 (build_osu r' p) ut ua = Some text /\
               OsuSpec.wf_osu_text text = true /\
               OsuSpec.osu_denote text = Some dt /\
               timeline_close 1 (OSU_BPM_EPS B) (tl_of_osu dt) (tl_shift (conv_shift d sz) (tl_of_sm_chart ds dc)))).
Proof. exact sm_to_osu_lines_pipeline. Qed.

(* StepMania -> Quaver, per chart (as above). *)
Theorem C09_sm_to_qua_pipeline :
  forall (n : Z) (d : conv_desc) (txt : list Z) (a : cargs) (oracle : chart) (sz : Z),
       In (n, d) converters ->
       SMReadDom.c02_domb txt = true ->
       SMReadDom.sm_tempo_on_lines txt = true ->
       a_shift a = inject_Z sz ->
       forall qmeta : list Qua.ytree,
       QuaSpec.meta_okb false qmeta = true ->
       exists (ds : SMSpec.dfile) (s : SM.smset),
         SMSpec.sm_denote txt = Some ds /\
         SM.sm_read SMProofs.live_conf SM.current txt = Some s /\
         (forall (k : nat) (dc : SMSpec.dchart) (c : SM.smchart),
          nth_error (SMSpec.d_charts ds) k = Some dc ->
          nth_error (SM.s_maps s) k = Some c ->
          forall (sm : meta) (cs : chart),
          rows_of_cchart cs = Some (rows_of_smchart c) ->
          chart_wfb d a sm k cs oracle = true ->
          exists (out : chart) (r' : rows),
            conv_chart d a sm k cs oracle = Some out /\
            rows_of_cchart out = Some r' /\
            (cols_nonneg r' = true ->
             QuaSpec.wf_chartb false (build_qua r' qmeta) = true /\
             (exists (doc : Qua.ytree) (e : QuaSpec.den),
                Qua.Live.write (build_qua r' qmeta) = Some doc /\
                QuaSpec.wf_qua_docb doc = true /\
                QuaSpec.qua_denote doc = Some e /\
                timeline_close 1 0 (tl_of_qua e) (tl_shift (conv_shift d sz) (tl_of_sm_chart ds dc))))).
Proof. exact sm_to_qua_lines_pipeline. Qed.

(* StepMania -> BMS, per chart: reader as above; writer inside write_dom, every time within 1/192 beat at the local tempo. *)
Theorem C09_sm_to_bms_pipeline :
  forall (n : Z) (d : conv_desc) (txt : list Z) (a : cargs) (oracle : chart) (sz : Z),
       In (n, d) converters ->
       SMReadDom.c02_domb txt = true ->
       SMReadDom.sm_tempo_on_lines txt = true ->
       a_shift a = inject_Z sz ->
       forall (mk : Z) (lay : BMSSpec.slayout) (dflt : list Z) (p : bms_rest) (rd : Q -> list Z),
       exists (ds : SMSpec.dfile) (s : SM.smset),
         SMSpec.sm_denote txt = Some ds /\
         SM.sm_read SMProofs.live_conf SM.current txt = Some s /\
         (forall (k : nat) (dc : SMSpec.dchart) (c : SM.smchart),
          nth_error (SMSpec.d_charts ds) k = Some dc ->
          nth_error (SM.s_maps s) k = Some c ->
          forall (sm : meta) (cs : chart),
          rows_of_cchart cs = Some (rows_of_smchart c) ->
          chart_wfb d a sm k cs oracle = true ->
          exists (out : chart) (r' : rows),
            conv_chart d a sm k cs oracle = Some out /\
            rows_of_cchart out = Some r' /\
            bms_target_bound mk lay dflt p rd r' (tl_shift (conv_shift d sz) (tl_of_sm_chart ds dc))).
Proof. exact sm_to_bms_lines_pipeline. Qed.

(* StepMania -> osu!, per chart, the GENERAL form (kept because it says more than the full theorem above: any text in c02_domb,
   tempo changes anywhere): C02_sm_read_denotes says of the chart's tempo LIST only that every tempo change of the file is in it
   (it is TimingMap.reseat()'s list), so the statement is per chart under the decidable hypothesis sm_tempo_same ds c - the
   chart's list IS the file's.  It is false exactly on the known finding tempo-reseated, which is a defect, not a missing lemma. *)
Theorem C09_sm_to_osu_pipeline_partial :
  forall (n : Z) (d : conv_desc) (txt : SMText.text) (a : cargs) (oracle : chart) (sz : Z) 
         (p : osu_rest) (ut ua : Text.text) (B : Q),
       In (n, d) converters ->
       SMReadDom.c02_domb txt = true ->
       a_shift a = inject_Z sz ->
       exists (ds : SMSpec.dfile) (s : SM.smset),
         SMSpec.sm_denote txt = Some ds /\
         SM.sm_read SMProofs.live_conf SM.current txt = Some s /\
         (forall (k : nat) (dc : SMSpec.dchart) (c : SM.smchart),
          nth_error (SMSpec.d_charts ds) k = Some dc ->
          nth_error (SM.s_maps s) k = Some c ->
          sm_tempo_same ds c = true ->
          forall (sm : meta) (cs : chart),
          rows_of_cchart cs = Some (rows_of_smchart c) ->
          chart_wfb d a sm k cs oracle = true ->
          exists (out : chart) (r' : rows),
            conv_chart d a sm k cs oracle = Some out /\
            rows_of_cchart out = Some r' /\
            (OsuWhole.wdom6 (build_osu r' p) ut ua = true ->
             (forall b : Q * Q, In b (r_bpms r') -> Qabs (snd b) <= B) ->
             exists (text : list Text.text) (dt : OsuSpec.dchart),
               OsuWhole.written6 (build_osu r' p) ut ua = Some text /\
               OsuSpec.wf_osu_text text = true /\
               OsuSpec.osu_denote text = Some dt /\
               timeline_close 1 (OSU_BPM_EPS B) (tl_of_osu dt) (tl_shift (conv_shift d sz) (tl_of_sm_chart ds dc)))).
Proof. exact sm_to_osu_pipeline. Qed.

(* StepMania -> Quaver, per chart (same partiality). *)
Theorem C09_sm_to_qua_pipeline_partial :
  forall (n : Z) (d : conv_desc) (txt : SMText.text) (a : cargs) (oracle : chart) (sz : Z)
         (meta0 : list Qua.ytree),
       In (n, d) converters ->
       SMReadDom.c02_domb txt = true ->
       a_shift a = inject_Z sz ->
       QuaSpec.meta_okb false meta0 = true ->
       exists (ds : SMSpec.dfile) (s : SM.smset),
         SMSpec.sm_denote txt = Some ds /\
         SM.sm_read SMProofs.live_conf SM.current txt = Some s /\
         (forall (k : nat) (dc : SMSpec.dchart) (c : SM.smchart),
          nth_error (SMSpec.d_charts ds) k = Some dc ->
          nth_error (SM.s_maps s) k = Some c ->
          sm_tempo_same ds c = true ->
          forall (sm : meta) (cs : chart),
          rows_of_cchart cs = Some (rows_of_smchart c) ->
          chart_wfb d a sm k cs oracle = true ->
          exists (out : chart) (r' : rows),
            conv_chart d a sm k cs oracle = Some out /\
            rows_of_cchart out = Some r' /\
            (cols_nonneg r' = true ->
             QuaSpec.wf_chartb false (build_qua r' meta0) = true /\
             (exists (doc : Qua.ytree) (e : QuaSpec.den),
                Qua.Live.write (build_qua r' meta0) = Some doc /\
                QuaSpec.wf_qua_docb doc = true /\
                QuaSpec.qua_denote doc = Some e /\
                timeline_close 1 0 (tl_of_qua e) (tl_shift (conv_shift d sz) (tl_of_sm_chart ds dc))))).
Proof. exact sm_to_qua_pipeline. Qed.

(* BMS -> osu!, FULL for texts whose tempo objects sit at position 0 of their measure (bms_tempo_on_lines, decidable on the text):
   by C04_bms_read_tempo_list_on_lines the read RETURNS and the chart's tempo list IS the denoted one.  Off the measure lines:
   tempo-reseated (general case: C09_bms_to_osu_pipeline_partial). *)
Theorem C09_bms_to_osu_pipeline :
  forall (n : Z) (d : conv_desc) (lay : BMSSpec.slayout) (mk : Z) (lines : list (list Z)) 
         (a : cargs) (sm : meta) (k : nat) (oracle : chart) (sz : Z),
       In (n, d) converters ->
       BMSSpec.layout_ok mk lay = true ->
       BMSSpec.wf_bms_lines lay lines = true ->
       BMSSpec.read_guards C04.tbl lines = true ->
       BMSGuards.bms_tempo_on_lines lines = true ->
       a_shift a = inject_Z sz ->
       forall (p : osu_rest) (ut ua : Text.text) (B : Q),
       exists (c : BMS.bms_chart) (ds : BMSSpec.denotation),
         BMS.bms_read C04.tbl lay mk lines = Some c /\
         BMSSpec.bms_denote lay lines = Some ds /\
         (forall cs : chart,
          rows_of_cchart cs = Some (rows_of_bms c) ->
          chart_wfb d a sm k cs oracle = true ->
          exists (out : chart) (r' : rows),
            conv_chart d a sm k cs oracle = Some out /\
            rows_of_cchart out = Some r' /\
            (OsuWhole.wdom6 (build_osu r' p) ut ua = true ->
             (forall b : Q * Q, In b (r_bpms r') -> Qabs (snd b) <= B) ->
             exists (text : list Text.text) (dt : OsuSpec.dchart),
               OsuWhole.written6 (build_osu r' p) ut ua = Some text /\
               OsuSpec.wf_osu_text text = true /\
               OsuSpec.osu_denote text = Some dt /\
               timeline_close 1 (OSU_BPM_EPS B) (tl_of_osu dt) (tl_shift (conv_shift d sz) (tl_of_bms ds)))).
Proof. exact bms_to_osu_lines_pipeline. Qed.

(* BMS -> Quaver (as above). *)
Theorem C09_bms_to_qua_pipeline :
  forall (n : Z) (d : conv_desc) (lay : BMSSpec.slayout) (mk : Z) (lines : list (list Z)) 
         (a : cargs) (sm : meta) (k : nat) (oracle : chart) (sz : Z),
       In (n, d) converters ->
       BMSSpec.layout_ok mk lay = true ->
       BMSSpec.wf_bms_lines lay lines = true ->
       BMSSpec.read_guards C04.tbl lines = true ->
       BMSGuards.bms_tempo_on_lines lines = true ->
       a_shift a = inject_Z sz ->
       forall qmeta : list Qua.ytree,
       QuaSpec.meta_okb false qmeta = true ->
       exists (c : BMS.bms_chart) (ds : BMSSpec.denotation),
         BMS.bms_read C04.tbl lay mk lines = Some c /\
         BMSSpec.bms_denote lay lines = Some ds /\
         (forall cs : chart,
          rows_of_cchart cs = Some (rows_of_bms c) ->
          chart_wfb d a sm k cs oracle = true ->
          exists (out : chart) (r' : rows),
            conv_chart d a sm k cs oracle = Some out /\
            rows_of_cchart out = Some r' /\
            (cols_nonneg r' = true ->
             QuaSpec.wf_chartb false (build_qua r' qmeta) = true /\
             (exists (doc : Qua.ytree) (e : QuaSpec.den),
                Qua.Live.write (build_qua r' qmeta) = Some doc /\
                QuaSpec.wf_qua_docb doc = true /\
                QuaSpec.qua_denote doc = Some e /\
                timeline_close 1 0 (tl_of_qua e) (tl_shift (conv_shift d sz) (tl_of_bms ds))))).
Proof. exact bms_to_qua_lines_pipeline. Qed.

(* BMS -> StepMania (as above; writer exact inside c03_domb). *)
Theorem C09_bms_to_sm_pipeline :
  forall (n : Z) (d : conv_desc) (lay : BMSSpec.slayout) (mk : Z) (lines : list (list Z)) 
         (a : cargs) (sm : meta) (k : nat) (oracle : chart) (sz : Z),
       In (n, d) converters ->
       BMSSpec.layout_ok mk lay = true ->
       BMSSpec.wf_bms_lines lay lines = true ->
       BMSSpec.read_guards C04.tbl lines = true ->
       BMSGuards.bms_tempo_on_lines lines = true ->
       a_shift a = inject_Z sz ->
       forall p : sm_rest,
       exists (c : BMS.bms_chart) (ds : BMSSpec.denotation),
         BMS.bms_read C04.tbl lay mk lines = Some c /\
         BMSSpec.bms_denote lay lines = Some ds /\
         (forall cs : chart,
          rows_of_cchart cs = Some (rows_of_bms c) ->
          chart_wfb d a sm k cs oracle = true ->
          exists (out : chart) (r' : rows),
            conv_chart d a sm k cs oracle = Some out /\
            rows_of_cchart out = Some r' /\
            (SMWriteWholeFile.c03_domb (build_sm r' p) = true ->
             distinct_offs (r_bpms r') ->
             exists toks : list SM.tok,
               SM.sm_write SMProofs.live_conf SM.current (build_sm r' p) = Some toks /\
               (forall txt : SMText.text,
                SM.match_toks 0 toks txt = true ->
                exists (dt : SMSpec.dfile) (dc : SMSpec.dchart),
                  SMSpec.sm_denote txt = Some dt /\
                  SMSpec.d_charts dt = [dc] /\
                  timeline_close 0 0 (tl_of_sm_chart dt dc) (tl_shift (conv_shift d sz) (tl_of_bms ds))))).
Proof. exact bms_to_sm_lines_pipeline. Qed.

(* BMS -> osu!.  Reader C04_bms_read_text (layout_ok, wf_bms_lines, read_guards, and the read returned: C04_bms_read_returns says when).
   The GENERAL form, kept like StepMania's: any text whose read returned, tempo objects anywhere, under bms_tempo_same ds c
   (false exactly on the known finding tempo-reseated). *)
Theorem C09_bms_to_osu_pipeline_partial :
  forall (n : Z) (d : conv_desc) (lay : BMSSpec.slayout) (mk : Z) (lines : list (list Z)) 
         (c : BMS.bms_chart) (a : cargs) (sm : meta) (k : nat) (oracle : chart) (sz : Z),
       In (n, d) converters ->
       BMSSpec.layout_ok mk lay = true ->
       BMSSpec.wf_bms_lines lay lines = true ->
       BMSSpec.read_guards C04.tbl lines = true ->
       BMS.bms_read C04.tbl lay mk lines = Some c ->
       a_shift a = inject_Z sz ->
       forall (p : osu_rest) (ut ua : Text.text) (B : Q),
       exists ds : BMSSpec.denotation,
         BMSSpec.bms_denote lay lines = Some ds /\
         (bms_tempo_same ds c = true ->
          forall cs : chart,
          rows_of_cchart cs = Some (rows_of_bms c) ->
          chart_wfb d a sm k cs oracle = true ->
          exists (out : chart) (r' : rows),
            conv_chart d a sm k cs oracle = Some out /\
            rows_of_cchart out = Some r' /\
            (OsuWhole.wdom6 (build_osu r' p) ut ua = true ->
             (forall b : Q * Q, In b (r_bpms r') -> Qabs (snd b) <= B) ->
             exists (text : list Text.text) (dt : OsuSpec.dchart),
               OsuWhole.written6 (build_osu r' p) ut ua = Some text /\
               OsuSpec.wf_osu_text text = true /\
               OsuSpec.osu_denote text = Some dt /\
               timeline_close 1 (OSU_BPM_EPS B) (tl_of_osu dt) (tl_shift (conv_shift d sz) (tl_of_bms ds)))).
Proof. exact bms_to_osu_pipeline. Qed.

(* BMS -> Quaver (same partiality). *)
Theorem C09_bms_to_qua_pipeline_partial :
  forall (n : Z) (d : conv_desc) (lay : BMSSpec.slayout) (mk : Z) (lines : list (list Z)) 
         (c : BMS.bms_chart) (a : cargs) (sm : meta) (k : nat) (oracle : chart) (sz : Z),
       In (n, d) converters ->
       BMSSpec.layout_ok mk lay = true ->
       BMSSpec.wf_bms_lines lay lines = true ->
       BMSSpec.read_guards C04.tbl lines = true ->
       BMS.bms_read C04.tbl lay mk lines = Some c ->
       a_shift a = inject_Z sz ->
       forall qmeta : list Qua.ytree,
       QuaSpec.meta_okb false qmeta = true ->
       exists ds : BMSSpec.denotation,
         BMSSpec.bms_denote lay lines = Some ds /\
         (bms_tempo_same ds c = true ->
          forall cs : chart,
          rows_of_cchart cs = Some (rows_of_bms c) ->
          chart_wfb d a sm k cs oracle = true ->
          exists (out : chart) (r' : rows),
            conv_chart d a sm k cs oracle = Some out /\
            rows_of_cchart out = Some r' /\
            (cols_nonneg r' = true ->
             QuaSpec.wf_chartb false (build_qua r' qmeta) = true /\
             (exists (doc : Qua.ytree) (e : QuaSpec.den),
                Qua.Live.write (build_qua r' qmeta) = Some doc /\
                QuaSpec.wf_qua_docb doc = true /\
                QuaSpec.qua_denote doc = Some e /\
                timeline_close 1 0 (tl_of_qua e) (tl_shift (conv_shift d sz) (tl_of_bms ds))))).
Proof. exact bms_to_qua_pipeline. Qed.

(* BMS -> StepMania (same partiality; writer exact inside c03_domb). *)
Theorem C09_bms_to_sm_pipeline_partial :
  forall (n : Z) (d : conv_desc) (lay : BMSSpec.slayout) (mk : Z) (lines : list (list Z)) 
         (c : BMS.bms_chart) (a : cargs) (sm : meta) (k : nat) (oracle : chart) (sz : Z),
       In (n, d) converters ->
       BMSSpec.layout_ok mk lay = true ->
       BMSSpec.wf_bms_lines lay lines = true ->
       BMSSpec.read_guards C04.tbl lines = true ->
       BMS.bms_read C04.tbl lay mk lines = Some c ->
       a_shift a = inject_Z sz ->
       forall p : sm_rest,
       exists ds : BMSSpec.denotation,
         BMSSpec.bms_denote lay lines = Some ds /\
         (bms_tempo_same ds c = true ->
          forall cs : chart,
          rows_of_cchart cs = Some (rows_of_bms c) ->
          chart_wfb d a sm k cs oracle = true ->
          exists (out : chart) (r' : rows),
            conv_chart d a sm k cs oracle = Some out /\
            rows_of_cchart out = Some r' /\
            (SMWriteWholeFile.c03_domb (build_sm r' p) = true ->
             distinct_offs (r_bpms r') ->
             exists toks : list SM.tok,
               SM.sm_write SMProofs.live_conf SM.current (build_sm r' p) = Some toks /\
               (forall txt : SMText.text,
                SM.match_toks 0 toks txt = true ->
                exists (dt : SMSpec.dfile) (dc : SMSpec.dchart),
                  SMSpec.sm_denote txt = Some dt /\
                  SMSpec.d_charts dt = [dc] /\
                  timeline_close 0 0 (tl_of_sm_chart dt dc) (tl_shift (conv_shift d sz) (tl_of_bms ds))))).
Proof. exact bms_to_sm_pipeline. Qed.

(* osu! -> BMS, FULL inside C05's write_dom of the converted chart: by C05_bms_write_timeline every start, end and tempo point of the
   written file is within bms_res = res_of FBms (1/192 beat at the local tempo, bl_near over the tempo points of the chart
   written - which are the source's, closeness 0) of the source file's; exact on the snap grid: C09_osu_to_bms_on_grid_exact. *)
Theorem C09_osu_to_bms_pipeline :
  forall (n : Z) (d : conv_desc) (lines : list Text.text) (a : cargs) (sm : meta) (k : nat) 
         (oracle : chart) (sz mk : Z) (lay : BMSSpec.slayout) (dflt : list Z) (p : bms_rest) 
         (rd : Q -> list Z),
       In (n, d) converters ->
       OsuSpec.wf_read_text lines = true ->
       OsuSpec.strict_read_text lines = true ->
       a_shift a = inject_Z sz ->
       exists (dsrc : OsuSpec.dchart) (c : Osu.chart),
         OsuSpec.osu_denote lines = Some dsrc /\
         Osu.osu_read lines = Some c /\
         (forall cs : chart,
          rows_of_cchart cs = Some (rows_of_osu c) ->
          chart_wfb d a sm k cs oracle = true ->
          exists (out : chart) (r' : rows),
            conv_chart d a sm k cs oracle = Some out /\
            rows_of_cchart out = Some r' /\
            bms_target_bound mk lay dflt p rd r' (tl_shift (conv_shift d sz) (tl_of_osu dsrc))).
Proof. exact osu_to_bms_bound_pipeline. Qed.

(* Quaver -> BMS (as above). *)
Theorem C09_qua_to_bms_pipeline :
  forall (n : Z) (d : conv_desc) (doc : Qua.ytree) (a : cargs) (sm : meta) (k : nat) 
         (oracle : chart) (sz mk : Z) (lay : BMSSpec.slayout) (dflt : list Z) (p : bms_rest) 
         (rd : Q -> list Z),
       In (n, d) converters ->
       QuaSpec.wf_docb doc = true ->
       a_shift a = inject_Z sz ->
       exists (c : Qua.chart) (e : QuaSpec.den) (rA : rows),
         Qua.Live.read doc = Some c /\
         QuaSpec.qua_denote doc = Some e /\
         rows_of_qua c = Some rA /\
         (forall cs : chart,
          rows_of_cchart cs = Some rA ->
          chart_wfb d a sm k cs oracle = true ->
          exists (out : chart) (r' : rows),
            conv_chart d a sm k cs oracle = Some out /\
            rows_of_cchart out = Some r' /\
            bms_target_bound mk lay dflt p rd r' (tl_shift (conv_shift d sz) (tl_of_qua e))).
Proof. exact qua_to_bms_bound_pipeline. Qed.

(* O2Jam -> BMS, per difficulty (as above). *)
Theorem C09_o2j_to_bms_pipeline :
  forall (n : Z) (d : conv_desc) (f : O2JSpec.ofile) (trail : list Z) (a : cargs) (sm : meta) 
         (oracle : chart) (sz mk : Z) (lay : BMSSpec.slayout) (dflt : list Z) (p : bms_rest) 
         (rd : Q -> list Z),
       Tables.c07.layout = O2JSpec.ref_layout ->
       In (n, d) converters ->
       O2JSpec.wf_file f = true ->
       a_shift a = inject_Z sz ->
       exists o dn : O2J.oset,
         O2J.read_fixed (O2JSpec.encode_file f ++ trail) = Some o /\
         O2JSpec.ojn_denote f = Some dn /\
         (forall (k : nat) (mo md : O2J.omap),
          nth_error (O2J.os_maps o) k = Some mo ->
          nth_error (O2J.os_maps dn) k = Some md ->
          forall cs : chart,
          rows_of_cchart cs = Some (rows_of_omap mo) ->
          chart_wfb d a sm k cs oracle = true ->
          exists (out : chart) (r' : rows),
            conv_chart d a sm k cs oracle = Some out /\
            rows_of_cchart out = Some r' /\
            bms_target_bound mk lay dflt p rd r' (tl_shift (conv_shift d sz) (tl_of_omap md))).
Proof. exact o2j_to_bms_bound_pipeline. Qed.

(* osu! -> BMS, the EXACT regime (says more than the full theorem above where it applies): inside write_dom and with every start and
   end on the snap grid of its tempo change (bms_on_grid, decidable) the written file's timeline EQUALS the source's (closeness 0). *)
Theorem C09_osu_to_bms_pipeline_exact_on_grid :
  forall (n : Z) (d : conv_desc) (lines : list Text.text) (a : cargs) (sm : meta) (k : nat) 
         (oracle : chart) (sz mk : Z) (lay : BMSSpec.slayout) (dflt : list Z) (p : bms_rest) 
         (rd : Q -> list Z),
       In (n, d) converters ->
       OsuSpec.wf_read_text lines = true ->
       OsuSpec.strict_read_text lines = true ->
       a_shift a = inject_Z sz ->
       exists (dsrc : OsuSpec.dchart) (c : Osu.chart),
         OsuSpec.osu_denote lines = Some dsrc /\
         Osu.osu_read lines = Some c /\
         (forall cs : chart,
          rows_of_cchart cs = Some (rows_of_osu c) ->
          chart_wfb d a sm k cs oracle = true ->
          exists (out : chart) (r' : rows),
            conv_chart d a sm k cs oracle = Some out /\
            rows_of_cchart out = Some r' /\
            bms_target_concl mk lay dflt p rd r' (tl_shift (conv_shift d sz) (tl_of_osu dsrc))).
Proof. exact osu_to_bms_pipeline. Qed.

(* Quaver -> BMS, exact regime (as above). *)
Theorem C09_qua_to_bms_pipeline_exact_on_grid :
  forall (n : Z) (d : conv_desc) (doc : Qua.ytree) (a : cargs) (sm : meta) (k : nat) 
         (oracle : chart) (sz mk : Z) (lay : BMSSpec.slayout) (dflt : list Z) (p : bms_rest) 
         (rd : Q -> list Z),
       In (n, d) converters ->
       QuaSpec.wf_docb doc = true ->
       a_shift a = inject_Z sz ->
       exists (c : Qua.chart) (e : QuaSpec.den) (rA : rows),
         Qua.Live.read doc = Some c /\
         QuaSpec.qua_denote doc = Some e /\
         rows_of_qua c = Some rA /\
         (forall cs : chart,
          rows_of_cchart cs = Some rA ->
          chart_wfb d a sm k cs oracle = true ->
          exists (out : chart) (r' : rows),
            conv_chart d a sm k cs oracle = Some out /\
            rows_of_cchart out = Some r' /\
            bms_target_concl mk lay dflt p rd r' (tl_shift (conv_shift d sz) (tl_of_qua e))).
Proof. exact qua_to_bms_pipeline. Qed.

(* StepMania -> BMS, per chart, GENERAL reader form (sm_tempo_same, see above) with the writer's exact regime. *)
Theorem C09_sm_to_bms_pipeline_partial :
  forall (n : Z) (d : conv_desc) (txt : SMText.text) (a : cargs) (oracle : chart) (sz mk : Z)
         (lay : BMSSpec.slayout) (dflt : list Z) (p : bms_rest) (rd : Q -> list Z),
       In (n, d) converters ->
       SMReadDom.c02_domb txt = true ->
       a_shift a = inject_Z sz ->
       exists (ds : SMSpec.dfile) (s : SM.smset),
         SMSpec.sm_denote txt = Some ds /\
         SM.sm_read SMProofs.live_conf SM.current txt = Some s /\
         (forall (k : nat) (dc : SMSpec.dchart) (c : SM.smchart),
          nth_error (SMSpec.d_charts ds) k = Some dc ->
          nth_error (SM.s_maps s) k = Some c ->
          sm_tempo_same ds c = true ->
          forall (sm : meta) (cs : chart),
          rows_of_cchart cs = Some (rows_of_smchart c) ->
          chart_wfb d a sm k cs oracle = true ->
          exists (out : chart) (r' : rows),
            conv_chart d a sm k cs oracle = Some out /\
            rows_of_cchart out = Some r' /\
            bms_target_concl mk lay dflt p rd r' (tl_shift (conv_shift d sz) (tl_of_sm_chart ds dc))).
Proof. exact sm_to_bms_pipeline. Qed.

(* O2Jam -> BMS, per difficulty, exact regime (as above). *)
Theorem C09_o2j_to_bms_pipeline_exact_on_grid :
  forall (n : Z) (d : conv_desc) (f : O2JSpec.ofile) (trail : list Z) (a : cargs) (sm : meta) 
         (oracle : chart) (sz mk : Z) (lay : BMSSpec.slayout) (dflt : list Z) (p : bms_rest) 
         (rd : Q -> list Z),
       Tables.c07.layout = O2JSpec.ref_layout ->
       In (n, d) converters ->
       O2JSpec.wf_file f = true ->
       a_shift a = inject_Z sz ->
       exists o dn : O2J.oset,
         O2J.read_fixed (O2JSpec.encode_file f ++ trail) = Some o /\
         O2JSpec.ojn_denote f = Some dn /\
         (forall (k : nat) (mo md : O2J.omap),
          nth_error (O2J.os_maps o) k = Some mo ->
          nth_error (O2J.os_maps dn) k = Some md ->
          forall cs : chart,
          rows_of_cchart cs = Some (rows_of_omap mo) ->
          chart_wfb d a sm k cs oracle = true ->
          exists (out : chart) (r' : rows),
            conv_chart d a sm k cs oracle = Some out /\
            rows_of_cchart out = Some r' /\
            bms_target_concl mk lay dflt p rd r' (tl_shift (conv_shift d sz) (tl_of_omap md))).
Proof. exact o2j_to_bms_pipeline. Qed.

(* ================= non-vacuity of the per-pair theorems =================
   (a) for every one of the 16 shipped descriptions a frame-level chart carrying two hits, a long note and two tempo points
       (built generically from the description: all declared columns, every attribute its expressions read) lies in the
       converter's domain chart_wfb;  (b) C01's example text goes through reader model, OsuToQua description and Quaver
       writer model to a well-formed document within 1 ms (computed);  (c) the charts built from those rows lie in the
       writers' domains wdom6 (osu!), c03_domb (StepMania) and write_dom + on-grid (BMS, all five layouts). *)
Example C09_converter_domains_nonvacuous :
  forallb example_okb ["OsuToQua"; "QuaToOsu"; "O2JToOsu"; "O2JToQua"; "OsuToSM"; "QuaToSM"; "O2JToSM"; "SMToOsu"; "SMToQua";
                       "BMSToOsu"; "BMSToQua"; "BMSToSM"; "OsuToBMS"; "QuaToBMS"; "SMToBMS"; "O2JToBMS"]%string = true.
Proof. exact example_converter_domains. Qed.
Example C09_osu_to_qua_computed : example_osu_qua = true.
Proof. exact example_osu_qua_ok. Qed.
Example C09_writer_domains_nonvacuous :
  OsuWhole.wdom6 (build_osu example_rows example_osu_rest) [65]%Z [66]%Z = true
  /\ (SMWriteWholeFile.c03_domb (build_sm example_rows example_sm_rest) = true /\ distinct_offs (r_bpms example_rows))
  /\ forallb (fun lay => BMSSpec.write_dom C05.tbl Tables.bms.max_keys lay [48; 49]%Z (build_bms example_rows example_bms_rest)
                         && match BMSSpec.wscript C05.tbl (build_bms example_rows example_bms_rest) with
                            | Some l => bms_on_grid example_rows l | None => false end) Tables.bms.layouts = true.
Proof. exact (conj example_osu_domain (conj example_sm_domain example_bms_domain)). Qed.

(* (d) the guards of the StepMania / BMS source theorems hold on C02's / C04's witness texts (tempo changes on measure lines), and
       (e) the BMS bound is not confined to the exact regime: a chart with a hit 1 ms after a beat and a long note ending 1 ms
       after one lies in write_dom and is NOT bms_on_grid. *)
Example C09_sm_source_guards_nonvacuous :
  SMReadDom.c02_domb SMReadWitness.w_read_on_lines = true /\ SMReadDom.sm_tempo_on_lines SMReadWitness.w_read_on_lines = true.
Proof. exact example_sm_on_lines. Qed.
Example C09_bms_source_guards_nonvacuous :
  BMSSpec.layout_ok Tables.bms.max_keys C04.lay_PMS && BMSSpec.wf_bms_lines C04.lay_PMS C04.w_on_lines
  && BMSSpec.read_guards C04.tbl C04.w_on_lines && BMSGuards.bms_tempo_on_lines C04.w_on_lines = true.
Proof. exact example_bms_on_lines. Qed.
Example C09_bms_bound_beyond_exact_regime :
  BMSSpec.write_dom C05.tbl Tables.bms.max_keys C04.lay_PMS [48; 49]%Z (build_bms example_rows_offgrid example_bms_rest) = true
  /\ match BMSSpec.wscript C05.tbl (build_bms example_rows_offgrid example_bms_rest) with
     | Some l => bms_on_grid example_rows_offgrid l | None => true end = false.
Proof. exact example_bms_offgrid. Qed.

(* ================= defects found, on real files: the OLD written file refuted, the current one accepted =================
   Each witness: a source file inside its format's domain and inside the composition's domain (wf_ok) with
     _OLD     the file the tree BEFORE the repair wrote for it, kept verbatim (spec_ok = false: it does not carry the source's
              timeline) - a statement about the OLD behaviour only, nothing in /repo writes this any more;
     _current the file the repaired tree writes for the same source (spec_ok = corr_ok = true).
   The same sources are replayed on the implementation on every run (corpus/C09): a recurrence is a VIOLATION. *)
(* OsuToSM before cdbdcdf: sms.offset = 0.0 although the first timing point is at 500 ms -> everything 500 ms early *)
Theorem C09_OLD_osu_to_sm_offset_refuted :
  RunC09.wf_ok (RunC09.check w_osu_sm_offset_OLD) = true /\ RunC09.spec_ok (RunC09.check w_osu_sm_offset_OLD) = false.
Proof. exact witness_OLD_osu_sm_offset_refuted. Qed.
Theorem C09_osu_to_sm_offset_current :
  RunC09.wf_ok (RunC09.check w_osu_sm_offset_current) = true /\ RunC09.spec_ok (RunC09.check w_osu_sm_offset_current) = true
  /\ RunC09.corr_ok (RunC09.check w_osu_sm_offset_current) = true.
Proof. exact witness_osu_sm_offset_current. Qed.
(* QuaToSM before cdbdcdf: sms.offset = stack().offset.min() picked a scroll velocity 100 ms before the first timing point *)
Theorem C09_OLD_qua_to_sm_offset_refuted :
  RunC09.wf_ok (RunC09.check w_qua_sm_offset_OLD) = true /\ RunC09.spec_ok (RunC09.check w_qua_sm_offset_OLD) = false.
Proof. exact witness_OLD_qua_sm_offset_refuted. Qed.
Theorem C09_qua_to_sm_offset_current :
  RunC09.wf_ok (RunC09.check w_qua_sm_offset_current) = true /\ RunC09.spec_ok (RunC09.check w_qua_sm_offset_current) = true
  /\ RunC09.corr_ok (RunC09.check w_qua_sm_offset_current) = true.
Proof. exact witness_qua_sm_offset_current. Qed.
(* SMToOsu before 24f5d51: CircleSize stayed 4 for a 7-key chart -> column 6 written at x = 832, denoting column 3 *)
Theorem C09_OLD_sm_to_osu_circle_size_refuted :
  RunC09.wf_ok (RunC09.check w_sm_osu_cs_OLD) = true /\ RunC09.spec_ok (RunC09.check w_sm_osu_cs_OLD) = false.
Proof. exact witness_OLD_sm_osu_cs_refuted. Qed.
Theorem C09_sm_to_osu_circle_size_current :
  RunC09.wf_ok (RunC09.check w_sm_osu_cs_current) = true /\ RunC09.spec_ok (RunC09.check w_sm_osu_cs_current) = true
  /\ RunC09.corr_ok (RunC09.check w_sm_osu_cs_current) = true.
Proof. exact witness_sm_osu_cs_current. Qed.

(* ================= non-vacuity =================
   a well-formed OJN file (tempo 240 from measure 1, a tap at measure 0 and one at measure 2 on column 0, a long note on
   column 6 across measures) and typed metadata: the hypotheses of C09_o2j_to_qua_pipeline hold, and the composed models
   compute a Quaver document whose timeline is the file's: taps at 0 and 3000 ms, the long note 500..1750 ms, tempo
   points 0 / 140 bpm (header) and 2000 ms / 240 bpm. *)
Definition ex_ojn : O2JSpec.ofile :=
  O2JSpec.mkFile Proofs.O2JProofs.w_hdr
    [[O2JSpec.mkPkg 1 1 1 [(0, [0; 0; 112; 67])]; O2JSpec.mkPkg 0 2 1 [(0, [1; 0; 0; 0])]; O2JSpec.mkPkg 2 2 1 [(0, [1; 0; 0; 0])];
      O2JSpec.mkPkg 0 8 4 [(1, [1; 0; 0; 2])]; O2JSpec.mkPkg 1 8 8 [(1, [1; 0; 0; 3])]]; []; []]%Z.
Definition ex_meta : list Qua.ytree := map snd Qua.Live.meta_defaults.
Example C09_nonvacuous :
  O2JSpec.wf_file ex_ojn = true /\ QuaSpec.meta_okb false ex_meta = true
  /\ match O2J.read_fixed (O2JSpec.encode_file ex_ojn ++ [9; 9]%Z), O2JSpec.ojn_denote ex_ojn with
     | Some o, Some d =>
         match nth_error (O2J.os_maps o) 0, nth_error (O2J.os_maps d) 0 with
         | Some mo, Some md =>
             match o2j_to_qua ex_meta mo with
             | Some c => match Qua.Live.write c with
                         | Some doc => match QuaSpec.qua_denote doc with
                                       | Some e => QuaSpec.wf_qua_docb doc && timeline_closeb 1 0 (tl_of_qua e) (tl_of_omap md)
                                                   && (List.length (tl_notes (tl_of_omap md)) =? 3)%nat
                                                   && (List.length (tl_tempo (tl_of_omap md)) =? 2)%nat
                                       | None => false end
                         | None => false end
             | None => false end
         | _, _ => false end
     | _, _ => false end = true.
Proof. vm_compute. auto. Qed.
