(* C09 — read -> convert -> write yields a valid target file with the source's timeline.
   Property theorems only: each is closed by [exact] from Proofs/PipelineProofs.v (table obligations and concrete
   witnesses by vm_compute).

   What is proved for ALL inputs:
     * the comparison [timeline_close] is reflexive, symmetric, composes (triangle: resolutions add up), is monotone,
       invariant under row order and compatible with the converters' column shift; the boolean comparison the runner
       evaluates on the implementation's files soundly implies it; the resolution of a pair is the coarser of the two;
     * every adapter maps "same denotation" to "same timeline" (Quaver: den_close / den_eq of C06; O2Jam: map_matches /
       map_equiv of C07; osu, StepMania, BMS: equality up to row order);
     * END TO END for O2Jam -> Quaver (C09_o2j_to_qua_pipeline): the three ingredients are proved in C07, C08, C06 and the
       composition - including the step "the reader's output is inside the writer's domain" - is proved here;
     * the proved HALVES for every other pair that involves Quaver or O2Jam, and the generic composition lemma.
   What is NOT proved (the _partial statement says exactly what is missing): the end-to-end statement for the other
   15 pairs.  Per pair the missing ingredient is a whole-file theorem of another property that is itself partial today:
       osu reader / writer      C01: line-level reader = osu_denote and written-line lemmas are proved, the lifting to
                                whole files is not (C01 "whole-file round-trip theorems are partial")
       StepMania reader/writer  C02_sm_read_denotes_partial, C03_sm_write_denotes_partial
       BMS reader / writer      C04 bms_read_denotes, C05 bms_write_denotes (open)
     and, for every pair but O2Jam -> Quaver, the bridge between the two games' chart records and the frame on which C08's
     cast theorem is stated (built here for O2Jam -> Quaver only).
       osu->qua: reader | osu->sm: reader, writer | osu->bms: reader, writer | qua->osu: writer | qua->sm: writer |
       qua->bms: writer | sm->osu: reader, writer | sm->qua: reader | sm->bms: reader, writer | bms->osu: reader, writer |
       bms->qua: reader | bms->sm: reader, writer | o2j->osu: writer | o2j->sm: writer | o2j->bms: writer.
   For those pairs the statement is decided on every run on the implementation's files by the reference interpreters
   (Corr/RunC09.v); the check found them FALSE of the pinned tree in ten ways, six of which are repaired in /repo: see the
   OLD / current witnesses below and docs/C09.md. *)
From Coq Require Import ZArith QArith Qround Qabs List Bool Permutation.
From RV Require Import Base.PyNum Formats.Timeline Generated.Tables Proofs.PipelineProofs.
From RV Require Formats.Osu Formats.OsuSpec Formats.Qua Formats.QuaSpec Formats.SM Formats.SMSpec Formats.BMSSpec
  Formats.O2J Formats.O2JSpec Corr.RunC09.
Import ListNotations.
Open Scope Q_scope.

(* ---- table obligation (re-checked against the regenerated table on every run): the OJN header layout ---- *)
Theorem C09_ojn_layout_is_reference : Tables.c07.layout = O2JSpec.ref_layout.
Proof. vm_compute. reflexivity. Qed.

(* ================= the comparison ================= *)
Theorem C09_timeline_close_refl : forall r e a, 0 <= r -> 0 <= e -> timeline_close r e a a.
Proof. exact timeline_close_refl. Qed.
Theorem C09_timeline_close_sym : forall r e a b, timeline_close r e a b -> timeline_close r e b a.
Proof. exact timeline_close_sym. Qed.
(* triangle: a file within r1 of a chart that is within r2 of another file is within r1 + r2 of that file *)
Theorem C09_timeline_close_triangle : forall r1 e1 r2 e2 a b c,
  timeline_close r1 e1 a b -> timeline_close r2 e2 b c -> timeline_close (r1 + r2) (e1 + e2) a c.
Proof. exact timeline_close_trans. Qed.
Theorem C09_timeline_close_monotone : forall r e r' e' a b, r <= r' -> e <= e' -> timeline_close r e a b -> timeline_close r' e' a b.
Proof. exact timeline_close_weaken. Qed.
Theorem C09_timeline_close_row_order : forall r e a a' b b',
  Permutation (tl_notes a) (tl_notes a') -> Permutation (tl_tempo a) (tl_tempo a') ->
  Permutation (tl_notes b) (tl_notes b') -> Permutation (tl_tempo b) (tl_tempo b') ->
  timeline_close r e a b -> timeline_close r e a' b'.
Proof. exact timeline_close_perm. Qed.
Theorem C09_timeline_close_shift : forall r e s a b, timeline_close r e a b -> timeline_close r e (tl_shift s a) (tl_shift s b).
Proof. exact timeline_close_shift. Qed.
(* local (tempo-dependent) bounds: a constant bound is a special case, and a local bound below R gives the constant R *)
Theorem C09_local_bound_const : forall r e a b, timeline_close_by (fun _ => r) e a b <-> timeline_close r e a b.
Proof. exact timeline_close_by_const. Qed.
Theorem C09_local_bound_below : forall rf R e a b, (forall t, rf t <= R) -> timeline_close_by rf e a b -> timeline_close R e a b.
Proof. exact timeline_close_by_bound. Qed.
(* the oracle of Corr/RunC09.v: a `true` means the declarative relation, with the coarser of the two resolutions *)
Theorem C09_oracle_sound : forall fa fb slack e src tgt,
  c09_timeline_ok fa fb slack e src tgt = true -> timeline_close_by (res_pair fa fb (tl_tempo src) slack) e tgt src.
Proof. exact c09_timeline_ok_sound. Qed.
Theorem C09_resolution_is_the_coarser : forall fa fb tempo slack t,
  res_pair fa fb tempo slack t == Qmax' (res_of fa tempo t) (res_of fb tempo t) + slack
  /\ res_of fa tempo t + slack <= res_pair fa fb tempo slack t /\ res_of fb tempo t + slack <= res_pair fa fb tempo slack t
  /\ res_pair fa fb tempo slack t == res_pair fb fa tempo slack t.
Proof. exact res_pair_coarser. Qed.

(* ================= the adapters: same denotation -> same timeline ================= *)
Theorem C09_adapter_quaver_close : forall e a, QuaSpec.den_close e a -> timeline_close 1 0 (tl_of_qua e) (tl_of_qua a).
Proof. exact tl_of_qua_close. Qed.
Theorem C09_adapter_quaver_eq : forall e a, QuaSpec.den_eq e a -> timeline_close 0 0 (tl_of_qua e) (tl_of_qua a).
Proof. exact tl_of_qua_eq. Qed.
Theorem C09_adapter_o2jam_close : forall tol a b, 0 <= tol -> O2JSpec.map_matches tol a b ->
  timeline_close (3 * tol) 0 (tl_of_omap a) (tl_of_omap b).
Proof. exact tl_of_omap_close. Qed.
Theorem C09_adapter_o2jam_equiv : forall a b,
  Permutation (O2J.om_hits a) (O2J.om_hits b) -> Permutation (O2J.om_holds a) (O2J.om_holds b) -> O2J.om_bpms a = O2J.om_bpms b ->
  timeline_close 0 0 (tl_of_omap a) (tl_of_omap b).
Proof. exact tl_of_omap_equiv. Qed.
Theorem C09_adapter_osu_row_order : forall d d',
  Permutation (OsuSpec.d_hits d) (OsuSpec.d_hits d') -> Permutation (OsuSpec.d_holds d) (OsuSpec.d_holds d') ->
  Permutation (OsuSpec.d_bpms d) (OsuSpec.d_bpms d') -> timeline_close 0 0 (tl_of_osu d) (tl_of_osu d').
Proof. exact tl_of_osu_perm. Qed.
Theorem C09_adapter_sm_row_order : forall d d' c c',
  Permutation (SMSpec.d_notes c) (SMSpec.d_notes c') -> Permutation (SMSpec.d_tempo d) (SMSpec.d_tempo d') ->
  timeline_close 0 0 (tl_of_sm_chart d c) (tl_of_sm_chart d' c').
Proof. exact tl_of_sm_perm. Qed.
Theorem C09_adapter_bms_row_order : forall d d',
  Permutation (BMSSpec.d_hits d) (BMSSpec.d_hits d') -> Permutation (BMSSpec.d_holds d) (BMSSpec.d_holds d') ->
  Permutation (BMSSpec.d_tempo d) (BMSSpec.d_tempo d') -> timeline_close 0 0 (tl_of_bms d) (tl_of_bms d').
Proof. exact tl_of_bms_perm. Qed.

(* ================= END TO END: O2Jam -> Quaver =================
   For EVERY well-formed OJN file f (C07's domain), any trailing bytes, any metadata of the declared types, and every
   difficulty k: the reader model (O2J.read_fixed, proved against ojn_denote in C07) returns a chart; the converter
   (o2j_to_qua = ConvertBase.cast with O2JToQua's mappings, the model proved exact in C08, + the metadata) turns it into a
   chart inside the Quaver writer's strict domain; the writer model (Qua.Live.write, C06) produces a document that is
   well-formed (wf_qua_docb), declares every metadata key, and whose timeline under Quaver's format semantics
   (qua_denote) equals the timeline the OJN file denotes under O2Jam's format semantics (ojn_denote): same notes in the
   same columns, every start and end and every tempo point within 1 ms - the coarser of the two resolutions - and the same
   bpm values.  Hypotheses, explicit: wf_file f; the 21 metadata attributes typed (meta_okb false meta; the converter's
   metadata wiring is checked per run by C08); the table obligation C09_ojn_layout_is_reference. *)
Theorem C09_o2j_to_qua_pipeline : forall f trail meta, O2JSpec.wf_file f = true -> QuaSpec.meta_okb false meta = true ->
  exists o d, O2J.read_fixed (O2JSpec.encode_file f ++ trail) = Some o /\ O2JSpec.ojn_denote f = Some d
    /\ length (O2J.os_maps o) = length (O2J.os_maps d)
    /\ forall k mo md, nth_error (O2J.os_maps o) k = Some mo -> nth_error (O2J.os_maps d) k = Some md ->
       exists c doc e, o2j_to_qua meta mo = Some c /\ Qua.Live.write c = Some doc
         /\ QuaSpec.wf_qua_docb doc = true /\ QuaSpec.qua_denote doc = Some e /\ QuaSpec.all_declared (QuaSpec.d_meta e) = true
         /\ timeline_close 1 0 (tl_of_qua e) (tl_of_omap md).
Proof. exact (o2j_to_qua_pipeline C09_ojn_layout_is_reference). Qed.
(* the converter of that theorem IS the cast of C08 with O2JToQua's mappings, computed on every list of records *)
Theorem C09_o2j_to_qua_is_cast : forall meta m, o2j_to_qua meta m = Some (q_chart meta m).
Proof. exact o2j_to_qua_explicit. Qed.
(* "the reader's output satisfies the writer's wf": lanes 0..6 are valid Quaver columns, every cell is numeric *)
Theorem C09_converted_chart_in_writer_domain : forall meta m,
  Forall (fun h => (0 <= O2J.h_col h)%Z) (O2J.om_hits m) -> Forall (fun h => (0 <= O2J.l_col h)%Z) (O2J.om_holds m) ->
  QuaSpec.meta_okb false meta = true -> QuaSpec.wf_chartb false (q_chart meta m) = true.
Proof. exact q_chart_wf. Qed.

(* ================= the other pairs: what is proved of them =================
   FULL STATEMENT (not proved; see the header for the missing ingredient per pair):
     forall (A, B) of the 16 pairs, every source file f in A's domain with a timeline B can hold (RunC09.conv_ok):
       exists target, model_write_B (model_convert_AB (model_read_A f)) = Some target /\ wf_B target
                      /\ timeline_close_by (res_pair A B ..) eps (timeline_of_B (denote_B target)) (shift (timeline_of_A (denote_A f))).
   Proved: the generic composition (any reader / converter / writer that meet their own bounds compose to the sum), and
   the reader / writer halves for Quaver and O2Jam in the form that composition consumes. *)
Theorem C09_pipeline_compose_partial : forall r1 e1 r2 e2 s src chart_a chart_b tgt,
  timeline_close r1 e1 chart_a src -> timeline_close 0 0 chart_b (tl_shift s chart_a) -> timeline_close r2 e2 tgt chart_b ->
  timeline_close (r1 + r2) (e1 + e2) tgt (tl_shift s src).
Proof. exact pipeline_compose. Qed.
Theorem C09_quaver_reader_half_partial : forall doc, QuaSpec.wf_docb doc = true ->
  exists c e a, Qua.Live.read doc = Some c /\ QuaSpec.qua_denote doc = Some e /\ QuaSpec.chart_denote c = Some a
                /\ timeline_close 0 0 (tl_of_qua a) (tl_of_qua e).
Proof. exact qua_reader_half. Qed.
Theorem C09_quaver_writer_half_partial : forall c, QuaSpec.wf_chartb false c = true ->
  exists doc e a, Qua.Live.write c = Some doc /\ QuaSpec.wf_qua_docb doc = true /\ QuaSpec.qua_denote doc = Some e
                  /\ QuaSpec.chart_denote c = Some a /\ timeline_close 1 0 (tl_of_qua e) (tl_of_qua a).
Proof. exact qua_writer_half. Qed.
Theorem C09_o2jam_reader_half_partial : forall f trail, O2JSpec.wf_file f = true ->
  exists o d, O2J.read_fixed (O2JSpec.encode_file f ++ trail) = Some o /\ O2JSpec.ojn_denote f = Some d
    /\ forall k mo md, nth_error (O2J.os_maps o) k = Some mo -> nth_error (O2J.os_maps d) k = Some md ->
        timeline_close 0 0 (tl_of_omap mo) (tl_of_omap md)
        /\ Forall (fun n => (0 <= tn_col n < 7)%Z) (tl_notes (tl_of_omap md)).
Proof. exact (o2j_reader_half C09_ojn_layout_is_reference). Qed.

(* ================= defects found, on real files: the OLD written file refuted, the current one accepted =================
   Each witness: a source file inside its format's domain and inside the composition's domain (wf_ok) with
     _OLD     the file the tree BEFORE the repair wrote for it, kept verbatim (spec_ok = false: it does not carry the source's
              timeline) - a statement about the OLD behaviour only, nothing in /repo writes this any more;
     _current the file the repaired tree writes for the same source (spec_ok = corr_ok = true).
   The same sources are replayed on the implementation on every run (corpus/C09): a recurrence is a VIOLATION. *)
(* OsuToSM before cdbdcdf: sms.offset = 0.0 although the first timing point is at 500 ms -> everything 500 ms early *)
Theorem C09_OLD_osu_to_sm_offset_refuted :
  RunC09.wf_ok (RunC09.check w_osu_sm_offset_OLD) = true /\ RunC09.spec_ok (RunC09.check w_osu_sm_offset_OLD) = false.
Proof. exact witness_OLD_osu_sm_offset_refuted. Qed.
Theorem C09_osu_to_sm_offset_current :
  RunC09.wf_ok (RunC09.check w_osu_sm_offset_current) = true /\ RunC09.spec_ok (RunC09.check w_osu_sm_offset_current) = true
  /\ RunC09.corr_ok (RunC09.check w_osu_sm_offset_current) = true.
Proof. exact witness_osu_sm_offset_current. Qed.
(* QuaToSM before cdbdcdf: sms.offset = stack().offset.min() picked a scroll velocity 100 ms before the first timing point *)
Theorem C09_OLD_qua_to_sm_offset_refuted :
  RunC09.wf_ok (RunC09.check w_qua_sm_offset_OLD) = true /\ RunC09.spec_ok (RunC09.check w_qua_sm_offset_OLD) = false.
Proof. exact witness_OLD_qua_sm_offset_refuted. Qed.
Theorem C09_qua_to_sm_offset_current :
  RunC09.wf_ok (RunC09.check w_qua_sm_offset_current) = true /\ RunC09.spec_ok (RunC09.check w_qua_sm_offset_current) = true
  /\ RunC09.corr_ok (RunC09.check w_qua_sm_offset_current) = true.
Proof. exact witness_qua_sm_offset_current. Qed.
(* SMToOsu before 24f5d51: CircleSize stayed 4 for a 7-key chart -> column 6 written at x = 832, denoting column 3 *)
Theorem C09_OLD_sm_to_osu_circle_size_refuted :
  RunC09.wf_ok (RunC09.check w_sm_osu_cs_OLD) = true /\ RunC09.spec_ok (RunC09.check w_sm_osu_cs_OLD) = false.
Proof. exact witness_OLD_sm_osu_cs_refuted. Qed.
Theorem C09_sm_to_osu_circle_size_current :
  RunC09.wf_ok (RunC09.check w_sm_osu_cs_current) = true /\ RunC09.spec_ok (RunC09.check w_sm_osu_cs_current) = true
  /\ RunC09.corr_ok (RunC09.check w_sm_osu_cs_current) = true.
Proof. exact witness_sm_osu_cs_current. Qed.

(* ================= non-vacuity =================
   a well-formed OJN file (tempo 240 from measure 1, a tap at measure 0 and one at measure 2 on column 0, a long note on
   column 6 across measures) and typed metadata: the hypotheses of C09_o2j_to_qua_pipeline hold, and the composed models
   compute a Quaver document whose timeline is the file's: taps at 0 and 3000 ms, the long note 500..1750 ms, tempo
   points 0 / 140 bpm (header) and 2000 ms / 240 bpm. *)
Definition ex_ojn : O2JSpec.ofile :=
  O2JSpec.mkFile Proofs.O2JProofs.w_hdr
    [[O2JSpec.mkPkg 1 1 1 [(0, [0; 0; 112; 67])]; O2JSpec.mkPkg 0 2 1 [(0, [1; 0; 0; 0])]; O2JSpec.mkPkg 2 2 1 [(0, [1; 0; 0; 0])];
      O2JSpec.mkPkg 0 8 4 [(1, [1; 0; 0; 2])]; O2JSpec.mkPkg 1 8 8 [(1, [1; 0; 0; 3])]]; []; []]%Z.
Definition ex_meta : list Qua.ytree := map snd Qua.Live.meta_defaults.
Example C09_nonvacuous :
  O2JSpec.wf_file ex_ojn = true /\ QuaSpec.meta_okb false ex_meta = true
  /\ match O2J.read_fixed (O2JSpec.encode_file ex_ojn ++ [9; 9]%Z), O2JSpec.ojn_denote ex_ojn with
     | Some o, Some d =>
         match nth_error (O2J.os_maps o) 0, nth_error (O2J.os_maps d) 0 with
         | Some mo, Some md =>
             match o2j_to_qua ex_meta mo with
             | Some c => match Qua.Live.write c with
                         | Some doc => match QuaSpec.qua_denote doc with
                                       | Some e => QuaSpec.wf_qua_docb doc && timeline_closeb 1 0 (tl_of_qua e) (tl_of_omap md)
                                                   && (length (tl_notes (tl_of_omap md)) =? 3)%nat
                                                   && (length (tl_tempo (tl_of_omap md)) =? 2)%nat
                                       | None => false end
                         | None => false end
             | None => false end
         | _, _ => false end
     | _, _ => false end = true.
Proof. vm_compute. auto. Qed.
