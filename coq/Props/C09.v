(* C09 — read -> convert -> write.  Property theorems only. *)
From Coq Require Import ZArith QArith Qround Qabs List Bool Permutation.
From RV Require Import Base.PyNum Formats.Timeline Proofs.PipelineProofs.
Import ListNotations.
Open Scope Q_scope.

Theorem C09_ms_rel_refl : forall {A} (R : A -> A -> Prop), (forall x, R x x) -> forall l, ms_rel R l l.
Proof. exact @ms_rel_refl. Qed.
