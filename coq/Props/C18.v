(* C18 — hitsound copy.  Property theorems only: each is closed by [exact] from Proofs/HitsoundCopyProofs.v. *)
From Coq Require Import ZArith List Bool Permutation.
From RV Require Import Algo.HitsoundCopy Algo.HitsoundCopySpec Proofs.HitsoundCopyProofs.
Import ListNotations.
Open Scope Z_scope.

(* The result has exactly the target's notes (time, column, length, kind), as a multiset — for ALL pairs of
   charts whose holds have a length, and for every order pandas' unstable sort may leave ties in. *)
Theorem C18_notes_preserved : forall psrc ptgt src tgt out,
  forallb (fun r => is_some (hn_len r)) (hm_holds tgt) = true ->
  hitsound_copy psrc ptgt src tgt = Some out ->
  notes_preserved tgt out.
Proof. exact hs_notes_preserved. Qed.

(* WHOLE CHARTS.  For every pair of charts in the domain [wf] (source volumes >= 0, 16-bit hitsound sets, holds with a
   length) whose source file names contain no ';', and every tie order of the two sorts:
   every sound the result carries (on a note or as event sample) was in the source at that time, with multiplicity
   — in particular no more claps / finishes / whistles per time than the source had; *)
Theorem C18_no_invention : forall psrc ptgt src tgt out,
  wf src tgt = true -> no_semicolon src = true ->
  hitsound_copy psrc ptgt src tgt = Some out -> no_invention src out.
Proof. exact hs_no_invention. Qed.

(* per time as many notes sound as the source's sounds need, or all of the target's notes at that time; when
   everything fits every clap, finish, whistle and named sample of the source is on a note; *)
Theorem C18_bounded : forall psrc ptgt src tgt out,
  wf src tgt = true -> no_semicolon src = true ->
  hitsound_copy psrc ptgt src tgt = Some out -> bounded src tgt out.
Proof. exact hs_bounded. Qed.

(* every named sample of the source ends up on a result note or as an event sample at that time. *)
Theorem C18_named_conserved : forall psrc ptgt src tgt out,
  wf src tgt = true -> no_semicolon src = true ->
  hitsound_copy psrc ptgt src tgt = Some out -> named_conserved src out.
Proof. exact hs_named_conserved. Qed.

(* all of it *)
Theorem C18_spec : forall psrc ptgt src tgt out,
  wf src tgt = true -> no_semicolon src = true ->
  hitsound_copy psrc ptgt src tgt = Some out -> Spec src tgt out.
Proof. exact hs_spec. Qed.

(* The boolean oracle evaluated on the implementation's outputs decides the declarative specification. *)
Theorem C18_specb_sound : forall src tgt out, specb src tgt out = true -> Spec src tgt out.
Proof. exact specb_sound. Qed.
Theorem C18_specb_complete : forall src tgt out, Spec src tgt out -> specb src tgt out = true.
Proof. exact specb_complete. Qed.

(* What the repairs removed: FALSE of the routine as it was before commits 19e0cd1 / a52f30c (OLD model). *)
Theorem C18_named_conserved_OLD_refuted :
  exists psrc ptgt src tgt out,
    wf src tgt = true /\ tgt_silent tgt = true /\ no_semicolon src = true /\
    hitsound_copy_OLD psrc ptgt src tgt = Some out /\ ~ named_conserved src out.
Proof. exact hs_named_conserved_OLD_refuted. Qed.

Theorem C18_no_invention_OLD_refuted :
  exists psrc ptgt src tgt out,
    wf src tgt = true /\ no_semicolon src = true /\ no_multi_overflow src tgt = true /\
    hitsound_copy_OLD psrc ptgt src tgt = Some out /\ ~ no_invention src out.
Proof. exact hs_no_invention_OLD_refuted. Qed.

(* STILL FALSE of the routine (known finding named-sample-semicolon-split): a name containing ';' is cut up. *)
Theorem C18_semicolon_refuted :
  exists psrc ptgt src tgt out,
    wf src tgt = true /\ hitsound_copy psrc ptgt src tgt = Some out
    /\ ~ no_invention src out /\ ~ named_conserved src out.
Proof. exact hs_semicolon_refuted. Qed.

(* non-vacuity: a pair inside every guard (hits and holds on both sides, two volumes, a named sample, more than one
   time) on which the model runs and the full specification holds *)
Definition ex_src : hmap :=
  mkM [mkN 8 0 None 2 0 0 0 20 [0]; mkN 8 1 None 4 0 0 0 20 [0]; mkN 8 3 None 2 0 0 0 30 [0]; mkN 24 0 None 0 0 0 0 50 [7]]
      [mkN 8 4 (Some 16) 12 0 0 0 40 [0]; mkN 8 5 (Some 16) 0 0 0 0 20 [1]] [].
Definition ex_tgt : hmap :=
  mkM [mkN 8 0 None 0 1 0 0 0 [0]; mkN 8 1 None 0 0 0 0 70 [0]; mkN 8 2 None 0 0 0 0 0 [0]; mkN 16 2 None 0 0 0 0 0 [0]]
      [mkN 8 3 (Some 80) 0 0 0 0 0 [0]; mkN 24 3 (Some 8) 0 0 0 0 0 [0]] [].
Example C18_nonvacuous :
  wf ex_src ex_tgt = true /\ no_semicolon ex_src = true
  /\ exists out, hitsound_copy [0;1;2;4;5;3]%nat [0;1;2;4;3;5]%nat ex_src ex_tgt = Some out /\ specb ex_src ex_tgt out = true.
Proof.
  split; [vm_compute; reflexivity|]. split; [vm_compute; reflexivity|]. eexists. split; [vm_compute; reflexivity|]. vm_compute. reflexivity.
Qed.
