(* C18 — hitsound copy.  Property theorems only: each is closed by [exact] from Proofs/HitsoundCopyProofs.v. *)
From Coq Require Import ZArith List Bool.
From RV Require Import Algo.HitsoundCopy Algo.HitsoundCopySpec Proofs.HitsoundCopyProofs.
Import ListNotations.
Open Scope Z_scope.

(* The result has exactly the target's notes (time, column, length, kind), as a multiset — for ALL pairs of
   charts whose holds have a length, and for every order pandas' unstable sort may leave ties in. *)
Theorem C18_notes_preserved : forall psrc ptgt src tgt out,
  forallb (fun r => is_some (hn_len r)) (hm_holds tgt) = true ->
  hitsound_copy psrc ptgt src tgt = Some out ->
  notes_preserved tgt out.
Proof. exact hs_notes_preserved. Qed.

(* The boolean oracle evaluated on the implementation's outputs decides the declarative specification. *)
Theorem C18_specb_sound : forall src tgt out, specb src tgt out = true -> Spec src tgt out.
Proof. exact specb_sound. Qed.
Theorem C18_specb_complete : forall src tgt out, Spec src tgt out -> specb src tgt out = true.
Proof. exact specb_complete. Qed.

(* FALSE of the faithful model without guards (three defects of the pinned tree, each with its witness): *)
Theorem C18_named_conserved_refuted :
  exists psrc ptgt src tgt out,
    wf src tgt = true /\ tgt_silent tgt = true /\ no_semicolon src = true /\
    hitsound_copy psrc ptgt src tgt = Some out /\ ~ named_conserved src out.
Proof. exact hs_named_conserved_refuted. Qed.

Theorem C18_no_invention_refuted :
  exists psrc ptgt src tgt out,
    wf src tgt = true /\ no_semicolon src = true /\ no_multi_overflow src tgt = true /\
    hitsound_copy psrc ptgt src tgt = Some out /\ ~ no_invention src out.
Proof. exact hs_no_invention_refuted. Qed.

Theorem C18_semicolon_refuted :
  exists psrc ptgt src tgt out,
    wf src tgt = true /\ tgt_silent tgt = true /\ no_multi_overflow src tgt = true /\
    hitsound_copy psrc ptgt src tgt = Some out /\ ~ no_invention src out /\ ~ named_conserved src out.
Proof. exact hs_semicolon_refuted. Qed.
