(* C18 — hitsound copy.  Property theorems only: each is closed by [exact] from Proofs/HitsoundCopyProofs.v. *)
From Coq Require Import ZArith List Bool Permutation.
From RV Require Import Algo.HitsoundCopy Algo.HitsoundCopySpec Proofs.HitsoundCopyProofs.
Import ListNotations.
Open Scope Z_scope.

(* The result has exactly the target's notes (time, column, length, kind), as a multiset — for ALL pairs of
   charts whose holds have a length, and for every order pandas' unstable sort may leave ties in. *)
Theorem C18_notes_preserved : forall psrc ptgt src tgt out,
  forallb (fun r => is_some (hn_len r)) (hm_holds tgt) = true ->
  hitsound_copy psrc ptgt src tgt = Some out ->
  notes_preserved tgt out.
Proof. exact hs_notes_preserved. Qed.

(* The boolean oracle evaluated on the implementation's outputs decides the declarative specification. *)
Theorem C18_specb_sound : forall src tgt out, specb src tgt out = true -> Spec src tgt out.
Proof. exact specb_sound. Qed.
Theorem C18_specb_complete : forall src tgt out, Spec src tgt out -> specb src tgt out = true.
Proof. exact specb_complete. Qed.

(* FALSE of the faithful model without guards (three defects of the pinned tree, each with its witness): *)
Theorem C18_named_conserved_refuted :
  exists psrc ptgt src tgt out,
    wf src tgt = true /\ tgt_silent tgt = true /\ no_semicolon src = true /\
    hitsound_copy psrc ptgt src tgt = Some out /\ ~ named_conserved src out.
Proof. exact hs_named_conserved_refuted. Qed.

Theorem C18_no_invention_refuted :
  exists psrc ptgt src tgt out,
    wf src tgt = true /\ no_semicolon src = true /\ no_multi_overflow src tgt = true /\
    hitsound_copy psrc ptgt src tgt = Some out /\ ~ no_invention src out.
Proof. exact hs_no_invention_refuted. Qed.

Theorem C18_semicolon_refuted :
  exists psrc ptgt src tgt out,
    wf src tgt = true /\ tgt_silent tgt = true /\ no_multi_overflow src tgt = true /\
    hitsound_copy psrc ptgt src tgt = Some out /\ ~ no_invention src out /\ ~ named_conserved src out.
Proof. exact hs_semicolon_refuted. Qed.

(* The slot rule at one time, for all volume groups and any number of notes at that time: as many notes are written
   as the sounds need or all of them; never more claps/finishes/whistles than the source groups have, all of them
   when everything fits; every (file, volume) written or sampled comes from the groups; what is lost is bounded by
   the named samples beyond the first of each volume group, and nothing is lost (nor sampled) when everything fits. *)
Theorem C18_slot_rule : forall off vgs free ws ss,
  (forall vg, In vg vgs -> 0 <= fst vg) ->
  plan_groups off vgs free = (ws, ss) ->
  length ws = Nat.min (total_need vgs) free
  /\ (nb 2 ws <= total_bit 2 vgs /\ nb 4 ws <= total_bit 4 vgs /\ nb 8 ws <= total_bit 8 vgs)%nat
  /\ ((total_need vgs <= free)%nat ->
        nb 2 ws = total_bit 2 vgs /\ nb 4 ws = total_bit 4 vgs /\ nb 8 ws = total_bit 8 vgs)
  /\ exists rest, Permutation (group_pairs vgs) (wfile_pairs ws ++ sample_pairs ss ++ rest)
                  /\ (length rest <= spare vgs)%nat
                  /\ ((total_need vgs <= free)%nat -> rest = [] /\ ss = []).
Proof. exact plan_groups_spec. Qed.

(* PARTIAL (see the comment in Proofs/HitsoundCopyProofs.v): the guarded guarantees for the sounds of ONE time; their
   lifting to whole charts is not proved and is checked by [specb] on every generated pair instead.
   Full statements intended:  wf src tgt = true -> tgt_silent tgt = true -> no_semicolon src = true ->
   hitsound_copy psrc ptgt src tgt = Some out -> no_invention src out /\ bounded src tgt out, and with
   no_multi_overflow src tgt = true also named_conserved src out. *)
Theorem C18_named_conserved_guarded_partial : forall off vgs free ws ss,
  (forall vg, In vg vgs -> 0 <= fst vg) ->
  plan_groups off vgs free = (ws, ss) ->
  ((total_need vgs <= free)%nat \/ (forall vg, In vg vgs -> (length (group_files (snd vg)) <= 1)%nat)) ->
  Permutation (group_pairs vgs) (wfile_pairs ws ++ sample_pairs ss).
Proof. exact hs_named_conserved_guarded_partial. Qed.

Theorem C18_no_invention_partial : forall off vgs free ws ss,
  (forall vg, In vg vgs -> 0 <= fst vg) ->
  plan_groups off vgs free = (ws, ss) ->
  (exists rest, Permutation (group_pairs vgs) ((wfile_pairs ws ++ sample_pairs ss) ++ rest))
  /\ (nb 2 ws <= total_bit 2 vgs)%nat /\ (nb 4 ws <= total_bit 4 vgs)%nat /\ (nb 8 ws <= total_bit 8 vgs)%nat.
Proof. exact hs_no_invention_partial. Qed.

Theorem C18_bounded_partial : forall off vgs free ws ss,
  (forall vg, In vg vgs -> 0 <= fst vg) ->
  plan_groups off vgs free = (ws, ss) ->
  length ws = Nat.min (total_need vgs) free
  /\ ((total_need vgs <= free)%nat ->
      nb 2 ws = total_bit 2 vgs /\ nb 4 ws = total_bit 4 vgs /\ nb 8 ws = total_bit 8 vgs /\ ss = []).
Proof. exact hs_bounded_partial. Qed.

Theorem C18_slot_rule_loses_refuted :
  exists off vgs free ws ss, plan_groups off vgs free = (ws, ss)
    /\ ~ Permutation (group_pairs vgs) (wfile_pairs ws ++ sample_pairs ss).
Proof. exact hs_slot_rule_loses_refuted. Qed.

(* non-vacuity: a pair inside every guard (hits and holds on both sides, two volumes, a named sample, more than one
   time) on which the model runs and the full specification holds *)
Definition ex_src : hmap :=
  mkM [mkN 8 0 None 2 0 0 0 20 [0]; mkN 8 1 None 4 0 0 0 20 [0]; mkN 8 3 None 2 0 0 0 30 [0]; mkN 24 0 None 0 0 0 0 50 [7]]
      [mkN 8 4 (Some 16) 12 0 0 0 40 [0]; mkN 8 5 (Some 16) 0 0 0 0 20 [1]] [].
Definition ex_tgt : hmap :=
  mkM [mkN 8 0 None 0 1 0 0 0 [0]; mkN 8 1 None 0 0 0 0 70 [0]; mkN 8 2 None 0 0 0 0 0 [0]; mkN 16 2 None 0 0 0 0 0 [0]]
      [mkN 8 3 (Some 80) 0 0 0 0 0 [0]; mkN 24 3 (Some 8) 0 0 0 0 0 [0]] [].
Example C18_nonvacuous :
  wf ex_src ex_tgt = true /\ tgt_silent ex_tgt = true /\ no_semicolon ex_src = true /\ no_multi_overflow ex_src ex_tgt = true
  /\ exists out, hitsound_copy [0;1;2;4;5;3]%nat [0;1;2;4;3;5]%nat ex_src ex_tgt = Some out /\ specb ex_src ex_tgt out = true.
Proof.
  split; [vm_compute; reflexivity|]. split; [vm_compute; reflexivity|]. split; [vm_compute; reflexivity|].
  split; [vm_compute; reflexivity|]. eexists. split; [vm_compute; reflexivity|]. vm_compute. reflexivity.
Qed.
