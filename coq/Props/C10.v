(* C10 — timing engine.  Property theorems only: each is closed by [exact] from Proofs/. *)
From Coq Require Import ZArith QArith Qround Qabs List Bool.
From RV Require Import Base.PyNum Timing.Snapper Timing.Snap Timing.TimingMap Timing.Integrate Timing.Domain
  Generated.Tables Proofs.SnapperProofs Proofs.TimingProofs Proofs.RederiveProofs.
Import ListNotations.
Open Scope Q_scope.

Definition tbl := Tables.snapper_table.

(* Table obligation, re-checked against the table regenerated from the live Snapper on every run:
   starts at 0, strictly increasing, neighbouring entries at most 1/96 apart, ends at 1. *)
Theorem C10_table_ok : table_ok (1 # 96) tbl = true.
Proof. vm_compute. reflexivity. Qed.

(* Snapping a beat fraction returns an allowed fraction (a table entry), no allowed fraction is
   strictly nearer, and it is within 1/192 beat. *)
Theorem C10_snap_nearest : forall rem, 0 <= rem -> rem <= 1 ->
  In (snap_frac tbl rem) tbl /\
  (forall t, In t tbl -> Qabs (rem - snap_frac tbl rem) <= Qabs (rem - t)) /\
  2 * Qabs (rem - snap_frac tbl rem) <= 1 # 96.
Proof. exact (snap_frac_nearest (1 # 96) tbl C10_table_ok). Qed.

Theorem C10_snapper_within_192 : forall x, 2 * Qabs (x - snapper_snap tbl x) <= 1 # 96.
Proof. exact (snapper_snap_within (1 # 96) tbl C10_table_ok). Qed.

Theorem C10_snapper_idempotent : forall x, snapper_snap tbl (snapper_snap tbl x) == snapper_snap tbl x.
Proof. exact (snapper_snap_idem (1 # 96) tbl C10_table_ok). Qed.

(* TimingMap.offsets returns its results IN THE ORDER OF THE QUERIES: sorting the queries, sweeping them in reverse
   with a persistent cursor and un-permuting is the per-query lookup (any multiset of queries, any order, duplicates) *)
Theorem C10_offsets_in_query_order : forall tbl bcos qs bcss,
  bco_to_bcs tbl (sort_by bco_lt bcos) = Some bcss ->
  let full := rev (combine (sort_by bco_lt bcos) bcss) in
  (forall q, In q qs -> exists v, lookup_time full q = Some v) ->
  exists res, tm_offsets tbl bcos qs = Some res /\ Forall2 (fun q r => lookup_time full q = Some r) qs res.
Proof. exact tm_offsets_lookup. Qed.

(* ... and equals piecewise-linear integration of beat length over the tempo segments, for every timing map whose
   re-derived positions are increasing, normalised and integrate back to its stored offsets (tempo changes given in ANY
   order: they are sorted by time first), any initial offset, any positive bpms and metronomes *)
Theorem C10_offsets_integrate : forall tbl bcos qs bcss p0 rest,
  bco_to_bcs tbl (sort_by bco_lt bcos) = Some bcss ->
  combine (sort_by bco_lt bcos) bcss = p0 :: rest ->
  incr_pairsb p0 rest && consistentb p0 rest && pairs_wfb (p0 :: rest) && forallb (query_okb p0) qs = true ->
  exists res, tm_offsets tbl bcos qs = Some res
              /\ Forall2 (fun q r => r == time_of (p_t p0) (map snd (p0 :: rest)) q) qs res.
Proof. exact offsets_integrate_b. Qed.

(* CLOSED FORM.  For every tempo script on the snap grid (first change at measure 0 beat 0; strictly increasing,
   normalised positions; any positive bpms; integer metronomes; consecutive changes a table fraction of a beat apart -
   the boolean domainb below, which is also what the correspondence runner checks for every generated case), any
   initial offset including negative, and any queries at or after the first change, in any order, with duplicates:
   TimingMap.from_bpm_changes_snap(init, script, reseat=False).offsets(queries) succeeds and equals, query by query,
   the piecewise-linear integration of beat length over the script's tempo segments.  This includes the fact that the
   positions the TimingMap re-derives from its millisecond offsets (bpm_changes_offset_to_snap, through the snapper)
   are the script's own positions. *)
Theorem C10_offsets_on_grid : forall init l qs, domainb tbl l qs = true ->
  exists bcos res, from_bcs init l = Some bcos
                   /\ tm_offsets tbl bcos qs = Some res
                   /\ Forall2 (fun q r => r == time_of init l q) qs res.
Proof. exact (offsets_on_grid_b tbl C10_table_ok). Qed.

Example C10_on_grid_example :
  domainb tbl [mkBcs 120 4 (mkSnap 0 0 4); mkBcs 175 4 (mkSnap 1 (3#2) 4); mkBcs 90 3 (mkSnap 3 0 3); mkBcs 200 3 (mkSnap 3 (7#3) 3)]
              [mkSnap 4 1 3; mkSnap 0 0 4; mkSnap 3 (7#3) 3; mkSnap 1 (3#2) 4; mkSnap 4 1 3] = true.
Proof. vm_compute. reflexivity. Qed.

(* non-vacuity of the hypotheses: three tempo changes given out of order, negative initial offset, metronome 3,
   queries unsorted with a duplicate and one exactly on a change *)
Example C10_offsets_example :
  let bcos := [mkBco 240 3 3000; mkBco 120 3 (-1000); mkBco 60 3 500] in
  let qs := [mkSnap 2 (1#2) 3; mkSnap 0 0 3; mkSnap 1 0 3; mkSnap 2 (1#2) 3; mkSnap 0 (5#2) 3] in
  match bco_to_bcs tbl (sort_by bco_lt bcos) with
  | Some bcss =>
      match combine (sort_by bco_lt bcos) bcss with
      | p0 :: rest => incr_pairsb p0 rest && consistentb p0 rest && pairs_wfb (p0 :: rest) && forallb (query_okb p0) qs = true
                      /\ tm_offsets tbl bcos qs = Some [3250; -1000; 500; 3250; 250]
      | [] => False
      end
  | None => False
  end.
Proof. vm_compute. split; reflexivity. Qed.

(* non-vacuity: the default divisions are all representable: k/d is a fixed point for d in DEFAULT_DIVISIONS *)
Example C10_divisions_in_table :
  forallb (fun d => forallb (fun k => Qeq_bool (snap_frac tbl (inject_Z (Z.of_nat k) / inject_Z d)) (inject_Z (Z.of_nat k) / inject_Z d))
                            (seq 0 (Z.to_nat d + 1))) Tables.default_divisions = true.
Proof. vm_compute. reflexivity. Qed.

(* ======================================================================================================================
   The remaining halves of C10 (Proofs/TimingProofs2.v; boolean domains and spec functions in Timing/Domain2.v, which
   the correspondence runner evaluates on every generated case).
   ====================================================================================================================== *)
From Coq Require Import Sorting.Permutation.
From RV Require Import Timing.Domain2 Proofs.TimingProofs2.

(* TimingMap.snaps returns its results IN THE ORDER OF THE QUERIES (any multiset of millisecond queries, any order,
   duplicates): sorting, the reverse sweep with the persistent negative cursor and the un-permutation are the per-query
   lookup "last change at or before o, then Snap.from_offset" *)
Theorem C10_snaps_in_query_order : forall tbl bcos os bcss,
  bco_to_bcs tbl (sort_by bco_lt bcos) = Some bcss ->
  let full := rev (combine (sort_by bco_lt bcos) bcss) in
  (forall o, In o os -> exists v, lookup_snap tbl full o = Some v) ->
  exists res, tm_snaps tbl bcos os = Some res /\ Forall2 (fun o r => lookup_snap tbl full o = Some r) os res.
Proof. exact tm_snaps_lookup. Qed.

(* ms -> position -> ms.  For every tempo script in the on-grid domain of C10_offsets_on_grid (dom_snapsb = that domain
   + all queries at or after the first change), any initial offset, any millisecond queries in any order with duplicates:
   TimingMap.snaps succeeds and returns, in query order, positions normalised under the metronome of the change active
   at the query time (active_at_time: last change whose integrated time is <= o); the time of each returned position
   (integration, time_of) is within beat_length/192 of the query at the active tempo and EQUAL to it when the query
   lies on the snap grid relative to the active change ((o - t_active)/beat_length has its fractional part in the table);
   converting these positions back with TimingMap.offsets succeeds and returns those times. *)
Theorem C10_ms_roundtrip : forall init l os, dom_snapsb tbl init l os = true ->
  exists bcos ss ts, from_bcs init l = Some bcos
    /\ tm_snaps tbl bcos os = Some ss /\ tm_offsets tbl bcos ss = Some ts
    /\ Forall2 (fun o s => let c := snd (active_at_time init l o) in
                  192 * Qabs (time_of init l s - o) <= beat_len (bs_bpm c)
                  /\ (time_on_gridb tbl init l o = true -> time_of init l s == o)
                  /\ (0 <= s_m s)%Z /\ 0 <= s_b s /\ s_b s < bs_met c /\ s_met s = bs_met c) os ss
    /\ Forall2 (fun o t => 192 * Qabs (t - o) <= beat_len (bs_bpm (snd (active_at_time init l o)))
                           /\ (time_on_gridb tbl init l o = true -> t == o)) os ts.
Proof. exact (snaps_roundtrip_b tbl C10_table_ok). Qed.

(* position -> ms -> position: for on-grid positions qs (normalised under the metronome of the change active at them,
   a table fraction of a beat after it) and os their times, TimingMap.snaps(os) returns qs, in query order *)
Theorem C10_position_roundtrip : forall init l qs os, dom_posb tbl 0 init l qs os = true ->
  exists bcos ss, from_bcs init l = Some bcos /\ tm_snaps tbl bcos os = Some ss
    /\ Forall2 (fun q s => s_m s = s_m q /\ s_b s == s_b q /\ s_met s == s_met q) qs ss.
Proof. exact (snaps_of_offsets_b tbl C10_table_ok). Qed.

(* Cumulative beats, constant metronome M (dom_beatsb = dom_snapsb + one metronome).  TimingMap.beats succeeds and
   returns, in query order, for each query time the cumulative beat  measure * M + beat  (abs_beat) of the position
   TimingMap.snaps assigns to it; that number is within 1/192 of the integral of bpm/60000 over [init, o] (beats_at) and
   equal to it when o is on the snap grid; so differences of cumulative beats of on-grid times are EXACTLY the beat
   distance obtained by integrating bpm/60000 over time; and cumulative beats are monotone in time, for all query
   times, on the grid or not. *)
Theorem C10_beats : forall init l os, dom_beatsb tbl init l os = true ->
  exists bcos ss bs, from_bcs init l = Some bcos
    /\ tm_snaps tbl bcos os = Some ss /\ tm_beats tbl bcos os = Some bs
    /\ Forall2 (fun s b => b == abs_beat s) ss bs
    /\ Forall2 (fun o b => 192 * Qabs (b - beats_at init l o) <= 1
                           /\ (time_on_gridb tbl init l o = true -> b == beats_at init l o)) os bs
    /\ (forall o1 b1 o2 b2, In (o1, b1) (combine os bs) -> In (o2, b2) (combine os bs) ->
          time_on_gridb tbl init l o1 = true -> time_on_gridb tbl init l o2 = true ->
          b2 - b1 == beats_at init l o2 - beats_at init l o1)
    /\ (forall o1 b1 o2 b2, In (o1, b1) (combine os bs) -> In (o2, b2) (combine os bs) -> o1 <= o2 -> b1 <= b2).
Proof. exact (beats_b tbl C10_table_ok). Qed.

(* ... in particular the cumulative beats of the times of on-grid positions are measure * M + beat of those positions
   (this is the form the correspondence runner checks on the implementation's output) *)
Theorem C10_beats_of_positions : forall init l qs os, dom_beats_posb tbl 0 init l qs os = true ->
  exists bcos bs, from_bcs init l = Some bcos /\ tm_beats tbl bcos os = Some bs
                  /\ Forall2 (fun q b => b == abs_beat q) qs bs.
Proof. exact (beats_positions_b tbl C10_table_ok). Qed.

(* Tempo changes handed over in ANY ORDER (TimingMap.from_bpm_changes_offset / BpmList.to_timing_map: the engine sorts by
   offset).  A permutation of millisecond tempo changes with pairwise distinct offsets is the same timing map for
   offsets, snaps and beats ... *)
Theorem C10_any_order : forall bcos bcos', Permutation bcos' bcos -> distinct_offsb bcos = true ->
  (forall qs, tm_offsets tbl bcos' qs = tm_offsets tbl bcos qs)
  /\ (forall os, tm_snaps tbl bcos' os = tm_snaps tbl bcos os)
  /\ (forall os, tm_beats tbl bcos' os = tm_beats tbl bcos os).
Proof. exact (any_order_b tbl). Qed.

(* ... and for a script on the grid the map built from ANY permutation of its millisecond changes converts positions by
   the same piecewise-linear integration *)
Theorem C10_any_order_on_grid : forall init l qs, domainb tbl l qs = true ->
  exists bcos, from_bcs init l = Some bcos /\
    forall bcos', Permutation bcos' bcos ->
      exists res, tm_offsets tbl bcos' qs = Some res /\ Forall2 (fun q r => r == time_of init l q) qs res.
Proof. exact (any_order_on_grid_b tbl C10_table_ok). Qed.

(* non-vacuity: four tempo changes with metronomes 4 and 3, negative initial offset, queries unsorted with duplicates,
   exactly on changes, on the grid and off the grid *)
Example C10_ms_roundtrip_example :
  let l := [mkBcs 120 4 (mkSnap 0 0 4); mkBcs 175 4 (mkSnap 1 (3#2) 4); mkBcs 90 3 (mkSnap 3 0 3); mkBcs 200 3 (mkSnap 3 (7#3) 3)] in
  let os := [5000; -1000; 1750; 2001; 1751; 5000; (27850#7) + 1; -(1999#2)] in
  dom_snapsb tbl (-1000) l os = true
  /\ map (time_on_gridb tbl (-1000) l) os = [false; true; true; false; false; false; false; false].
Proof. vm_compute. split; reflexivity. Qed.

Example C10_beats_example :
  let l := [mkBcs 120 4 (mkSnap 0 0 4); mkBcs 240 4 (mkSnap 2 (1#2) 4); mkBcs 60 4 (mkSnap 5 3 4)] in
  let os := [7250; 500; 4750; 501; 500; 4875; 9375] in
  dom_beatsb tbl 500 l os = true
  /\ map (time_on_gridb tbl 500 l) os = [true; true; true; false; true; true; true]
  /\ match from_bcs 500 l with Some b => tm_beats tbl b os | None => None end
     = Some [37 # 2; 0; 17 # 2; 0; 0; 9; 24].
Proof. vm_compute. repeat split; reflexivity. Qed.

Example C10_positions_example :
  let l := [mkBcs 120 4 (mkSnap 0 0 4); mkBcs 240 4 (mkSnap 2 (1#2) 4); mkBcs 60 4 (mkSnap 5 3 4)] in
  let qs := [mkSnap 5 3 4; mkSnap 0 0 4; mkSnap 2 (1#2) 4; mkSnap 6 (1#3) 4; mkSnap 1 (7#2) 4; mkSnap 0 0 4] in
  dom_beats_posb tbl 0 500 l qs (map (time_of 500 l) qs) = true.
Proof. vm_compute. reflexivity. Qed.

Example C10_any_order_example :
  let a := mkBco 240 3 3000 in let b := mkBco 120 3 (-1000) in let c := mkBco 60 3 500 in
  distinct_offsb [b; c; a] = true /\ Permutation [a; b; c] [b; c; a].
Proof. split; [vm_compute; reflexivity|]. apply (Permutation_cons_append [_; _]). Qed.
