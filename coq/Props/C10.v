(* C10 — timing engine.  Property theorems only: each is closed by [exact] from Proofs/. *)
From Coq Require Import ZArith QArith Qround Qabs List Bool.
From RV Require Import Base.PyNum Timing.Snapper Timing.Snap Timing.TimingMap Timing.Integrate Timing.Domain
  Generated.Tables Proofs.SnapperProofs Proofs.TimingProofs Proofs.RederiveProofs.
Import ListNotations.
Open Scope Q_scope.

Definition tbl := Tables.snapper_table.

(* Table obligation, re-checked against the table regenerated from the live Snapper on every run:
   starts at 0, strictly increasing, neighbouring entries at most 1/96 apart, ends at 1. *)
Theorem C10_table_ok : table_ok (1 # 96) tbl = true.
Proof. vm_compute. reflexivity. Qed.

(* Snapping a beat fraction returns an allowed fraction (a table entry), no allowed fraction is
   strictly nearer, and it is within 1/192 beat. *)
Theorem C10_snap_nearest : forall rem, 0 <= rem -> rem <= 1 ->
  In (snap_frac tbl rem) tbl /\
  (forall t, In t tbl -> Qabs (rem - snap_frac tbl rem) <= Qabs (rem - t)) /\
  2 * Qabs (rem - snap_frac tbl rem) <= 1 # 96.
Proof. exact (snap_frac_nearest (1 # 96) tbl C10_table_ok). Qed.

Theorem C10_snapper_within_192 : forall x, 2 * Qabs (x - snapper_snap tbl x) <= 1 # 96.
Proof. exact (snapper_snap_within (1 # 96) tbl C10_table_ok). Qed.

Theorem C10_snapper_idempotent : forall x, snapper_snap tbl (snapper_snap tbl x) == snapper_snap tbl x.
Proof. exact (snapper_snap_idem (1 # 96) tbl C10_table_ok). Qed.

(* TimingMap.offsets returns its results IN THE ORDER OF THE QUERIES: sorting the queries, sweeping them in reverse
   with a persistent cursor and un-permuting is the per-query lookup (any multiset of queries, any order, duplicates) *)
Theorem C10_offsets_in_query_order : forall tbl bcos qs bcss,
  bco_to_bcs tbl (sort_by bco_lt bcos) = Some bcss ->
  let full := rev (combine (sort_by bco_lt bcos) bcss) in
  (forall q, In q qs -> exists v, lookup_time full q = Some v) ->
  exists res, tm_offsets tbl bcos qs = Some res /\ Forall2 (fun q r => lookup_time full q = Some r) qs res.
Proof. exact tm_offsets_lookup. Qed.

(* ... and equals piecewise-linear integration of beat length over the tempo segments, for every timing map whose
   re-derived positions are increasing, normalised and integrate back to its stored offsets (tempo changes given in ANY
   order: they are sorted by time first), any initial offset, any positive bpms and metronomes *)
Theorem C10_offsets_integrate : forall tbl bcos qs bcss p0 rest,
  bco_to_bcs tbl (sort_by bco_lt bcos) = Some bcss ->
  combine (sort_by bco_lt bcos) bcss = p0 :: rest ->
  incr_pairsb p0 rest && consistentb p0 rest && pairs_wfb (p0 :: rest) && forallb (query_okb p0) qs = true ->
  exists res, tm_offsets tbl bcos qs = Some res
              /\ Forall2 (fun q r => r == time_of (p_t p0) (map snd (p0 :: rest)) q) qs res.
Proof. exact offsets_integrate_b. Qed.

(* CLOSED FORM.  For every tempo script on the snap grid (first change at measure 0 beat 0; strictly increasing,
   normalised positions; any positive bpms; integer metronomes; consecutive changes a table fraction of a beat apart -
   the boolean domainb below, which is also what the correspondence runner checks for every generated case), any
   initial offset including negative, and any queries at or after the first change, in any order, with duplicates:
   TimingMap.from_bpm_changes_snap(init, script, reseat=False).offsets(queries) succeeds and equals, query by query,
   the piecewise-linear integration of beat length over the script's tempo segments.  This includes the fact that the
   positions the TimingMap re-derives from its millisecond offsets (bpm_changes_offset_to_snap, through the snapper)
   are the script's own positions. *)
Theorem C10_offsets_on_grid : forall init l qs, domainb tbl l qs = true ->
  exists bcos res, from_bcs init l = Some bcos
                   /\ tm_offsets tbl bcos qs = Some res
                   /\ Forall2 (fun q r => r == time_of init l q) qs res.
Proof. exact (offsets_on_grid_b tbl C10_table_ok). Qed.

Example C10_on_grid_example :
  domainb tbl [mkBcs 120 4 (mkSnap 0 0 4); mkBcs 175 4 (mkSnap 1 (3#2) 4); mkBcs 90 3 (mkSnap 3 0 3); mkBcs 200 3 (mkSnap 3 (7#3) 3)]
              [mkSnap 4 1 3; mkSnap 0 0 4; mkSnap 3 (7#3) 3; mkSnap 1 (3#2) 4; mkSnap 4 1 3] = true.
Proof. vm_compute. reflexivity. Qed.

(* non-vacuity of the hypotheses: three tempo changes given out of order, negative initial offset, metronome 3,
   queries unsorted with a duplicate and one exactly on a change *)
Example C10_offsets_example :
  let bcos := [mkBco 240 3 3000; mkBco 120 3 (-1000); mkBco 60 3 500] in
  let qs := [mkSnap 2 (1#2) 3; mkSnap 0 0 3; mkSnap 1 0 3; mkSnap 2 (1#2) 3; mkSnap 0 (5#2) 3] in
  match bco_to_bcs tbl (sort_by bco_lt bcos) with
  | Some bcss =>
      match combine (sort_by bco_lt bcos) bcss with
      | p0 :: rest => incr_pairsb p0 rest && consistentb p0 rest && pairs_wfb (p0 :: rest) && forallb (query_okb p0) qs = true
                      /\ tm_offsets tbl bcos qs = Some [3250; -1000; 500; 3250; 250]
      | [] => False
      end
  | None => False
  end.
Proof. vm_compute. split; reflexivity. Qed.

(* non-vacuity: the default divisions are all representable: k/d is a fixed point for d in DEFAULT_DIVISIONS *)
Example C10_divisions_in_table :
  forallb (fun d => forallb (fun k => Qeq_bool (snap_frac tbl (inject_Z (Z.of_nat k) / inject_Z d)) (inject_Z (Z.of_nat k) / inject_Z d))
                            (seq 0 (Z.to_nat d + 1))) Tables.default_divisions = true.
Proof. vm_compute. reflexivity. Qed.
