(* C10 — timing engine.  Property theorems only: each is closed by [exact] from Proofs/. *)
From Coq Require Import ZArith QArith Qround Qabs List Bool.
From RV Require Import Base.PyNum Timing.Snapper Timing.Snap Timing.TimingMap Timing.Integrate
  Generated.Tables Proofs.SnapperProofs.
Import ListNotations.
Open Scope Q_scope.

Definition tbl := Tables.snapper_table.

(* Table obligation, re-checked against the table regenerated from the live Snapper on every run:
   starts at 0, strictly increasing, neighbouring entries at most 1/96 apart, ends at 1. *)
Theorem C10_table_ok : table_ok (1 # 96) tbl = true.
Proof. vm_compute. reflexivity. Qed.

(* Snapping a beat fraction returns an allowed fraction (a table entry), no allowed fraction is
   strictly nearer, and it is within 1/192 beat. *)
Theorem C10_snap_nearest : forall rem, 0 <= rem -> rem <= 1 ->
  In (snap_frac tbl rem) tbl /\
  (forall t, In t tbl -> Qabs (rem - snap_frac tbl rem) <= Qabs (rem - t)) /\
  2 * Qabs (rem - snap_frac tbl rem) <= 1 # 96.
Proof. exact (snap_frac_nearest (1 # 96) tbl C10_table_ok). Qed.

Theorem C10_snapper_within_192 : forall x, 2 * Qabs (x - snapper_snap tbl x) <= 1 # 96.
Proof. exact (snapper_snap_within (1 # 96) tbl C10_table_ok). Qed.

Theorem C10_snapper_idempotent : forall x, snapper_snap tbl (snapper_snap tbl x) == snapper_snap tbl x.
Proof. exact (snapper_snap_idem (1 # 96) tbl C10_table_ok). Qed.

(* non-vacuity: the default divisions are all representable: k/d is a fixed point for d in DEFAULT_DIVISIONS *)
Example C10_divisions_in_table :
  forallb (fun d => forallb (fun k => Qeq_bool (snap_frac tbl (inject_Z (Z.of_nat k) / inject_Z d)) (inject_Z (Z.of_nat k) / inject_Z d))
                            (seq 0 (Z.to_nat d + 1))) Tables.default_divisions = true.
Proof. vm_compute. reflexivity. Qed.
