From Coq Require Import ZArith QArith List Bool.
From RV Require Import Base.PyNum Formats.Qua Formats.QuaSpec Generated.Tables Proofs.QuaProofs.
Import ListNotations.
Theorem C06_meta_table_is_reference : Tables.c06.meta_table = ref_meta_table.
Proof. vm_compute. reflexivity. Qed.
