(* C06 — Quaver .qua read/write.  Property theorems only: each is closed by [exact] from Proofs/QuaProofs.v
   (or by vm_compute for table obligations and concrete witnesses re-checked against the live tables).

   The whole-document statements of DESIGN 4/C06 are proved for ALL inputs of the domains
     wf_docb    (documents: the three sections are lists of records carrying only format keys with int times, int lanes >= 1,
                 key sounds lists of strings, numeric Bpm / Multiplier; typed metadata; foreign top-level keys allowed;
                 any key may be omitted, in some or in all records) and
     wf_chartb false (charts: the declared columns in any order, numeric cells, integral columns >= 0, list key sounds,
                 typed metadata, tags without blanks):
     C06_qua_read_denotes, C06_qua_write_wf_denotes (= qua_write_wf + qua_write_denotes), C06_qua_read_after_write,
     C06_qua_write_after_read, plus oracle soundness, truncation / no-drift / Tags laws and the per-list theorems.
   Generations (Proofs/QuaGenProofs.v): the writer's documents have the decidable shape gen_docb, write o read maps every
   document of that shape to the same document (doc_same; Leibniz-equal when the point records carry StartTime first),
   so generation 2 = generation 1 and every later generation = generation 2 exactly (the C06_generation theorems).
   Resolution 0 (Proofs/QuaExactProofs.v): all times of a document of the reader's domain are integers, hence
   write (read d) denotes exactly what d denotes and read (write (read d)) is exactly the chart read d
   (C06_qua_write_after_read_exact, C06_qua_read_write_read_exact).  Oracles: read_specb / rw_specb are complete;
   write_specb / wr_specb are exactly the POSITIONAL relations (complete for them), and refuted for the
   permutation-closed WriteSpec (C06_write_oracle_complete_refuted).
   Not proved: anything about charts outside the strict domain (extra columns, NaN cells): those are covered by the
   per-run correspondence only.  PyYAML is outside (tree level). *)
From Coq Require Import ZArith QArith Qabs List Bool.
From RV Require Import Base.PyNum Formats.Qua Formats.QuaSpec Formats.QuaGenSpec Generated.Tables Proofs.QuaProofs Proofs.QuaGenProofs Proofs.QuaExactProofs.
Import ListNotations.
Open Scope Z_scope.

(* format-fact table: the 21 metadata keys written by the live QuaMapMeta._write_meta, with the declared types of the
   live dataclass, are the reference table of the specification *)
Theorem C06_meta_table_is_reference : Tables.c06.meta_table = ref_meta_table.
Proof. vm_compute. reflexivity. Qed.
Theorem C06_meta_defaults_keys : map fst Tables.c06.meta_defaults = map fst ref_meta_table.
Proof. vm_compute. reflexivity. Qed.

(* oracle soundness: what a `true` of the oracles used in Corr/RunC06.v means *)
Theorem C06_read_oracle_sound : forall doc out, read_specb doc out = true -> ReadSpec doc out.
Proof. exact read_specb_sound. Qed.
Theorem C06_write_oracle_sound : forall c out, write_specb c out = true -> WriteSpec c out.
Proof. exact write_specb_sound. Qed.
Theorem C06_write_read_oracle_sound : forall c out, wr_specb c out = true -> WriteReadSpec c out.
Proof. exact wr_specb_sound. Qed.

(* times move by less than 1 ms when written, and not at all the second time *)
Theorem C06_written_time_within_1ms : forall v q, num v = Some q ->
  exists z, cast_int v = Some (YInt z) /\ lt1 (inject_Z z) q = true.
Proof. exact cast_int_close. Qed.
Theorem C06_hold_end_within_1ms : forall o ln qo ql, num o = Some qo -> num ln = Some ql ->
  exists v z, cell_add o ln = Some v /\ cast_int v = Some (YInt z) /\ lt1 (inject_Z z) (qo + ql)%Q = true.
Proof. exact hold_end_close. Qed.
Theorem C06_no_drift_cell : forall v w, cast_int v = Some w -> cast_int w = Some w.
Proof. exact cast_int_idem. Qed.

(* Tags: the reader's split is the word list, and joining well-formed tags then splitting gives them back *)
Theorem C06_tags_read_is_words : forall s, tags_of s = words s.
Proof. exact tags_of_is_words. Qed.
Theorem C06_tags_roundtrip : forall ts, forallb good_tag ts = true -> words (join_sp ts) = ts.
Proof. exact words_join. Qed.

(* QuaMap.write, WHOLE DOCUMENT, for every chart in the strict domain (declared columns in any order, numeric cells, integral
   columns >= 0, list key sounds, typed metadata, tags without blanks) and every default table with the reference keys:
   the oracle holds, i.e. (by C06_write_oracle_sound) the written document is well-formed (qua_write_wf) and denotes the
   chart with every start and end time moved by less than 1 ms and the same lanes, key sounds, tempos, multipliers and
   metadata, every metadata key declared (qua_write_denotes) *)
Theorem C06_qua_write_ok : forall ds c, length ds = length ref_meta_table -> wf_chartb false c = true ->
  write_specb c (qua_write (combine ref_keys ds) c) = true.
Proof. exact qua_write_ok. Qed.
Theorem C06_qua_write_live_ok : forall c, wf_chartb false c = true -> write_specb c (Live.write c) = true.
Proof. exact qua_write_live_ok. Qed.
Theorem C06_qua_write_wf_denotes : forall c, wf_chartb false c = true -> WriteSpec c (Live.write c).
Proof. exact qua_write_wf_denotes. Qed.
(* the four list writers, any column order *)
Theorem C06_hits_to_yaml_ok : forall f, frame_okb (hit_decl false) false f = true ->
  exists rows, hits_to_yaml f = Some rows /\ SectionOK hit_row_denote (f_rows f) note_keys rows.
Proof. exact hits_to_yaml_ok. Qed.
Theorem C06_holds_to_yaml_ok : forall f, frame_okb (hold_decl false) false f = true ->
  exists rows, holds_to_yaml f = Some rows /\ SectionOK hold_row_denote (f_rows f) note_keys rows.
Proof. exact holds_to_yaml_ok. Qed.
Theorem C06_bpms_to_yaml_ok : forall f, frame_okb bpm_decl false f = true ->
  exists rows, bpms_to_yaml f = Some rows /\ PointsOK K_Bpm 120%Q N_bpm (f_rows f) tp_keys rows.
Proof. exact bpms_to_yaml_ok. Qed.
Theorem C06_svs_to_yaml_ok : forall f, frame_okb sv_decl false f = true ->
  exists rows, svs_to_yaml f = Some rows /\ PointsOK K_Multiplier 1%Q N_multiplier (f_rows f) sv_keys rows.
Proof. exact svs_to_yaml_ok. Qed.

(* QuaMap.read, WHOLE DOCUMENT: for every document of the domain the reader succeeds, the chart it returns is exactly
   (multisets of notes, timing points, scroll velocities; metadata with the defaults' types) the chart the document
   denotes under the format's defaults, and that chart is in the writer's strict domain *)
Theorem C06_qua_read_ok : forall hc lc bc sc md doc, defaults_ok hc lc bc sc md = true -> wf_docb doc = true ->
  exists c, qua_read_gen hc lc bc sc md hits_from_yaml holds_from_yaml doc = Some c /\
            read_specb doc (Some c) = true /\ wf_chartb false c = true.
Proof. exact qua_read_ok. Qed.
Theorem C06_live_defaults_ok :
  defaults_ok Tables.c06.hit_cols Tables.c06.hold_cols Tables.c06.bpm_cols Tables.c06.sv_cols Live.meta_defaults = true.
Proof. exact live_defaults_ok. Qed.
Theorem C06_qua_read_denotes : forall doc, wf_docb doc = true -> ReadSpec doc (Live.read doc).
Proof. exact qua_read_denotes. Qed.
Theorem C06_written_doc_in_reader_domain : forall d, wf_qua_docb d = true -> wf_docb d = true.
Proof. exact wf_qua_doc_is_wf_doc. Qed.
(* the two round trips, up to the 1 ms resolution of the writer *)
Theorem C06_qua_read_after_write : forall c, wf_chartb false c = true ->
  exists d c', Live.write c = Some d /\ Live.read d = Some c' /\
               WriteSpec c (Some d) /\ ReadSpec d (Some c') /\ wf_chartb false c' = true.
Proof. exact qua_read_after_write. Qed.
Theorem C06_qua_write_after_read : forall doc, wf_docb doc = true ->
  exists c d, Live.read doc = Some c /\ Live.write c = Some d /\
              ReadSpec doc (Some c) /\ WriteSpec c (Some d) /\ wf_docb d = true.
Proof. exact qua_write_after_read. Qed.
(* the two note readers on typed records, any key order, any subset of keys omitted in some or all records *)
Theorem C06_hits_from_yaml_ok : forall recs, Forall hit_rec_typed recs ->
  exists fr, hits_from_yaml recs = Some fr /\ frame_okb (hit_decl false) false fr = true /\
    exists ns, omap hit_row_denote (f_rows fr) = Some ns /\ omap note_denote (map YMap recs) = Some ns.
Proof. exact hits_from_yaml_ok. Qed.
Theorem C06_holds_from_yaml_ok : forall recs, Forall hold_rec_typed recs ->
  exists fr, holds_from_yaml recs = Some fr /\ frame_okb (hold_decl false) false fr = true /\
    exists ns es, omap hold_row_denote (f_rows fr) = Some ns /\ omap note_denote (map YMap recs) = Some es /\
                  Forall2 (fun x y => note_eqb x y = true) es ns.
Proof. exact holds_from_yaml_ok. Qed.

(* writer, hits: for every list with the declared columns, one well-formed record per row denoting the row *)
Theorem C06_write_hits_partial : forall l, forallb hit_ok l = true -> hits_to_yaml (canon_hits l) = Some (map hit_out l).
Proof. exact hits_to_yaml_canonical. Qed.
Theorem C06_written_hit_record_ok : forall x, hit_ok x = true ->
  rec_okb note_keys (YMap (hit_out x)) = true /\
  exists n n', note_denote (YMap (hit_out x)) = Some n /\ hit_row_denote (hit_row x) = Some n' /\ note_closeb n n' = true.
Proof. exact hit_out_ok. Qed.

(* reader, timing points and scroll velocities, per record, with the format's defaults *)
Theorem C06_read_timing_point_partial : forall r p, point_denote K_Bpm 120%Q (YMap r) = Some p ->
  point_row_denote N_bpm [(N_offset, getd K_StartTime (YInt 0) r); (N_bpm, getd K_Bpm (YInt 120) r); (N_metronome, YInt 4)] = Some p.
Proof. exact read_bpm_row_denotes. Qed.
Theorem C06_read_scroll_velocity_partial : forall r p, point_denote K_Multiplier 1%Q (YMap r) = Some p ->
  point_row_denote N_multiplier [(N_offset, getd K_StartTime (YInt 0) r); (N_multiplier, getd K_Multiplier (YFloat 1) r)] = Some p.
Proof. exact read_sv_row_denotes. Qed.

(* Defects of the OLD note reader (pinned snapshot; repaired in /repo by 736886e), stated about the clearly named OLD
   model variant [Live.read_OLD] ... *)
Theorem C06_OLD_read_omitted_keysounds_refuted :
  wf_docb wit_omit_keysounds = true /\ read_ok_OLD wit_omit_keysounds = false /\ rw_ok_OLD wit_omit_keysounds = false.
Proof. exact OLD_read_omitted_keysounds_refuted. Qed.
Theorem C06_OLD_read_hold_omitted_starttime_refuted :
  wf_docb wit_hold_omit_start = true /\ read_ok_OLD wit_hold_omit_start = false /\ rw_ok_OLD wit_hold_omit_start = false.
Proof. exact OLD_read_hold_omitted_starttime_refuted. Qed.
Theorem C06_OLD_read_holds_all_omit_starttime_refuted :
  wf_docb wit_holds_all_omit_start = true /\ Live.read_OLD wit_holds_all_omit_start = None.
Proof. exact OLD_read_holds_all_omit_starttime_refuted. Qed.
Theorem C06_OLD_read_all_omit_lane_refuted : wf_docb wit_all_omit_lane = true /\ Live.read_OLD wit_all_omit_lane = None.
Proof. exact OLD_read_all_omit_lane_refuted. Qed.
(* ... and the current reader reads each of those documents as it denotes and writes it back well-formed *)
Theorem C06_read_former_witnesses_ok :
  forallb (fun d => wf_docb d && read_ok d && rw_ok d)
          [wit_omit_keysounds; wit_hold_omit_start; wit_holds_all_omit_start; wit_all_omit_lane] = true.
Proof. exact qua_read_former_witnesses_ok. Qed.
(* the repaired reader on the record shapes the OLD reader got wrong, for all times, lanes and key sounds:
   the frame is produced, every row is denotable and the notes are exactly those qua_denote gives the records *)
Theorem C06_hold_omitting_starttime_read : forall e l ks, is_text_list ks = true ->
  reads_as_denoted holds_from_yaml hold_row_denote [[(K_EndTime, YInt e); (K_Lane, YInt l); (K_KeySounds, YList ks)]].
Proof. exact hold_omitting_starttime_read. Qed.
Theorem C06_hold_omitting_starttime_beside_complete_read : forall e1 l1 ks1 s2 e2 l2 ks2,
  is_text_list ks1 = true -> is_text_list ks2 = true ->
  reads_as_denoted holds_from_yaml hold_row_denote
    [[(K_EndTime, YInt e1); (K_Lane, YInt l1); (K_KeySounds, YList ks1)];
     [(K_StartTime, YInt s2); (K_EndTime, YInt e2); (K_Lane, YInt l2); (K_KeySounds, YList ks2)]].
Proof. exact hold_omitting_starttime_beside_complete_read. Qed.
Theorem C06_hit_omitting_keysounds_read : forall s l,
  reads_as_denoted hits_from_yaml hit_row_denote [[(K_StartTime, YInt s); (K_Lane, YInt l)]].
Proof. exact hit_omitting_keysounds_read. Qed.
Theorem C06_hit_omitting_keysounds_beside_complete_read : forall s1 l1 s2 l2 ks2, is_text_list ks2 = true ->
  reads_as_denoted hits_from_yaml hit_row_denote
    [[(K_StartTime, YInt s1); (K_Lane, YInt l1)]; [(K_KeySounds, YList ks2); (K_Lane, YInt l2); (K_StartTime, YInt s2)]].
Proof. exact hit_omitting_keysounds_beside_complete_read. Qed.
Theorem C06_hits_all_omitting_lane_read : forall s1 ks1 s2, is_text_list ks1 = true ->
  reads_as_denoted hits_from_yaml hit_row_denote [[(K_StartTime, YInt s1); (K_KeySounds, YList ks1)]; [(K_StartTime, YInt s2)]].
Proof. exact hits_all_omitting_lane_read. Qed.
Theorem C06_holds_all_omitting_lane_and_start_read : forall e1 e2,
  reads_as_denoted holds_from_yaml hold_row_denote [[(K_EndTime, YInt e1)]; [(K_EndTime, YInt e2)]].
Proof. exact holds_all_omitting_lane_and_start_read. Qed.
(* charts with an extra `index` column / NaN keysounds (what TimedList.empty() produced before 4a9b03a / 3b9da0f) are
   still written through by the writer; nothing in /repo produces such charts any more *)
Theorem C06_write_index_key_refuted :
  wf_chartb true (wit_conv_chart true false) = true /\ write_ok (wit_conv_chart true false) = false.
Proof. exact qua_write_index_key_refuted. Qed.
Theorem C06_write_keysounds_nan_refuted :
  wf_chartb true (wit_conv_chart false true) = true /\ write_ok (wit_conv_chart false true) = false.
Proof. exact qua_write_keysounds_nan_refuted. Qed.
(* InitialScrollVelocity: refuted for the OLD defaults (''), fixed by e825b78: the live default is the float 1.0, every
   live default has its key's declared type, and a document omitting the key is read and written back correctly *)
Theorem C06_OLD_isv_default_refuted :
  wf_docb wit_omit_isv = true /\
  read_specb wit_omit_isv (Live.read_OLDMETA wit_omit_isv) = false /\
  rw_specb wit_omit_isv (Live.read_OLDMETA wit_omit_isv >>= Live.write_OLDMETA) = false.
Proof. exact OLD_isv_default_refuted. Qed.
Theorem C06_isv_default_is_float_1 : assoc K_InitialScrollVelocity Live.meta_defaults = Some (YFloat 1).
Proof. exact qua_isv_default_is_float_1. Qed.
Theorem C06_isv_omitted_ok : wf_docb wit_omit_isv = true /\ read_ok wit_omit_isv = true /\ rw_ok wit_omit_isv = true.
Proof. exact qua_isv_omitted_ok. Qed.
Theorem C06_meta_defaults_typed :
  all2 (fun kt kd => (fst kt =? fst kd) && has_type (if fst kt =? ref_tags_key then 4 else snd kt) (snd kd))
       ref_meta_table Live.meta_defaults = true.
Proof. exact qua_meta_defaults_typed. Qed.

(* non-vacuity: inside the guards the whole pipeline satisfies the oracles on concrete non-trivial inputs *)
Example C06_clean_document_ok :
  wf_docb wit_clean = true /\ read_ok wit_clean = true /\ rw_ok wit_clean = true /\
  (let w1 := Live.read wit_clean >>= Live.write in
   match w1, w1 >>= Live.read >>= Live.write with Some a, Some b => tree_eqb true a b | _, _ => false end) = true.
Proof. exact qua_clean_doc_ok. Qed.
Example C06_clean_chart_ok :
  let c := wit_conv_chart false false in
  wf_chartb false c = true /\ write_ok c = true /\ wr_specb c (Live.write c >>= Live.read) = true.
Proof. exact qua_write_clean_chart_ok. Qed.

(* ================================================================== GENERATIONS, whole documents (Proofs/QuaGenProofs.v)
   Equality of documents, said precisely.  [doc_same d' d]: the same top-level keys in the same order (the 21 metadata
   keys of _write_meta, then TimingPoints, SliderVelocities, HitObjects); every metadata value identical (Leibniz: a YAML int
   is an int, a float a float, the same text); the note records identical, in the same order, with the same key order
   inside each record; the timing-point and scroll-velocity records in the same order, each the same key -> value map with
   identical values -- only the order of the two keys inside such a record may differ (the chart's column order is written
   through by the first write; the reader rebuilds the fixed order offset, bpm).  doc_same implies the runner's relation
   tree_eqb true (C06_doc_same_is_runner_relation) and is Leibniz equality when both documents carry StartTime first in
   their point records (C06_doc_same_canonical_is_eq). *)
(* (I) every document written from a strict chart has the generation shape (all keys, complete records, hits before holds,
   one key order per note kind with EndTime last, Tags normalised) *)
Theorem C06_written_doc_has_generation_shape : forall c, wf_chartb false c = true ->
  exists d, Live.write c = Some d /\ gen_docb d = true.
Proof. exact qua_write_gen_doc. Qed.
(* (II) on EVERY document of that shape (not only written ones) write o read gives the same document back *)
Theorem C06_generation_doc_fixed : forall d, gen_docb d = true ->
  exists c d', Live.read d = Some c /\ wf_chartb false c = true /\ Live.write c = Some d' /\
               doc_same d' d /\ pts_canonb d' = true /\ gen_docb d' = true.
Proof. exact qua_gen_doc_fixed. Qed.
Theorem C06_generation_fixed_point : forall d, gen_docb d = true -> pts_canonb d = true -> regen d = Some d.
Proof. exact qua_regen_fixed_point. Qed.
(* (III) generation 2 = generation 1 for every strict chart ... *)
Theorem C06_generation_2_is_1 : forall c, wf_chartb false c = true ->
  exists d1 c1 d2, Live.write c = Some d1 /\ Live.read d1 = Some c1 /\ wf_chartb false c1 = true /\ Live.write c1 = Some d2 /\
                   doc_same d2 d1 /\ gen_docb d1 = true /\ gen_docb d2 = true /\ pts_canonb d2 = true.
Proof. exact qua_generation_2_is_1. Qed.
(* ... Leibniz-equal when generation 1 carries StartTime first in its point records (default column order) ... *)
Theorem C06_generation_2_eq_1_canonical : forall c d1, wf_chartb false c = true -> Live.write c = Some d1 -> pts_canonb d1 = true ->
  regen d1 = Some d1.
Proof. exact qua_generation_2_eq_1_canon. Qed.
(* ... and every later generation IS generation 2 (no drift, ever) *)
Theorem C06_generations_stable : forall c, wf_chartb false c = true ->
  exists d1 d2, generation 0 c = Some d1 /\ generation 1 c = Some d2 /\ doc_same d2 d1 /\ forall n, generation (S n) c = Some d2.
Proof. exact qua_generations_stable. Qed.
(* Leibniz equality of generations 1 and 2 is FALSE without the guard: timing-point columns (bpm, metronome, offset) are
   written Bpm-first and come back StartTime-first.  reamber does the same (yaml.dump(sort_keys=False)): the two texts
   differ in that key order only, yaml.safe_load gives equal documents, generation 3 = generation 2 textually *)
Theorem C06_generation_2_leibniz_refuted :
  let c := wit_conv_chart false false in
  wf_chartb false c = true /\ generation 1 c <> generation 0 c /\
  first_tp_keys (generation 0 c) = [K_Bpm; K_StartTime] /\ first_tp_keys (generation 1 c) = [K_StartTime; K_Bpm] /\
  match generation 0 c, generation 1 c with Some a, Some b => tree_eqb true b a | _, _ => false end = true /\
  generation 2 c = generation 1 c.
Proof. exact qua_generation_2_leibniz_refuted. Qed.
Theorem C06_doc_same_is_runner_relation : forall d' d, wf_qua_docb d = true -> doc_same d' d -> tree_eqb true d' d = true.
Proof. exact doc_same_tree_eqb. Qed.
Theorem C06_doc_same_canonical_is_eq : forall d' d, gen_docb d = true -> doc_same d' d -> pts_canonb d = true -> pts_canonb d' = true -> d' = d.
Proof. exact doc_same_canon_eq. Qed.
Theorem C06_doc_same_equivalence : (forall a b, doc_same a b -> doc_same b a) /\ (forall a b c, doc_same a b -> doc_same b c -> doc_same a c).
Proof. exact (conj doc_same_sym doc_same_trans). Qed.
(* the conjunct `w1 = w2` of the runner's spec_ok is a theorem about the model on both domains *)
Theorem C06_chart_generations_runner_relation : forall c, wf_chartb false c = true ->
  otree_same (Live.write c >>= Live.read >>= Live.write) (Live.write c) = true.
Proof. exact qua_chart_generations_tree_eqb. Qed.
Theorem C06_doc_generations_runner_relation : forall doc, wf_docb doc = true ->
  otree_same (Live.read doc >>= Live.write >>= Live.read >>= Live.write) (Live.read doc >>= Live.write) = true.
Proof. exact qua_doc_generations_tree_eqb. Qed.

(* ================================================================== RESOLUTION 0 after the first trip (Proofs/QuaExactProofs.v)
   every time declared by a document of the reader's domain is an integer; two integers less than 1 ms apart are equal *)
Theorem C06_document_times_are_integers : forall doc e, wf_docb doc = true -> qua_denote doc = Some e -> den_int e.
Proof. exact qua_denote_int. Qed.
Theorem C06_close_integers_equal : forall e a, den_int e -> den_int a -> den_close e a -> den_eq e a.
Proof. exact den_close_int_eq. Qed.
(* write after read: the written document denotes EXACTLY what the source denotes (multisets, Qeq on times, equal metadata) *)
Theorem C06_qua_write_after_read_exact : forall doc, wf_docb doc = true -> ReadWriteSpec doc (Live.read doc >>= Live.write).
Proof. exact qua_write_after_read_exact. Qed.
(* read after write after read: exactly the chart of the first read *)
Theorem C06_qua_read_write_read_exact : forall doc, wf_docb doc = true ->
  exists c1 d1 c2 a1 a2, Live.read doc = Some c1 /\ Live.write c1 = Some d1 /\ Live.read d1 = Some c2 /\
    wf_chartb false c2 = true /\ chart_denote c1 = Some a1 /\ chart_denote c2 = Some a2 /\ den_eq a1 a2.
Proof. exact qua_read_write_read_exact. Qed.
(* from a chart (float times allowed): the first write moves times by < 1 ms (C06_qua_read_after_write), the second read
   returns exactly the chart of the first read *)
Theorem C06_qua_chart_second_read_exact : forall c, wf_chartb false c = true ->
  exists d0 c1 d1 c2 a1 a2, Live.write c = Some d0 /\ Live.read d0 = Some c1 /\ Live.write c1 = Some d1 /\ Live.read d1 = Some c2 /\
    chart_denote c1 = Some a1 /\ chart_denote c2 = Some a2 /\ den_eq a1 a2.
Proof. exact qua_chart_second_read_exact. Qed.

(* ================================================================== completeness of the boolean oracles *)
Theorem C06_read_oracle_complete : forall doc out, ReadSpec doc out -> read_specb doc out = true.
Proof. exact read_specb_complete. Qed.
Theorem C06_rw_oracle_sound : forall doc out, rw_specb doc out = true -> ReadWriteSpec doc out.
Proof. exact rw_specb_sound. Qed.
Theorem C06_rw_oracle_complete : forall doc out, ReadWriteSpec doc out -> rw_specb doc out = true.
Proof. exact rw_specb_complete. Qed.
(* the writer oracles compare record i with row i: they ARE the positional relations ... *)
Theorem C06_write_oracle_is_positional : forall c out, write_specb c out = true <-> WriteSpecPos c out.
Proof. exact write_specb_iff_pos. Qed.
Theorem C06_write_read_oracle_is_positional : forall c out, wr_specb c out = true <-> WriteReadSpecPos c out.
Proof. exact wr_specb_iff_pos. Qed.
(* ... so completeness for the permutation-closed WriteSpec is FALSE (a correct document listing the notes in another order
   is rejected).  No false alarm on the writer: it keeps the order (C06_qua_write_live_ok holds on the whole domain) *)
Theorem C06_write_oracle_complete_refuted :
  wf_chartb false wit_two_hits = true /\ WriteSpec wit_two_hits wit_swapped /\ write_specb wit_two_hits wit_swapped = false /\
  write_specb wit_two_hits (Live.write wit_two_hits) = true.
Proof. exact write_specb_complete_refuted. Qed.

(* non-vacuity of the new statements *)
Example C06_generations_nontrivial :
  wf_chartb false wit_gen_chart = true /\
  option_map gen_docb (generation 0 wit_gen_chart) = Some true /\ option_map pts_canonb (generation 0 wit_gen_chart) = Some false /\
  option_map pts_canonb (generation 1 wit_gen_chart) = Some true /\
  generation 1 wit_gen_chart <> generation 0 wit_gen_chart /\ generation 3 wit_gen_chart = generation 1 wit_gen_chart /\
  otree_same (generation 1 wit_gen_chart) (generation 0 wit_gen_chart) = true.
Proof. exact generations_nontrivial. Qed.
Example C06_exactness_nontrivial :
  wf_docb wit_clean = true /\ rw_specb wit_clean (Live.read wit_clean >>= Live.write) = true /\
  match Live.read wit_clean, Live.read wit_clean >>= Live.write >>= Live.read with
  | Some c1, Some c2 => match chart_denote c1, chart_denote c2 with Some a1, Some a2 => den_eqb a1 a2 | _, _ => false end
  | _, _ => false end = true.
Proof. exact exact_nontrivial. Qed.
