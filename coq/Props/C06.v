(* C06 — Quaver .qua read/write.  Property theorems only: each is closed by [exact] from Proofs/QuaProofs.v
   (or by vm_compute for table obligations and concrete witnesses re-checked against the live tables).

   The whole-document statements of DESIGN 4/C06 are proved for ALL inputs of the domains
     wf_docb    (documents: the three sections are lists of records carrying only format keys with int times, int lanes >= 1,
                 key sounds lists of strings, numeric Bpm / Multiplier; typed metadata; foreign top-level keys allowed;
                 any key may be omitted, in some or in all records) and
     wf_chartb false (charts: the declared columns in any order, numeric cells, integral columns >= 0, list key sounds,
                 typed metadata, tags without blanks):
     C06_qua_read_denotes, C06_qua_write_wf_denotes (= qua_write_wf + qua_write_denotes), C06_qua_read_after_write,
     C06_qua_write_after_read, plus oracle soundness, truncation / no-drift / Tags laws and the per-list theorems.
   Not proved: generation 2 = generation 1 as a whole-document statement (cell level: C06_no_drift_cell; per run: oracle),
   completeness of the boolean oracles, and anything about charts outside the strict domain (extra columns, NaN cells):
   those are covered by the per-run correspondence only.  PyYAML is outside (tree level). *)
From Coq Require Import ZArith QArith Qabs List Bool.
From RV Require Import Base.PyNum Formats.Qua Formats.QuaSpec Generated.Tables Proofs.QuaProofs.
Import ListNotations.
Open Scope Z_scope.

(* format-fact table: the 21 metadata keys written by the live QuaMapMeta._write_meta, with the declared types of the
   live dataclass, are the reference table of the specification *)
Theorem C06_meta_table_is_reference : Tables.c06.meta_table = ref_meta_table.
Proof. vm_compute. reflexivity. Qed.
Theorem C06_meta_defaults_keys : map fst Tables.c06.meta_defaults = map fst ref_meta_table.
Proof. vm_compute. reflexivity. Qed.

(* oracle soundness: what a `true` of the oracles used in Corr/RunC06.v means *)
Theorem C06_read_oracle_sound : forall doc out, read_specb doc out = true -> ReadSpec doc out.
Proof. exact read_specb_sound. Qed.
Theorem C06_write_oracle_sound : forall c out, write_specb c out = true -> WriteSpec c out.
Proof. exact write_specb_sound. Qed.
Theorem C06_write_read_oracle_sound : forall c out, wr_specb c out = true -> WriteReadSpec c out.
Proof. exact wr_specb_sound. Qed.

(* times move by less than 1 ms when written, and not at all the second time *)
Theorem C06_written_time_within_1ms : forall v q, num v = Some q ->
  exists z, cast_int v = Some (YInt z) /\ lt1 (inject_Z z) q = true.
Proof. exact cast_int_close. Qed.
Theorem C06_hold_end_within_1ms : forall o ln qo ql, num o = Some qo -> num ln = Some ql ->
  exists v z, cell_add o ln = Some v /\ cast_int v = Some (YInt z) /\ lt1 (inject_Z z) (qo + ql)%Q = true.
Proof. exact hold_end_close. Qed.
Theorem C06_no_drift_cell : forall v w, cast_int v = Some w -> cast_int w = Some w.
Proof. exact cast_int_idem. Qed.

(* Tags: the reader's split is the word list, and joining well-formed tags then splitting gives them back *)
Theorem C06_tags_read_is_words : forall s, tags_of s = words s.
Proof. exact tags_of_is_words. Qed.
Theorem C06_tags_roundtrip : forall ts, forallb good_tag ts = true -> words (join_sp ts) = ts.
Proof. exact words_join. Qed.

(* QuaMap.write, WHOLE DOCUMENT, for every chart in the strict domain (declared columns in any order, numeric cells, integral
   columns >= 0, list key sounds, typed metadata, tags without blanks) and every default table with the reference keys:
   the oracle holds, i.e. (by C06_write_oracle_sound) the written document is well-formed (qua_write_wf) and denotes the
   chart with every start and end time moved by less than 1 ms and the same lanes, key sounds, tempos, multipliers and
   metadata, every metadata key declared (qua_write_denotes) *)
Theorem C06_qua_write_ok : forall ds c, length ds = length ref_meta_table -> wf_chartb false c = true ->
  write_specb c (qua_write (combine ref_keys ds) c) = true.
Proof. exact qua_write_ok. Qed.
Theorem C06_qua_write_live_ok : forall c, wf_chartb false c = true -> write_specb c (Live.write c) = true.
Proof. exact qua_write_live_ok. Qed.
Theorem C06_qua_write_wf_denotes : forall c, wf_chartb false c = true -> WriteSpec c (Live.write c).
Proof. exact qua_write_wf_denotes. Qed.
(* the four list writers, any column order *)
Theorem C06_hits_to_yaml_ok : forall f, frame_okb (hit_decl false) false f = true ->
  exists rows, hits_to_yaml f = Some rows /\ SectionOK hit_row_denote (f_rows f) note_keys rows.
Proof. exact hits_to_yaml_ok. Qed.
Theorem C06_holds_to_yaml_ok : forall f, frame_okb (hold_decl false) false f = true ->
  exists rows, holds_to_yaml f = Some rows /\ SectionOK hold_row_denote (f_rows f) note_keys rows.
Proof. exact holds_to_yaml_ok. Qed.
Theorem C06_bpms_to_yaml_ok : forall f, frame_okb bpm_decl false f = true ->
  exists rows, bpms_to_yaml f = Some rows /\ PointsOK K_Bpm 120%Q N_bpm (f_rows f) tp_keys rows.
Proof. exact bpms_to_yaml_ok. Qed.
Theorem C06_svs_to_yaml_ok : forall f, frame_okb sv_decl false f = true ->
  exists rows, svs_to_yaml f = Some rows /\ PointsOK K_Multiplier 1%Q N_multiplier (f_rows f) sv_keys rows.
Proof. exact svs_to_yaml_ok. Qed.

(* QuaMap.read, WHOLE DOCUMENT: for every document of the domain the reader succeeds, the chart it returns is exactly
   (multisets of notes, timing points, scroll velocities; metadata with the defaults' types) the chart the document
   denotes under the format's defaults, and that chart is in the writer's strict domain *)
Theorem C06_qua_read_ok : forall hc lc bc sc md doc, defaults_ok hc lc bc sc md = true -> wf_docb doc = true ->
  exists c, qua_read_gen hc lc bc sc md hits_from_yaml holds_from_yaml doc = Some c /\
            read_specb doc (Some c) = true /\ wf_chartb false c = true.
Proof. exact qua_read_ok. Qed.
Theorem C06_live_defaults_ok :
  defaults_ok Tables.c06.hit_cols Tables.c06.hold_cols Tables.c06.bpm_cols Tables.c06.sv_cols Live.meta_defaults = true.
Proof. exact live_defaults_ok. Qed.
Theorem C06_qua_read_denotes : forall doc, wf_docb doc = true -> ReadSpec doc (Live.read doc).
Proof. exact qua_read_denotes. Qed.
Theorem C06_written_doc_in_reader_domain : forall d, wf_qua_docb d = true -> wf_docb d = true.
Proof. exact wf_qua_doc_is_wf_doc. Qed.
(* the two round trips, up to the 1 ms resolution of the writer *)
Theorem C06_qua_read_after_write : forall c, wf_chartb false c = true ->
  exists d c', Live.write c = Some d /\ Live.read d = Some c' /\
               WriteSpec c (Some d) /\ ReadSpec d (Some c') /\ wf_chartb false c' = true.
Proof. exact qua_read_after_write. Qed.
Theorem C06_qua_write_after_read : forall doc, wf_docb doc = true ->
  exists c d, Live.read doc = Some c /\ Live.write c = Some d /\
              ReadSpec doc (Some c) /\ WriteSpec c (Some d) /\ wf_docb d = true.
Proof. exact qua_write_after_read. Qed.
(* the two note readers on typed records, any key order, any subset of keys omitted in some or all records *)
Theorem C06_hits_from_yaml_ok : forall recs, Forall hit_rec_typed recs ->
  exists fr, hits_from_yaml recs = Some fr /\ frame_okb (hit_decl false) false fr = true /\
    exists ns, omap hit_row_denote (f_rows fr) = Some ns /\ omap note_denote (map YMap recs) = Some ns.
Proof. exact hits_from_yaml_ok. Qed.
Theorem C06_holds_from_yaml_ok : forall recs, Forall hold_rec_typed recs ->
  exists fr, holds_from_yaml recs = Some fr /\ frame_okb (hold_decl false) false fr = true /\
    exists ns es, omap hold_row_denote (f_rows fr) = Some ns /\ omap note_denote (map YMap recs) = Some es /\
                  Forall2 (fun x y => note_eqb x y = true) es ns.
Proof. exact holds_from_yaml_ok. Qed.

(* writer, hits: for every list with the declared columns, one well-formed record per row denoting the row *)
Theorem C06_write_hits_partial : forall l, forallb hit_ok l = true -> hits_to_yaml (canon_hits l) = Some (map hit_out l).
Proof. exact hits_to_yaml_canonical. Qed.
Theorem C06_written_hit_record_ok : forall x, hit_ok x = true ->
  rec_okb note_keys (YMap (hit_out x)) = true /\
  exists n n', note_denote (YMap (hit_out x)) = Some n /\ hit_row_denote (hit_row x) = Some n' /\ note_closeb n n' = true.
Proof. exact hit_out_ok. Qed.

(* reader, timing points and scroll velocities, per record, with the format's defaults *)
Theorem C06_read_timing_point_partial : forall r p, point_denote K_Bpm 120%Q (YMap r) = Some p ->
  point_row_denote N_bpm [(N_offset, getd K_StartTime (YInt 0) r); (N_bpm, getd K_Bpm (YInt 120) r); (N_metronome, YInt 4)] = Some p.
Proof. exact read_bpm_row_denotes. Qed.
Theorem C06_read_scroll_velocity_partial : forall r p, point_denote K_Multiplier 1%Q (YMap r) = Some p ->
  point_row_denote N_multiplier [(N_offset, getd K_StartTime (YInt 0) r); (N_multiplier, getd K_Multiplier (YFloat 1) r)] = Some p.
Proof. exact read_sv_row_denotes. Qed.

(* Defects of the OLD note reader (pinned snapshot; repaired in /repo by 736886e), stated about the clearly named OLD
   model variant [Live.read_OLD] ... *)
Theorem C06_OLD_read_omitted_keysounds_refuted :
  wf_docb wit_omit_keysounds = true /\ read_ok_OLD wit_omit_keysounds = false /\ rw_ok_OLD wit_omit_keysounds = false.
Proof. exact OLD_read_omitted_keysounds_refuted. Qed.
Theorem C06_OLD_read_hold_omitted_starttime_refuted :
  wf_docb wit_hold_omit_start = true /\ read_ok_OLD wit_hold_omit_start = false /\ rw_ok_OLD wit_hold_omit_start = false.
Proof. exact OLD_read_hold_omitted_starttime_refuted. Qed.
Theorem C06_OLD_read_holds_all_omit_starttime_refuted :
  wf_docb wit_holds_all_omit_start = true /\ Live.read_OLD wit_holds_all_omit_start = None.
Proof. exact OLD_read_holds_all_omit_starttime_refuted. Qed.
Theorem C06_OLD_read_all_omit_lane_refuted : wf_docb wit_all_omit_lane = true /\ Live.read_OLD wit_all_omit_lane = None.
Proof. exact OLD_read_all_omit_lane_refuted. Qed.
(* ... and the current reader reads each of those documents as it denotes and writes it back well-formed *)
Theorem C06_read_former_witnesses_ok :
  forallb (fun d => wf_docb d && read_ok d && rw_ok d)
          [wit_omit_keysounds; wit_hold_omit_start; wit_holds_all_omit_start; wit_all_omit_lane] = true.
Proof. exact qua_read_former_witnesses_ok. Qed.
(* the repaired reader on the record shapes the OLD reader got wrong, for all times, lanes and key sounds:
   the frame is produced, every row is denotable and the notes are exactly those qua_denote gives the records *)
Theorem C06_hold_omitting_starttime_read : forall e l ks, is_text_list ks = true ->
  reads_as_denoted holds_from_yaml hold_row_denote [[(K_EndTime, YInt e); (K_Lane, YInt l); (K_KeySounds, YList ks)]].
Proof. exact hold_omitting_starttime_read. Qed.
Theorem C06_hold_omitting_starttime_beside_complete_read : forall e1 l1 ks1 s2 e2 l2 ks2,
  is_text_list ks1 = true -> is_text_list ks2 = true ->
  reads_as_denoted holds_from_yaml hold_row_denote
    [[(K_EndTime, YInt e1); (K_Lane, YInt l1); (K_KeySounds, YList ks1)];
     [(K_StartTime, YInt s2); (K_EndTime, YInt e2); (K_Lane, YInt l2); (K_KeySounds, YList ks2)]].
Proof. exact hold_omitting_starttime_beside_complete_read. Qed.
Theorem C06_hit_omitting_keysounds_read : forall s l,
  reads_as_denoted hits_from_yaml hit_row_denote [[(K_StartTime, YInt s); (K_Lane, YInt l)]].
Proof. exact hit_omitting_keysounds_read. Qed.
Theorem C06_hit_omitting_keysounds_beside_complete_read : forall s1 l1 s2 l2 ks2, is_text_list ks2 = true ->
  reads_as_denoted hits_from_yaml hit_row_denote
    [[(K_StartTime, YInt s1); (K_Lane, YInt l1)]; [(K_KeySounds, YList ks2); (K_Lane, YInt l2); (K_StartTime, YInt s2)]].
Proof. exact hit_omitting_keysounds_beside_complete_read. Qed.
Theorem C06_hits_all_omitting_lane_read : forall s1 ks1 s2, is_text_list ks1 = true ->
  reads_as_denoted hits_from_yaml hit_row_denote [[(K_StartTime, YInt s1); (K_KeySounds, YList ks1)]; [(K_StartTime, YInt s2)]].
Proof. exact hits_all_omitting_lane_read. Qed.
Theorem C06_holds_all_omitting_lane_and_start_read : forall e1 e2,
  reads_as_denoted holds_from_yaml hold_row_denote [[(K_EndTime, YInt e1)]; [(K_EndTime, YInt e2)]].
Proof. exact holds_all_omitting_lane_and_start_read. Qed.
(* charts with an extra `index` column / NaN keysounds (what TimedList.empty() produced before 4a9b03a / 3b9da0f) are
   still written through by the writer; nothing in /repo produces such charts any more *)
Theorem C06_write_index_key_refuted :
  wf_chartb true (wit_conv_chart true false) = true /\ write_ok (wit_conv_chart true false) = false.
Proof. exact qua_write_index_key_refuted. Qed.
Theorem C06_write_keysounds_nan_refuted :
  wf_chartb true (wit_conv_chart false true) = true /\ write_ok (wit_conv_chart false true) = false.
Proof. exact qua_write_keysounds_nan_refuted. Qed.
(* InitialScrollVelocity: refuted for the OLD defaults (''), fixed by e825b78: the live default is the float 1.0, every
   live default has its key's declared type, and a document omitting the key is read and written back correctly *)
Theorem C06_OLD_isv_default_refuted :
  wf_docb wit_omit_isv = true /\
  read_specb wit_omit_isv (Live.read_OLDMETA wit_omit_isv) = false /\
  rw_specb wit_omit_isv (Live.read_OLDMETA wit_omit_isv >>= Live.write_OLDMETA) = false.
Proof. exact OLD_isv_default_refuted. Qed.
Theorem C06_isv_default_is_float_1 : assoc K_InitialScrollVelocity Live.meta_defaults = Some (YFloat 1).
Proof. exact qua_isv_default_is_float_1. Qed.
Theorem C06_isv_omitted_ok : wf_docb wit_omit_isv = true /\ read_ok wit_omit_isv = true /\ rw_ok wit_omit_isv = true.
Proof. exact qua_isv_omitted_ok. Qed.
Theorem C06_meta_defaults_typed :
  all2 (fun kt kd => (fst kt =? fst kd) && has_type (if fst kt =? ref_tags_key then 4 else snd kt) (snd kd))
       ref_meta_table Live.meta_defaults = true.
Proof. exact qua_meta_defaults_typed. Qed.

(* non-vacuity: inside the guards the whole pipeline satisfies the oracles on concrete non-trivial inputs *)
Example C06_clean_document_ok :
  wf_docb wit_clean = true /\ read_ok wit_clean = true /\ rw_ok wit_clean = true /\
  (let w1 := Live.read wit_clean >>= Live.write in
   match w1, w1 >>= Live.read >>= Live.write with Some a, Some b => tree_eqb true a b | _, _ => false end) = true.
Proof. exact qua_clean_doc_ok. Qed.
Example C06_clean_chart_ok :
  let c := wit_conv_chart false false in
  wf_chartb false c = true /\ write_ok c = true /\ wr_specb c (Live.write c >>= Live.read) = true.
Proof. exact qua_write_clean_chart_ok. Qed.
