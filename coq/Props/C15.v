(* C15 — results do not depend on row order.  Property theorems only (see the MANIFEST note: the writers, full_ln,
   hitsound_copy and the analysis functions are covered per run by the metamorphic oracle; full_ln also by
   C17_full_ln_spec, which is stated for every sorted order of the input). *)
From Coq Require Import ZArith QArith Qround List Bool Sorting.Permutation.
From RV Require Import Base.PyNum Frame.Frame Lists.TimedList Lists.SeqSpec Map.Stacker Map.StackerSpec Map.Rate
  Convert.Cast Proofs.TimedListProofs Proofs.PermProofs.
Import ListNotations.
Open Scope Q_scope.

Theorem C15_rate_perm : forall r a b, same_objects a b -> same_objects (rate_spec r a) (rate_spec r b).
Proof. exact rate_perm. Qed.

Theorem C15_sorted_perm : forall asc f g,
  fcols f = fcols g -> Permutation (abs_rows f) (abs_rows g) ->
  Permutation (abs_rows (sort_values COL_OFFSET asc f)) (abs_rows (sort_values COL_OFFSET asc g))
  /\ sorted_prop (fcols f) asc (abs_rows (sort_values COL_OFFSET asc f))
  /\ sorted_prop (fcols g) asc (abs_rows (sort_values COL_OFFSET asc g)).
Proof. exact sorted_perm. Qed.

Theorem C15_filter_perm : forall p f g, Permutation (abs_rows f) (abs_rows g) ->
  Permutation (abs_rows (filter_rows p f)) (abs_rows (filter_rows p g)).
Proof. exact filter_rows_perm. Qed.

Theorem C15_convert_column_perm : forall f g c vs,
  fcols f = fcols g -> Permutation (abs_rows f) (abs_rows g) ->
  col_vals f c = Some vs -> exists ws, col_vals g c = Some ws /\ Permutation vs ws.
Proof. exact col_vals_perm. Qed.

Example C15_example :
  let a := [mkUlist [0; 1]%Z [[CNum 1000; CNum 1]; [CNum 3000; CNum 2]]] in
  let b := [mkUlist [0; 1]%Z [[CNum 3000; CNum 2]; [CNum 1000; CNum 1]]] in
  same_objects a b.
Proof. repeat constructor. Qed.
