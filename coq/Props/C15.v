(* C15 — results do not depend on row order.  Property theorems only: each is closed by [exact] from Proofs/PermProofs.v,
   PermProofs2.v, PermAnalysisProofs.v, PermHitsoundProofs.v, PermWriterProofs.v; Examples show that the hypotheses are
   satisfiable on non-trivial inputs.  What remains covered only per run (metamorphic oracle in Corr/RunC15.v): the BMS
   writer, the float printing of every writer, the converters' list wiring, and everything here outside the stated
   side conditions. *)
From Coq Require Import ZArith QArith Qround List Bool Sorting.Permutation.
From RV Require Import Base.PyNum Frame.Frame Lists.TimedList Lists.SeqSpec Map.Stacker Map.StackerSpec Map.Rate
  Convert.Cast Proofs.TimedListProofs Proofs.CastProofs Proofs.PermProofs Proofs.PermProofs2.
Import ListNotations.
Open Scope Q_scope.

(* ====================================================================== 1. lists, rate, filters, conversion *)
Theorem C15_rate_perm : forall r a b, same_objects a b -> same_objects (rate_spec r a) (rate_spec r b).
Proof. exact rate_perm. Qed.

Theorem C15_sorted_perm : forall asc f g,
  fcols f = fcols g -> Permutation (abs_rows f) (abs_rows g) ->
  Permutation (abs_rows (sort_values COL_OFFSET asc f)) (abs_rows (sort_values COL_OFFSET asc g))
  /\ sorted_prop (fcols f) asc (abs_rows (sort_values COL_OFFSET asc f))
  /\ sorted_prop (fcols g) asc (abs_rows (sort_values COL_OFFSET asc g)).
Proof. exact sorted_perm. Qed.

Theorem C15_filter_perm : forall p f g, Permutation (abs_rows f) (abs_rows g) ->
  Permutation (abs_rows (filter_rows p f)) (abs_rows (filter_rows p g)).
Proof. exact filter_rows_perm. Qed.

Theorem C15_convert_column_perm : forall f g c vs,
  fcols f = fcols g -> Permutation (abs_rows f) (abs_rows g) ->
  col_vals f c = Some vs -> exists ws, col_vals g c = Some ws /\ Permutation vs ws.
Proof. exact col_vals_perm. Qed.

(* ConvertBase.cast, WHOLE ROWS: the converted list of a source list with permuted rows is the converted list with its rows
   permuted - all mapped columns at once (rows as tuples), every source frame (any labels), any declared fields, defaults
   and mapping; a directly passed value array must be computed row by row from the source (mapping_rel) *)
Theorem C15_convert_rows_perm : forall f g declared defaults mp mp' out,
  fcols f = fcols g -> Permutation (abs_rows f) (abs_rows g) -> mapping_rel f g mp mp' ->
  cast f declared defaults mp = Some out ->
  exists out', cast g declared defaults mp' = Some out' /\ fcols out' = fcols out
               /\ Permutation (abs_rows out) (abs_rows out').
Proof. exact cast_rows_perm. Qed.
(* a mapping made of column names only is related to itself *)
Theorem C15_mapping_of_columns : forall f g mp, (forall t s, In (t, s) mp -> exists c, s = FromCol c) -> mapping_rel f g mp mp.
Proof. exact mapping_rel_cols. Qed.

Example C15_example :
  let a := [mkUlist [0; 1]%Z [[CNum 1000; CNum 1]; [CNum 3000; CNum 2]]] in
  let b := [mkUlist [0; 1]%Z [[CNum 3000; CNum 2]; [CNum 1000; CNum 1]]] in
  same_objects a b.
Proof. repeat constructor. Qed.

Example C15_convert_rows_example :
  let f := mkFrame [0; 1; 99]%Z [(4%Z, [CNum 1000; CNum 2; CStr 7]); (5%Z, [CNum 2000; CNum 3; CStr 8]); (9%Z, [CNum 500; CNum 0; CStr 9])] in
  let g := mkFrame [0; 1; 99]%Z [(0%Z, [CNum 500; CNum 0; CStr 9]); (1%Z, [CNum 2000; CNum 3; CStr 8]); (2%Z, [CNum 1000; CNum 2; CStr 7])] in
  let mp := [(0, FromCol 0); (1, FromCol 1); (50, FromVals (map (fun r => nth 2 r CNaN) (abs_rows f)))]%Z in
  let mp' := [(0, FromCol 0); (1, FromCol 1); (50, FromVals (map (fun r => nth 2 r CNaN) (abs_rows g)))]%Z in
  Permutation (abs_rows f) (abs_rows g) /\ mapping_rel f g mp mp'
  /\ cast f [0; 1; 50]%Z [CNum 0; CNum 0; CStr 0] mp
     = Some (mkFrame [0; 1; 50]%Z [(0%Z, [CNum 1000; CNum 2; CStr 7]); (1%Z, [CNum 2000; CNum 3; CStr 8]); (2%Z, [CNum 500; CNum 0; CStr 9])]).
Proof.
  split; [|split; [|vm_compute; reflexivity]].
  - cbn. apply (Permutation_rev [_; _; _]).
  - repeat constructor.
Qed.

(* ====================================================================== 2. timing engine (reuses C10's proof) *)
From RV Require Import Timing.Snapper Timing.Snap Timing.TimingMap Timing.Domain2.

(* tempo changes in any row order, pairwise distinct offsets: the same timing map for positions -> ms, ms -> positions and
   cumulative beats, for every query list *)
Theorem C15_timing_perm : forall tbl bcos bcos', Permutation bcos bcos' -> distinct_offsb bcos = true ->
  (forall qs, tm_offsets tbl bcos' qs = tm_offsets tbl bcos qs)
  /\ (forall os, tm_snaps tbl bcos' os = tm_snaps tbl bcos os)
  /\ (forall os, tm_beats tbl bcos' os = tm_beats tbl bcos os).
Proof. exact timing_perm. Qed.
(* the side condition is needed (two tempo changes at one time: the stable sort keeps row order) *)
Theorem C15_timing_perm_needs_distinct_refuted :
  exists tbl bcos bcos' qs, Permutation bcos bcos' /\ tm_offsets tbl bcos' qs <> tm_offsets tbl bcos qs.
Proof. exact timing_perm_needs_distinct_refuted. Qed.

Example C15_timing_example :
  let a := mkBco 240 3 3000 in let b := mkBco 120 3 (-1000) in let c := mkBco 60 3 500 in
  distinct_offsb [b; c; a] = true /\ Permutation [b; c; a] [a; b; c].
Proof. split; [vm_compute; reflexivity|]. apply Permutation_sym. apply (Permutation_cons_app [_; _]). apply Permutation_refl. Qed.

(* ====================================================================== 3. full_ln *)
From RV Require Import Algo.FullLN Algo.FullLNSpec.
Open Scope Z_scope.

(* full_ln of a chart whose lists have their rows permuted (no two notes of m.hits / m.holds at the same time in one column):
   it succeeds on both or neither; the generated hits and holds are EQUAL row for row, every other list is carried over *)
Theorem C15_full_ln_perm : forall m m' gap thr r,
  ln_chart_perm m m' -> distinct_keysb (stacked m) = true -> full_ln m gap thr = Some r ->
  exists r', full_ln m' gap thr = Some r' /\ ln_chart_perm r r'
             /\ slot_notes SHits r' = slot_notes SHits r /\ slot_notes SHolds r' = slot_notes SHolds r.
Proof. exact full_ln_perm. Qed.
(* needed: two notes at one time in one column - the later-listed one is processed last and keeps its length *)
Theorem C15_full_ln_perm_needs_distinct_refuted :
  exists m m' gap thr r r', ln_chart_perm m m' /\ wf_chart m = true /\ full_ln m gap thr = Some r /\ full_ln m' gap thr = Some r'
    /\ ~ Permutation (chart_notes r) (chart_notes r').
Proof. exact full_ln_perm_needs_distinct_refuted. Qed.

Example C15_full_ln_example :
  let m  := [ mkTL SOther CNone [] [7; 8]; mkTL SHits CHit [mkNote 0 0 None; mkNote 0 1000 None; mkNote 2 300 None; mkNote 1 400 None] [];
              mkTL SHolds CHold [mkNote 0 400 (Some 50); mkNote 1 0 (Some 10); mkNote 1 700 (Some 2000)] [] ] in
  let m' := [ mkTL SOther CNone [] [8; 7]; mkTL SHits CHit [mkNote 2 300 None; mkNote 0 1000 None; mkNote 1 400 None; mkNote 0 0 None] [];
              mkTL SHolds CHold [mkNote 1 700 (Some 2000); mkNote 0 400 (Some 50); mkNote 1 0 (Some 10)] [] ] in
  distinct_keysb (stacked m) = true /\ wf_chart m = true
  /\ (exists r, full_ln m 150 100 = Some r /\ full_ln m' 150 100 = Some (map (fun l => match tl_slot l with SOther => mkTL SOther CNone [] [8; 7] | _ => l end) r)).
Proof. split; [vm_compute; reflexivity|]. split; [vm_compute; reflexivity|]. eexists. split; vm_compute; reflexivity. Qed.

(* ====================================================================== 4. dominant bpm, scroll speed, SV normalisation *)
From RV Require Import Algo.DominantBpm Algo.ScrollSpeed Algo.AnalysisSpec Algo.PermDomain Proofs.PermAnalysisProofs.
Open Scope Q_scope.

(* the same VALUE whatever the row order of the tempo, SV and note lists (no two tempo points at one time) *)
Theorem C15_dominant_bpm_perm : forall c c', an_chart_perm c c' -> distinct_times (tempo_times c) = true ->
  dominant_bpm c' = dominant_bpm c.
Proof. exact dominant_bpm_perm. Qed.
Theorem C15_dominant_bpm_perm_needs_distinct_refuted :
  exists c c', an_chart_perm c c' /\ dominant_bpm c' <> dominant_bpm c.
Proof. exact dominant_bpm_perm_needs_distinct_refuted. Qed.

(* SV normalisation: the same SVs (one per tempo row, in the order of the tempo rows) *)
Theorem C15_sv_normalize_perm : forall c c' ov, an_chart_perm c c' -> distinct_times (tempo_times c) = true ->
  opt_perm (sv_normalize c ov) (sv_normalize c' ov).
Proof. exact sv_normalize_perm. Qed.

(* scroll speed: the same breakpoints with the same speeds, in the same order (no two tempo points at one time, coincident
   SVs carry the same multiplier, offsets given as reduced fractions) *)
Theorem C15_scroll_speed_perm : forall c c' ov, an_chart_perm c c' ->
  distinct_times (tempo_times c) = true -> canon_offsets c = true -> svs_agreeb c = true ->
  scroll_speed c' ov = scroll_speed c ov.
Proof. exact scroll_speed_perm. Qed.
(* needed: two SVs at one time with different multipliers - the last ROW wins *)
Theorem C15_scroll_speed_perm_needs_agree_refuted :
  exists c c' ov, an_chart_perm c c' /\ distinct_times (tempo_times c) = true /\ canon_offsets c = true
                  /\ scroll_speed c' ov <> scroll_speed c ov.
Proof. exact scroll_speed_perm_needs_agree_refuted. Qed.

(* the same three statements on the boolean domain that the correspondence runner evaluates on every generated case
   (Algo/PermDomain.v: dom_dominant = rows permuted + distinct tempo times; dom_scroll = that + reduced offsets + coincident SVs agree) *)
Theorem C15_dominant_bpm_perm_b : forall c c', dom_dominant c c' = true -> dominant_bpm c' = dominant_bpm c.
Proof. exact dominant_bpm_perm_b. Qed.
Theorem C15_sv_normalize_perm_b : forall c c' ov, dom_dominant c c' = true -> opt_perm (sv_normalize c ov) (sv_normalize c' ov).
Proof. exact sv_normalize_perm_b. Qed.
Theorem C15_scroll_speed_perm_b : forall c c' ov, dom_scroll c c' = true -> scroll_speed c' ov = scroll_speed c ov.
Proof. exact scroll_speed_perm_b. Qed.

Example C15_analysis_example :
  let c  := mkChart [(1000, 240); (0, 120); (2500, 60); (2000, 120); (9000, 480)]
                    (Some [(-500, 2); (1000, 1 # 2); (1500, 3); (1500, 3); (9500, 4)]) [0; 2750; 4000] in
  let c' := mkChart [(9000, 480); (2000, 120); (0, 120); (2500, 60); (1000, 240)]
                    (Some [(1500, 3); (9500, 4); (1000, 1 # 2); (-500, 2); (1500, 3)]) [4000; 0; 2750] in
  dom_scroll c c' && wf_chart c = true
  /\ dominant_bpm c' = dominant_bpm c /\ scroll_speed c' None = scroll_speed c None /\ dominant_bpm c = Some 60.
Proof. vm_compute. repeat split; reflexivity. Qed.

(* ====================================================================== 5. hitsound copy *)
From RV Require Import Algo.HitsoundCopy Algo.HitsoundCopySpec Proofs.PermHitsoundProofs.
Open Scope Z_scope.

(* source and target note lists in any row order AND any tie order of the two unstable sorts: the same notes (multiset of
   time, column, length, kind) and per time the same multiset of sounds, a sound being carried by a note or played as an event
   sample (source volumes >= 0; the target's holds have a length) *)
Theorem C15_hitsound_copy_perm : forall psrc ptgt psrc' ptgt' src tgt src' tgt' out out',
  hmap_perm src src' -> hmap_perm tgt tgt' ->
  src_vol_ok src = true -> forallb (fun r => is_some (hn_len r)) (hm_holds tgt) = true ->
  hitsound_copy psrc ptgt src tgt = Some out -> hitsound_copy psrc' ptgt' src' tgt' = Some out' ->
  meq ident_eqb (idents out) (idents out') /\ meq atom_eqb (sounds out) (sounds out').
Proof. exact hitsound_copy_perm. Qed.
(* the stricter reading - the NOTES carry the same sounds, event samples compared separately - is FALSE of the routine when
   named samples overflow the target's notes: which file lands on the note follows the source's row order *)
Theorem C15_hitsound_copy_strict_refuted :
  exists psrc ptgt src src' tgt out out',
    hmap_perm src src' /\ src_vol_ok src = true /\ wf src tgt = true /\ no_semicolon src = true
    /\ hitsound_copy psrc ptgt src tgt = Some out /\ hitsound_copy psrc ptgt src' tgt = Some out'
    /\ ~ meq atom_eqb (note_atoms out) (note_atoms out').
Proof. exact hs_strict_refuted. Qed.
(* the guard on the source volumes is needed (notes get max(volume, 0), event samples the raw volume) *)
Theorem C15_hitsound_copy_negative_volume_refuted :
  exists psrc ptgt src src' tgt out out',
    hmap_perm src src'
    /\ hitsound_copy psrc ptgt src tgt = Some out /\ hitsound_copy psrc ptgt src' tgt = Some out'
    /\ ~ meq atom_eqb (sounds out) (sounds out').
Proof. exact hs_negative_volume_refuted. Qed.

Example C15_hitsound_example :
  let src  := mkM [mkN 8 0 None 2 0 0 0 20 [0]; mkN 8 1 None 4 0 0 0 20 [0]; mkN 8 3 None 2 0 0 0 30 [0]; mkN 24 0 None 0 0 0 0 50 [7]]
                  [mkN 8 4 (Some 16) 12 0 0 0 40 [0]; mkN 8 5 (Some 16) 0 0 0 0 20 [1]] [] in
  let src' := mkM [mkN 24 0 None 0 0 0 0 50 [7]; mkN 8 3 None 2 0 0 0 30 [0]; mkN 8 0 None 2 0 0 0 20 [0]; mkN 8 1 None 4 0 0 0 20 [0]]
                  [mkN 8 5 (Some 16) 0 0 0 0 20 [1]; mkN 8 4 (Some 16) 12 0 0 0 40 [0]] [] in
  let tgt  := mkM [mkN 8 0 None 0 1 0 0 0 [0]; mkN 8 1 None 0 0 0 0 70 [0]; mkN 8 2 None 0 0 0 0 0 [0]; mkN 16 2 None 0 0 0 0 0 [0]]
                  [mkN 8 3 (Some 80) 0 0 0 0 0 [0]; mkN 24 3 (Some 8) 0 0 0 0 0 [0]] [] in
  src_vol_ok src = true /\ forallb (fun r => is_some (hn_len r)) (hm_holds tgt) = true
  /\ (exists out, hitsound_copy [0;1;2;4;5;3]%nat [0;1;2;4;3;5]%nat src tgt = Some out)
  /\ (exists out', hitsound_copy [1;2;3;5;4;0]%nat [0;1;2;4;3;5]%nat src' tgt = Some out').
Proof. split; [vm_compute; reflexivity|]. split; [vm_compute; reflexivity|]. split; eexists; vm_compute; reflexivity. Qed.

(* ====================================================================== 6. writers *)
From RV Require Base.Text Formats.Osu Formats.OsuSpec Formats.Qua Formats.QuaSpec Formats.SMText Formats.SM Proofs.PermWriterProofs.
From RV Require Import Timing.TimingMap Proofs.TimingProofs Proofs.TimingProofs2.
Module OP := PermWriterProofs.OsuPerm.
Module QP := PermWriterProofs.QuaPerm.
Module SP := PermWriterProofs.SMPerm.

(* ---- osu!: EVERY chart.  The file written from the permuted chart exists iff the other does, has the same head (metadata,
   events) and, section by section (sample events, tempo lines, SV lines, note lines), the same multiset of lines *)
Theorem C15_osu_write_perm : forall c c' ut ua d, OP.chart_perm c c' -> Osu.osu_write c ut ua = Some d ->
  exists sm bl sl nl sm' bl' sl' nl',
    d = OP.osu_doc (OP.head_of c ut ua) sm bl sl nl
    /\ Osu.osu_write c' ut ua = Some (OP.osu_doc (OP.head_of c ut ua) sm' bl' sl' nl')
    /\ Permutation sm sm' /\ Permutation bl bl' /\ Permutation sl sl' /\ Permutation nl nl'.
Proof. exact OP.osu_write_perm. Qed.
(* ... and the format's reference denotation (OsuSpec.denote_tp / denote_ho, used by osu_denote) reads those sections line by
   line, so for ANY line-wise rendering of the numeric tokens the permuted sections denote the permuted objects *)
Theorem C15_osu_timing_section_denotes_perm : forall (rn : Osu.wline -> Text.text) bl sl bl' sl' tps,
  Permutation bl bl' -> Permutation sl sl' ->
  Osu.omap OsuSpec.denote_tp (filter Osu.nonempty (map rn (bl ++ sl))) = Some tps ->
  exists tps', Osu.omap OsuSpec.denote_tp (filter Osu.nonempty (map rn (bl' ++ sl'))) = Some tps'
    /\ Permutation (OsuSpec.pick_bpms tps) (OsuSpec.pick_bpms tps') /\ Permutation (OsuSpec.pick_svs tps) (OsuSpec.pick_svs tps').
Proof. exact OP.osu_timing_section_denotes_perm. Qed.
Theorem C15_osu_note_section_denotes_perm : forall (rn : Text.text -> Text.text) keys nl nl' hos,
  Permutation nl nl' ->
  Osu.omap (OsuSpec.denote_ho keys) (filter Osu.nonempty (map rn nl)) = Some hos ->
  exists hos', Osu.omap (OsuSpec.denote_ho keys) (filter Osu.nonempty (map rn nl')) = Some hos'
    /\ Permutation (OsuSpec.pick_hits hos) (OsuSpec.pick_hits hos') /\ Permutation (OsuSpec.pick_holds hos) (OsuSpec.pick_holds hos').
Proof. exact OP.osu_note_section_denotes_perm. Qed.

(* ---- Quaver: EVERY chart and default table.  The document written from the permuted chart exists iff the other does and
   DENOTES (QuaSpec.qua_denote) the same multisets of notes, timing points and scroll velocities and the same metadata *)
Theorem C15_qua_write_perm : forall md c c' d, QP.chart_perm c c' -> Qua.qua_write md c = Some d ->
  exists d', Qua.qua_write md c' = Some d'
    /\ forall e, QuaSpec.qua_denote d = Some e ->
         exists e', QuaSpec.qua_denote d' = Some e'
                    /\ Permutation (QuaSpec.d_notes e) (QuaSpec.d_notes e') /\ Permutation (QuaSpec.d_bpms e) (QuaSpec.d_bpms e')
                    /\ Permutation (QuaSpec.d_svs e) (QuaSpec.d_svs e') /\ QuaSpec.d_meta e = QuaSpec.d_meta e'.
Proof. exact QP.qua_write_perm. Qed.

(* ---- StepMania, note data.  (a) EVERY list of placed events: the measure texts are the same for every order of the events
   in which events with different characters keep their relative order (what permuting rows inside each list gives); no
   "one note per cell" condition *)
Theorem C15_sm_grid_perm : forall cf v ps ps' keys, SP.cperm ps ps' -> SP.body_of_placed cf v ps keys = SP.body_of_placed cf v ps' keys.
Proof. exact SP.sm_body_cperm. Qed.
Theorem C15_sm_body_is_grid : forall cf v c, SM.chart_body cf v c =
  match SM.chart_placed cf c with None => None | Some ps => SP.body_of_placed cf v ps (SM.get_keys cf (SM.c_type c)) end.
Proof. exact SP.chart_body_placed. Qed.
(* the row count of a measure (lcm of the denominators, capped at every step of a left fold) does not depend on the order *)
Theorem C15_sm_den_max_perm : forall cf l l', Permutation l l' -> SM.den_max_of cf l = SM.den_max_of cf l'.
Proof. exact SP.den_max_of_perm. Qed.
(* (b) whole chart: tempo rows and the rows of the seven note lists in any order give the SAME note data text, on the boolean
   domain: pairwise distinct tempo offsets, one metronome M, every event time converts to a normalised position *)
Theorem C15_sm_chart_body_perm : forall cf v (M : Q) c c' bcss, (0 < M)%Q -> SP.sm_chart_perm c c' ->
  distinct_offsb (SM.bcos_of (SM.c_bpms c)) = true ->
  bco_to_bcs (SM.k_tbl cf) (sort_by bco_lt (SM.bcos_of (SM.c_bpms c))) = Some bcss ->
  SP.beat_dom (SM.k_tbl cf) M (rev (combine (sort_by bco_lt (SM.bcos_of (SM.c_bpms c))) bcss))
              (map SP.ev_off (SM.chart_events cf c)) = true ->
  SM.chart_body cf v c' = SM.chart_body cf v c.
Proof. exact SP.sm_chart_body_perm_dom. Qed.
(* on that domain the cumulative beat TimingMap.beats returns is a FUNCTION of the query time (any other queries, any order) *)
Theorem C15_beats_is_function : forall tbl (M : Q), (0 < M)%Q -> forall bcos bcss os,
  bco_to_bcs tbl (sort_by bco_lt bcos) = Some bcss ->
  SP.beat_dom tbl M (rev (combine (sort_by bco_lt bcos) bcss)) os = true ->
  tm_beats tbl bcos os = Some (map (SP.beat_of tbl M (rev (combine (sort_by bco_lt bcos) bcss))) os).
Proof. exact SP.tm_beats_fun. Qed.
(* (c) header: the #BPMS tag lists the same multiset of beat=bpm pairs, every other header line is identical *)
Theorem C15_sm_bpms_tag_perm : forall cf v (M : Q) s s' c0 c0' rest rest' off bcss md, (0 < M)%Q ->
  SM.s_txt s = SM.s_txt s' -> SM.s_offset s = Some off -> SM.s_offset s' = Some off -> SM.s_sstart s = SM.s_sstart s' ->
  SM.s_slen s = SM.s_slen s' -> SM.s_sel s = SM.s_sel s' -> SM.s_maps s = c0 :: rest -> SM.s_maps s' = c0' :: rest' ->
  Permutation (SM.c_bpms c0) (SM.c_bpms c0') ->
  distinct_offsb (SM.bcos_of (SM.c_bpms c0)) = true ->
  bco_to_bcs (SM.k_tbl cf) (sort_by bco_lt (SM.bcos_of (SM.c_bpms c0))) = Some bcss ->
  let full := rev (combine (sort_by bco_lt (SM.bcos_of (SM.c_bpms c0))) bcss) in
  SP.beat_dom (SM.k_tbl cf) M full (map (fun b : Q * Q * Q => fst (fst b)) (SM.c_bpms c0)) = true ->
  SM.write_metadata cf v s = Some md ->
  exists pairs pairs', md = SP.meta_lines v s off pairs /\ SM.write_metadata cf v s' = Some (SP.meta_lines v s off pairs')
                       /\ Permutation pairs pairs'.
Proof. exact SP.sm_bpms_tag_perm. Qed.

(* ---- non-vacuity of the writer theorems *)
Open Scope Z_scope.
Example C15_osu_example :
  let h t c := Osu.mkNote t c 0 0 0 0 0 0 [] in
  let c  := Osu.mkChart Osu.meta_default [] [Osu.mkSample 10 [97%Z] 50; Osu.mkSample 5 [98%Z] 60]
              [Osu.mkBpm 0 120 4 0 0 100 false; Osu.mkBpm 2000 240 4 0 0 100 false] [Osu.mkSv 500 2 0 0 100 false; Osu.mkSv 250 (1#2) 0 0 100 false]
              [h 1000%Q 1; h 0%Q 0; h 1000%Q 2] [Osu.mkNote 500 3 250 0 0 0 0 0 []; Osu.mkNote 0 1 125 0 0 0 0 0 []] in
  let c' := Osu.mkChart Osu.meta_default [] [Osu.mkSample 5 [98%Z] 60; Osu.mkSample 10 [97%Z] 50]
              [Osu.mkBpm 2000 240 4 0 0 100 false; Osu.mkBpm 0 120 4 0 0 100 false] [Osu.mkSv 250 (1#2) 0 0 100 false; Osu.mkSv 500 2 0 0 100 false]
              [h 1000%Q 2; h 1000%Q 1; h 0%Q 0] [Osu.mkNote 0 1 125 0 0 0 0 0 []; Osu.mkNote 500 3 250 0 0 0 0 0 []] in
  OP.chart_perm c c' /\ (exists d, Osu.osu_write c [] [] = Some d) /\ Osu.osu_write c [] [] <> Osu.osu_write c' [] [].
Proof.
  split; [|split].
  - repeat split; try reflexivity; try apply perm_swap. apply (Permutation_cons_app [_] [_]). apply perm_swap.
  - eexists. vm_compute. reflexivity.
  - vm_compute. discriminate.
Qed.

Example C15_qua_example :
  let hits  := Qua.mkFrame [Qua.N_offset; Qua.N_column; Qua.N_keysounds]
                 [[(Qua.N_offset, Qua.YInt 1000); (Qua.N_column, Qua.YInt 1); (Qua.N_keysounds, Qua.YList [])];
                  [(Qua.N_offset, Qua.YInt 0); (Qua.N_column, Qua.YInt 0); (Qua.N_keysounds, Qua.YList [])]] in
  let hits' := Qua.mkFrame [Qua.N_offset; Qua.N_column; Qua.N_keysounds]
                 [[(Qua.N_offset, Qua.YInt 0); (Qua.N_column, Qua.YInt 0); (Qua.N_keysounds, Qua.YList [])];
                  [(Qua.N_offset, Qua.YInt 1000); (Qua.N_column, Qua.YInt 1); (Qua.N_keysounds, Qua.YList [])]] in
  let holds := Qua.mkFrame [Qua.N_offset; Qua.N_column; Qua.N_keysounds; Qua.N_length]
                 [[(Qua.N_offset, Qua.YInt 500); (Qua.N_column, Qua.YInt 2); (Qua.N_keysounds, Qua.YList []); (Qua.N_length, Qua.YInt 250)]] in
  let bpms  := Qua.mkFrame [Qua.N_offset; Qua.N_bpm; Qua.N_metronome]
                 [[(Qua.N_offset, Qua.YInt 2000); (Qua.N_bpm, Qua.YInt 240); (Qua.N_metronome, Qua.YInt 4)];
                  [(Qua.N_offset, Qua.YInt 0); (Qua.N_bpm, Qua.YInt 120); (Qua.N_metronome, Qua.YInt 4)]] in
  let bpms' := Qua.mkFrame [Qua.N_offset; Qua.N_bpm; Qua.N_metronome]
                 [[(Qua.N_offset, Qua.YInt 0); (Qua.N_bpm, Qua.YInt 120); (Qua.N_metronome, Qua.YInt 4)];
                  [(Qua.N_offset, Qua.YInt 2000); (Qua.N_bpm, Qua.YInt 240); (Qua.N_metronome, Qua.YInt 4)]] in
  let svs   := Qua.mkFrame [Qua.N_offset; Qua.N_multiplier] [[(Qua.N_offset, Qua.YInt 250); (Qua.N_multiplier, Qua.YFloat 2)]] in
  let c  := Qua.mkChart hits holds bpms svs (map snd Qua.Live.meta_defaults) in
  let c' := Qua.mkChart hits' holds bpms' svs (map snd Qua.Live.meta_defaults) in
  QP.chart_perm c c' /\ (exists d e, Qua.Live.write c = Some d /\ QuaSpec.qua_denote d = Some e) /\ Qua.Live.write c <> Qua.Live.write c'.
Proof.
  split; [|split].
  - repeat split; try reflexivity; try apply perm_swap; apply Permutation_refl.
  - eexists. eexists. split; [vm_compute; reflexivity|]. vm_compute. reflexivity.
  - vm_compute. discriminate.
Qed.

From Coq Require Import String.
From RV Require Generated.Tables Formats.SMSpec.
Example C15_sm_example :
  let cf := SMSpec.ref_conf Tables.Tables.snapper_table [(SMText.tx "dance-single"%string, Some 4%Z)] in
  let c  := SM.mkChart (SMText.tx "dance-single"%string) [] [] 1 [] [(2000, 240, 4); (0, 120, 4)]%Q
              [(1000%Q, 1%Z); (0%Q, 0%Z); (2250%Q, 3%Z)] [(500%Q, 2%Z, 250%Q); (2000%Q, 0%Z, 500%Q)] [] [(1500%Q, 3%Z); (250%Q, 1%Z)] [] [] [] in
  let c' := SM.mkChart (SMText.tx "dance-single"%string) [] [] 1 [] [(0, 120, 4); (2000, 240, 4)]%Q
              [(2250%Q, 3%Z); (1000%Q, 1%Z); (0%Q, 0%Z)] [(2000%Q, 0%Z, 500%Q); (500%Q, 2%Z, 250%Q)] [] [(250%Q, 1%Z); (1500%Q, 3%Z)] [] [] [] in
  SP.sm_chart_perm c c' /\ distinct_offsb (SM.bcos_of (SM.c_bpms c)) = true
  /\ (exists bcss, bco_to_bcs (SM.k_tbl cf) (sort_by bco_lt (SM.bcos_of (SM.c_bpms c))) = Some bcss
        /\ SP.beat_dom (SM.k_tbl cf) 4 (rev (combine (sort_by bco_lt (SM.bcos_of (SM.c_bpms c))) bcss)) (map SP.ev_off (SM.chart_events cf c)) = true)
  /\ (exists body, SM.chart_body cf SM.current c = Some body).
Proof.
  split; [|split; [|split]].
  - repeat split; try reflexivity; try apply perm_swap; try apply Permutation_refl. apply (Permutation_cons_app [_] [_]). apply perm_swap.
  - vm_compute. reflexivity.
  - eexists. split; [vm_compute; reflexivity|]. vm_compute. reflexivity.
  - eexists. vm_compute. reflexivity.
Qed.
