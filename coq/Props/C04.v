(* C04 — BMS reading.  Property theorems only: each closed by [exact] from Proofs/BMSProofs.v / BMSDenoteProofs.v /
   BMSParseProofs.v, table obligations and concrete witnesses by vm_compute.
   Whole file, TEXT-LEVEL domain: C04_bms_read_text -- for every layout satisfying the layout obligations, every MAX_KEYS
   and every text with wf_bms_lines (the property's quantifier, the predicate the runner evaluates as wf) and read_guards
   (tempo objects pairwise on the 1/96 grid, a tempo object at the origin listed first), lines in any order and overlaid:
   whenever BMSMap.read returns a chart it is the chart bms_denote assigns to the text, rows up to order (chart_denotes).
   Its parts: C04_text_in_domain (the parsing refinement: the reader's line loop collects exactly the format's header
   table and object list, so the text lies in read_theorem_domain), C04_lanes_order (layout order = columns ascending, as
   multisets), C04_bms_read_denotes (per lane, in time order).  Without the grid guard the statement is false:
   C04_read_denotes_refuted_tempo_grid (known finding tempo-offgrid-resnap).
   C04_bms_read_header: header fields retained, whole file, proved outright. *)
From Coq Require Import ZArith QArith Qround Qabs List Bool.
From RV Require Import Base.PyNum Timing.Snapper Timing.Snap Timing.TimingMap Timing.Reseat Timing.Integrate
  Formats.BMSText Formats.BMS Formats.BMSSpec Timing.Domain Generated.Tables Proofs.SnapperProofs Proofs.BMSProofs Proofs.BMSDenoteProofs
  Proofs.BMSParseProofs Proofs.BMSReadReturnsProofs Proofs.BMSReadTempoProofs Formats.BMSGuards.
From Coq Require Import Sorting.Permutation.
Import ListNotations.
Open Scope Z_scope.

Definition tbl := Tables.snapper_table.
Definition lay_BMS : layout := Tables.bms.layout_BMS.

(* ---- table obligations, re-checked against the layouts regenerated from the live BMSChannel on every run ---- *)
Theorem C04_layouts_ok : forallb (layout_ok Tables.bms.max_keys) Tables.bms.layouts = true.
Proof. vm_compute. reflexivity. Qed.
Theorem C04_metronome_is_4 : Tables.bms.default_metronome = 4.
Proof. vm_compute. reflexivity. Qed.

(* reader and writer look a lane up in opposite directions; on an injective layout they are inverse *)
Theorem C04_lane_lookup_inverse : forall lay v ch,
  layout_ok Tables.bms.max_keys lay = true -> layout_rev lay v = Some ch -> layout_get lay ch = Some v.
Proof. exact (layout_rev_get Tables.bms.max_keys). Qed.

(* ---- id codecs: the two-character ids of #WAVxx / #BPMxx / channel 03 are read back as written ---- *)
Theorem C04_b36_roundtrip : forall n, 0 <= n < 1296 -> b36_parse2 (b36_pair n) = Some n.
Proof. exact b36_roundtrip. Qed.
Theorem C04_hex_roundtrip : forall n, 0 <= n < 256 -> hex_parse2 (hex_pair n) = Some n.
Proof. exact hex_roundtrip. Qed.
Theorem C04_measure_field : forall m, 0 <= m < 1000 -> parse_nat (show3 m) = Some m /\ length (show3 m) = 3%nat.
Proof. exact show3_parse. Qed.

(* ---- position arithmetic: pair i of k sits at beat 4i/k, which is the oracle's position (fraction i/k of a 4-beat measure) ---- *)
Theorem C04_pair_position : forall i k : Z,
  Qred ((inject_Z i / inject_Z k) * 4)%Q = Qred (Qred (inject_Z i / inject_Z k) * BEATS_PER_MEASURE)%Q
  /\ (Qred ((inject_Z i / inject_Z k) * 4) == 4 * inject_Z i / inject_Z k)%Q.
Proof. exact (fun i k => conj (read_pos_is_spec_pos i k) (read_pos_value i k)). Qed.

(* ---- header: title / artist / level / LNOBJ / initial tempo / tables / other headers are retained ---- *)
Theorem C04_read_header : forall (d : header) (m : bms_meta),
  read_file_header d = Some m ->
  m_title m = get_or d K_TITLE /\ m_artist m = get_or d K_ARTIST /\ m_version m = get_or d K_PLAYLEVEL
  /\ m_lnobj m = get_or d K_LNOBJ
  /\ (exists v, dict_get K_BPM (filter (fun kv => negb (is_exbpm_key (fst kv) || is_wav_key (fst kv))) d) = Some v
                /\ parse_decimal v = Some (m_bpm m))
  /\ m_samples m = read_samples d
  /\ read_exbpms d [] = Some (m_exbpms m)
  /\ (forall k v, In (k, v) d -> is_exbpm_key k = false -> is_wav_key k = false -> text_eqb K_BPM k = false -> In (k, v) (m_misc m)).
Proof. exact read_header_retains. Qed.
Theorem C04_header_line_classified : forall (hdr : header) (notes : list note_entry) (k v : text),
  ~ In 32 k -> classify_line (hdr, notes) ([35] ++ k ++ [32] ++ v) = Some (dict_set k v hdr, notes).
Proof. exact classify_header_line. Qed.

(* bms_read_header (whole file): whenever the read succeeds on a text containing the header line  #K v  (anywhere; K not
   set again by a later line), the chart retains it: as title / artist / level / LNOBJ, and in misc for every other key
   that is not #BPM, #BPMxx or #WAV.. *)
Theorem C04_bms_read_header : forall (tb : list Q) (cfg : layout) (mk : Z) (l1 l2 : list text) (k v : text) (c : bms_chart),
  ~ In 32 k ->
  strip ([35] ++ k ++ [32] ++ v) = [35] ++ k ++ [32] ++ v ->
  (forall l, In l l2 -> header_key_of (strip l) <> Some k) ->
  bms_read tb cfg mk (l1 ++ ([35] ++ k ++ [32] ++ v) :: l2) = Some c ->
  (k = K_TITLE -> m_title (c_meta c) = v) /\ (k = K_ARTIST -> m_artist (c_meta c) = v)
  /\ (k = K_PLAYLEVEL -> m_version (c_meta c) = v) /\ (k = K_LNOBJ -> m_lnobj (c_meta c) = v)
  /\ (is_exbpm_key k = false -> is_wav_key k = false -> text_eqb K_BPM k = false -> In (k, v) (m_misc (c_meta c))).
Proof. exact bms_read_header. Qed.

(* ---- bms_read_denotes.  For every layout, every MAX_KEYS and every text in read_theorem_domain, lines in ANY order and
   possibly several lines per measure and channel: whenever BMSMap.read returns a chart, its hits and holds are, lane
   by lane (columns ascending, each lane in time order), exactly the objects the format assigns -- each visible object a
   hit, or, when closed by the LNOBJ marker, a hold whose head is the preceding object of that lane IN TIME -- in the
   lane's column, at the time obtained by integrating the tempo script of #BPM and channels 03/08, carrying WAV[id].
   (Uses the C10 theorem offsets_on_grid_b; the snapper table obligation is C10's, re-checked here.) ---- *)
Theorem C04_table_ok : table_ok (1 # 96) tbl = true.
Proof. vm_compute. reflexivity. Qed.
Theorem C04_bms_read_denotes : forall (cfg : layout) (mk : Z) (lines : list text) (c : bms_chart),
  read_theorem_domain tbl cfg mk lines = true ->
  bms_read tbl cfg mk lines = Some c ->
  let sobjs := flat_map objs_of_line lines in
  let meta := c_meta c in
  exists tempos Hs Ls,
    tempo_objs (table_of S_BPM (headers_of lines)) sobjs = Some tempos
    /\ lanes_denote (m_lnobj meta) cfg sobjs (map Z.of_nat (seq 0 (Z.to_nat mk))) = Some (Hs, Ls)
    /\ let t (o : sobj) := time_of 0 (script_of (m_bpm meta) tempos) (snap_of o) in
       Forall2 (fun co h => h_col h = fst co /\ (h_off h == t (snd co))%Q
                            /\ h_sample h = smp_of (m_samples meta) (o_id (snd co))) Hs (c_hits c)
       /\ Forall2 (fun cl l => ho_col l = fst cl /\ (ho_off l == t (fst (snd cl)))%Q
                               /\ (ho_len l == t (snd (snd cl)) - t (fst (snd cl)))%Q
                               /\ ho_sample l = smp_of (m_samples meta) (o_id (fst (snd cl)))) Ls (c_holds c).
Proof. exact (bms_read_denotes tbl C04_table_ok). Qed.
(* its ingredients, each for all inputs: the reader's stack pairing = the reference pairing on a lane in time order;
   under the origin guard the reader's tempo list (measure-0 override + stable sort) is the reference script *)
Theorem C04_ln_pairing_refines : forall lnobj samples lay sobjs cols H L,
  lanes_denote lnobj lay sobjs (map Z.of_nat cols) = Some (H, L) ->
  pair_lanes lnobj samples (lane_lobjs lay sobjs) cols = Some (map (hitp_of' samples) H, map (holdp_of' samples) L).
Proof. exact pair_lanes_refines. Qed.
Theorem C04_tempo_script : forall (bpm0 : Q) (tempos : list bcs),
  forallb nonneg_snap tempos = true -> origin_tempo_first tempos = true ->
  override_sort (origin_bcs bpm0 :: tempos) = script_of bpm0 tempos.
Proof. exact reader_script_is_script. Qed.

(* ---- the text-level theorems (Proofs/BMSParseProofs.v) ----
   C04_text_in_domain: the parsing refinement.  On every text of the format's domain the reader's line loop (classifier,
   header dict, _read_file_header, the pair loop of _read_notes) collects exactly the header table and the object list the
   format assigns to the text, the lane enumeration by columns agrees with the layout's, and the tempo script lies in C10's
   domain: wf_bms_lines /\ read_guards (both evaluated on the TEXT alone) imply read_theorem_domain. *)
Theorem C04_text_in_domain : forall (lay : layout) (mk : Z) (lines : list text),
  layout_ok mk lay = true -> wf_bms_lines lay lines = true -> read_guards tbl lines = true ->
  read_theorem_domain tbl lay mk lines = true.
Proof. exact (bms_wf_in_domain tbl). Qed.
(* the lanes of a layout in layout order and the columns 0..MAX_KEYS-1 ascending hold the same hits and holds *)
Theorem C04_lanes_order : forall lnobj lay mk objs H0 L0, layout_facts mk lay ->
  lanes_denote lnobj lay objs (lanes lay) = Some (H0, L0) ->
  exists H L, lanes_denote lnobj lay objs (map Z.of_nat (seq 0 (Z.to_nat mk))) = Some (H, L)
              /\ Permutation H0 H /\ Permutation L0 L.
Proof. exact lanes_layout_vs_columns. Qed.
(* C04_bms_read_text: bms_read text = bms_denote text, up to row order, on the text-level domain.  chart_denotes
   (Formats/BMSSpec.v): the hits and the holds are, as multisets, the denoted ones (column and sample exactly, time and
   length by value); title / artist / level / LNOBJ / extended-tempo table / WAV table are the header's; every other
   header except #BPM, #BPMxx, #WAVxx is in misc. *)
Theorem C04_bms_read_text : forall (lay : layout) (mk : Z) (lines : list text) (c : bms_chart),
  layout_ok mk lay = true -> wf_bms_lines lay lines = true -> read_guards tbl lines = true ->
  bms_read tbl lay mk lines = Some c ->
  exists d, bms_denote lay lines = Some d /\ chart_denotes c d.
Proof. exact (bms_read_wf_denotes tbl C04_table_ok). Qed.
(* the same under the clauses of wf_bms_lines the proof uses (text_dom: no 192-subdivision cap, no ASCII / non-empty-value
   clauses) -- the form composed with the writer in C05 *)
Theorem C04_bms_read_text_dom : forall (lay : layout) (mk : Z) (lines : list text) (c : bms_chart),
  layout_ok mk lay = true -> text_dom lay lines -> read_guards tbl lines = true ->
  bms_read tbl lay mk lines = Some c ->
  exists d, bms_denote lay lines = Some d /\ chart_denotes c d.
Proof. exact (bms_read_text_denotes tbl C04_table_ok). Qed.
Theorem C04_wf_text_dom : forall lay lines, wf_bms_lines lay lines = true -> text_dom lay lines.
Proof. exact wf_text_dom. Qed.

(* ---- when the read returns, and the initial tempo (Proofs/BMSReadReturnsProofs.v).
   C04_bms_read_returns: on the text-level domain every step of the read succeeds except possibly TimingMap.reseat() (C11):
   with tm = from_bpm_changes_snap(0, script of the text), the read returns exactly when reseat returns, and the chart's tempo
   list is reseat's result.
   C04_bms_read_initial_tempo: under reseat_textb (decidable on the text: the script, as reseat sees it, lies in C11's domain
   wf_unseated and inside C11's guard no_extend, and no tempo object lies strictly inside measure 0) the read RETURNS and the
   chart's tempo list starts at 0 ms with the initial tempo the text denotes (#BPM, or the tempo object at measure 0
   position 0). ---- *)
Theorem C04_bms_read_returns : forall (lay : layout) (mk : Z) (lines : list text),
  layout_ok mk lay = true -> wf_bms_lines lay lines = true -> read_guards tbl lines = true ->
  exists bv bpm0 tempos tm,
    hlookup S_BPM (headers_of lines) = Some bv /\ parse_decimal bv = Some bpm0
    /\ tempo_objs (table_of S_BPM (headers_of lines)) (flat_map objs_of_line lines) = Some tempos
    /\ from_bcs 0 (script_of bpm0 tempos) = Some tm
    /\ (forall bp, tm_reseat tbl tm = Some bp -> exists c, bms_read tbl lay mk lines = Some c /\ c_bpms c = bp)
    /\ (tm_reseat tbl tm = None -> bms_read tbl lay mk lines = None).
Proof. exact (bms_read_wf_returns tbl C04_table_ok). Qed.
Theorem C04_bms_read_initial_tempo : forall (lay : layout) (mk : Z) (lines : list text),
  layout_ok mk lay = true -> wf_bms_lines lay lines = true -> read_guards tbl lines = true -> reseat_textb tbl lines = true ->
  exists c d b bs, bms_read tbl lay mk lines = Some c /\ bms_denote lay lines = Some d
    /\ c_bpms c = b :: bs /\ (bo_off b == 0)%Q /\ (bo_bpm b == d_bpm0 d)%Q.
Proof. exact (bms_read_wf_initial_tempo tbl C04_table_ok). Qed.

(* ---- the whole-file statement is refuted without the grid guard: a tempo object whose distance to the previous one is off the 1/96 grid (subdivision 99) moves later notes ---- *)
Definition w_tempo : list text := [(tx[L[35;66;80;77;32;49;50;48]])%Z; (tx[L[35;48;48;48;48;51;58;48;48;55;56];R 48 194])%Z; (tx[L[35;48;48;49;49;49;58;48;49]])%Z].
Theorem C04_read_denotes_refuted_tempo_grid :
  exists lines c, wf_bms_lines lay_BMS lines = true /\ read_theorem_domain tbl lay_BMS Tables.bms.max_keys lines = false
                  /\ bms_read tbl lay_BMS Tables.bms.max_keys lines = Some c
                  /\ c04_specb 0 lay_BMS lines c = false.
Proof.
  exists w_tempo. eexists. split; [vm_compute; reflexivity|]. split; [vm_compute; reflexivity|].
  split; [vm_compute; reflexivity|]. vm_compute. reflexivity.
Qed.

(* ---- lines out of time order (the former LN defect, repaired in the code by pairing each lane in time order): the
   tail of measure 1 closes the head of measure 0, the object of measure 2 stays a hit ---- *)
Definition w_order : list text := [(tx[L[35;66;80;77;32;49;50;48]])%Z; (tx[L[35;76;78;79;66;74;32;90;90]])%Z; (tx[L[35;48;48;50;49;49;58;48;49]])%Z; (tx[L[35;48;48;49;49;49;58;90;90]])%Z; (tx[L[35;48;48;48;49;49;58;48;49]])%Z].
Example C04_out_of_order_lines_ok :
  wf_bms_lines lay_BMS w_order && read_guards tbl w_order && read_theorem_domain tbl lay_BMS Tables.bms.max_keys w_order
  && match bms_read tbl lay_BMS Tables.bms.max_keys w_order with
     | Some c => c04_specb 0 lay_BMS w_order c
                 && match c_holds c with [h] => Qeq_bool (ho_off h) 0 && Qeq_bool (ho_len h) 2000 | _ => false end
     | None => false
     end = true.
Proof. vm_compute. reflexivity. Qed.

(* ---- non-vacuity: a text inside the domain and both guards (header fields, WAV table, overlay lines, 03 and 08 tempo
   changes inside a measure, an LN) is read to exactly the chart it denotes ---- *)
Definition w_good : list text := [(tx[L[35;84;73;84;76;69;32;120;32;121]])%Z; (tx[L[35;65;82;84;73;83;84;32;122]])%Z; (tx[L[35;80;76;65;89;76;69;86;69;76;32;55]])%Z; (tx[L[35;71;69;78;82;69;32;103]])%Z; (tx[L[35;66;80;77;32;49;50;48]])%Z; (tx[L[35;66;80;77;48;49;32;49;51;51;46;53]])%Z; (tx[L[35;76;78;79;66;74;32;90;90]])%Z; (tx[L[35;87;65;86;48;49;32;97;46;119;97;118]])%Z; (tx[L[35;48;48;48;49;49;58;48;49]])%Z; (tx[L[35;48;48;48;49;49;58;48;48;48;48;48;49]])%Z; (tx[L[35;48;48;49;48;51;58;48;48;55;56]])%Z; (tx[L[35;48;48;49;49;49;58;48;48;90;90]])%Z; (tx[L[35;48;48;49;49;50;58;48;50]])%Z; (tx[L[35;48;48;50;48;56;58;48;48;48;49]])%Z; (tx[L[35;48;48;51;49;49;58;48;49]])%Z].
Example C04_nonvacuous :
  wf_bms_lines lay_BMS w_good && read_guards tbl w_good && read_theorem_domain tbl lay_BMS Tables.bms.max_keys w_good
  && match bms_read tbl lay_BMS Tables.bms.max_keys w_good with
     | Some c => c04_specb 0 lay_BMS w_good c && (length (c_hits c) =? 3)%nat && (length (c_holds c) =? 1)%nat
     | None => false
     end = true.
Proof. vm_compute. reflexivity. Qed.

(* ---- non-vacuity of the TEXT-LEVEL domain on a non-BME layout (PMS): lines shuffled out of time order, two overlaid
   lines for measure 0 channel 11, an LNOBJ pair across measures given tail first, a channel-03 and a channel-08 tempo
   object inside / on measures: the text satisfies wf_bms_lines and read_guards, the read returns and the oracle accepts ---- *)
Definition lay_PMS : layout := Tables.bms.layout_PMS.
Definition w_mixed : list text := [(tx[L[35;48;48;50;49;49;58;48;49]])%Z; (tx[L[35;87;65;86;48;49;32;97;46;119;97;118]])%Z; (tx[L[35;48;48;49;49;51;58;48;48;90;90]])%Z; (tx[L[35;48;48;50;48;56;58;48;49;48;48]])%Z; (tx[L[35;84;73;84;76;69;32;120;32;121]])%Z; (tx[L[35;66;80;77;48;49;32;49;51;51;46;53]])%Z; (tx[L[35;48;48;48;49;49;58;48;48;48;48;48;49]])%Z; (tx[L[35;76;78;79;66;74;32;90;90]])%Z; (tx[L[35;48;48;49;48;51;58;48;48;55;56]])%Z; (tx[L[35;66;80;77;32;49;50;48]])%Z; (tx[L[35;48;48;48;49;51;58;48;49]])%Z; (tx[L[35;48;48;48;49;49;58;48;49]])%Z; (tx[L[35;80;76;65;89;76;69;86;69;76;32;55]])%Z; (tx[L[35;48;48;49;50;50;58;48;48;48;50]])%Z].
Example C04_text_domain_nonvacuous :
  layout_ok Tables.bms.max_keys lay_PMS && wf_bms_lines lay_PMS w_mixed && read_guards tbl w_mixed && reseat_textb tbl w_mixed
  && reseat_textb tbl w_good && reseat_textb tbl w_order
  && match bms_read tbl lay_PMS Tables.bms.max_keys w_mixed with
     | Some c => c04_specb 0 lay_PMS w_mixed c && (length (c_hits c) =? 4)%nat
                 && match c_holds c with [h] => (ho_col h =? 2) && Qeq_bool (ho_off h) 0 && Qeq_bool (ho_len h) 3000 | _ => false end
     | None => false
     end = true.
Proof. vm_compute. reflexivity. Qed.

(* ---- the tempo list when every tempo object sits on a measure line (Proofs/BMSReadTempoProofs.v).
   C04_bms_read_tempo_list_on_lines: on the text-level domain, if every channel-03 / 08 object of the text sits at position 0
   of its measure (bms_tempo_on_lines, decidable on the text; no reseating is needed, no tie can arise: read_guards makes the
   script strictly increasing), BMSMap.read RETURNS (no assumption that it does), the chart is the one the text denotes, and its
   tempo list IS the denoted tempo script: same count, same order, each point at the integrated time of its change (by value),
   with its tempo exactly, metronome 4. ---- *)
Theorem C04_bms_read_tempo_list_on_lines : forall (lay : layout) (mk : Z) (lines : list text),
  layout_ok mk lay = true -> wf_bms_lines lay lines = true -> read_guards tbl lines = true -> bms_tempo_on_lines lines = true ->
  exists c d, bms_read tbl lay mk lines = Some c /\ bms_denote lay lines = Some d /\ chart_denotes c d
    /\ Forall2 (fun b tb => (bo_off b == fst tb)%Q /\ bo_bpm b = snd tb /\ bo_met b = 4%Q) (c_bpms c) (d_tempo d).
Proof. exact (bms_read_wf_tempo_list_on_lines tbl C04_table_ok). Qed.
Theorem C04_bms_read_tempo_list_on_lines_dom : forall (lay : layout) (mk : Z) (lines : list text),
  layout_ok mk lay = true -> text_dom lay lines -> read_guards tbl lines = true -> bms_tempo_on_lines lines = true ->
  exists c d, bms_read tbl lay mk lines = Some c /\ bms_denote lay lines = Some d /\ chart_denotes c d
    /\ Forall2 (fun b tb => (bo_off b == fst tb)%Q /\ bo_bpm b = snd tb /\ bo_met b = 4%Q) (c_bpms c) (d_tempo d).
Proof. exact (bms_read_tempo_list_on_lines tbl C04_table_ok). Qed.
(* non-vacuity: a 03 object at measure 1 and an 08 object at measure 2, both at position 0, lines out of order, an LN pair *)
Definition w_on_lines : list text := [(tx[L[35;66;80;77;32;49;50;48]])%Z; (tx[L[35;66;80;77;48;49;32;49;53;48]])%Z; (tx[L[35;76;78;79;66;74;32;90;90]])%Z; (tx[L[35;48;48;50;48;56;58;48;49]])%Z; (tx[L[35;48;48;49;49;49;58;48;49]])%Z; (tx[L[35;48;48;49;48;51;58;55;56]])%Z; (tx[L[35;48;48;50;49;49;58;48;48;90;90]])%Z; (tx[L[35;48;48;49;49;50;58;48;48;48;50]])%Z; (tx[L[35;84;73;84;76;69;32;120]])%Z].
Example C04_tempo_on_lines_nonvacuous :
  wf_bms_lines lay_PMS w_on_lines && read_guards tbl w_on_lines && bms_tempo_on_lines w_on_lines && negb (bms_tempo_on_lines w_good)
  && match bms_read tbl lay_PMS Tables.bms.max_keys w_on_lines with
     | Some c => match c_bpms c with
                 | [a; b; d] => Qeq_bool (bo_off a) 0 && Qeq_bool (bo_bpm a) 120 && Qeq_bool (bo_off b) 2000 && Qeq_bool (bo_bpm b) 120
                                && Qeq_bool (bo_off d) 4000 && Qeq_bool (bo_bpm d) 150
                 | _ => false
                 end
     | None => false
     end = true.
Proof. vm_compute. reflexivity. Qed.
