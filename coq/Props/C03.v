(* C03 — StepMania writing.  Property theorems only. *)
From Coq Require Import String ZArith QArith Qround Qabs List Bool.
From RV Require Import Base.PyNum Timing.Snapper Timing.Snap Timing.TimingMap Timing.Integrate
  Formats.SMText Formats.SM Formats.SMSpec Generated.Tables.
Import ListNotations.
Open Scope Q_scope.

Definition live_conf : smconf :=
  mkConf Tables.sm.hit_string Tables.sm.hold_string_head Tables.sm.hold_string_tail Tables.sm.roll_string_head
         Tables.sm.roll_string_tail Tables.sm.mine_string Tables.sm.lift_string Tables.sm.fake_string
         Tables.sm.keysound_string Tables.sm.metronome Tables.sm.max_snap Tables.sm.max_keys
         Tables.sm.chart_keys Tables.snapper_table.

Theorem C03_constants_are_reference :
  live_conf = ref_conf Tables.snapper_table Tables.sm.chart_keys.
Proof. vm_compute. reflexivity. Qed.
