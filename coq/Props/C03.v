(* C03 — StepMania writing.  Property theorems only: each is closed by [exact] from Proofs/SMProofs.v, or by
   vm_compute for obligations on the tables regenerated from the live classes. *)
From Coq Require Import String ZArith QArith Qround Qabs List Bool.
From RV Require Import Base.PyNum Timing.Snapper Timing.Snap Timing.TimingMap Timing.Reseat Timing.Integrate
  Formats.SMText Formats.SM Formats.SMSpec Generated.Tables Proofs.SMWitness Proofs.SMProofs Proofs.SMWriteProofs.
Import ListNotations.
Open Scope Q_scope.

(* ---- table obligations ---- *)
Theorem C03_constants_are_reference :
  live_conf = ref_conf Tables.snapper_table Tables.sm.chart_keys.
Proof. vm_compute. reflexivity. Qed.
Theorem C03_cap_positive : (0 < k_max_snap live_conf)%Z.
Proof. vm_compute. reflexivity. Qed.
Theorem C03_metronome_is_4 : k_metronome live_conf = 4%Z.
Proof. vm_compute. reflexivity. Qed.

(* ---- per-measure LCM with the cap: never above the cap; below the cap it is a common multiple of all denominators ---- *)
Theorem C03_den_max_le_cap : forall dens : list Z, (den_max_of live_conf dens <= k_max_snap live_conf)%Z.
Proof. exact (den_max_le_cap live_conf). Qed.

Theorem C03_den_max_below_cap_divides : forall (dens : list Z) (x : Z),
  Forall (fun y => 0 < y)%Z dens -> (den_max_of live_conf dens < k_max_snap live_conf)%Z -> In x dens ->
  (x | den_max_of live_conf dens)%Z.
Proof. exact (den_max_below_cap_divides live_conf C03_cap_positive). Qed.

(* ---- row index: integral, and at the object's position, whenever its denominator divides the row count;
   otherwise (cap) rounded down to the row grid: early by less than one row (1/96 beat for 384 rows) ---- *)
Theorem C03_row_integral : forall num den dm : Z, (0 < den)%Z -> (den | dm)%Z -> (num * dm / den * den = num * dm)%Z.
Proof. exact row_integral. Qed.

Theorem C03_row_position_exact : forall num den dm : Z, (0 < den)%Z -> (0 < dm)%Z -> (den | dm)%Z ->
  inject_Z (num * dm / den) / inject_Z dm == inject_Z num / inject_Z den.
Proof. exact row_position_exact. Qed.

Theorem C03_row_truncation_bound : forall num den dm : Z, (0 < den)%Z -> (0 < dm)%Z -> (0 <= num)%Z ->
  inject_Z (num * dm / den) / inject_Z dm <= inject_Z num / inject_Z den /\
  inject_Z num / inject_Z den < (inject_Z (num * dm / den) + 1) / inject_Z dm.
Proof. exact row_truncation_bound. Qed.

(* the (measure, num/den) the writer derives from a cumulative beat q is q's measure and its position inside it *)
Theorem C03_place_position : forall (q : Q) (col ch : Z),
  let p := place live_conf q col ch in
  (0 < p_den p)%Z /\ (0 <= p_num p < p_den p)%Z /\
  inject_Z (p_num p) / inject_Z (p_den p) == (q - 4 * inject_Z (p_measure p)) / 4 /\
  p_measure p = Qfloor (q / 4).
Proof. exact (fun q col ch => place_position live_conf q col ch C03_metronome_is_4). Qed.

(* ---- the grid of one written measure: den_max rows, keys wide; each placed note's symbol at its (row, column) and '0'
   in every other cell, provided no two notes share a cell (the domain's no-collision condition) ---- *)
Theorem C03_written_measure_cells : forall (dm keys : Z) (g : list placed) (lines' : list (list Z)),
  Forall (placed_ok dm keys) g -> NoDup (map (fun p => (prow dm p, pcol p)) g) ->
  fill_lines (repeat (repeat 48%Z (Z.to_nat keys)) (Z.to_nat dm)) g dm keys = Some lines' ->
  length lines' = Z.to_nat dm /\ rect (Z.to_nat keys) lines' /\
  (forall p, In p g -> cell lines' (prow dm p) (pcol p) = Some (p_char p)) /\
  (forall r c, (r < Z.to_nat dm)%nat -> (c < Z.to_nat keys)%nat ->
               (forall p, In p g -> (r, c) <> (prow dm p, pcol p)) -> cell lines' r c = Some 48%Z).
Proof. exact written_measure_cells. Qed.

(* ---- header: an item "#TAG:value" is read back as (TAG, value) whatever the value contains after the first colon ---- *)
Theorem C03_item_roundtrip : forall tag v : text, ~ In 58%Z tag ->
  parse_item ((35%Z :: tag) ++ 58%Z :: v) = Some (35%Z :: tag, v).
Proof. exact item_roundtrip. Qed.

(* ---- padding of empty measures: the rows are keys wide for every key count (guard "4 keys" gone with d872b70) ---- *)
Theorem C03_pad_rows_width : forall k : Z, (0 <= k)%Z ->
  forall r, In r (split_on 10 (pad_measure live_conf current (Some k))) -> Z.of_nat (length r) = k.
Proof. exact (fun k => pad_rows_width_current live_conf k C03_metronome_is_4). Qed.

(* ---- #SELECTABLE is an item for both values and is read back as written (guard "selectable" gone with 16f3fe3) ---- *)
Theorem C03_selectable_item : forall b : bool,
  parse_item (tx (if b then "#SELECTABLE:YES" else "#SELECTABLE:NO")) = Some (tx "#SELECTABLE", tx (if b then "YES" else "NO")).
Proof. exact selectable_item_current. Qed.

(* ---- the OLD behaviours refute sm_write_wf (witnesses are real inputs with the text the old implementation wrote);
   the current model writes the same inputs as well-formed texts that denote them ---- *)
Theorem C03_sm_write_wf_refuted_OLD_selectable :
  exists s txt, s_sel s = false /\ renders tol9 (sm_write live_conf OLD_selectable_bare_no s) txt = true /\ wf_sm_textb txt = false.
Proof. exact sm_write_wf_refuted_OLD_selectable. Qed.
Theorem C03_sm_write_selectable_current :
  renders tol9 (sm_write live_conf current w_sel_set) w_sel_txt_current = true /\
  match sm_denote w_sel_txt_current with Some d => write_spec (1 # 1000000) true w_sel_set d | None => false end = true.
Proof. exact sm_write_selectable_current. Qed.
Theorem C03_sm_write_wf_refuted_OLD_padding :
  exists s txt, renders tol9 (sm_write live_conf OLD_pad_0000 s) txt = true /\ wf_sm_textb txt = false.
Proof. exact sm_write_wf_refuted_OLD_padding. Qed.
Theorem C03_sm_write_padding_current :
  renders tol9 (sm_write live_conf current w_pad_set) w_pad_txt_current = true /\
  match sm_denote w_pad_txt_current with Some d => write_spec (1 # 1000000) true w_pad_set d | None => false end = true.
Proof. exact sm_write_padding_current. Qed.

(* ---- sm_write_denotes, PARTIAL.  Full statement (not proved for all mapsets):
       forall s toks txt, set_wf s -> sm_write live_conf current s = Some toks -> renders toks txt ->
         exists d, sm_denote txt = Some d /\ write_spec tol (exact_regime s) s d = true.
   Proved: every arithmetic step (LCM/cap, integral rows, truncation bound, place), the content of a written measure cell
   by cell (C03_written_measure_cells), item round trip, #SELECTABLE item, padding width for every key count.
   Missing: the step from the grid of cells to denote_rows over the joined text, and the tm_snaps/tm_beats halves of C10
   (Proofs/TimingProofs2.v, not available yet) giving the per-object beats.  The full statement is evaluated in Coq on every generated mapset of every run
   (Corr/RunC03.v: the implementation's text renders the model's tokens, and write_spec on sm_denote of that text). ---- *)
Theorem C03_sm_write_denotes_partial : forall (dens : list Z) (num den : Z),
  Forall (fun y => 0 < y)%Z dens -> In den dens -> (den_max_of live_conf dens < k_max_snap live_conf)%Z ->
  (0 < den_max_of live_conf dens)%Z ->
  inject_Z (num * den_max_of live_conf dens / den) / inject_Z (den_max_of live_conf dens) == inject_Z num / inject_Z den.
Proof.
  exact (fun dens num den Hp Hin Hlt Hpos =>
           row_position_exact num den (den_max_of live_conf dens)
             (proj1 (Forall_forall _ dens) Hp den Hin) Hpos
             (den_max_below_cap_divides live_conf C03_cap_positive dens den Hp Hlt Hin)).
Qed.

(* non-vacuity: a 6-key mapset with two tempo points (the second mid-measure), every kind of object, a hold across
   the tempo change: the writer's text renders the model's tokens and denotes the mapset *)
Example C03_example_in_domain :
  renders tol9 (sm_write live_conf current w_ok_set) w_ok_txt = true /\
  match sm_denote w_ok_txt with Some d => write_spec (1 # 1000000) false w_ok_set d | None => false end = true.
Proof. exact sm_write_example. Qed.
