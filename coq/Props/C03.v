(* C03 — StepMania writing.  Property theorems only: each is closed by [exact] from Proofs/SMProofs.v, or by
   vm_compute for obligations on the tables regenerated from the live classes. *)
From Coq Require Import String ZArith QArith Qround Qabs List Bool.
From RV Require Import Base.PyNum Timing.Snapper Timing.Snap Timing.TimingMap Timing.Reseat Timing.Integrate
  Formats.SMText Formats.SM Formats.SMSpec Formats.SMWriteDom Generated.Tables Proofs.SMWitness Proofs.SMProofs Proofs.SMWriteProofs
  Proofs.SMWriteWholeChart Proofs.SMWriteWholeFile Proofs.SMWriteWholeEx Formats.SMReadDom Proofs.SMRoundTrip Proofs.SMRoundTripEx Proofs.SMWriteReadDom.
Import ListNotations.
Open Scope Q_scope.

(* ---- table obligations ---- *)
Theorem C03_constants_are_reference :
  live_conf = ref_conf Tables.snapper_table Tables.sm.chart_keys.
Proof. vm_compute. reflexivity. Qed.
Theorem C03_cap_positive : (0 < k_max_snap live_conf)%Z.
Proof. vm_compute. reflexivity. Qed.
Theorem C03_metronome_is_4 : k_metronome live_conf = 4%Z.
Proof. vm_compute. reflexivity. Qed.

(* ---- per-measure LCM with the cap: never above the cap; below the cap it is a common multiple of all denominators ---- *)
Theorem C03_den_max_le_cap : forall dens : list Z, (den_max_of live_conf dens <= k_max_snap live_conf)%Z.
Proof. exact (den_max_le_cap live_conf). Qed.

Theorem C03_den_max_below_cap_divides : forall (dens : list Z) (x : Z),
  Forall (fun y => 0 < y)%Z dens -> (den_max_of live_conf dens < k_max_snap live_conf)%Z -> In x dens ->
  (x | den_max_of live_conf dens)%Z.
Proof. exact (den_max_below_cap_divides live_conf C03_cap_positive). Qed.

(* ---- row index: integral, and at the object's position, whenever its denominator divides the row count;
   otherwise (cap) rounded down to the row grid: early by less than one row (1/96 beat for 384 rows) ---- *)
Theorem C03_row_integral : forall num den dm : Z, (0 < den)%Z -> (den | dm)%Z -> (num * dm / den * den = num * dm)%Z.
Proof. exact row_integral. Qed.

Theorem C03_row_position_exact : forall num den dm : Z, (0 < den)%Z -> (0 < dm)%Z -> (den | dm)%Z ->
  inject_Z (num * dm / den) / inject_Z dm == inject_Z num / inject_Z den.
Proof. exact row_position_exact. Qed.

Theorem C03_row_truncation_bound : forall num den dm : Z, (0 < den)%Z -> (0 < dm)%Z -> (0 <= num)%Z ->
  inject_Z (num * dm / den) / inject_Z dm <= inject_Z num / inject_Z den /\
  inject_Z num / inject_Z den < (inject_Z (num * dm / den) + 1) / inject_Z dm.
Proof. exact row_truncation_bound. Qed.

(* the (measure, num/den) the writer derives from a cumulative beat q is q's measure and its position inside it *)
Theorem C03_place_position : forall (q : Q) (col ch : Z),
  let p := place live_conf q col ch in
  (0 < p_den p)%Z /\ (0 <= p_num p < p_den p)%Z /\
  inject_Z (p_num p) / inject_Z (p_den p) == (q - 4 * inject_Z (p_measure p)) / 4 /\
  p_measure p = Qfloor (q / 4).
Proof. exact (fun q col ch => place_position live_conf q col ch C03_metronome_is_4). Qed.

(* ---- the grid of one written measure: den_max rows, keys wide; each placed note's symbol at its (row, column) and '0'
   in every other cell, provided no two notes share a cell (the domain's no-collision condition) ---- *)
Theorem C03_written_measure_cells : forall (dm keys : Z) (g : list placed) (lines' : list (list Z)),
  Forall (placed_ok dm keys) g -> NoDup (map (fun p => (prow dm p, pcol p)) g) ->
  fill_lines (repeat (repeat 48%Z (Z.to_nat keys)) (Z.to_nat dm)) g dm keys = Some lines' ->
  length lines' = Z.to_nat dm /\ rect (Z.to_nat keys) lines' /\
  (forall p, In p g -> cell lines' (prow dm p) (pcol p) = Some (p_char p)) /\
  (forall r c, (r < Z.to_nat dm)%nat -> (c < Z.to_nat keys)%nat ->
               (forall p, In p g -> (r, c) <> (prow dm p, pcol p)) -> cell lines' r c = Some 48%Z).
Proof. exact written_measure_cells. Qed.

(* ---- header: an item "#TAG:value" is read back as (TAG, value) whatever the value contains after the first colon ---- *)
Theorem C03_item_roundtrip : forall tag v : text, ~ In 58%Z tag ->
  parse_item ((35%Z :: tag) ++ 58%Z :: v) = Some (35%Z :: tag, v).
Proof. exact item_roundtrip. Qed.

(* ---- padding of empty measures: the rows are keys wide for every key count (guard "4 keys" gone with d872b70) ---- *)
Theorem C03_pad_rows_width : forall k : Z, (0 <= k)%Z ->
  forall r, In r (split_on 10 (pad_measure live_conf current (Some k))) -> Z.of_nat (length r) = k.
Proof. exact (fun k => pad_rows_width_current live_conf k C03_metronome_is_4). Qed.

(* ---- #SELECTABLE is an item for both values and is read back as written (guard "selectable" gone with 16f3fe3) ---- *)
Theorem C03_selectable_item : forall b : bool,
  parse_item (tx (if b then "#SELECTABLE:YES" else "#SELECTABLE:NO")) = Some (tx "#SELECTABLE", tx (if b then "YES" else "NO")).
Proof. exact selectable_item_current. Qed.

(* ---- the OLD behaviours refute sm_write_wf (witnesses are real inputs with the text the old implementation wrote);
   the current model writes the same inputs as well-formed texts that denote them ---- *)
Theorem C03_sm_write_wf_refuted_OLD_selectable :
  exists s txt, s_sel s = false /\ renders tol9 (sm_write live_conf OLD_selectable_bare_no s) txt = true /\ wf_sm_textb txt = false.
Proof. exact sm_write_wf_refuted_OLD_selectable. Qed.
Theorem C03_sm_write_selectable_current :
  renders tol9 (sm_write live_conf current w_sel_set) w_sel_txt_current = true /\
  match sm_denote w_sel_txt_current with Some d => write_spec (1 # 1000000) true w_sel_set d | None => false end = true.
Proof. exact sm_write_selectable_current. Qed.
Theorem C03_sm_write_wf_refuted_OLD_padding :
  exists s txt, renders tol9 (sm_write live_conf OLD_pad_0000 s) txt = true /\ wf_sm_textb txt = false.
Proof. exact sm_write_wf_refuted_OLD_padding. Qed.
Theorem C03_sm_write_padding_current :
  renders tol9 (sm_write live_conf current w_pad_set) w_pad_txt_current = true /\
  match sm_denote w_pad_txt_current with Some d => write_spec (1 # 1000000) true w_pad_set d | None => false end = true.
Proof. exact sm_write_padding_current. Qed.

(* ---- the cap is reached only when the true LCM exceeds it: when the TRUE lcm of a measure's denominators is <= 384 the
   capped fold returns it and every denominator divides the row count (the <= version of C03_den_max_below_cap_divides) ---- *)
Theorem C03_den_max_exact : forall (dens : list Z) (x : Z),
  Forall (fun y => 0 < y)%Z dens -> In x dens -> (true_lcm dens <= k_max_snap live_conf)%Z ->
  den_max_of live_conf dens = true_lcm dens /\ (x | den_max_of live_conf dens)%Z.
Proof. exact (den_max_exact live_conf). Qed.

(* ---- table obligation of the timing engine (C10) on the live snapper table ---- *)
Theorem C03_table_ok : table_ok (1 # 96) (k_tbl live_conf) = true.
Proof. exact live_table_ok. Qed.

(* ---- sm_write_denotes, WHOLE FILE, for ALL mapsets of the decidable exact domain c03_domb (Formats/SMWriteDom.v:
   16 tame text fields, >= 1 chart, #OFFSET = first tempo point, the first chart's tempo rows = the millisecond form of an
   on-grid script with metronome 4 and six-decimal, pairwise distinct tempo beats, all charts with literally these rows;
   per chart: supported type, tame type/desc/diff, non-empty radar, columns in range, hold lengths > 0, long notes of a
   column disjoint, every event time (heads and tails too) at or after the first tempo point and on the snap grid of the
   active tempo, no two events with the same column and beat, TRUE lcm of every measure <= 384):
   SMMapSet.write succeeds, and EVERY text that renders the written tokens exactly (each float numeral parses to its value,
   each tempo beat is a six-decimal numeral within 0.0000005) is a well-formed .sm text (sm_denote, the reference semantics,
   independent of reamber's reader) whose header fields read back as the mapset's (16 text tags, OFFSET, SAMPLESTART,
   SAMPLELENGTH, SELECTABLE) and whose charts are, in order, the mapset's charts: same type/description/difficulty/meter/
   radar and, for every kind of object, the denoted notes are a permutation of the chart's list with equal columns and
   times and lengths equal as rationals - nothing invented, nothing dropped, nothing moved. ---- *)
Theorem C03_sm_write_denotes : forall s : smset, c03_domb s = true ->
  exists toks, sm_write live_conf current s = Some toks /\
    forall txt, match_toks 0 toks txt = true ->
      exists d, sm_denote txt = Some d /\ header_roundtrip 0 s d = true /\ Forall2 chart_denotes (d_charts d) (s_maps s).
Proof. exact sm_write_denotes. Qed.

(* ... in the form of the correspondence runner's oracle (Corr/RunC03.v evaluates exactly this predicate on the text the
   implementation wrote): write_spec with tolerance 0 in the exact regime = header round trip + per chart header and, per
   kind, the canonically sorted denoted and in-memory object lists agree position by position ---- *)
Theorem C03_sm_write_spec : forall s : smset, c03_domb s = true ->
  exists toks, sm_write live_conf current s = Some toks /\
    forall txt, match_toks 0 toks txt = true -> exists d, sm_denote txt = Some d /\ write_spec 0 true s d = true.
Proof. exact sm_write_spec. Qed.

(* ---- CAP REGIME (c03_cap_domb: as c03_domb, but instead of "true lcm <= 384 and distinct beats" only "no two objects in
   one written cell", so measures may need more than 384 rows): the file is still written and well-formed, header and
   chart headers read back, and per kind the denoted notes are a permutation of the chart's list with equal columns where
   each object (head and tail of a long note separately) is read at the time cap_time wb of the row it was written in,
   and that row's beat wb satisfies  wb <= beat < wb + 4/384  (rounded DOWN to the row grid, less than one 384th of a
   measure = 1/96 beat early; equal to the beat in every measure that did not hit the cap) ---- *)
Theorem C03_sm_write_cap_bound : forall s : smset, c03_cap_domb s = true ->
  exists toks, sm_write live_conf current s = Some toks /\
    forall txt, match_toks 0 toks txt = true ->
      exists d, sm_denote txt = Some d /\ header_roundtrip 0 s d = true
        /\ exists init l, match s_maps s with c0 :: _ => tempo_script_of live_conf (c_bpms c0) = Some (init, l) | [] => False end
            /\ Forall2 (chart_cap_denotes init l) (d_charts d) (s_maps s).
Proof. exact sm_write_cap_bound. Qed.

(* ---- TEMPO: the tempo list the written text denotes is the mapset's tempo list (d_tempo = beat, bpm, ms of every #BPMS
   pair under the reference semantics): same number of tempo changes, and every tempo row (offset, bpm) of the first chart
   is a tempo change of the text at the row's cumulative beat, with its bpm, at its millisecond offset — for both domains ---- *)
Theorem C03_sm_write_tempo : forall s : smset, c03_domb s = true ->
  exists toks, sm_write live_conf current s = Some toks /\
    forall txt, match_toks 0 toks txt = true ->
      exists d, sm_denote txt = Some d
        /\ exists init l, match s_maps s with c0 :: _ => tempo_script_of live_conf (c_bpms c0) = Some (init, l) /\ tempo_denotes d (c_bpms c0) init l
                                             | [] => False end.
Proof. exact sm_write_tempo. Qed.
Theorem C03_sm_write_tempo_cap : forall s : smset, c03_cap_domb s = true ->
  exists toks, sm_write live_conf current s = Some toks /\
    forall txt, match_toks 0 toks txt = true ->
      exists d, sm_denote txt = Some d
        /\ exists init l, match s_maps s with c0 :: _ => tempo_script_of live_conf (c_bpms c0) = Some (init, l) /\ tempo_denotes d (c_bpms c0) init l
                                             | [] => False end.
Proof. exact sm_write_tempo_cap. Qed.

(* ---- READ-BACK (C03 o C02): SMMapSet.read of the written text gives the mapset back.  For every mapset of the exact
   domain whose tempo changes lie at beats of the reader's 1/48 grid (readback_guard, decidable on the mapset) and every
   exact rendering txt of its written tokens, the read succeeds and returns the same charts in the same order: type,
   description, difficulty, meter equal, radar equal as numbers, and per kind the same objects (a permutation; columns
   equal, times and lengths equal as numbers), and the same #OFFSET  (C03_sm_write_read_back).
   The step that was missing is C03_written_text_in_reader_domain: the written text lies in the reader's decidable domain
   c02_domb (Formats/SMReadDom.v, THE domain of C02_sm_read_denotes: no ';' in a comment, every ';'-piece in the reader's
   dialect, header items in order with numbers that parse, rows a multiple of 4, tempo beats distinct on the 1/48 grid).
   C03_sm_write_read_back_partial (the same with c02_domb txt as a hypothesis, no guard) is kept for its importers.
   The guard is what C02's reading theorem covers, not a loss of the implementation: C03_read_back_guard_not_necessary
   is a mapset with a tempo change at beat 1/5, outside the guard, that the reader (model and /repo) reads back
   unchanged.  What the pair does lose is text fields outside tame_str (part of c03_domb):
   C03_read_back_refuted_semicolon_title, title "a;b" comes back as "a" (charts unchanged). *)
Theorem C03_grid48_in_table : grid48_in_table (k_tbl live_conf) = true.
Proof. vm_compute. reflexivity. Qed.

Theorem C03_sm_write_read_back_partial : forall s : smset, c03_domb s = true ->
  exists toks, sm_write live_conf current s = Some toks /\
    forall txt, match_toks 0 toks txt = true -> c02_domb txt = true ->
      exists s', sm_read live_conf current txt = Some s'
                 /\ Forall2 chart_back (s_maps s') (s_maps s)
                 /\ match s_offset s', s_offset s with Some a, Some b => a == b | _, _ => False end.
Proof. exact (sm_write_read_back_gen C03_grid48_in_table). Qed.

Theorem C03_written_text_in_reader_domain : forall s : smset, c03_domb s = true -> readback_guard s = true ->
  exists toks, sm_write live_conf current s = Some toks /\ forall txt, match_toks 0 toks txt = true -> c02_domb txt = true.
Proof. exact written_text_in_reader_domain. Qed.

Theorem C03_sm_write_read_back : forall s : smset, c03_domb s = true -> readback_guard s = true ->
  exists toks, sm_write live_conf current s = Some toks /\
    forall txt, match_toks 0 toks txt = true ->
      exists s', sm_read live_conf current txt = Some s'
                 /\ Forall2 chart_back (s_maps s') (s_maps s)
                 /\ match s_offset s', s_offset s with Some a, Some b => a == b | _, _ => False end.
Proof. exact (sm_write_read_back C03_grid48_in_table). Qed.

(* the guard, spelled out: tempo beats (the integral of bpm/60000 at each tempo row's time) on the 1/48 grid, >= 0, distinct *)
Theorem C03_readback_guard_meaning : forall s : smset, readback_guard s =
  match s_maps s with
  | [] => false
  | c0 :: _ =>
      match tempo_script_of live_conf (c_bpms c0) with
      | None => false
      | Some (init, l) =>
          let bs := map (fun r : Q * Q * Q => spec_beat init l (fst (fst r))) (c_bpms c0) in
          forallb (fun b => on_grid48 b && Qle_bool 0 b) bs && distinct_q bs
      end
  end.
Proof. reflexivity. Qed.

Theorem C03_read_back_refuted_semicolon_title :
  c03_domb rb_semi_set = false /\ readback_guard rb_semi_set = true
  /\ match sm_write live_conf current rb_semi_set with Some toks => match_toks 0 toks rb_semi_txt | None => false end = true
  /\ c02_domb rb_semi_txt = false
  /\ exists s', sm_read live_conf current rb_semi_txt = Some s'
       /\ nth 0 (s_txt rb_semi_set) [] = tx "a;b" /\ nth 0 (s_txt s') [] = tx "a"
       /\ map c_hits (s_maps s') = map c_hits (s_maps rb_semi_set).
Proof. exact read_back_refuted_semicolon_title. Qed.

Example C03_read_back_guard_not_necessary :
  c03_domb rb_fifth_set = true /\ readback_guard rb_fifth_set = false
  /\ match sm_write live_conf current rb_fifth_set with Some toks => match_toks 0 toks rb_fifth_txt | None => false end = true
  /\ c02_domb rb_fifth_txt = false
  /\ exists s', sm_read live_conf current rb_fifth_txt = Some s' /\ map c_hits (s_maps s') = map c_hits (s_maps rb_fifth_set).
Proof. exact read_back_guard_not_necessary. Qed.

Example C03_read_back_guard_examples : readback_guard c03_ex_set = true /\ c03_domb c03_ex_set = true.
Proof. exact read_back_guard_examples. Qed.

Example C03_read_back_examples :
  c02_domb c03_ex_txt = true /\ c02_domb c03_ex_cap_txt = true /\ c02_domb w_ok_txt = true
  /\ c02_domb w_sel_txt_current = true /\ c02_domb w_pad_txt_current = true.
Proof. vm_compute. auto. Qed.

(* non-vacuity of the exact domain: two charts (dance-solo with 6 columns, kb7-single with 7) sharing two tempo rows handed
   over out of order, the tempo change in the middle of a measure (beat 2.5), a hold ending on the tempo change, a roll across
   a measure line, a mine, a lift, a fake, a keysound, a triplet (24-row measure), an empty measure, selectable = NO:
   the mapset is in c03_domb, the literal text is an exact rendering of the writer's tokens, and it denotes the mapset
   (the runner's oracle write_spec with tolerance 0 in the exact regime, 2 charts, 11 notes) *)
Example C03_exact_domain_example :
  c03_domb c03_ex_set = true
  /\ match sm_write live_conf current c03_ex_set with Some toks => match_toks 0 toks c03_ex_txt | None => false end = true
  /\ match sm_denote c03_ex_txt with
     | Some d => write_spec 0 true c03_ex_set d && (length (d_charts d) =? 2)%nat
                 && (length (flat_map d_notes (d_charts d)) =? 11)%nat
     | None => false end = true.
Proof. exact c03_example. Qed.

(* non-vacuity of the cap domain: objects at beats 1/5, 1/7, 1/9 of one measure (true lcm 1260 > 384) and a hold over two
   measures: in c03_cap_domb, not in c03_domb; written with 384 rows; the literal text renders the tokens exactly; the
   runner's grid-bound oracle holds on it and the exact oracle (tolerance 0) does not *)
Example C03_cap_domain_example :
  c03_cap_domb c03_ex_cap_set = true /\ c03_domb c03_ex_cap_set = false
  /\ match sm_write live_conf current c03_ex_cap_set with Some toks => match_toks 0 toks c03_ex_cap_txt | None => false end = true
  /\ match sm_denote c03_ex_cap_txt with
     | Some d => write_spec 0 false c03_ex_cap_set d && negb (write_spec 0 true c03_ex_cap_set d)
                 && match d_charts d with [dc] => match d_rows dc with [384%Z; 4%Z] => true | _ => false end | _ => false end
     | None => false end = true.
Proof. exact c03_cap_example. Qed.

(* non-vacuity: a 6-key mapset with two tempo points (the second mid-measure), every kind of object, a hold across
   the tempo change: the writer's text renders the model's tokens and denotes the mapset *)
Example C03_example_in_domain :
  renders tol9 (sm_write live_conf current w_ok_set) w_ok_txt = true /\
  match sm_denote w_ok_txt with Some d => write_spec (1 # 1000000) false w_ok_set d | None => false end = true.
Proof. exact sm_write_example. Qed.
