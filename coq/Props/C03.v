(* C03 — StepMania writing.  Property theorems only: each is closed by [exact] from Proofs/SMProofs.v, or by
   vm_compute for obligations on the tables regenerated from the live classes. *)
From Coq Require Import String ZArith QArith Qround Qabs List Bool.
From RV Require Import Base.PyNum Timing.Snapper Timing.Snap Timing.TimingMap Timing.Reseat Timing.Integrate
  Formats.SMText Formats.SM Formats.SMSpec Formats.SMWriteDom Generated.Tables Proofs.SMWitness Proofs.SMProofs Proofs.SMWriteProofs
  Proofs.SMWriteWholeChart Proofs.SMWriteWholeFile Proofs.SMWriteWholeEx.
Import ListNotations.
Open Scope Q_scope.

(* ---- table obligations ---- *)
Theorem C03_constants_are_reference :
  live_conf = ref_conf Tables.snapper_table Tables.sm.chart_keys.
Proof. vm_compute. reflexivity. Qed.
Theorem C03_cap_positive : (0 < k_max_snap live_conf)%Z.
Proof. vm_compute. reflexivity. Qed.
Theorem C03_metronome_is_4 : k_metronome live_conf = 4%Z.
Proof. vm_compute. reflexivity. Qed.

(* ---- per-measure LCM with the cap: never above the cap; below the cap it is a common multiple of all denominators ---- *)
Theorem C03_den_max_le_cap : forall dens : list Z, (den_max_of live_conf dens <= k_max_snap live_conf)%Z.
Proof. exact (den_max_le_cap live_conf). Qed.

Theorem C03_den_max_below_cap_divides : forall (dens : list Z) (x : Z),
  Forall (fun y => 0 < y)%Z dens -> (den_max_of live_conf dens < k_max_snap live_conf)%Z -> In x dens ->
  (x | den_max_of live_conf dens)%Z.
Proof. exact (den_max_below_cap_divides live_conf C03_cap_positive). Qed.

(* ---- row index: integral, and at the object's position, whenever its denominator divides the row count;
   otherwise (cap) rounded down to the row grid: early by less than one row (1/96 beat for 384 rows) ---- *)
Theorem C03_row_integral : forall num den dm : Z, (0 < den)%Z -> (den | dm)%Z -> (num * dm / den * den = num * dm)%Z.
Proof. exact row_integral. Qed.

Theorem C03_row_position_exact : forall num den dm : Z, (0 < den)%Z -> (0 < dm)%Z -> (den | dm)%Z ->
  inject_Z (num * dm / den) / inject_Z dm == inject_Z num / inject_Z den.
Proof. exact row_position_exact. Qed.

Theorem C03_row_truncation_bound : forall num den dm : Z, (0 < den)%Z -> (0 < dm)%Z -> (0 <= num)%Z ->
  inject_Z (num * dm / den) / inject_Z dm <= inject_Z num / inject_Z den /\
  inject_Z num / inject_Z den < (inject_Z (num * dm / den) + 1) / inject_Z dm.
Proof. exact row_truncation_bound. Qed.

(* the (measure, num/den) the writer derives from a cumulative beat q is q's measure and its position inside it *)
Theorem C03_place_position : forall (q : Q) (col ch : Z),
  let p := place live_conf q col ch in
  (0 < p_den p)%Z /\ (0 <= p_num p < p_den p)%Z /\
  inject_Z (p_num p) / inject_Z (p_den p) == (q - 4 * inject_Z (p_measure p)) / 4 /\
  p_measure p = Qfloor (q / 4).
Proof. exact (fun q col ch => place_position live_conf q col ch C03_metronome_is_4). Qed.

(* ---- the grid of one written measure: den_max rows, keys wide; each placed note's symbol at its (row, column) and '0'
   in every other cell, provided no two notes share a cell (the domain's no-collision condition) ---- *)
Theorem C03_written_measure_cells : forall (dm keys : Z) (g : list placed) (lines' : list (list Z)),
  Forall (placed_ok dm keys) g -> NoDup (map (fun p => (prow dm p, pcol p)) g) ->
  fill_lines (repeat (repeat 48%Z (Z.to_nat keys)) (Z.to_nat dm)) g dm keys = Some lines' ->
  length lines' = Z.to_nat dm /\ rect (Z.to_nat keys) lines' /\
  (forall p, In p g -> cell lines' (prow dm p) (pcol p) = Some (p_char p)) /\
  (forall r c, (r < Z.to_nat dm)%nat -> (c < Z.to_nat keys)%nat ->
               (forall p, In p g -> (r, c) <> (prow dm p, pcol p)) -> cell lines' r c = Some 48%Z).
Proof. exact written_measure_cells. Qed.

(* ---- header: an item "#TAG:value" is read back as (TAG, value) whatever the value contains after the first colon ---- *)
Theorem C03_item_roundtrip : forall tag v : text, ~ In 58%Z tag ->
  parse_item ((35%Z :: tag) ++ 58%Z :: v) = Some (35%Z :: tag, v).
Proof. exact item_roundtrip. Qed.

(* ---- padding of empty measures: the rows are keys wide for every key count (guard "4 keys" gone with d872b70) ---- *)
Theorem C03_pad_rows_width : forall k : Z, (0 <= k)%Z ->
  forall r, In r (split_on 10 (pad_measure live_conf current (Some k))) -> Z.of_nat (length r) = k.
Proof. exact (fun k => pad_rows_width_current live_conf k C03_metronome_is_4). Qed.

(* ---- #SELECTABLE is an item for both values and is read back as written (guard "selectable" gone with 16f3fe3) ---- *)
Theorem C03_selectable_item : forall b : bool,
  parse_item (tx (if b then "#SELECTABLE:YES" else "#SELECTABLE:NO")) = Some (tx "#SELECTABLE", tx (if b then "YES" else "NO")).
Proof. exact selectable_item_current. Qed.

(* ---- the OLD behaviours refute sm_write_wf (witnesses are real inputs with the text the old implementation wrote);
   the current model writes the same inputs as well-formed texts that denote them ---- *)
Theorem C03_sm_write_wf_refuted_OLD_selectable :
  exists s txt, s_sel s = false /\ renders tol9 (sm_write live_conf OLD_selectable_bare_no s) txt = true /\ wf_sm_textb txt = false.
Proof. exact sm_write_wf_refuted_OLD_selectable. Qed.
Theorem C03_sm_write_selectable_current :
  renders tol9 (sm_write live_conf current w_sel_set) w_sel_txt_current = true /\
  match sm_denote w_sel_txt_current with Some d => write_spec (1 # 1000000) true w_sel_set d | None => false end = true.
Proof. exact sm_write_selectable_current. Qed.
Theorem C03_sm_write_wf_refuted_OLD_padding :
  exists s txt, renders tol9 (sm_write live_conf OLD_pad_0000 s) txt = true /\ wf_sm_textb txt = false.
Proof. exact sm_write_wf_refuted_OLD_padding. Qed.
Theorem C03_sm_write_padding_current :
  renders tol9 (sm_write live_conf current w_pad_set) w_pad_txt_current = true /\
  match sm_denote w_pad_txt_current with Some d => write_spec (1 # 1000000) true w_pad_set d | None => false end = true.
Proof. exact sm_write_padding_current. Qed.

(* ---- the cap is reached only when the true LCM exceeds it: when the TRUE lcm of a measure's denominators is <= 384 the
   capped fold returns it and every denominator divides the row count (the <= version of C03_den_max_below_cap_divides) ---- *)
Theorem C03_den_max_exact : forall (dens : list Z) (x : Z),
  Forall (fun y => 0 < y)%Z dens -> In x dens -> (true_lcm dens <= k_max_snap live_conf)%Z ->
  den_max_of live_conf dens = true_lcm dens /\ (x | den_max_of live_conf dens)%Z.
Proof. exact (den_max_exact live_conf). Qed.

(* ---- table obligation of the timing engine (C10) on the live snapper table ---- *)
Theorem C03_table_ok : table_ok (1 # 96) (k_tbl live_conf) = true.
Proof. exact live_table_ok. Qed.

(* ---- sm_write_denotes, WHOLE FILE, for ALL mapsets of the decidable exact domain c03_domb (Formats/SMWriteDom.v:
   16 tame text fields, >= 1 chart, #OFFSET = first tempo point, the first chart's tempo rows = the millisecond form of an
   on-grid script with metronome 4 and two-decimal, pairwise distinct tempo beats, all charts with literally these rows;
   per chart: supported type, tame type/desc/diff, non-empty radar, columns in range, hold lengths > 0, long notes of a
   column disjoint, every event time (heads and tails too) at or after the first tempo point and on the snap grid of the
   active tempo, no two events with the same column and beat, TRUE lcm of every measure <= 384):
   SMMapSet.write succeeds, and EVERY text that renders the written tokens exactly (each float numeral parses to its value,
   each tempo beat is a two-decimal numeral within 0.005) is a well-formed .sm text (sm_denote, the reference semantics,
   independent of reamber's reader) whose header fields read back as the mapset's (16 text tags, OFFSET, SAMPLESTART,
   SAMPLELENGTH, SELECTABLE) and whose charts are, in order, the mapset's charts: same type/description/difficulty/meter/
   radar and, for every kind of object, the denoted notes are a permutation of the chart's list with equal columns and
   times and lengths equal as rationals - nothing invented, nothing dropped, nothing moved. ---- *)
Theorem C03_sm_write_denotes : forall s : smset, c03_domb s = true ->
  exists toks, sm_write live_conf current s = Some toks /\
    forall txt, match_toks 0 toks txt = true ->
      exists d, sm_denote txt = Some d /\ header_roundtrip 0 s d = true /\ Forall2 chart_denotes (d_charts d) (s_maps s).
Proof. exact sm_write_denotes. Qed.

(* non-vacuity of the exact domain: two charts (dance-solo with 6 columns, kb7-single with 7) sharing two tempo rows handed
   over out of order, the tempo change in the middle of a measure (beat 2.5), a hold ending on the tempo change, a roll across
   a measure line, a mine, a lift, a fake, a keysound, a triplet (24-row measure), an empty measure, selectable = NO:
   the mapset is in c03_domb, the literal text is an exact rendering of the writer's tokens, and it denotes the mapset
   (the runner's oracle write_spec with tolerance 0 in the exact regime, 2 charts, 11 notes) *)
Example C03_exact_domain_example :
  c03_domb c03_ex_set = true
  /\ match sm_write live_conf current c03_ex_set with Some toks => match_toks 0 toks c03_ex_txt | None => false end = true
  /\ match sm_denote c03_ex_txt with
     | Some d => write_spec 0 true c03_ex_set d && (length (d_charts d) =? 2)%nat
                 && (length (flat_map d_notes (d_charts d)) =? 11)%nat
     | None => false end = true.
Proof. exact c03_example. Qed.

(* non-vacuity: a 6-key mapset with two tempo points (the second mid-measure), every kind of object, a hold across
   the tempo change: the writer's text renders the model's tokens and denotes the mapset *)
Example C03_example_in_domain :
  renders tol9 (sm_write live_conf current w_ok_set) w_ok_txt = true /\
  match sm_denote w_ok_txt with Some d => write_spec (1 # 1000000) false w_ok_set d | None => false end = true.
Proof. exact sm_write_example. Qed.
