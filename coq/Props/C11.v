(* C11 — reseating.  Property theorems only. *)
From Coq Require Import ZArith QArith Qround Qabs List Bool.
From RV Require Import Base.PyNum Timing.Snapper Timing.Snap Timing.TimingMap Timing.Integrate Timing.Reseat Timing.ReseatSpec.
Import ListNotations.
Open Scope Q_scope.

(* placeholder non-vacuity example; theorems are added from Proofs/ReseatProofs.v *)
Example C11_example_half_beat :
  let l := [mkBcs 120 4 (mkSnap 0 0 4); mkBcs 175 4 (mkSnap 1 (1#2) 4)] in
  wf_unseated l = true /\
  match reseat l with ROk r => reseat_specb l r = true | _ => False end.
Proof. vm_compute. split; reflexivity. Qed.
