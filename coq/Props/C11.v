(* C11 — reseating.  Property theorems only (each is an `exact` of a lemma of Proofs/ReseatProofs.v).
   Domain: wf_unseated (first change at measure 0 beat 0, strictly increasing normalised positions, positive bpm,
   one shared integer metronome 1..8).  Guards (Timing/ReseatDomain.v), stated on the beat distance d of each gap:
     no_extend thr l    : neither frac (d/met) nor frac d lies in the extend window (0, thr]
     reseat_guard thr l : weaker; the extend-by-bpm branch is allowed when >= 1 whole measure precedes the remainder,
                          the extend-by-metronome branch is allowed in its REPLACE sub-branch (gap < 1 measure). *)
From Coq Require Import ZArith QArith Qround Qabs List Bool.
From RV Require Import Base.PyNum Timing.Snapper Timing.Snap Timing.TimingMap Timing.Integrate Timing.Reseat Timing.ReseatSpec
  Timing.ReseatDomain Proofs.ReseatProofs.
Import ListNotations.
Open Scope Q_scope.

(* 1. the loop never runs out of fuel 2*length+2 on the whole domain (every branch, including the faulty ones):
      each original interval costs at most two passes *)
Theorem C11_reseat_terminates : forall l, wf_unseated l = true -> reseat l <> RFuel.
Proof. exact reseat_terminates. Qed.
Theorem C11_reseat_terminates_thr : forall thr l, 0 <= thr -> thr <= 1 # 2 -> wf_unseated l = true -> reseat_with thr l <> RFuel.
Proof. exact reseat_terminates_thr. Qed.
Theorem C11_reseat_terminates_any_order : forall l, wf_unseated (sort_by bcs_lt l) = true -> reseat l <> RFuel.
Proof. exact reseat_terminates_any_order. Qed.

(* 2. no extend branch taken: the result exists and satisfies ReseatOK =
      strong structural spec (seated; timeline refinement: all original times kept in order, bpm kept after whole gaps,
      one extra point strictly inside exactly the non-whole gaps)  /\  the boolean oracle accepts it
      /\  the clause-by-clause property statement  /\  elapsed time between originals unchanged  /\  times increase *)
Theorem C11_reseat_correct_no_extend : forall l, wf_unseated l = true -> no_extend THRESHOLD l = true ->
  exists r, reseat l = ROk r /\ ReseatOK l r.
Proof. exact reseat_correct_no_extend. Qed.

(* 5. the same under the weaker guard: measure-extend with >= 1 whole measure and metronome-extend REPLACE included *)
Theorem C11_reseat_correct_guarded : forall l, wf_unseated l = true -> reseat_guard THRESHOLD l = true ->
  exists r, reseat l = ROk r /\ ReseatOK l r.
Proof. exact reseat_correct_guarded. Qed.
Theorem C11_reseat_correct_thr : forall thr l, 0 <= thr -> wf_unseated l = true -> reseat_guard thr l = true ->
  exists r, reseat_with thr l = ROk r /\ ReseatOK l r.
Proof. exact reseat_correct_thr. Qed.
Theorem C11_reseat_correct_any_order : forall l, let ls := sort_by bcs_lt l in
  wf_unseated ls = true -> reseat_guard THRESHOLD ls = true -> exists r, reseat l = ROk r /\ ReseatOK ls r.
Proof. exact reseat_correct_any_order. Qed.
Theorem C11_no_extend_implies_guard : forall thr l, no_extend thr l = true -> reseat_guard thr l = true.
Proof. exact no_extend_guard. Qed.

(* any initial offset: the TimingMap built by from_bpm_changes_snap(init, l, reseat=True) has its tempo points at
   init + (times of the reseated list r) with r's bpms (both code paths: reseat, or l already seated) *)
Theorem C11_from_bcs_reseat_correct : forall init l, wf_unseated l = true -> reseat_guard THRESHOLD l = true ->
  exists r bcos, reseat l = ROk r /\ ReseatOK l r /\ from_bcs_reseat init l = Some bcos /\
                 Forall2 (bco_near init) bcos (timeline 0 r).
Proof. exact from_bcs_reseat_correct. Qed.

(* 3. an already seated list needs no guard: same length, same times, same bpms *)
Theorem C11_reseat_seated_fixpoint : forall l, wf_unseated l = true -> seated l = true ->
  exists r, reseat l = ROk r /\ length r = length l /\
    Forall2 (fun p q => fst p == fst q /\ bs_bpm (snd p) == bs_bpm (snd q)) (timeline 0 l) (timeline 0 r).
Proof. exact reseat_seated_fixpoint. Qed.

(* 4. the boolean oracle is sound for the property statement, for ANY pair of lists (so a `true` on an implementation
      output means what it says); and it accepts whatever meets the strong spec *)
Theorem C11_reseat_specb_sound : forall l r, reseat_specb l r = true -> ReseatSpecP l r.
Proof. exact reseat_specb_sound. Qed.
Theorem C11_strong_spec_accepted : forall l r, wf_unseated l = true -> reseat_strong l r -> reseat_specb l r = true.
Proof. exact strong_specb. Qed.

(* the two known findings of the pinned code, as theorems about the model (inside wf_unseated, outside reseat_guard) *)
Theorem C11_extend_metronome_insert_refuted :
  wf_unseated w_metronome_insert = true /\ reseat_guard THRESHOLD w_metronome_insert = false /\
  exists r, reseat w_metronome_insert = ROk r /\ ~ TimesKeptP w_metronome_insert r.
Proof. exact reseat_extend_metronome_insert_refuted. Qed.
Theorem C11_gap_below_threshold_refuted_exc :
  wf_unseated w_gap_exc = true /\ reseat_guard THRESHOLD w_gap_exc = false /\ reseat w_gap_exc = RExc.
Proof. exact reseat_gap_below_threshold_refuted_exc. Qed.
Theorem C11_gap_below_threshold_refuted_unseated :
  wf_unseated w_gap_unseated = true /\ reseat_guard THRESHOLD w_gap_unseated = false /\
  exists r, reseat w_gap_unseated = ROk r /\ ~ SeatedP r.
Proof. exact reseat_gap_below_threshold_refuted_unseated. Qed.

(* ------------------------------------------------------------------ non-vacuity *)
(* half-beat grid, mixed bpm: in the domain, no extend branch, result accepted by the oracle *)
Example C11_example_half_beat :
  let l := [mkBcs 120 4 (mkSnap 0 0 4); mkBcs 175 4 (mkSnap 1 (1#2) 4); mkBcs 90 4 (mkSnap 3 1 4)] in
  wf_unseated l = true /\ no_extend THRESHOLD l = true /\
  match reseat l with ROk r => reseat_specb l r = true /\ length r = 5%nat | _ => False end.
Proof. vm_compute. repeat split; reflexivity. Qed.
(* a list inside reseat_guard but outside no_extend: extend-by-bpm REPLACE, extend-by-bpm INSERT, extend-by-metronome REPLACE *)
Example C11_example_extend_branches :
  let l := [mkBcs 120 4 (mkSnap 0 0 4); mkBcs 175 4 (mkSnap 1 (1#500) 4); mkBcs 90 4 (mkSnap 3 (3#500) 4);
            mkBcs 200 4 (mkSnap 3 (2 + (3#500) + (1#2000)) 4)] in
  wf_unseated l = true /\ reseat_guard THRESHOLD l = true /\ no_extend THRESHOLD l = false /\
  match reseat l with ROk r => reseat_specb l r = true | _ => False end.
Proof. vm_compute. repeat split; reflexivity. Qed.
(* a seated list *)
Example C11_example_seated :
  let l := [mkBcs 120 4 (mkSnap 0 0 4); mkBcs 175 4 (mkSnap 2 0 4)] in
  wf_unseated l = true /\ seated l = true.
Proof. vm_compute. split; reflexivity. Qed.
