(* C11 — reseating.  Property theorems only (each is an `exact` of a lemma of Proofs/ReseatProofs.v).
   Domain: wf_unseated (first change at measure 0 beat 0, strictly increasing normalised positions, positive bpm,
   one shared integer metronome 1..8).  Guards (Timing/ReseatDomain.v), stated on the beat distance d of each gap:
     no_extend thr l    : neither frac (d/met) nor frac d lies in the extend window (0, thr]
     reseat_guard thr l : weaker; the extend-by-bpm branch is allowed when >= 1 whole measure precedes the remainder,
                          the extend-by-metronome branch is allowed in its REPLACE sub-branch (gap < 1 measure). *)
From Coq Require Import ZArith QArith Qround Qabs List Bool.
From RV Require Import Base.PyNum Timing.Snapper Timing.Snap Timing.TimingMap Timing.Integrate Timing.Reseat Timing.ReseatSpec
  Timing.ReseatDomain Proofs.ReseatProofs Proofs.ReseatTiesProofs.
Import ListNotations.
Open Scope Q_scope.

(* 1. the loop never runs out of fuel 2*length+2 on the whole domain (every branch, including the faulty ones):
      each original interval costs at most two passes *)
Theorem C11_reseat_terminates : forall l, wf_unseated l = true -> reseat l <> RFuel.
Proof. exact reseat_terminates. Qed.
Theorem C11_reseat_terminates_thr : forall thr l, 0 <= thr -> thr <= 1 # 2 -> wf_unseated l = true -> reseat_with thr l <> RFuel.
Proof. exact reseat_terminates_thr. Qed.
Theorem C11_reseat_terminates_any_order : forall l, wf_unseated (sort_by bcs_lt l) = true -> reseat l <> RFuel.
Proof. exact reseat_terminates_any_order. Qed.

(* 2. no extend branch taken: the result exists and satisfies ReseatOK =
      strong structural spec (seated; timeline refinement: all original times kept in order, bpm kept after whole gaps,
      one extra point strictly inside exactly the non-whole gaps)  /\  the boolean oracle accepts it
      /\  the clause-by-clause property statement  /\  elapsed time between originals unchanged  /\  times increase *)
Theorem C11_reseat_correct_no_extend : forall l, wf_unseated l = true -> no_extend THRESHOLD l = true ->
  exists r, reseat l = ROk r /\ ReseatOK l r.
Proof. exact reseat_correct_no_extend. Qed.

(* 5. the same under the weaker guard: measure-extend with >= 1 whole measure and metronome-extend REPLACE included *)
Theorem C11_reseat_correct_guarded : forall l, wf_unseated l = true -> reseat_guard THRESHOLD l = true ->
  exists r, reseat l = ROk r /\ ReseatOK l r.
Proof. exact reseat_correct_guarded. Qed.
Theorem C11_reseat_correct_thr : forall thr l, 0 <= thr -> wf_unseated l = true -> reseat_guard thr l = true ->
  exists r, reseat_with thr l = ROk r /\ ReseatOK l r.
Proof. exact reseat_correct_thr. Qed.
Theorem C11_reseat_correct_any_order : forall l, let ls := sort_by bcs_lt l in
  wf_unseated ls = true -> reseat_guard THRESHOLD ls = true -> exists r, reseat l = ROk r /\ ReseatOK ls r.
Proof. exact reseat_correct_any_order. Qed.
Theorem C11_no_extend_implies_guard : forall thr l, no_extend thr l = true -> reseat_guard thr l = true.
Proof. exact no_extend_guard. Qed.

(* any initial offset: the TimingMap built by from_bpm_changes_snap(init, l, reseat=True) has its tempo points at
   init + (times of the reseated list r) with r's bpms (both code paths: reseat, or l already seated) *)
Theorem C11_from_bcs_reseat_correct : forall init l, wf_unseated l = true -> reseat_guard THRESHOLD l = true ->
  exists r bcos, reseat l = ROk r /\ ReseatOK l r /\ from_bcs_reseat init l = Some bcos /\
                 Forall2 (bco_near init) bcos (timeline 0 r).
Proof. exact from_bcs_reseat_correct. Qed.

(* 3. an already seated list needs no guard: same length, same times, same bpms *)
Theorem C11_reseat_seated_fixpoint : forall l, wf_unseated l = true -> seated l = true ->
  exists r, reseat l = ROk r /\ length r = length l /\
    Forall2 (fun p q => fst p == fst q /\ bs_bpm (snd p) == bs_bpm (snd q)) (timeline 0 l) (timeline 0 r).
Proof. exact reseat_seated_fixpoint. Qed.

(* 4. the boolean oracle is sound for the property statement, for ANY pair of lists (so a `true` on an implementation
      output means what it says); and it accepts whatever meets the strong spec *)
Theorem C11_reseat_specb_sound : forall l r, reseat_specb l r = true -> ReseatSpecP l r.
Proof. exact reseat_specb_sound. Qed.
Theorem C11_strong_spec_accepted : forall l r, wf_unseated l = true -> reseat_strong l r -> reseat_specb l r = true.
Proof. exact strong_specb. Qed.

(* the two known findings of the pinned code, as theorems about the model (inside wf_unseated, outside reseat_guard) *)
Theorem C11_extend_metronome_insert_refuted :
  wf_unseated w_metronome_insert = true /\ reseat_guard THRESHOLD w_metronome_insert = false /\
  exists r, reseat w_metronome_insert = ROk r /\ ~ TimesKeptP w_metronome_insert r.
Proof. exact reseat_extend_metronome_insert_refuted. Qed.
Theorem C11_gap_below_threshold_refuted_exc :
  wf_unseated w_gap_exc = true /\ reseat_guard THRESHOLD w_gap_exc = false /\ reseat w_gap_exc = RExc.
Proof. exact reseat_gap_below_threshold_refuted_exc. Qed.
Theorem C11_gap_below_threshold_refuted_unseated :
  wf_unseated w_gap_unseated = true /\ reseat_guard THRESHOLD w_gap_unseated = false /\
  exists r, reseat w_gap_unseated = ROk r /\ ~ SeatedP r.
Proof. exact reseat_gap_below_threshold_refuted_unseated. Qed.

(* ------------------------------------------------------------------ lists with TIES (two or more changes on one position)
   Domain wf_ties: as wf_unseated, positions only NON-decreasing (wf_unseated l -> wf_ties l).  Same guards: the beat
   distance of a tie is 0, which is in no extend window - a zero-length gap takes no branch of the loop.
   Timeline semantics: `timeline 0 l` lists the changes in list order with their times, tied changes being consecutive
   entries with one time; the change in force at time x is the LAST entry with time <= x (active_at). *)
Theorem C11_wf_unseated_ties : forall l, wf_unseated l = true -> wf_ties l = true.
Proof. exact wf_unseated_ties. Qed.

(* T1. termination on all of wf_ties (faulty extend branches included) *)
Theorem C11_reseat_terminates_ties : forall l, wf_ties l = true -> reseat l <> RFuel.
Proof. exact reseat_terminates_ties. Qed.
Theorem C11_reseat_terminates_ties_thr : forall thr l, 0 <= thr -> thr <= 1 # 2 -> wf_ties l = true -> reseat_with thr l <> RFuel.
Proof. exact reseat_terminates_ties_thr. Qed.
Theorem C11_reseat_terminates_ties_any_order : forall l, wf_ties (sort_by bcs_lt l) = true -> reseat l <> RFuel.
Proof. exact reseat_terminates_ties_any_order. Qed.

(* T2. under the guard the result exists and ReseatTiesOK holds = measure lines + timeline refinement (every original
   entry matched IN ORDER by a result entry at its time, a tie by two adjacent entries)  /\  reseat_tiesb = true
   /\  reseat_specb_ties = true  /\  ReseatTiesP: SeatedWeakP (measure lines, measures non-decreasing from 0), MeasTiesP
   (measure stays iff time stays, only across a tie of the input: strictly increasing otherwise), TimesKeptP, TiePairP,
   OneExtraP, BpmKeptP, ElapsedP, ActiveLastP, FixpointTiesP, result times non-decreasing *)
Theorem C11_reseat_ties_correct_guarded : forall l, wf_ties l = true -> reseat_guard THRESHOLD l = true ->
  exists r, reseat l = ROk r /\ ReseatTiesOK l r.
Proof. exact reseat_ties_correct_guarded. Qed.
Theorem C11_reseat_ties_correct_no_extend : forall l, wf_ties l = true -> no_extend THRESHOLD l = true ->
  exists r, reseat l = ROk r /\ ReseatTiesOK l r.
Proof. exact reseat_ties_correct_no_extend. Qed.
Theorem C11_reseat_ties_correct_thr : forall thr l, 0 <= thr -> wf_ties l = true -> reseat_guard thr l = true ->
  exists r, reseat_with thr l = ROk r /\ ReseatTiesOK l r.
Proof. exact reseat_ties_correct_thr. Qed.
(* what the runner checks for a CReseatTie case, as a theorem about the model: input in any order (stable sort) *)
Theorem C11_reseat_ties_correct_any_order : forall l, let ls := sort_by bcs_lt l in
  wf_ties ls = true -> reseat_guard THRESHOLD ls = true ->
  exists r, reseat l = ROk r /\ ReseatTiesOK ls r /\ reseat_tiesb ls r = true /\ reseat_specb_ties ls r = true.
Proof. exact reseat_ties_correct_any_order. Qed.
Theorem C11_sort_stable : forall s l,
  filter (fun c => snap_eq s (bs_snap c)) (sort_by bcs_lt l) = filter (fun c => snap_eq s (bs_snap c)) l.
Proof. exact sort_by_stable. Qed.

(* T3. after a tie the bpm in force is that of the LAST change of the tie group (ActiveLastP, ReseatDomain.v) *)
Theorem C11_reseat_ties_active_last : forall l, wf_ties l = true -> reseat_guard THRESHOLD l = true ->
  exists r, reseat l = ROk r /\ ActiveLastP l r.
Proof. exact reseat_ties_active_last. Qed.

(* T4. a seated list with ties on measure lines needs no guard: same length, same times, same bpms *)
Theorem C11_reseat_seated_fixpoint_ties : forall l, wf_ties l = true -> seated_weak l = true ->
  exists r, reseat l = ROk r /\ length r = length l /\
    Forall2 (fun p q => fst p == fst q /\ bs_bpm (snd p) == bs_bpm (snd q)) (timeline 0 l) (timeline 0 r).
Proof. exact reseat_seated_fixpoint_ties. Qed.

(* T5. the oracle of the runner: sound for the whole statement on ANY output r (given only wf_ties l), and complete for
   the structural spec; refinesb decides refines *)
Theorem C11_reseat_tiesb_sound : forall l r, wf_ties l = true -> reseat_tiesb l r = true ->
  reseat_strong_ties l r /\ ReseatTiesP l r.
Proof. exact reseat_tiesb_sound. Qed.
Theorem C11_strong_ties_accepted : forall l r, wf_ties l = true -> reseat_strong_ties l r -> Forall posc r ->
  reseat_tiesb l r = true /\ reseat_specb_ties l r = true.
Proof. exact strong_ties_tiesb. Qed.
Theorem C11_refinesb_sound : forall ts us, refinesb ts us = true -> refines ts us.
Proof. exact refinesb_sound. Qed.
Theorem C11_refinesb_complete : forall ts us, refines ts us -> refinesb ts us = true.
Proof. exact refinesb_complete. Qed.

(* T6. from_bpm_changes_snap(init, l, reseat=True) with ties *)
Theorem C11_from_bcs_reseat_correct_ties : forall init l, wf_ties l = true -> reseat_guard THRESHOLD l = true ->
  exists r bcos, reseat l = ROk r /\ ReseatTiesOK l r /\ from_bcs_reseat init l = Some bcos /\
                 Forall2 (bco_near init) bcos (timeline 0 r).
Proof. exact from_bcs_reseat_correct_ties. Qed.

(* T7. false with ties (about the ORACLE reading, not the code): "the bpm at time t" read as the bpm of the FIRST result
   point at t (bpm_kept, part of reseat_specb) rejects a correct result; result times are not STRICTLY increasing *)
Theorem C11_bpm_kept_first_match_refuted_ties :
  wf_ties w_tie_seated = true /\ reseat_guard THRESHOLD w_tie_seated = true /\
    exists r, reseat w_tie_seated = ROk r /\ bpm_kept w_tie_seated r = false /\ reseat_specb w_tie_seated r = false /\
            reseat_tiesb w_tie_seated r = true.
Proof. exact bpm_kept_first_match_refuted_ties. Qed.
Theorem C11_times_strictly_incr_refuted_ties : exists r, reseat w_tie_seated = ROk r /\ ~ strictly_incr (times r).
Proof. exact times_strictly_incr_refuted_ties. Qed.

(* ------------------------------------------------------------------ non-vacuity *)
(* half-beat grid, mixed bpm: in the domain, no extend branch, result accepted by the oracle *)
Example C11_example_half_beat :
  let l := [mkBcs 120 4 (mkSnap 0 0 4); mkBcs 175 4 (mkSnap 1 (1#2) 4); mkBcs 90 4 (mkSnap 3 1 4)] in
  wf_unseated l = true /\ no_extend THRESHOLD l = true /\
  match reseat l with ROk r => reseat_specb l r = true /\ length r = 5%nat | _ => False end.
Proof. vm_compute. repeat split; reflexivity. Qed.
(* a list inside reseat_guard but outside no_extend: extend-by-bpm REPLACE, extend-by-bpm INSERT, extend-by-metronome REPLACE *)
Example C11_example_extend_branches :
  let l := [mkBcs 120 4 (mkSnap 0 0 4); mkBcs 175 4 (mkSnap 1 (1#500) 4); mkBcs 90 4 (mkSnap 3 (3#500) 4);
            mkBcs 200 4 (mkSnap 3 (2 + (3#500) + (1#2000)) 4)] in
  wf_unseated l = true /\ reseat_guard THRESHOLD l = true /\ no_extend THRESHOLD l = false /\
  match reseat l with ROk r => reseat_specb l r = true | _ => False end.
Proof. vm_compute. repeat split; reflexivity. Qed.
(* a seated list *)
Example C11_example_seated :
  let l := [mkBcs 120 4 (mkSnap 0 0 4); mkBcs 175 4 (mkSnap 2 0 4)] in
  wf_unseated l = true /\ seated l = true.
Proof. vm_compute. split; reflexivity. Qed.
(* a tie at an OFF-LINE position, different bpms: 175 and 90 both at measure 0 beat 1.5 (750 ms).  Both are kept, on
   measure line 1, in input order; the bpm in force from 750 ms on is 90 (the LAST of the tie), kept up to the inserted point *)
Example C11_example_tie_off_line :
  let l := [mkBcs 120 4 (mkSnap 0 0 4); mkBcs 175 4 (mkSnap 0 (3#2) 4); mkBcs 90 4 (mkSnap 0 (3#2) 4); mkBcs 200 4 (mkSnap 2 0 4)] in
  wf_ties l = true /\ wf_unseated l = false /\ reseat_guard THRESHOLD l = true /\
    match reseat l with
  | ROk r => reseat_tiesb l r = true /\ length r = 5%nat /\
             map (fun c => s_m (bs_snap c)) r = [0; 1; 1; 2; 3]%Z /\
             match active_at (timeline 0 l) 750, active_at (timeline 0 r) 750 with
             | Some p, Some q => Qeq_bool (fst p) 750 && Qeq_bool (bs_bpm (snd p)) 90 && Qeq_bool (fst q) 750 && Qeq_bool (bs_bpm (snd q)) 90
             | _, _ => false
             end = true
  | _ => False
  end.
Proof. vm_compute. repeat split; reflexivity. Qed.
(* a tie ON a measure line in a seated list: returned with the same times and bpms (4 points, measures 0,1,1,3) *)
Example C11_example_tie_seated :
  let l := w_tie_seated in
  wf_ties l = true /\ seated_weak l = true /\ seated l = false /\
    match reseat l with
  | ROk r => length r = 4%nat /\ timeline_eqb (timeline 0 l) (timeline 0 r) = true /\ reseat_tiesb l r = true /\
             match active_at (timeline 0 r) 2000 with Some q => Qeq_bool (bs_bpm (snd q)) 90 | None => false end = true
  | _ => False
  end.
Proof. vm_compute. repeat split; reflexivity. Qed.
