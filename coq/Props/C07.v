(* C07 — O2Jam .ojn reading.  Property theorems only: each is closed by [exact] from Proofs/ or Base/
   (table obligations and concrete witnesses by vm_compute). *)
From Coq Require Import ZArith QArith List Bool Permutation.
From RV Require Import Base.PyNum Base.Bytes Formats.O2J Formats.O2JSpec Generated.Tables Proofs.O2JProofs Proofs.O2JHeaderProofs
  Proofs.O2JParseProofs Proofs.O2JComposeProofs Proofs.O2JCompleteProofs.
Import ListNotations.
Open Scope Q_scope.

(* ---- table obligations, re-checked against the tables regenerated from the live classes on every run ---- *)
Theorem C07_layout_is_reference : Tables.c07.layout = ref_layout.
Proof. vm_compute. reflexivity. Qed.
Theorem C07_layout_sums_to_300 : layout_total Tables.c07.layout = 300%Z.
Proof. vm_compute. reflexivity. Qed.
Theorem C07_channels_are_reference :
  (Tables.c07.ch_bpm_change, Tables.c07.col_range_start, Tables.c07.col_range_stop, Tables.c07.col_channels,
   Tables.c07.kind_hit, Tables.c07.kind_hold_head, Tables.c07.kind_hold_tail)
  = (ref_ch_tempo, ref_ch_col0, (ref_ch_col_last + 1)%Z, map (fun c => (ref_ch_col0 + c)%Z) columns,
     ref_kind_tap, ref_kind_head, ref_kind_tail).
Proof. vm_compute. reflexivity. Qed.

(* ==== THE PROPERTY, all inputs ====
   For every well-formed abstract OJN file f (header values; three difficulties; any number of packages,
   any slot counts, any number of tempo events at any position incl. after the last note and exactly at
   a note; notes on all seven columns; long notes across packages and measures; no measure-fraction
   package) and ANY trailing bytes, the reader (model read_fixed = the code since 9171148/d4c1412) applied
   to the laid-out bytes succeeds and returns what the file denotes (ojn_denote, DESIGN B.5): the same
   header, and per difficulty the same hits and long notes up to row order and the same tempo rows --
   every note, long-note end and tempo change at the integral of its measure position. ==== *)
Theorem C07_ojn_read_denotes : forall f trail, wf_file f = true ->
  exists o d, read_fixed (encode_file f ++ trail) = Some o /\ ojn_denote f = Some d
    /\ os_hdr o = os_hdr d /\ Forall2 map_equiv (os_maps o) (os_maps d).
Proof. exact (ojn_read_fixed_denotes C07_layout_is_reference). Qed.
Theorem C07_ojn_read_meets_spec : forall f trail, wf_file f = true ->
  OjnSpec 0 f (read_fixed (encode_file f ++ trail)).
Proof. exact (ojn_read_fixed_meets_spec C07_layout_is_reference). Qed.

(* ---- its parts ---- *)
(* the package parser inverts the package layout (framing, little-endian fields, dense slots -> sparse events) *)
Theorem C07_package_parser_inverts_layout : forall p rest hb, wf_pkg p = true ->
  (p_channel p = ref_ch_tempo -> sparse_tempos (p_measure p) (p_n p) (p_events p) <> None) ->
  read_package (encode_pkg p ++ rest) hb
  = match pkg_sem p hb with Some (es, hb') => Some (es, rest, hb') | None => None end.
Proof. exact read_package_enc. Qed.
(* ojn_ln_pairing: one hold buffer walked in file order = per-column head->tail pairing, never fails on
   well-paired columns, ends empty *)
Theorem C07_ojn_ln_pairing : forall cols, NoDup cols -> forall l hb,
  hb_nodup hb -> Forall (fun x => In (fst x) cols) l ->
  (forall c, In c cols -> pairing_ok (proj c l) (is_some (hb_get hb c)) = true) ->
  (forall c, ~ In c cols -> hb_get hb c = None) ->
  exists E hb', walk_flat l hb = Some (E, hb')
    /\ Permutation E (flat_map (fun c => pair_ev c (proj c l) (hb_get hb c)) cols) /\ hb' = [].
Proof. exact walk_flat_pairing. Qed.
(* ojn_notes_denote / ojn_tempo_times on extracted events: sort, note-measure set, dict and sweep together *)
Theorem C07_read_pkgs_is_integration : forall init T, ~ init == 0 -> bpms_nonzero T -> sorted_pos 0 T ->
  forall pkgs, Forall (fun e => e <> EMeasureChange) (concat pkgs) ->
  sort_by fst (flat_map tempo_of (concat pkgs)) = T ->
  exists hs ls,
    read_pkgs_fixed pkgs init
    = Some (mkOMap hs ls (mkBpm 0 init :: map (fun t => mkBpm (Qred (time init T (fst t))) (snd t)) T))
    /\ Permutation hs (flat_map (hit_row init T) (concat pkgs))
    /\ Permutation ls (flat_map (hold_row init T) (concat pkgs)).
Proof. exact read_pkgs_fixed_spec. Qed.
(* a tempo event exactly at a position: counting it (<=) or not (<) gives the same time *)
Theorem C07_tempo_at_position_immaterial : forall l t p0 b p, sorted_pos p0 l ->
  ojn_time_go_strict t p0 b l p == ojn_time_go t p0 b l p.
Proof. exact ojn_time_strict_eq. Qed.

(* ---- ojn_header_decodes: for EVERY well-formed header (and whatever bytes follow it) read_meta, driven by
   the live layout table, returns exactly the values the format lays down: field extraction = layout;
   the laid-out header is 300 bytes ---- *)
Theorem C07_ojn_header_decodes : forall h pc post, wf_hdr h = true -> ilist_ok 3 pc = true ->
  read_meta (encode_header h pc ++ post) = denote_hdr h pc.
Proof. exact (ojn_header_decodes C07_layout_is_reference). Qed.
Theorem C07_header_is_300_bytes : forall h pc, wf_hdr h = true -> ilist_ok 3 pc = true ->
  length (encode_header h pc) = 300%nat.
Proof. exact encode_header_length. Qed.

(* ---- bytes: struct "<i" / "<h" decoding inverts the encoding on the whole range ---- *)
Theorem C07_le_int32_roundtrip : forall v, (- 2 ^ 31 <= v < 2 ^ 31)%Z -> le_int32 (enc_int32 v) = Some v.
Proof. exact le_int32_roundtrip. Qed.
Theorem C07_le_int16_roundtrip : forall v, (- 2 ^ 15 <= v < 2 ^ 15)%Z -> le_int16 (enc_int16 v) = Some v.
Proof. exact le_int16_roundtrip. Qed.
Theorem C07_le_bytes_injective : forall l, bytes_ok l = true -> le_encode (length l) (le_unsigned l) = l.
Proof. exact le_encode_unsigned. Qed.

(* ---- binary32: inf/nan rejected; value 0 exactly for +-0; sign bit negates; sign clear => >= 0 ---- *)
Theorem C07_f32_rejects_inf_nan : forall w, f32_exp w = 255%Z <-> f32_of_bits w = None.
Proof. exact f32_rejects_inf_nan. Qed.
Theorem C07_f32_zero_iff : forall w v, (0 <= w < 2 ^ 32)%Z -> f32_of_bits w = Some v -> (v == 0 <-> (w mod 2 ^ 31 = 0)%Z).
Proof. exact f32_zero_iff. Qed.
Theorem C07_f32_sign_flip : forall w, (0 <= w < 2 ^ 31)%Z ->
  f32_val (w + 2 ^ 31) == - f32_val w /\ f32_exp (w + 2 ^ 31) = f32_exp w.
Proof. exact f32_sign_flip. Qed.
Theorem C07_f32_nonneg : forall w v, (0 <= w < 2 ^ 31)%Z -> f32_of_bits w = Some v -> 0 <= v.
Proof. exact f32_nonneg. Qed.

(* ---- the sweep alone, ALL inputs:
   the sweep (read_pkgs_fixed's loop) started on header tempo [init] and ANY list of tempo events
   [bpms] (non-zero values), for ANY ascending list of note measures, never fails, gives every note
   measure the integral of the beat length up to it, and gives the tempo events their running times ---- *)
Theorem C07_fixed_sweep_is_integration : forall init bpms, ~ init == 0 -> bpms_nonzero bpms ->
  forall nms, sorted_q nms ->
  exists s dict s2,
    sweep_fixed nms (mkSweep 0 0 init bpms [] None) [] = Some (s, dict)
    /\ tail_fixed (sw_rest s) s = Some s2
    /\ Forall (fun kv => snd kv == ojn_time init bpms (fst kv)) dict /\ map fst dict = nms
    /\ Forall2 Qeq (sw_done s2) (times_go (0, 0, init) bpms).
Proof. exact fixed_sweep_correct. Qed.

(* ... and for tempo events sorted by position the running time of each is the integral at its own
   position (so tempo events after the last note, and several at one position, are timed correctly) *)
Theorem C07_tempo_time_is_integral : forall l t p0 b, sorted_pos p0 l ->
  Forall2 (fun tm x => tm == ojn_time_go t p0 b l (fst x)) (times_go (t, p0, b) l) l.
Proof. exact tempo_time_is_integral. Qed.

(* ---- the oracle evaluated on implementation outputs soundly implies the declarative specification ---- *)
Theorem C07_specb_sound : forall tol f out, specb tol f out = true -> OjnSpec tol f out.
Proof. exact specb_sound. Qed.

(* ... and is COMPLETE (decides it) at tolerance 0 -- the exact stream of the harness -- and, for any tolerance,
   whenever the rows the FILE denotes are separated (decidable guard on the denotation only: rows that agree on
   column/volume/pan [tempo] are pointwise equal or more than 2 tol apart in time [4 tol in length]).  Without
   the guard it is NOT complete (greedy matcher, closeness is not transitive): refuted at tolerance 1 by two
   taps 1 ms apart against an output at +1 / -1 ms.  An incompleteness of the ORACLE is a possible false alarm,
   never a missed violation (C07_specb_sound); it is not a defect of the reader ---- *)
Theorem C07_specb_complete : forall f out, OjnSpec 0 f out -> specb 0 f out = true.
Proof. exact specb_complete_exact. Qed.
Theorem C07_specb_complete_separated : forall tol f out d,
  ojn_denote f = Some d -> den_separated tol d = true -> OjnSpec tol f out -> specb tol f out = true.
Proof. exact specb_complete_separated. Qed.
Theorem C07_den_separated_at_0 : forall d, den_separated 0 d = true.
Proof. exact den_separated_0. Qed.
Theorem C07_specb_complete_refuted :
  exists f o, wf_file f = true /\ OjnSpec 1 f (Some o) /\ specb 1 f (Some o) = false.
Proof. exact specb_complete_refuted. Qed.
Theorem C07_specb_complete_refuted_witness :
  wf_file w_greedy = true
  /\ exists d o, ojn_denote w_greedy = Some d
       /\ map om_hits (os_maps d) = [[mkHit 0 0 0 0; mkHit 0 1 0 0]; []; []]
       /\ map om_hits (os_maps o) = [[mkHit 0 1 0 0; mkHit 0 (-1) 0 0]; []; []]
       /\ OjnSpec 1 w_greedy (Some o) /\ specb 1 w_greedy (Some o) = false
       /\ den_separated 1 d = false.
Proof. exact specb_complete_refuted_witness. Qed.

(* ---- the ONE hold buffer of the file (threaded through all packages AND all difficulties): on well-formed
   files the reader equals the reader that gives every difficulty a fresh buffer (sharing unobservable); on a
   malformed file it is observable: a head left open in difficulty 0 is closed by a tail in difficulty 1
   (outside the property's domain; the harness's malformed stream checks it by correspondence) ---- *)
Theorem C07_hold_buffer_sharing_unobservable : forall f trail, wf_file f = true ->
  read_fixed (encode_file f ++ trail) = read_fresh (encode_file f ++ trail).
Proof. exact (ojn_hold_buffer_sharing_unobservable C07_layout_is_reference). Qed.
Theorem C07_open_head_closed_in_next_difficulty :
  wf_file w_leak = false
  /\ (exists o, read_fixed (encode_file w_leak) = Some o
        /\ map om_holds (os_maps o) = [[]; [mkHold 0 0 2000 0 0]; []]
        /\ map om_hits (os_maps o) = [[]; []; []])
  /\ read_fresh (encode_file w_leak) = None.
Proof. exact ojn_open_head_closed_in_next_difficulty. Qed.

(* ---- the OLD reader (read_old: the tree before 9171148 / d4c1412, kept only for this): refuted, with the
        witnesses that are replayed on the implementation on every run (corpus/C07/w_*.json) ---- *)
Theorem C07_ojn_tempo_times_refuted :
  wf_file w_sweep = true /\ exists o, read_old (encode_file w_sweep) = Some o /\ specb 0 w_sweep (Some o) = false
  /\ map om_bpms (os_maps o) = [[mkBpm 0 120; mkBpm 0 240]; [mkBpm 0 120]; [mkBpm 0 120]]
  /\ map om_hits (os_maps o) = [[mkHit 0 0 0 0; mkHit 0 4000 0 0]; []; []].
Proof. exact ojn_tempo_times_refuted. Qed.
Theorem C07_ojn_no_tempo_event_refuted :
  wf_file w_notempo = true /\ read_old (encode_file w_notempo) = None /\ ojn_denote w_notempo <> None.
Proof. exact ojn_no_tempo_event_refuted. Qed.
Theorem C07_ojn_tempo_at_measure_0_refuted :
  wf_file w_tempo0 = true /\ read_old (encode_file w_tempo0) = None /\ ojn_denote w_tempo0 <> None.
Proof. exact ojn_tempo_at_measure_0_refuted. Qed.
Theorem C07_ojn_hold_length_refuted :
  wf_file w_trunc = true
  /\ (exists o, read_with true true (encode_file w_trunc) = Some o /\ specb (1 # 1000000) w_trunc (Some o) = false
        /\ map om_holds (os_maps o) = [[mkHold 0 0 5333 0 0]; []; []])
  /\ (exists o, read_fixed (encode_file w_trunc) = Some o /\ specb 0 w_trunc (Some o) = true
        /\ map om_holds (os_maps o) = [[mkHold 0 0 (16000 # 3) 0 0]; []; []]).
Proof. exact ojn_hold_length_refuted. Qed.
Theorem C07_ojn_old_guarded_no_notes : forall pkgs init,
  Forall (fun e => is_bpm e = true) (concat pkgs) ->
  exists rows, read_pkgs_old pkgs init = Some (mkOMap [] [] (mkBpm 0 init :: rows))
    /\ Forall (fun r => b_off r = 0) rows.
Proof. exact ojn_old_guarded_no_notes. Qed.
Theorem C07_fixed_on_witnesses :
  forallb (fun f => wf_file f && specb 0 f (read_fixed (encode_file f))) [w_sweep; w_notempo; w_tempo0; w_trunc] = true.
Proof. exact ojn_fixed_on_witnesses. Qed.

(* ---- non-vacuity: a well-formed file with three difficulties, four tempo events (measure 0 slot 0,
   mid-measure 1 + 3/7, after the last note), taps and a long note spanning packages and measures on
   columns 0, 3, 6, an autoplay package and trailing bytes: the repaired reader returns exactly what the
   file denotes, and the header is decoded as laid out ---- *)
Definition ex_file : ofile :=
  mkFile w_hdr
    [[mkPkg 0 1 1 [(0, f32_240)]; mkPkg 0 2 4 [(0, tap); (3, head_)]; mkPkg 1 1 7 [(3, f32_60)];
      mkPkg 1 5 3 [(2, [5; 0; 200; 0])]; mkPkg 2 2 192 [(100, tail_)]; mkPkg 2 8 5 [(4, tap)];
      mkPkg 9 1 2 [(1, f32_240)]; mkPkg 0 12 2 [(1, tap)]];
     [mkPkg 3 4 6 [(1, head_); (5, tail_)]];
     [mkPkg 5 1 1 [(0, f32_60)]]]%Z.
Example C07_nontrivial_file :
  wf_file ex_file = true
  /\ specb 0 ex_file (read_fixed (encode_file ex_file ++ [1; 2; 3]%Z)) = true
  /\ length (encode_file ex_file) = (300 + 8 * 10 + 4 * (1 + 4 + 7 + 3 + 192 + 5 + 2 + 2 + 6 + 1))%nat
  /\ option_map (fun o => oh_title (os_hdr o)) (read_fixed (encode_file ex_file)) = Some [116]%Z.
Proof. vm_compute. auto. Qed.

(* the separation guard of C07_specb_complete_separated is satisfiable on that file at the tolerance of the
   rounded stream, and the oracle accepts the reader's output there *)
Example C07_separated_nontrivial :
  match ojn_denote ex_file with Some d => den_separated (1 # 1000000) d | None => false end = true
  /\ specb (1 # 1000000) ex_file (read_fixed (encode_file ex_file)) = true.
Proof. vm_compute. auto. Qed.
