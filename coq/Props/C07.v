(* C07 — O2Jam .ojn reading.  Property theorems only. *)
From Coq Require Import ZArith QArith List Bool.
From RV Require Import Base.PyNum Base.Bytes Formats.O2J Formats.O2JSpec Generated.Tables Proofs.O2JProofs.
Import ListNotations.

(* table obligations, re-checked against the tables regenerated from the live classes on every run *)
Theorem C07_layout_is_reference : Tables.c07.layout = ref_layout.
Proof. vm_compute. reflexivity. Qed.
Theorem C07_layout_sums_to_300 : layout_total Tables.c07.layout = 300%Z.
Proof. vm_compute. reflexivity. Qed.
