(* C14 — operations never modify their inputs; copies share no mutable state.  Property theorems only. *)
From Coq Require Import Arith NArith List Bool String.
From RV Require Import Generated.Tables Store.Store Store.Ops Store.Effects Store.EffectsInline Proofs.StoreProofs.
Import ListNotations.
Import Tables.effects.

(* Soundness of the purity analysis, for EVERY program over alloc / alias / write and any number of arguments:
   a program that only writes to objects it allocated itself leaves every argument unchanged ... *)
Theorem C14_pure_no_arg_changes : forall nargs p results,
  pure p = true -> fst (outcome nargs p results) = repeat false nargs.
Proof. exact pure_no_arg_changes. Qed.

(* ... and every result it owns is a fresh object that shares no mutable state with any argument *)
Theorem C14_fresh_no_alias : forall nargs p results,
  pure p = true -> fresh_results p results = true ->
  snd (outcome nargs p results) = map (fun _ => None) results.
Proof. exact fresh_no_alias. Qed.

(* the modelled library operations that return new values are pure with fresh results, for any number of arguments *)
Theorem C14_fresh_ops_pure : forall nargs,
  pure (fst (program KFresh nargs)) = true /\ fresh_results (fst (program KFresh nargs)) (snd (program KFresh nargs)) = true
  /\ pure (fst (program KQuery nargs)) = true.
Proof.
  intro nargs. cbn [program fst snd pure pure_from fresh_results owned_after forallb existsb].
  rewrite Nat.eqb_refl. repeat split; reflexivity.
Qed.

(* hence, by C14_pure_no_arg_changes / C14_fresh_no_alias: *)
Theorem C14_fresh_ops_spec : forall nargs,
  model_outcome KFresh nargs = spec_outcome nargs 1.
Proof.
  intro nargs. unfold model_outcome, spec_outcome. cbn [program].
  destruct (C14_fresh_ops_pure nargs) as [P [F _]]. cbn [program fst snd] in P, F.
  rewrite (surjective_pairing (outcome nargs [IAlloc nargs (seq 0 nargs)] [nargs])).
  rewrite (C14_pure_no_arg_changes _ _ _ P), (C14_fresh_no_alias _ _ _ P F). reflexivity.
Qed.

(* sequences: a sequence of pure programs run one after another on the same store is pure *)
Theorem C14_sequence_pure : forall p q own, pure_from own p = true -> pure_from (owned_after own p) q = true ->
  pure_from own (p ++ q) = true.
Proof.
  induction p as [|i p IH]; intros q own Hp Hq; [exact Hq|].
  destruct i as [d srcs|d s|d srcs]; cbn [app pure_from owned_after] in *.
  - apply IH; assumption.
  - apply IH; assumption.
  - apply andb_true_iff in Hp. destruct Hp as [Hd Hp]. rewrite Hd. cbn [andb]. apply IH; assumption.
Qed.

(* non-vacuity / refutation shape: an operation that writes into its argument before returning a fresh value
   (sv_normalize on the pinned tree: df_bpm["multiplier"] = ... on the caller's frame) is NOT pure and the model
   predicts the argument change *)
Example C14_write_then_alloc_changes_arg :
  pure [IWrite 0 [0]; IAlloc 1 [0]] = false /\ fst (outcome 1 [IWrite 0 [0]; IAlloc 1 [0]] [1]) = [true].
Proof. vm_compute. split; reflexivity. Qed.

(* ---------------------------------------------------------------------------------------------------------------
   The static tie.  Generated/Tables.v (module effects) holds, for every listed operation and every reamber function
   it reaches, the effect program harness/tables/effects.py read off the source of the tree under test.  Store/
   EffectsInline.v inlines the callees (`flat_of`) and decides `effect_pureb` / `effect_ownedb` with a may-alias
   analysis whose result is checked (Store/Effects.v: `closedb`).
   --------------------------------------------------------------------------------------------------------------- *)

(* Soundness for EVERY flat program and EVERY abstract state that passes the check: no run the program stands for
   (any sequence, in any order and multiplicity, of instances of its steps) changes the version of an argument ... *)
Theorem C14_flat_pure_sound : forall nargs p st,
  flat_pureb nargs p st = true ->
  forall t results, run_of p t -> fst (outcome nargs t results) = repeat false nargs.
Proof. exact flat_pure_sound. Qed.

(* ... and when no argument is reachable from the result in the checked state, the result is a fresh object *)
Theorem C14_flat_owned_sound : forall nargs p st ret rd,
  flat_ownedb nargs p st ret rd = true ->
  forall t, run_of p t -> outcome nargs t [nv ret] = (repeat false nargs, [None]).
Proof. exact flat_owned_sound. Qed.

(* the two decisions on a program of the generated table mean exactly that *)
Theorem C14_effect_pure_sound : forall f,
  effect_pureb f = true ->
  forall t results, run_of (flat_of c14_effects f) t -> fst (outcome (nargs_of f) t results) = repeat false (nargs_of f).
Proof. exact effect_pure_sound. Qed.

Theorem C14_effect_owned_sound : forall f,
  effect_ownedb f = true ->
  forall t, run_of (flat_of c14_effects f) t -> outcome (nargs_of f) t [nv (ef_ret f)] = (repeat false (nargs_of f), [None]).
Proof. exact effect_owned_sound. Qed.

(* operations applied one after another: a pure program keeps the run invariant from any state that satisfies it *)
Theorem C14_effect_sequence : forall nargs p st,
  flat_pureb nargs p st = true ->
  forall t e s, run_of p t -> EInv nargs st e s -> EInv nargs st (fst (run e s t)) (snd (run e s t)).
Proof. exact flat_pure_sound_from. Qed.

(* OBLIGATIONS re-checked on every run against the table generated from the source that is there now:
   every listed operation, and every protocol hook Python calls implicitly for them, is pure ... *)
Theorem C14_listed_ops_pure : forallb effect_pureb (filter obliged c14_effects) = true.
Proof. vm_compute. reflexivity. Qed.

(* ... and every operation documented as returning a copy returns an object from which no argument is reachable *)
Theorem C14_copy_ops_owned : forallb effect_ownedb (filter documented_copy c14_effects) = true.
Proof. vm_compute. reflexivity. Qed.

(* the runner's verdict table is the analysis *)
Theorem C14_verdicts_are_analysis : effect_verdicts = map (analyse c14_effects) c14_effects.
Proof. exact effect_verdicts_are_analysis. Qed.

(* non-vacuity: the table lists the operations, and the analysis refuses the shapes of the two defects C14 had:
   a write into a frame loaded from the argument (sv_normalize before ca3025e) and a result that keeps a reference
   into the argument (MapSet.rate with a shallow copy) *)
Example C14_table_lists_operations :
  existsb (fun f => String.eqb (ef_name f) "sv_normalize" && ef_listed f) c14_effects = true
  /\ existsb (fun f => String.eqb (ef_name f) "MapSet.rate" && ef_copy f) c14_effects = true
  /\ Nat.leb 50 (List.length (filter ef_listed c14_effects)) = true.
Proof. vm_compute. repeat split; reflexivity. Qed.

Example C14_analysis_refuses_arg_write :
  let p := [FLoad 2 0; FWrite 2; FAlloc 3; FAlias 1 3; FReach 4 1] in
  flat_pureb 1 p (solve 1 p) = false.
Proof. vm_compute. reflexivity. Qed.

Example C14_analysis_refuses_shared_result :
  let p := [FAlloc 2; FLoad 3 0; FWrite 2; FHold 2 3; FAlias 1 2; FReach 4 1] in
  flat_pureb 1 p (solve 1 p) = true /\ flat_ownedb 1 p (solve 1 p) 1 4 = false.
Proof. vm_compute. split; reflexivity. Qed.
