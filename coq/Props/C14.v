(* C14 — operations never modify their inputs; copies share no mutable state.  Property theorems only. *)
From Coq Require Import Arith List Bool.
From RV Require Import Store.Store Store.Ops Proofs.StoreProofs.
Import ListNotations.

(* Soundness of the purity analysis, for EVERY program over alloc / alias / write and any number of arguments:
   a program that only writes to objects it allocated itself leaves every argument unchanged ... *)
Theorem C14_pure_no_arg_changes : forall nargs p results,
  pure p = true -> fst (outcome nargs p results) = repeat false nargs.
Proof. exact pure_no_arg_changes. Qed.

(* ... and every result it owns is a fresh object that shares no mutable state with any argument *)
Theorem C14_fresh_no_alias : forall nargs p results,
  pure p = true -> fresh_results p results = true ->
  snd (outcome nargs p results) = map (fun _ => None) results.
Proof. exact fresh_no_alias. Qed.

(* the modelled library operations that return new values are pure with fresh results, for any number of arguments *)
Theorem C14_fresh_ops_pure : forall nargs,
  pure (fst (program KFresh nargs)) = true /\ fresh_results (fst (program KFresh nargs)) (snd (program KFresh nargs)) = true
  /\ pure (fst (program KQuery nargs)) = true.
Proof.
  intro nargs. cbn [program fst snd pure pure_from fresh_results owned_after forallb existsb].
  rewrite Nat.eqb_refl. repeat split; reflexivity.
Qed.

(* hence, by C14_pure_no_arg_changes / C14_fresh_no_alias: *)
Theorem C14_fresh_ops_spec : forall nargs,
  model_outcome KFresh nargs = spec_outcome nargs 1.
Proof.
  intro nargs. unfold model_outcome, spec_outcome. cbn [program].
  destruct (C14_fresh_ops_pure nargs) as [P [F _]]. cbn [program fst snd] in P, F.
  rewrite (surjective_pairing (outcome nargs [IAlloc nargs (seq 0 nargs)] [nargs])).
  rewrite (C14_pure_no_arg_changes _ _ _ P), (C14_fresh_no_alias _ _ _ P F). reflexivity.
Qed.

(* sequences: a sequence of pure programs run one after another on the same store is pure *)
Theorem C14_sequence_pure : forall p q own, pure_from own p = true -> pure_from (owned_after own p) q = true ->
  pure_from own (p ++ q) = true.
Proof.
  induction p as [|i p IH]; intros q own Hp Hq; [exact Hq|].
  destruct i as [d srcs|d s|d srcs]; cbn [app pure_from owned_after] in *.
  - apply IH; assumption.
  - apply IH; assumption.
  - apply andb_true_iff in Hp. destruct Hp as [Hd Hp]. rewrite Hd. cbn [andb]. apply IH; assumption.
Qed.

(* non-vacuity / refutation shape: an operation that writes into its argument before returning a fresh value
   (sv_normalize on the pinned tree: df_bpm["multiplier"] = ... on the caller's frame) is NOT pure and the model
   predicts the argument change *)
Example C14_write_then_alloc_changes_arg :
  pure [IWrite 0 [0]; IAlloc 1 [0]] = false /\ fst (outcome 1 [IWrite 0 [0]; IAlloc 1 [0]] [1]) = [true].
Proof. vm_compute. split; reflexivity. Qed.
