(* C01 — osu!mania .osu read/write.  Property theorems only: each is closed by [exact] from
   Proofs/Osu{Proofs,Read,Write,Whole}.v, or is a finite table obligation re-checked by computation against
   Generated/Tables.v (regenerated from the live code on every run).
   WHOLE-FILE theorems first (C01_osu_...), then the line-level theorems they are built from. *)
From Coq Require Import String Ascii.
From Coq Require Import ZArith QArith Qround Qabs List Bool.
From RV Require Import Base.PyNum Base.Text Formats.Osu Formats.OsuSpec Generated.Tables Proofs.OsuProofs.
From RV Require Import Proofs.OsuRead Proofs.OsuWrite Proofs.OsuWhole.
Import ListNotations.
Open Scope Z_scope.

(* ======================================================================================================
   WHOLE FILES.  Domains are the boolean predicates the correspondence runner evaluates as wf:
   read_domain text = wf_read_text text && strict_read_text text;  write_domain chart ut ua (nothing is demanded of the
   transliterations ut / ua: the writer replaces their line feeds by blanks, [one_line]).
   The float printers (repr, ':g', str) are oracles: universally quantified functions with their assumed
   behaviour as explicit hypotheses (what they print reads back as the value printed, on the numbers
   declared printable); the *_dec6 theorems are the instance "fixed point with 6 decimals", no hypothesis left.
   ====================================================================================================== *)
(* read_denotes: on every text of the read dialect with the strict layout the reader returns EXACTLY the
   chart the format's reference semantics denotes (all sections: the 30 attributes incl. values with colons,
   background, sample events, tempo points / SVs with code -> value, hits / holds with x -> column for the
   file's key count and end time); absent attributes keep the dataclass defaults *)
Theorem C01_osu_read_denotes : forall lines,
  wf_read_text lines = true -> strict_read_text lines = true ->
  exists d, osu_denote lines = Some d /\ osu_read lines = Some (realize d).
Proof. exact osu_read_denotes. Qed.
(* in the form the runner evaluates on the implementation's output *)
Theorem C01_osu_read_denotes_bool : forall tol lines, (0 <= tol)%Q -> read_domain lines = true ->
  match osu_denote lines, osu_read lines with
  | Some d, Some c => denotes tol d c = true
  | _, _ => False
  end.
Proof. exact osu_read_denotes_bool. Qed.
(* every clause of strict_read_text is necessary: texts of the read dialect on which the reader does NOT
   return the denoted chart (it is not section aware and classifies lines by shape) *)
Theorem C01_read_refuted_foreign_section : wf_read_text w_foreign_section = true /\ disagree w_foreign_section = true.
Proof. exact read_refuted_foreign_section. Qed.
Theorem C01_read_refuted_key_without_colon : wf_read_text w_key_without_colon = true /\ osu_read w_key_without_colon = None.
Proof. exact read_refuted_key_without_colon. Qed.
Theorem C01_read_refuted_overridden_ill_typed : wf_read_text w_overridden_ill_typed = true /\ osu_read w_overridden_ill_typed = None.
Proof. exact read_refuted_overridden_ill_typed. Qed.
Theorem C01_read_refuted_tags_tab : wf_read_text w_tags_tab = true /\ disagree w_tags_tab = true /\
  option_map (fun c => meta_tags (c_meta c) 21) (osu_read w_tags_tab) = Some [t "a"; []; t "b"].
Proof. exact read_refuted_tags_tab. Qed.
Theorem C01_read_refuted_two_bg_markers : wf_read_text w_two_bg_markers = true /\ disagree w_two_bg_markers = true.
Proof. exact read_refuted_two_bg_markers. Qed.
Theorem C01_read_refuted_marker_with_colon : wf_read_text w_marker_with_colon = true /\
  option_map c_bg (osu_read w_marker_with_colon) = Some (t "a.png") /\
  option_map (fun d => c_bg (realize d)) (osu_denote w_marker_with_colon) = Some [].
Proof. exact read_refuted_marker_with_colon. Qed.
Theorem C01_read_refuted_marker_outside_events : wf_read_text w_marker_outside_events = true /\
  option_map c_bg (osu_read w_marker_outside_events) = Some (t "a.png") /\
  option_map (fun d => c_bg (realize d)) (osu_denote w_marker_outside_events) = Some [].
Proof. exact read_refuted_marker_outside_events. Qed.
Theorem C01_read_refuted_sample_prefix : wf_read_text w_sample_prefix = true /\ disagree w_sample_prefix = true.
Proof. exact read_refuted_sample_prefix. Qed.
Theorem C01_read_refuted_sample_bare : wf_read_text w_sample_bare = true /\ osu_read w_sample_bare = None.
Proof. exact read_refuted_sample_bare. Qed.
Theorem C01_read_refuted_uninherited_not_literal : wf_read_text w_uninherited_not_literal = true /\
  disagree w_uninherited_not_literal = true /\
  option_map (fun c => length (c_bpms c)) (osu_read w_uninherited_not_literal) = Some 0%nat /\
  option_map (fun d => length (d_bpms d)) (osu_denote w_uninherited_not_literal) = Some 1%nat.
Proof. exact read_refuted_uninherited_not_literal. Qed.
Theorem C01_read_refuted_colours_timing_shape : wf_read_text w_colours_timing_shape = true /\
  disagree w_colours_timing_shape = true.
Proof. exact read_refuted_colours_timing_shape. Qed.

(* write_wf: the text of the written file is well formed *)
Theorem C01_osu_write_wf : forall (show_num show_inum : Q -> text) (printable iprintable : Q -> bool),
  (forall q, printable q = true -> parse_dec (show_num q) = Some (Qred q)) ->
  (forall q, iprintable q = true -> parse_int (show_inum q) = Some (Qfloor q)) ->
  forall c ut ua, wdom printable iprintable c ut ua = true ->
  exists text, written show_num show_inum c ut ua = Some text /\ wf_osu_text text = true.
Proof. exact osu_write_wf. Qed.
(* write_denotes: it denotes the chart with note / sample / preview times truncated toward zero, columns exact,
   every attribute present, no row dropped or merged (rows up to order) *)
Theorem C01_osu_write_denotes : forall (show_num show_inum : Q -> text) (printable iprintable : Q -> bool),
  (forall q, printable q = true -> parse_dec (show_num q) = Some (Qred q)) ->
  (forall q, iprintable q = true -> parse_int (show_inum q) = Some (Qfloor q)) ->
  forall c ut ua, wdom printable iprintable c ut ua = true ->
  exists text d, written show_num show_inum c ut ua = Some text /\ osu_denote text = Some d /\
                 all_present d = true /\ denotes 0 d (written_chart c ut ua) = true /\
                 write_specb 0 c ut ua text = true.
Proof. exact osu_write_denotes. Qed.
(* read after write: the written text is in the domain of the read theorem and is read back as the explicit
   chart [canon] = the chart written, times truncated, rows in written order, numbers in lowest terms *)
Theorem C01_osu_read_after_write : forall (show_num show_inum : Q -> text) (printable iprintable : Q -> bool),
  (forall q, printable q = true -> parse_dec (show_num q) = Some (Qred q)) ->
  (forall q, iprintable q = true -> parse_int (show_inum q) = Some (Qfloor q)) ->
  forall c ut ua, wdom printable iprintable c ut ua = true ->
  exists text, written show_num show_inum c ut ua = Some text /\ read_domain text = true /\
               osu_read text = Some (canon c (one_line ut) (one_line ua)) /\
               denotes 0 (den_of c (one_line ut) (one_line ua)) (written_chart c ut ua) = true /\
               realize (den_of c (one_line ut) (one_line ua)) = canon c (one_line ut) (one_line ua).
Proof. exact osu_read_after_write. Qed.
(* no drift: generation 2 denotes the chart generation 1 denotes (rows whose times became equal by truncation
   may be reordered once: holds before hits) and generation 3 IS generation 2, character for character *)
Theorem C01_generation_stable : forall (show_num show_inum : Q -> text) (printable iprintable : Q -> bool),
  (forall q, printable q = true -> parse_dec (show_num q) = Some (Qred q)) ->
  (forall q, iprintable q = true -> parse_int (show_inum q) = Some (Qfloor q)) ->
  (forall q q', (q == q')%Q -> printable q = printable q') ->
  (forall q q', (q == q')%Q -> iprintable q = iprintable q') ->
  forall c ut ua, wdom printable iprintable c ut ua = true ->
  exists g1 g2, written show_num show_inum c ut ua = Some g1 /\ regen_with show_num show_inum g1 = Some g2 /\
                wf_osu_text g2 = true /\ same_denotation 0 g1 g2 = true /\
                regen_with show_num show_inum g2 = Some g2.
Proof. exact osu_generation_stable. Qed.
(* the same four, for the concrete printer "fixed point, 6 decimals" (no hypothesis left) *)
Theorem C01_osu_write_wf_dec6 : forall c ut ua, wdom6 c ut ua = true ->
  exists text, written6 c ut ua = Some text /\ wf_osu_text text = true.
Proof. exact osu_write_wf_dec6. Qed.
Theorem C01_osu_write_denotes_dec6 : forall c ut ua, wdom6 c ut ua = true ->
  exists text d, written6 c ut ua = Some text /\ osu_denote text = Some d /\
                 all_present d = true /\ denotes 0 d (written_chart c ut ua) = true /\ write_specb 0 c ut ua text = true.
Proof. exact osu_write_denotes_dec6. Qed.
Theorem C01_osu_read_after_write_dec6 : forall c ut ua, wdom6 c ut ua = true ->
  exists text, written6 c ut ua = Some text /\ read_domain text = true /\ osu_read text = Some (canon c (one_line ut) (one_line ua)) /\
               denotes 0 (den_of c (one_line ut) (one_line ua)) (written_chart c ut ua) = true /\
               realize (den_of c (one_line ut) (one_line ua)) = canon c (one_line ut) (one_line ua).
Proof. exact osu_read_after_write_dec6. Qed.
Theorem C01_generation_stable_dec6 : forall c ut ua, wdom6 c ut ua = true ->
  exists g1 g2, written6 c ut ua = Some g1 /\ regen6 g1 = Some g2 /\ wf_osu_text g2 = true /\
                same_denotation 0 g1 g2 = true /\ regen6 g2 = Some g2.
Proof. exact osu_generation_stable_dec6. Qed.
(* HISTORICAL, about the OLD writer only (before repo commit fde22cd): unidecode maps U+2028 / U+2029 to line feeds and the
   old writer wrote such a Title on two lines: the text did not denote the chart, the title came back as "x" and
   everything after it was lost *)
Theorem C01_write_title_linefeed_OLD_refuted :
  wf_chart linefeed_chart = true /\ kinds_ok key_table (c_meta linefeed_chart) = true /\
  match written6_OLD linefeed_chart linefeed_ut [] with
  | Some text => (wf_osu_text text && match osu_denote text with
                                      | Some d => denotes 0 d (written_chart_raw linefeed_chart linefeed_ut []) | None => false end) = false /\
                 option_map (fun c => (meta_str (c_meta c) IX_TITLE, meta_str (c_meta c) 15)) (osu_read text) = Some ([120], [])
  | None => False
  end.
Proof. exact write_title_linefeed_OLD_refuted. Qed.
(* the current writer: the former failing input is inside the domain, written on one line and read back whole *)
Theorem C01_write_title_linefeed_current :
  wdom6 linefeed_chart linefeed_ut [] = true /\
  match written6 linefeed_chart linefeed_ut [] with
  | Some text => write_specb 0 linefeed_chart linefeed_ut [] text = true /\
                 option_map (fun c => (meta_str (c_meta c) IX_TITLE, meta_str (c_meta c) 15)) (osu_read text)
                 = Some (t "x [TimingPoints]", t "u")
  | None => False
  end.
Proof. exact write_title_linefeed_current. Qed.
(* non-vacuity of the domains: a concrete 7K text (hold, SV and tempo point, metadata value with colons,
   background with a colon, a sample event, [Colours], blank lines) and a concrete 7K chart (fractional and
   negative times, a hold / hit tie after truncation, decimal attributes, a sample event) *)
Example C01_example_text_in_domain :
  read_domain example_text = true /\
  option_map (fun c => (length (c_hits c), length (c_holds c), length (c_bpms c), length (c_svs c), length (c_samples c),
                        map n_col (c_hits c ++ c_holds c), meta_str (c_meta c) IX_TITLE))
             (osu_read example_text)
  = Some (1%nat, 1%nat, 1%nat, 1%nat, 1%nat, [0; 6], t "Re:Zero - Starting: Life").
Proof. exact example_text_in_domain. Qed.
Example C01_example_chart_in_domain :
  wdom6 example_chart7 (t "Re:Zero ") [] = true /\
  match written6 example_chart7 (t "Re:Zero ") [] with
  | Some g1 => write_specb 0 example_chart7 (t "Re:Zero ") [] g1 = true /\ read_domain g1 = true /\
               match regen6 g1 with
               | Some g2 => list_eqb text_eqb g1 g2 = false /\ same_denotation 0 g1 g2 = true /\
                            match regen6 g2 with Some g3 => list_eqb text_eqb g2 g3 = true | None => False end
               | None => False end
  | None => False
  end.
Proof. exact example_chart_in_domain. Qed.
(* the witnesses of the refutations are outside the strict layout; the two former defect inputs are inside *)
Theorem C01_refutation_witnesses_not_strict :
  forallb (fun w => negb (strict_read_text w))
    [w_foreign_section; w_key_without_colon; w_overridden_ill_typed; w_tags_tab; w_two_bg_markers; w_marker_with_colon;
     w_marker_outside_events; w_sample_prefix; w_sample_bare; w_uninherited_not_literal; w_colours_timing_shape] = true.
Proof. exact refutation_witnesses_not_strict. Qed.
Theorem C01_corpus_in_domain : read_domain colon_witness = true /\ read_domain xcol_witness = true.
Proof. exact corpus_in_domain. Qed.

(* ---- table obligations (live interpreter / live reamber functions = the constants the model uses) ---- *)
Theorem C01_tables_whitespace : Tables.c01.py_space = Text.py_space.
Proof. vm_compute. reflexivity. Qed.
(* exhaustive: OsuNoteMeta.x_axis_to_column(x, keys) for keys 1..18, x_lo <= x < x_hi equals the model *)
Theorem C01_tables_xcol :
  map (fun k => map (fun x => x_to_col x k) (zrange Tables.c01.x_lo (Z.to_nat (Tables.c01.x_hi - Tables.c01.x_lo)))) keys_range
  = Tables.c01.xcol.
Proof. vm_compute. reflexivity. Qed.
Theorem C01_tables_colx :
  map (fun k => map (fun c => col_to_x c k) (zrange 0 (Z.to_nat k))) keys_range = Tables.c01.colx.
Proof. vm_compute. reflexivity. Qed.
Theorem C01_tables_sampleset :
  Tables.c01.sampleset_names = sampleset_names /\ Tables.c01.sampleset_invalid = sampleset_from_string (t "nonsense").
Proof. vm_compute. split; reflexivity. Qed.

(* ---- column <-> x: EVERY integer x; every key count (1..18 where a finite sweep is used) ---- *)
Theorem C01_x_col_inverse : forall k c, 1 <= k <= 18 -> 0 <= c < k -> x_to_col (col_to_x c k) k = c.
Proof. exact x_col_inverse. Qed.
Theorem C01_col_to_x_in_range : forall k c, 1 <= k <= 18 -> 0 <= c < k -> in_column_range (col_to_x c k) c k.
Proof. exact col_to_x_in_range. Qed.
Theorem C01_col_to_x_centre : forall c k, 0 < k -> col_to_x c k = centre_of c k.
Proof. exact col_to_x_centre. Qed.
(* the reader's column is the format's column clamp(floor(x*keys/512)), no exception *)
Theorem C01_x_to_col_exact : forall k x, x_to_col x k = column_of x k.
Proof. exact x_to_col_exact. Qed.
(* every x inside a column's range maps to that column *)
Theorem C01_x_in_range_col : forall k x c, 0 <= c < k -> in_column_range x c k -> x_to_col x k = c.
Proof. exact x_in_range_col. Qed.
Theorem C01_x_clamped : forall k x, 1 <= k ->
  (x < 0 -> x_to_col x k = 0) /\ (512 <= x -> x_to_col x k = k - 1).
Proof. exact x_clamped. Qed.
(* historical: the variant before repo commit 36d1b4c (binary64 divisor 512/keys) failed at keys=10, x=256 *)
Theorem C01_old_x_in_range_col_refuted :
  exists k x c, 1 <= k <= 18 /\ 0 <= c < k /\ in_column_range x c k /\ OldColumn.x_to_col_old x k <> c.
Proof. exact OldColumn.old_x_in_range_col_refuted. Qed.

(* ---- value <-> code ---- *)
Theorem C01_bpm_code_value_inverse : forall v : Q, ~ (v == 0)%Q -> (60000 / (60000 / v) == v)%Q.
Proof. exact bpm_code_value_inverse. Qed.
Theorem C01_sv_code_value_inverse : forall v : Q, ~ (v == 0)%Q -> ((-100) / ((-100) / v) == v)%Q.
Proof. exact sv_code_value_inverse. Qed.

(* ---- int() truncation: toward zero by < 1 ms, idempotent (no drift) ---- *)
Theorem C01_trunc_toward_zero : forall x : Q, time_moved_toward_zero x (inject_Z (qtrunc x)).
Proof. exact trunc_toward_zero. Qed.
Theorem C01_trunc_idem : forall x : Q, qtrunc (inject_Z (qtrunc x)) = qtrunc x.
Proof. exact trunc_idem. Qed.

(* ---- note lines: write_wf / read-back / generations (line level) ---- *)
Theorem C01_write_hit_classified : forall n k, sep_free (n_file n) ->
  is_hit (write_hit n k) = true /\ is_hold (write_hit n k) = false.
Proof. exact write_hit_classified. Qed.
Theorem C01_write_hold_classified : forall n k, sep_free (n_file n) ->
  is_hold (write_hold n k) = true /\ is_hit (write_hold n k) = false.
Proof. exact write_hold_classified. Qed.
Theorem C01_read_write_hit : forall n k, sep_free (n_file n) ->
  exists m, read_hit (write_hit n k) k = Some m /\
    (n_off m == inject_Z (qtrunc (n_off n)))%Q /\ n_col m = x_to_col (col_to_x (n_col n) k) k /\
    n_hs m = n_hs n /\ n_ss m = n_ss n /\ n_as m = n_as n /\ n_cs m = n_cs n /\ n_vol m = n_vol n /\
    n_file m = n_file n.
Proof. exact read_write_hit. Qed.
Theorem C01_read_write_hold : forall n k, sep_free (n_file n) ->
  exists m, read_hold (write_hold n k) k = Some m /\
    (n_off m == inject_Z (qtrunc (n_off n)))%Q /\
    (n_off m + n_len m == inject_Z (qtrunc (n_off n + n_len n)))%Q /\
    n_col m = x_to_col (col_to_x (n_col n) k) k /\
    n_hs m = n_hs n /\ n_ss m = n_ss n /\ n_as m = n_as n /\ n_cs m = n_cs n /\ n_vol m = n_vol n /\
    n_file m = n_file n.
Proof. exact read_write_hold. Qed.
Theorem C01_read_write_hit_column : forall n k, 1 <= k <= 18 -> 0 <= n_col n < k -> sep_free (n_file n) ->
  exists m, read_hit (write_hit n k) k = Some m /\ n_col m = n_col n.
Proof. exact read_write_hit_column. Qed.
Theorem C01_write_hit_generation : forall n m k,
  (n_off m == inject_Z (qtrunc (n_off n)))%Q -> n_col m = n_col n -> n_hs m = n_hs n -> n_ss m = n_ss n ->
  n_as m = n_as n -> n_cs m = n_cs n -> n_vol m = n_vol n -> n_file m = n_file n ->
  write_hit m k = write_hit n k.
Proof. exact write_hit_generation. Qed.
Theorem C01_write_hold_generation : forall n m k,
  (n_off m == inject_Z (qtrunc (n_off n)))%Q ->
  (n_off m + n_len m == inject_Z (qtrunc (n_off n + n_len n)))%Q ->
  n_col m = n_col n -> n_hs m = n_hs n -> n_ss m = n_ss n ->
  n_as m = n_as n -> n_cs m = n_cs n -> n_vol m = n_vol n -> n_file m = n_file n ->
  write_hold m k = write_hold n k.
Proof. exact write_hold_generation. Qed.

(* ---- metadata values: EVERYTHING after the FIRST colon (values may contain ':') ---- *)
Theorem C01_meta_value_first_colon : forall key v, ~ In COLON key ->
  hd [] (split_once COLON (key ++ COLON :: v)) = key /\
  nth_text (split_once COLON (key ++ COLON :: v)) 1 = Some v /\
  cut_first COLON (key ++ COLON :: v) = Some (key, v).
Proof. exact meta_value_first_colon. Qed.
Theorem C01_meta_line_cut : forall line,
  match cut_first COLON line with
  | Some (k, v) => hd [] (split_once COLON line) = k /\ nth_text (split_once COLON line) 1 = Some v
  | None => hd [] (split_once COLON line) = line /\ nth_text (split_once COLON line) 1 = None
  end.
Proof. exact meta_line_cut. Qed.
(* historical: the parse before repo commit ac204a5 (line.split(":")) truncated at the second colon *)
Theorem C01_old_meta_value_truncated : forall key v1 v2, ~ In COLON key -> ~ In COLON v1 ->
  nth_text (split_on COLON (key ++ COLON :: v1 ++ COLON :: v2)) 1 = Some v1 /\
  cut_first COLON (key ++ COLON :: v1 ++ COLON :: v2) = Some (key, v1 ++ COLON :: v2).
Proof. exact old_meta_value_truncated. Qed.
(* the two former failing inputs are read as the format defines *)
Theorem C01_colon_value_reads :
  wf_read_text colon_witness = true /\
  match osu_read colon_witness, osu_denote colon_witness with
  | Some c, Some d => denotes 0 d c = true /\ meta_str (c_meta c) IX_TITLE = t "Re:Zero"
  | _, _ => False
  end.
Proof. exact colon_value_reads. Qed.
Theorem C01_boundary_column_reads :
  wf_read_text xcol_witness = true /\
  match osu_read xcol_witness, osu_denote xcol_witness with
  | Some c, Some d => denotes 0 d c = true /\ map n_col (c_hits c) = [5]
  | _, _ => False
  end.
Proof. exact boundary_column_reads. Qed.

(* ---- read_denotes at line level: reader = format on EVERY classified line; section split ---- *)
Theorem C01_read_bpm_denotes : forall l, is_timing_point l = true -> effects_01 l ->
  denote_tp l = option_map TPBpm (read_bpm l).
Proof. exact read_bpm_denotes. Qed.
Theorem C01_read_sv_denotes : forall l, is_slider_velocity l = true -> effects_01 l -> meter_numeric l ->
  denote_tp l = option_map TPSv (read_sv l).
Proof. exact read_sv_denotes. Qed.
Theorem C01_read_hit_denotes : forall l k, is_hit l = true ->
  forall f0 f1 f2 f3 f4 ps, split_on COMMA l = [f0; f1; f2; f3; f4; ps] ->
  strip ps = ps -> length (split_on COLON ps) = 5%nat ->
  (exists y, py_int f1 = Some y) ->
  (exists ty, py_int f3 = Some ty /\ Z.testbit ty 7 = false /\ Z.testbit ty 0 = true) ->
  denote_ho k l = option_map HHit (read_hit l k).
Proof. exact read_hit_denotes. Qed.
Theorem C01_read_hold_denotes : forall l k, is_hold l = true ->
  forall f0 f1 f2 f3 f4 ps, split_on COMMA l = [f0; f1; f2; f3; f4; ps] ->
  strip ps = ps -> length (split_on COLON ps) = 6%nat ->
  (exists y, py_int f1 = Some y) ->
  (exists ty, py_int f3 = Some ty /\ Z.testbit ty 7 = true) ->
  denote_ho k l = option_map HHold (read_hold l k).
Proof. exact read_hold_denotes. Qed.
Theorem C01_section_split : forall pre tps hos,
  ~ In TP_HEADER pre -> ~ In HO_HEADER pre -> ~ In HO_HEADER tps ->
  (forall l, In l tps -> is_header l = false) -> (forall l, In l hos -> is_header l = false) ->
  let lines := pre ++ TP_HEADER :: tps ++ HO_HEADER :: hos in
  exists ix_tp ix_ho,
    index_of TP_HEADER lines = Some ix_tp /\ index_of HO_HEADER lines = Some ix_ho /\
    py_slice_to lines ix_tp = pre /\
    py_slice lines (ix_tp + 1) ix_ho = tps /\ py_slice_from lines (ix_ho + 1) = hos /\
    section TP_HEADER lines = Some tps /\ section HO_HEADER lines = Some hos.
Proof. exact section_split. Qed.

(* ---- text library facts the codec theorems rest on ---- *)
Theorem C01_int_codec : forall z, py_int (show_int z) = Some z.
Proof. exact py_int_show_int. Qed.
Theorem C01_float_of_int_text : forall z, exists q, py_float (show_int z) = Some q /\ (q == inject_Z z)%Q.
Proof. exact py_float_show_int. Qed.
Theorem C01_fixed_point_codec : forall m k, (k <> 0)%nat ->
  exists q, parse_dec (show_fixed m k) = Some q /\ (q == inject_Z m / inject_Z (10 ^ Z.of_nat k))%Q.
Proof. exact parse_dec_show_fixed. Qed.
Theorem C01_split_join : forall c l, l <> [] -> Forall (fun p => ~ In c p) l -> split_on c (join c l) = l.
Proof. exact split_join. Qed.

(* ---- non-vacuity: a concrete 7K chart with negative / fractional times, a ':' in the title, a sample,
        a tempo point and an SV: the written text is well-formed and denotes the chart; generations ---- *)
Example C01_example_write_denotes :
  match osu_write example_chart (t "Re:Zero") [] with
  | Some wl => write_specb 0 example_chart (t "Re:Zero") [] (file_lines (render wl)) = true
  | None => False
  end.
Proof. exact example_write_denotes. Qed.
Example C01_example_no_drift :
  match osu_write example_chart (t "Re;Zero") [] with
  | Some wl => let g1 := render wl in
               match regen g1 with
               | Some g2 => same_denotation 0 (file_lines g1) (file_lines g2) = true
                            /\ list_eqb text_eqb g1 g2 = false
                            /\ match regen g2 with Some g3 => list_eqb text_eqb g2 g3 = true | None => False end
               | None => False end
  | None => False
  end.
Proof. exact example_no_drift. Qed.
