(* C01 — osu!mania read/write.  Property theorems only. *)
From Coq Require Import String Ascii.
From Coq Require Import ZArith QArith Qround Qabs List Bool.
From RV Require Import Base.PyNum Base.Text Formats.Osu Formats.OsuSpec Generated.Tables Proofs.OsuProofs.
Import ListNotations.
Open Scope Z_scope.

Theorem C01_tables_whitespace : Tables.c01.py_space = Text.py_space.
Proof. vm_compute. reflexivity. Qed.
