(* C01 — osu!mania .osu read/write.  Property theorems only: each is closed by [exact] from
   Proofs/OsuProofs.v, or is a finite table obligation re-checked by computation against
   Generated/Tables.v (regenerated from the live code on every run). *)
From Coq Require Import String Ascii.
From Coq Require Import ZArith QArith Qround Qabs List Bool.
From RV Require Import Base.PyNum Base.Text Formats.Osu Formats.OsuSpec Generated.Tables Proofs.OsuProofs.
Import ListNotations.
Open Scope Z_scope.

(* ---- table obligations (live interpreter / live reamber functions = the constants the model uses) ---- *)
Theorem C01_tables_whitespace : Tables.c01.py_space = Text.py_space.
Proof. vm_compute. reflexivity. Qed.
(* exhaustive: OsuNoteMeta.x_axis_to_column(x, keys) for keys 1..18, x_lo <= x < x_hi equals the model *)
Theorem C01_tables_xcol :
  map (fun k => map (fun x => x_to_col x k) (zrange Tables.c01.x_lo (Z.to_nat (Tables.c01.x_hi - Tables.c01.x_lo)))) keys_range
  = Tables.c01.xcol.
Proof. vm_compute. reflexivity. Qed.
Theorem C01_tables_colx :
  map (fun k => map (fun c => col_to_x c k) (zrange 0 (Z.to_nat k))) keys_range = Tables.c01.colx.
Proof. vm_compute. reflexivity. Qed.
Theorem C01_tables_sampleset :
  Tables.c01.sampleset_names = sampleset_names /\ Tables.c01.sampleset_invalid = sampleset_from_string (t "nonsense").
Proof. vm_compute. split; reflexivity. Qed.

(* ---- column <-> x: EVERY integer x; every key count (1..18 where a finite sweep is used) ---- *)
Theorem C01_x_col_inverse : forall k c, 1 <= k <= 18 -> 0 <= c < k -> x_to_col (col_to_x c k) k = c.
Proof. exact x_col_inverse. Qed.
Theorem C01_col_to_x_in_range : forall k c, 1 <= k <= 18 -> 0 <= c < k -> in_column_range (col_to_x c k) c k.
Proof. exact col_to_x_in_range. Qed.
Theorem C01_col_to_x_centre : forall c k, 0 < k -> col_to_x c k = centre_of c k.
Proof. exact col_to_x_centre. Qed.
(* the reader's column is the format's column clamp(floor(x*keys/512)), no exception *)
Theorem C01_x_to_col_exact : forall k x, x_to_col x k = column_of x k.
Proof. exact x_to_col_exact. Qed.
(* every x inside a column's range maps to that column *)
Theorem C01_x_in_range_col : forall k x c, 0 <= c < k -> in_column_range x c k -> x_to_col x k = c.
Proof. exact x_in_range_col. Qed.
Theorem C01_x_clamped : forall k x, 1 <= k ->
  (x < 0 -> x_to_col x k = 0) /\ (512 <= x -> x_to_col x k = k - 1).
Proof. exact x_clamped. Qed.
(* historical: the variant before repo commit 36d1b4c (binary64 divisor 512/keys) failed at keys=10, x=256 *)
Theorem C01_old_x_in_range_col_refuted :
  exists k x c, 1 <= k <= 18 /\ 0 <= c < k /\ in_column_range x c k /\ OldColumn.x_to_col_old x k <> c.
Proof. exact OldColumn.old_x_in_range_col_refuted. Qed.

(* ---- value <-> code ---- *)
Theorem C01_bpm_code_value_inverse : forall v : Q, ~ (v == 0)%Q -> (60000 / (60000 / v) == v)%Q.
Proof. exact bpm_code_value_inverse. Qed.
Theorem C01_sv_code_value_inverse : forall v : Q, ~ (v == 0)%Q -> ((-100) / ((-100) / v) == v)%Q.
Proof. exact sv_code_value_inverse. Qed.

(* ---- int() truncation: toward zero by < 1 ms, idempotent (no drift) ---- *)
Theorem C01_trunc_toward_zero : forall x : Q, time_moved_toward_zero x (inject_Z (qtrunc x)).
Proof. exact trunc_toward_zero. Qed.
Theorem C01_trunc_idem : forall x : Q, qtrunc (inject_Z (qtrunc x)) = qtrunc x.
Proof. exact trunc_idem. Qed.

(* ---- note lines: write_wf / read-back / generations (line level) ---- *)
Theorem C01_write_hit_classified : forall n k, sep_free (n_file n) ->
  is_hit (write_hit n k) = true /\ is_hold (write_hit n k) = false.
Proof. exact write_hit_classified. Qed.
Theorem C01_write_hold_classified : forall n k, sep_free (n_file n) ->
  is_hold (write_hold n k) = true /\ is_hit (write_hold n k) = false.
Proof. exact write_hold_classified. Qed.
Theorem C01_read_write_hit : forall n k, sep_free (n_file n) ->
  exists m, read_hit (write_hit n k) k = Some m /\
    (n_off m == inject_Z (qtrunc (n_off n)))%Q /\ n_col m = x_to_col (col_to_x (n_col n) k) k /\
    n_hs m = n_hs n /\ n_ss m = n_ss n /\ n_as m = n_as n /\ n_cs m = n_cs n /\ n_vol m = n_vol n /\
    n_file m = n_file n.
Proof. exact read_write_hit. Qed.
Theorem C01_read_write_hold : forall n k, sep_free (n_file n) ->
  exists m, read_hold (write_hold n k) k = Some m /\
    (n_off m == inject_Z (qtrunc (n_off n)))%Q /\
    (n_off m + n_len m == inject_Z (qtrunc (n_off n + n_len n)))%Q /\
    n_col m = x_to_col (col_to_x (n_col n) k) k /\
    n_hs m = n_hs n /\ n_ss m = n_ss n /\ n_as m = n_as n /\ n_cs m = n_cs n /\ n_vol m = n_vol n /\
    n_file m = n_file n.
Proof. exact read_write_hold. Qed.
Theorem C01_read_write_hit_column : forall n k, 1 <= k <= 18 -> 0 <= n_col n < k -> sep_free (n_file n) ->
  exists m, read_hit (write_hit n k) k = Some m /\ n_col m = n_col n.
Proof. exact read_write_hit_column. Qed.
Theorem C01_write_hit_generation : forall n m k,
  (n_off m == inject_Z (qtrunc (n_off n)))%Q -> n_col m = n_col n -> n_hs m = n_hs n -> n_ss m = n_ss n ->
  n_as m = n_as n -> n_cs m = n_cs n -> n_vol m = n_vol n -> n_file m = n_file n ->
  write_hit m k = write_hit n k.
Proof. exact write_hit_generation. Qed.
Theorem C01_write_hold_generation : forall n m k,
  (n_off m == inject_Z (qtrunc (n_off n)))%Q ->
  (n_off m + n_len m == inject_Z (qtrunc (n_off n + n_len n)))%Q ->
  n_col m = n_col n -> n_hs m = n_hs n -> n_ss m = n_ss n ->
  n_as m = n_as n -> n_cs m = n_cs n -> n_vol m = n_vol n -> n_file m = n_file n ->
  write_hold m k = write_hold n k.
Proof. exact write_hold_generation. Qed.

(* ---- metadata values: EVERYTHING after the FIRST colon (values may contain ':') ---- *)
Theorem C01_meta_value_first_colon : forall key v, ~ In COLON key ->
  hd [] (split_once COLON (key ++ COLON :: v)) = key /\
  nth_text (split_once COLON (key ++ COLON :: v)) 1 = Some v /\
  cut_first COLON (key ++ COLON :: v) = Some (key, v).
Proof. exact meta_value_first_colon. Qed.
Theorem C01_meta_line_cut : forall line,
  match cut_first COLON line with
  | Some (k, v) => hd [] (split_once COLON line) = k /\ nth_text (split_once COLON line) 1 = Some v
  | None => hd [] (split_once COLON line) = line /\ nth_text (split_once COLON line) 1 = None
  end.
Proof. exact meta_line_cut. Qed.
(* historical: the parse before repo commit ac204a5 (line.split(":")) truncated at the second colon *)
Theorem C01_old_meta_value_truncated : forall key v1 v2, ~ In COLON key -> ~ In COLON v1 ->
  nth_text (split_on COLON (key ++ COLON :: v1 ++ COLON :: v2)) 1 = Some v1 /\
  cut_first COLON (key ++ COLON :: v1 ++ COLON :: v2) = Some (key, v1 ++ COLON :: v2).
Proof. exact old_meta_value_truncated. Qed.
(* the two former failing inputs are read as the format defines *)
Theorem C01_colon_value_reads :
  wf_read_text colon_witness = true /\
  match osu_read colon_witness, osu_denote colon_witness with
  | Some c, Some d => denotes 0 d c = true /\ meta_str (c_meta c) IX_TITLE = t "Re:Zero"
  | _, _ => False
  end.
Proof. exact colon_value_reads. Qed.
Theorem C01_boundary_column_reads :
  wf_read_text xcol_witness = true /\
  match osu_read xcol_witness, osu_denote xcol_witness with
  | Some c, Some d => denotes 0 d c = true /\ map n_col (c_hits c) = [5]
  | _, _ => False
  end.
Proof. exact boundary_column_reads. Qed.

(* ---- read_denotes at line level: reader = format on EVERY classified line; section split ---- *)
Theorem C01_read_bpm_denotes : forall l, is_timing_point l = true -> effects_01 l ->
  denote_tp l = option_map TPBpm (read_bpm l).
Proof. exact read_bpm_denotes. Qed.
Theorem C01_read_sv_denotes : forall l, is_slider_velocity l = true -> effects_01 l -> meter_numeric l ->
  denote_tp l = option_map TPSv (read_sv l).
Proof. exact read_sv_denotes. Qed.
Theorem C01_read_hit_denotes : forall l k, is_hit l = true ->
  forall f0 f1 f2 f3 f4 ps, split_on COMMA l = [f0; f1; f2; f3; f4; ps] ->
  strip ps = ps -> length (split_on COLON ps) = 5%nat ->
  (exists y, py_int f1 = Some y) ->
  (exists ty, py_int f3 = Some ty /\ Z.testbit ty 7 = false /\ Z.testbit ty 0 = true) ->
  denote_ho k l = option_map HHit (read_hit l k).
Proof. exact read_hit_denotes. Qed.
Theorem C01_read_hold_denotes : forall l k, is_hold l = true ->
  forall f0 f1 f2 f3 f4 ps, split_on COMMA l = [f0; f1; f2; f3; f4; ps] ->
  strip ps = ps -> length (split_on COLON ps) = 6%nat ->
  (exists y, py_int f1 = Some y) ->
  (exists ty, py_int f3 = Some ty /\ Z.testbit ty 7 = true) ->
  denote_ho k l = option_map HHold (read_hold l k).
Proof. exact read_hold_denotes. Qed.
Theorem C01_section_split : forall pre tps hos,
  ~ In TP_HEADER pre -> ~ In HO_HEADER pre -> ~ In HO_HEADER tps ->
  (forall l, In l tps -> is_header l = false) -> (forall l, In l hos -> is_header l = false) ->
  let lines := pre ++ TP_HEADER :: tps ++ HO_HEADER :: hos in
  exists ix_tp ix_ho,
    index_of TP_HEADER lines = Some ix_tp /\ index_of HO_HEADER lines = Some ix_ho /\
    py_slice_to lines ix_tp = pre /\
    py_slice lines (ix_tp + 1) ix_ho = tps /\ py_slice_from lines (ix_ho + 1) = hos /\
    section TP_HEADER lines = Some tps /\ section HO_HEADER lines = Some hos.
Proof. exact section_split. Qed.

(* ---- text library facts the codec theorems rest on ---- *)
Theorem C01_int_codec : forall z, py_int (show_int z) = Some z.
Proof. exact py_int_show_int. Qed.
Theorem C01_float_of_int_text : forall z, exists q, py_float (show_int z) = Some q /\ (q == inject_Z z)%Q.
Proof. exact py_float_show_int. Qed.
Theorem C01_fixed_point_codec : forall m k, (k <> 0)%nat ->
  exists q, parse_dec (show_fixed m k) = Some q /\ (q == inject_Z m / inject_Z (10 ^ Z.of_nat k))%Q.
Proof. exact parse_dec_show_fixed. Qed.
Theorem C01_split_join : forall c l, l <> [] -> Forall (fun p => ~ In c p) l -> split_on c (join c l) = l.
Proof. exact split_join. Qed.

(* ---- non-vacuity: a concrete 7K chart with negative / fractional times, a ':' in the title, a sample,
        a tempo point and an SV: the written text is well-formed and denotes the chart; generations ---- *)
Example C01_example_write_denotes :
  match osu_write example_chart (t "Re:Zero") [] with
  | Some wl => write_specb 0 example_chart (t "Re:Zero") [] (file_lines (render wl)) = true
  | None => False
  end.
Proof. exact example_write_denotes. Qed.
Example C01_example_no_drift :
  match osu_write example_chart (t "Re;Zero") [] with
  | Some wl => let g1 := render wl in
               match regen g1 with
               | Some g2 => same_denotation 0 (file_lines g1) (file_lines g2) = true
                            /\ list_eqb text_eqb g1 g2 = false
                            /\ match regen g2 with Some g3 => list_eqb text_eqb g2 g3 = true | None => False end
               | None => False end
  | None => False
  end.
Proof. exact example_no_drift. Qed.
