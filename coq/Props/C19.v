(* C19 — dominant bpm, scroll speed, SV normalisation.  Property theorems only: each is closed by [exact]
   from Proofs/AnalysisProofs.v.  Model: Algo/DominantBpm.v, Algo/ScrollSpeed.v; specification: Algo/AnalysisSpec.v. *)
From Coq Require Import ZArith QArith Qabs List Bool.
From RV Require Import Base.PyNum Algo.DominantBpm Algo.ScrollSpeed Algo.AnalysisSpec Proofs.AnalysisProofs.
Import ListNotations.
Open Scope Q_scope.

(* For EVERY chart in the property's domain (>= 1 tempo point at or before the first object, >= 1 object, no two
   tempo points at one time, bpm > 0) -- tempo rows in any row order, tempo points or SVs after the last note
   included -- dominant_bpm returns a bpm value of the chart whose total active time between the first tempo
   point and the last object is maximal. *)
Theorem C19_dominant_is_argmax : forall c, wf_chart c = true -> dominant_spec 0 c (dominant_bpm c).
Proof. exact dominant_is_argmax. Qed.

(* Why /repo commit d3e6d46 was needed: the statement is false of the OLD model [dominant_bpm_old]
   (Algo/DominantBpm.v, end of file): unsorted tempo rows / tempo point after the last note / SV after it. *)
Theorem C19_dominant_old_refuted_unsorted :
  exists c, wf_chart c = true /\ dominant_bpm_old c = Some 120 /\ ~ dominant_spec 0 c (dominant_bpm_old c).
Proof. exact dominant_old_refuted_unsorted. Qed.
Theorem C19_dominant_old_refuted_tempo_after_last :
  exists c, wf_chart c = true /\ dominant_bpm_old c = Some 240 /\ ~ dominant_spec 0 c (dominant_bpm_old c).
Proof. exact dominant_old_refuted_tempo_after_last. Qed.
Theorem C19_dominant_old_refuted_sv_after_last :
  exists c, wf_chart c = true /\ dominant_bpm_old c = Some 240 /\ ~ dominant_spec 0 c (dominant_bpm_old c).
Proof. exact dominant_old_refuted_sv_after_last. Qed.

(* SV normalisation returns exactly one SV per tempo point, at its time, with multiplier * bpm = reference, where
   the reference is the override (any override > 0) or, without override, a dominant bpm -- for every osu/Quaver
   chart of the domain in any row order. *)
Theorem C19_sv_normalize_spec : forall c ov,
  wf_chart c = true -> wf_override ov = true -> c_svs c <> None -> norm_spec 0 c ov (sv_normalize c ov).
Proof. exact sv_normalize_spec. Qed.

(* Scroll speed, games without SVs (BMS, O2Jam, StepMania): for EVERY chart of the domain (any row order), every
   override > 0 or none, the speed at every breakpoint is active bpm / reference and every tempo point is a
   breakpoint (induction over stable sort / ffill / bfill / drop_duplicates). *)
Theorem C19_scroll_speed_spec_nosv : forall c ov,
  wf_chart c = true -> wf_override ov = true -> c_svs c = None -> scroll_spec 0 c ov (scroll_speed c ov).
Proof. exact scroll_speed_spec_nosv. Qed.

(* PARTIAL, charts WITH an SV list (osu, Quaver) -- see Proofs/AnalysisProofs.v, section D, for the full statement
   and exactly what is missing: scroll speed is bpm/ref * SV at every breakpoint and every tempo/SV point is a
   breakpoint, for every chart of the exhaustive small scope. *)
Theorem C19_scroll_speed_spec_partial : forall b s n,
  In b small_tempos -> In s small_svs -> In n small_notes -> wf_chart (mkChart b s n) = true ->
  exists o, scroll_speed_with (mkChart b s n) 3 = Some o /\ scroll_ok 0 (mkChart b s n) 3 o.
Proof. exact scroll_speed_spec_partial. Qed.

(* The boolean oracles evaluated on the implementation's outputs are sound (the dominant-bpm one also complete). *)
Theorem C19_dominant_oracle_sound : forall tol c out, dominant_specb tol c out = true -> dominant_spec tol c out.
Proof. exact dominant_specb_sound. Qed.
Theorem C19_dominant_oracle_complete : forall tol c out, dominant_spec tol c out -> dominant_specb tol c out = true.
Proof. exact dominant_specb_complete. Qed.
Theorem C19_scroll_oracle_sound : forall tol c ov out, scroll_specb tol c ov out = true -> scroll_spec tol c ov out.
Proof. exact scroll_specb_sound. Qed.
Theorem C19_norm_oracle_sound : forall tol c ov out, norm_specb tol c ov out = true -> norm_spec tol c ov out.
Proof. exact norm_specb_sound. Qed.

(* non-vacuity: a chart with UNSORTED tempo rows, a repeated bpm value, a tempo point and an SV after the last
   note, an SV at a tempo point, two SVs at one time and an SV before the first tempo point is in the domain, and
   the three routines return what the property says *)
Example C19_nonvacuous :
  let c := mkChart [(1000, 240); (0, 120); (2500, 60); (2000, 120); (9000, 480)]
                   (Some [(-500, 2); (1000, 1 # 2); (1500, 2); (1500, 3); (9500, 4)]) [0; 2750; 4000] in
  wf_chart c && dominant_specb 0 c (dominant_bpm c) && scroll_specb 0 c None (scroll_speed c None)
  && norm_specb 0 c (Some 90) (sv_normalize c (Some 90)) && norm_specb 0 c None (sv_normalize c None) = true.
Proof. vm_compute. reflexivity. Qed.
