(* C19 — dominant bpm, scroll speed, SV normalisation.  Property theorems only: each is closed by [exact]
   from Proofs/AnalysisProofs.v / Proofs/ScrollSvProofs.v.  Model: Algo/DominantBpm.v, Algo/ScrollSpeed.v; specification: Algo/AnalysisSpec.v. *)
From Coq Require Import ZArith QArith Qabs List Bool.
From RV Require Import Base.PyNum Algo.DominantBpm Algo.ScrollSpeed Algo.AnalysisSpec Proofs.AnalysisProofs Proofs.ScrollSvProofs.
Import ListNotations.
Open Scope Q_scope.

(* For EVERY chart in the property's domain (>= 1 tempo point at or before the first object, >= 1 object, no two
   tempo points at one time, bpm > 0) -- tempo rows in any row order, tempo points or SVs after the last note
   included -- dominant_bpm returns a bpm value of the chart whose total active time between the first tempo
   point and the last object is maximal. *)
Theorem C19_dominant_is_argmax : forall c, wf_chart c = true -> dominant_spec 0 c (dominant_bpm c).
Proof. exact dominant_is_argmax. Qed.

(* Why /repo commit d3e6d46 was needed: the statement is false of the OLD model [dominant_bpm_old]
   (Algo/DominantBpm.v, end of file): unsorted tempo rows / tempo point after the last note / SV after it. *)
Theorem C19_dominant_old_refuted_unsorted :
  exists c, wf_chart c = true /\ dominant_bpm_old c = Some 120 /\ ~ dominant_spec 0 c (dominant_bpm_old c).
Proof. exact dominant_old_refuted_unsorted. Qed.
Theorem C19_dominant_old_refuted_tempo_after_last :
  exists c, wf_chart c = true /\ dominant_bpm_old c = Some 240 /\ ~ dominant_spec 0 c (dominant_bpm_old c).
Proof. exact dominant_old_refuted_tempo_after_last. Qed.
Theorem C19_dominant_old_refuted_sv_after_last :
  exists c, wf_chart c = true /\ dominant_bpm_old c = Some 240 /\ ~ dominant_spec 0 c (dominant_bpm_old c).
Proof. exact dominant_old_refuted_sv_after_last. Qed.

(* SV normalisation returns exactly one SV per tempo point, at its time, with multiplier * bpm = reference, where
   the reference is the override (any override > 0) or, without override, a dominant bpm -- for every osu/Quaver
   chart of the domain in any row order. *)
Theorem C19_sv_normalize_spec : forall c ov,
  wf_chart c = true -> wf_override ov = true -> c_svs c <> None -> norm_spec 0 c ov (sv_normalize c ov).
Proof. exact sv_normalize_spec. Qed.

(* Scroll speed, games without SVs (BMS, O2Jam, StepMania): for EVERY chart of the domain (any row order), every
   override > 0 or none, the speed at every breakpoint is active bpm / reference and every tempo point is a
   breakpoint (induction over stable sort / ffill / bfill / drop_duplicates). *)
Theorem C19_scroll_speed_spec_nosv : forall c ov,
  wf_chart c = true -> wf_override ov = true -> c_svs c = None -> scroll_spec 0 c ov (scroll_speed c ov).
Proof. exact scroll_speed_spec_nosv. Qed.

(* Scroll speed, EVERY chart of the domain of EVERY game -- in particular charts WITH an SV list (osu, Quaver): tempo
   rows and SV rows in any row order, SVs coincident with a tempo point or with each other (the last in row order
   counts), before the first tempo point, after the last note -- and every override > 0 or none: the speed at every
   breakpoint is active bpm / reference * active SV multiplier (an SV lasts until the next SV or tempo point; the
   reference is the override, else a dominant bpm), and every tempo point and every SV is a breakpoint.  No side
   condition beyond the property's domain [wf_chart] is needed.  (Proofs/ScrollSvProofs.v: the SV table carries
   [sv_at] at every key; the bpm frame and the SV table have one row per key, so the outer merge has one row per
   key; forward fill of the bpm column over SV-only keys keeps the active bpm.) *)
Theorem C19_scroll_speed_spec : forall c ov,
  wf_chart c = true -> wf_override ov = true -> scroll_spec 0 c ov (scroll_speed c ov).
Proof. exact scroll_speed_spec. Qed.

(* the same with respect to ANY given reference value (everything of scroll_speed except the choice of the reference) *)
Theorem C19_scroll_speed_with_spec : forall c ref,
  wf_chart c = true -> exists o, scroll_speed_with c ref = Some o /\ scroll_ok 0 c ref o.
Proof. exact scroll_speed_with_spec. Qed.

(* Independent cross-check kept from before the general proof: the same statement for every chart of an exhaustive
   small scope (about 35 000 charts, see Proofs/AnalysisProofs.v, section D), by evaluating the proven-sound oracle on
   the model's output. *)
Theorem C19_scroll_speed_small_scope : forall b s n,
  In b small_tempos -> In s small_svs -> In n small_notes -> wf_chart (mkChart b s n) = true ->
  exists o, scroll_speed_with (mkChart b s n) 3 = Some o /\ scroll_ok 0 (mkChart b s n) 3 o.
Proof. exact scroll_speed_small_scope. Qed.

(* Beyond the property text (which does not promise it) -- what sv_normalize is for: on the chart whose SV list is
   REPLACED by sv_normalize's result (same override), scroll_speed is 1 at every breakpoint and every tempo point is
   a breakpoint; every chart of the domain, any row order, every override > 0 or none. *)
Theorem C19_normalize_then_scroll : forall c ov n,
  wf_chart c = true -> wf_override ov = true -> sv_normalize c ov = Some n ->
  exists o, scroll_speed (mkChart (c_bpms c) (Some n) (c_notes c)) ov = Some o
            /\ (forall t s, In (t, s) o -> exists v, s = Some v /\ v == 1)
            /\ (forall r, In r (c_bpms c) -> has_breakpoint o (fst r)).
Proof. exact normalize_then_scroll. Qed.

(* The boolean oracles evaluated on the implementation's outputs are sound (the dominant-bpm one also complete). *)
Theorem C19_dominant_oracle_sound : forall tol c out, dominant_specb tol c out = true -> dominant_spec tol c out.
Proof. exact dominant_specb_sound. Qed.
Theorem C19_dominant_oracle_complete : forall tol c out, dominant_spec tol c out -> dominant_specb tol c out = true.
Proof. exact dominant_specb_complete. Qed.
Theorem C19_scroll_oracle_sound : forall tol c ov out, scroll_specb tol c ov out = true -> scroll_spec tol c ov out.
Proof. exact scroll_specb_sound. Qed.
Theorem C19_norm_oracle_sound : forall tol c ov out, norm_specb tol c ov out = true -> norm_spec tol c ov out.
Proof. exact norm_specb_sound. Qed.

(* non-vacuity: a chart with UNSORTED tempo rows, a repeated bpm value, a tempo point and an SV after the last
   note, an SV at a tempo point, two SVs at one time and an SV before the first tempo point is in the domain, and
   the three routines return what the property says *)
Example C19_nonvacuous :
  let c := mkChart [(1000, 240); (0, 120); (2500, 60); (2000, 120); (9000, 480)]
                   (Some [(-500, 2); (1000, 1 # 2); (1500, 2); (1500, 3); (9500, 4)]) [0; 2750; 4000] in
  wf_chart c && dominant_specb 0 c (dominant_bpm c) && scroll_specb 0 c None (scroll_speed c None)
  && norm_specb 0 c (Some 90) (sv_normalize c (Some 90)) && norm_specb 0 c None (sv_normalize c None) = true.
Proof. vm_compute. reflexivity. Qed.

(* the hypotheses of C19_scroll_speed_spec are met by a concrete chart with UNSORTED tempo and SV rows, an SV before
   the first tempo point (-500), an SV at a tempo point's time (1000), two SVs at one time (1500: the later row, 4,
   counts), an SV after the last note (5000); the model returns exactly these speeds (dominant bpm 60; override 120),
   which is also what /repo returns on this chart *)
Example C19_scroll_speed_example :
  let c := mkChart [(1000, 240); (0, 120); (2000, 60)]
                   (Some [(1500, 2); (5000, 3); (-500, 2); (1000, 3 # 2); (1500, 4)]) [0; 2500; 4000] in
  wf_chart c = true /\ wf_override (Some 120) = true
  /\ scroll_speed c None = Some [(-500, Some 4); (0, Some 2); (1000, Some 6); (1500, Some 16); (2000, Some 1); (5000, Some 3)]
  /\ scroll_speed c (Some 120)
     = Some [(-500, Some 2); (0, Some 1); (1000, Some 3); (1500, Some 8); (2000, Some (1 # 2)); (5000, Some (3 # 2))].
Proof. vm_compute. repeat split. Qed.
