(* C19 — placeholder while the proofs are being built *)
From Coq Require Import ZArith QArith List Bool.
From RV Require Import Base.PyNum Algo.DominantBpm Algo.ScrollSpeed Algo.AnalysisSpec.
Import ListNotations.
Open Scope Q_scope.
Example C19_nonvacuous : wf_chart (mkChart [(0, 120); (1000, 240)] (Some [(500, 2)]) [0; 3000]) = true.
Proof. vm_compute. reflexivity. Qed.
