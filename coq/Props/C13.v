(* C13 — rate change.  Property theorems only. *)
From Coq Require Import ZArith QArith Qround List Bool.
From RV Require Import Base.PyNum Frame.Frame Map.Stacker Map.StackerSpec Map.Rate Map.RateFile Proofs.RateProofs.
Import ListNotations.
Open Scope Q_scope.

(* Map.rate (three edits through the stack of a copy) IS uniform scaling: in every list every offset and length is
   divided by r, every bpm multiplied by r, every other cell, every column set and every row count unchanged *)
Theorem C13_rate_scales : forall r ls, forallb wf_ulist ls = true -> rate_lists r ls = rate_spec r ls.
Proof. exact rate_scales. Qed.

Theorem C13_rate_shape : forall r ls,
  map u_cols (rate_spec r ls) = map u_cols ls /\
  map (fun u => length (u_rows u)) (rate_spec r ls) = map (fun u => length (u_rows u)) ls.
Proof. exact rate_shape. Qed.

Theorem C13_scale_meaning : forall r c x,
  scale_cell r c (CNum x) =
    if ((c =? COL_OFFSET) || (c =? COL_LENGTH))%Z then CNum (Qred (x / r))
    else if (c =? COL_BPM)%Z then CNum (Qred (x * r)) else CNum x.
Proof. exact scale_cell_meaning. Qed.

(* rate 1 is the identity *)
Theorem C13_rate_one : forall ls, ulists_eqb (rate_spec 1 ls) ls = true.
Proof. exact rate_one. Qed.

(* rate a then rate b equals rate a*b *)
Theorem C13_rate_compose : forall a b ls, ~ a == 0 -> ~ b == 0 ->
  ulists_eqb (rate_spec b (rate_spec a ls)) (rate_spec (a * b) ls) = true.
Proof. exact rate_compose. Qed.

(* ---------------------------------------------------------------------------------------------------------------
   File-level fields (Map/RateFile.v: osu_rate = OsuMap.rate, sm_mapset_rate = SMMapSet.rate, mapset_rate = MapSet.rate)
   --------------------------------------------------------------------------------------------------------------- *)

(* OsuMap.rate: the timed lists are scaled (C13_rate_scales), every sample event's time is divided by r with its file and
   volume unchanged, the preview value is divided by r, every other attribute is unchanged *)
Theorem C13_osu_file_fields_scale : forall r f, wf_osu_file f = true ->
  of_lists (osu_rate r f) = rate_spec r (of_lists f) /\
  of_samples (osu_rate r f) = scale_ulist r (of_samples f) /\
  of_preview (osu_rate r f) == of_preview f / r /\
  of_meta (osu_rate r f) = of_meta f.
Proof. exact osu_file_fields_scale. Qed.
Theorem C13_osu_file_rate_one : forall f, wf_osu_file f = true -> osu_file_eqb (osu_rate 1 f) f = true.
Proof. exact osu_file_rate_one. Qed.
Theorem C13_osu_file_rate_compose : forall a b f, wf_osu_file f = true -> ~ a == 0 -> ~ b == 0 ->
  osu_file_eqb (osu_rate b (osu_rate a f)) (osu_rate (a * b) f) = true.
Proof. exact osu_file_rate_compose. Qed.

(* osu's PreviewTime -1 means "no preview point".  The code divides it like a time: -1 becomes -1/r (written as
   "PreviewTime: 0" for r > 1, replayed on the real code).  Under the reading "a chart without a preview point has none
   after the rate change" the statement is refuted; it holds for every chart whose preview point is at a time >= 0, and
   at rate 1 for every chart. *)
Theorem C13_osu_preview_unset_kept_refuted :
  exists f r, wf_osu_file f = true /\ 0 < r /\ preview_point (of_preview f) = None /\
              of_preview (osu_rate r f) = (-1 # 2) /\ preview_point (of_preview (osu_rate r f)) = Some (-1 # 2) /\
              preview_scaled_strict r (of_preview f) (of_preview (osu_rate r f)) = false.
Proof. exact osu_preview_unset_kept_refuted. Qed.
Theorem C13_osu_preview_point_scales : forall r f, 0 < r -> 0 <= of_preview f ->
  preview_scaled_strict r (of_preview f) (of_preview (osu_rate r f)) = true.
Proof. exact osu_preview_point_scales. Qed.
Theorem C13_osu_preview_rate_one : forall f, preview_scaled_strict 1 (of_preview f) (of_preview (osu_rate 1 f)) = true.
Proof. exact osu_preview_rate_one. Qed.

(* SMMapSet.rate: every chart scaled, #OFFSET (when set), sample start and sample length divided by r, the rest unchanged *)
Theorem C13_sm_file_fields_scale : forall r f, wf_sm_file f = true ->
  sf_charts (sm_mapset_rate r f) = map (rate_spec r) (sf_charts f) /\
  match sf_offset f, sf_offset (sm_mapset_rate r f) with
  | Some o, Some o' => o' == o / r | None, None => True | _, _ => False end /\
  sf_sample_start (sm_mapset_rate r f) == sf_sample_start f / r /\
  sf_sample_length (sm_mapset_rate r f) == sf_sample_length f / r /\
  sf_meta (sm_mapset_rate r f) = sf_meta f.
Proof. exact sm_file_fields_scale. Qed.
Theorem C13_sm_file_rate_one : forall f, wf_sm_file f = true -> sm_file_eqb (sm_mapset_rate 1 f) f = true.
Proof. exact sm_file_rate_one. Qed.
Theorem C13_sm_file_rate_compose : forall a b f, wf_sm_file f = true -> ~ a == 0 -> ~ b == 0 ->
  sm_file_eqb (sm_mapset_rate b (sm_mapset_rate a f)) (sm_mapset_rate (a * b) f) = true.
Proof. exact sm_file_rate_compose. Qed.

(* MapSet.rate (every game): as many charts, chart k of the result is chart k rated on its own, i.e. scaled *)
Theorem C13_mapset_rate_each_chart : forall r cs, forallb (forallb wf_ulist) cs = true ->
  length (mapset_rate r cs) = length cs /\
  (forall k, nth_error (mapset_rate r cs) k = option_map (rate_lists r) (nth_error cs k)) /\
  (forall k c, nth_error cs k = Some c -> nth_error (mapset_rate r cs) k = Some (rate_spec r c)).
Proof. exact mapset_rate_each_chart. Qed.

Example C13_example :
  let hits := mkUlist [0; 1]%Z [[CNum 1000; CNum 1]; [CNum 3000; CNum 2]] in
  let holds := mkUlist [0; 1; 2]%Z [[CNum 2000; CNum 0; CNum 500]] in
  let bpms := mkUlist [0; 3; 4]%Z [[CNum 0; CNum 120; CNum 4]] in
  forallb wf_ulist [hits; holds; bpms] = true /\
  rate_lists 2 [hits; holds; bpms]
  = [mkUlist [0; 1]%Z [[CNum 500; CNum 1]; [CNum 1500; CNum 2]];
     mkUlist [0; 1; 2]%Z [[CNum 1000; CNum 0; CNum 250]];
     mkUlist [0; 3; 4]%Z [[CNum 0; CNum 240; CNum 4]]].
Proof. vm_compute. split; reflexivity. Qed.

(* non-vacuity, file level: an osu chart with two sample events and a preview point; an SM mapset with two charts and a
   non-zero offset *)
Example C13_example_osu_file :
  let f := mkOsuFile [mkUlist [0; 1]%Z [[CNum 1000; CNum 1]; [CNum 3000; CNum 2]];
                      mkUlist [0; 3; 4]%Z [[CNum 0; CNum 120; CNum 4]]]
                     (mkUlist [0; 1001; 1002]%Z [[CNum 500; CStr 7; CNum 70]; [CNum 2500; CStr 7; CNum 60]])
                     12345 [CStr 1; CNum 500] in
  wf_osu_file f = true /\
  osu_rate 2 f = mkOsuFile [mkUlist [0; 1]%Z [[CNum 500; CNum 1]; [CNum 1500; CNum 2]];
                            mkUlist [0; 3; 4]%Z [[CNum 0; CNum 240; CNum 4]]]
                           (mkUlist [0; 1001; 1002]%Z [[CNum 250; CStr 7; CNum 70]; [CNum 1250; CStr 7; CNum 60]])
                           (12345 # 2) [CStr 1; CNum 500] /\
  preview_scaled_strict 2 (of_preview f) (of_preview (osu_rate 2 f)) = true.
Proof. vm_compute. repeat split; reflexivity. Qed.
Example C13_example_sm_file :
  let c1 := [mkUlist [0; 1]%Z [[CNum 1000; CNum 0]]; mkUlist [0; 3; 4]%Z [[CNum 500; CNum 120; CNum 4]]] in
  let c2 := [mkUlist [0; 1; 2]%Z [[CNum 2000; CNum 3; CNum 750]]; mkUlist [0; 3; 4]%Z [[CNum 500; CNum 120; CNum 4]]] in
  let f := mkSmFile [c1; c2] (Some 500) 10000 5000 [CStr 1; CBool false] in
  wf_sm_file f = true /\
  sm_mapset_rate 2 f
  = mkSmFile [[mkUlist [0; 1]%Z [[CNum 500; CNum 0]]; mkUlist [0; 3; 4]%Z [[CNum 250; CNum 240; CNum 4]]];
              [mkUlist [0; 1; 2]%Z [[CNum 1000; CNum 3; CNum 375]]; mkUlist [0; 3; 4]%Z [[CNum 250; CNum 240; CNum 4]]]]
             (Some 250) 5000 2500 [CStr 1; CBool false].
Proof. vm_compute. split; reflexivity. Qed.
