(* C13 — rate change.  Property theorems only. *)
From Coq Require Import ZArith QArith Qround List Bool.
From RV Require Import Base.PyNum Frame.Frame Map.Stacker Map.StackerSpec Map.Rate Proofs.RateProofs.
Import ListNotations.
Open Scope Q_scope.

(* Map.rate (three edits through the stack of a copy) IS uniform scaling: in every list every offset and length is
   divided by r, every bpm multiplied by r, every other cell, every column set and every row count unchanged *)
Theorem C13_rate_scales : forall r ls, forallb wf_ulist ls = true -> rate_lists r ls = rate_spec r ls.
Proof. exact rate_scales. Qed.

Theorem C13_rate_shape : forall r ls,
  map u_cols (rate_spec r ls) = map u_cols ls /\
  map (fun u => length (u_rows u)) (rate_spec r ls) = map (fun u => length (u_rows u)) ls.
Proof. exact rate_shape. Qed.

Theorem C13_scale_meaning : forall r c x,
  scale_cell r c (CNum x) =
    if ((c =? COL_OFFSET) || (c =? COL_LENGTH))%Z then CNum (Qred (x / r))
    else if (c =? COL_BPM)%Z then CNum (Qred (x * r)) else CNum x.
Proof. exact scale_cell_meaning. Qed.

(* rate 1 is the identity *)
Theorem C13_rate_one : forall ls, ulists_eqb (rate_spec 1 ls) ls = true.
Proof. exact rate_one. Qed.

(* rate a then rate b equals rate a*b *)
Theorem C13_rate_compose : forall a b ls, ~ a == 0 -> ~ b == 0 ->
  ulists_eqb (rate_spec b (rate_spec a ls)) (rate_spec (a * b) ls) = true.
Proof. exact rate_compose. Qed.

Example C13_example :
  let hits := mkUlist [0; 1]%Z [[CNum 1000; CNum 1]; [CNum 3000; CNum 2]] in
  let holds := mkUlist [0; 1; 2]%Z [[CNum 2000; CNum 0; CNum 500]] in
  let bpms := mkUlist [0; 3; 4]%Z [[CNum 0; CNum 120; CNum 4]] in
  forallb wf_ulist [hits; holds; bpms] = true /\
  rate_lists 2 [hits; holds; bpms]
  = [mkUlist [0; 1]%Z [[CNum 500; CNum 1]; [CNum 1500; CNum 2]];
     mkUlist [0; 1; 2]%Z [[CNum 1000; CNum 0; CNum 250]];
     mkUlist [0; 3; 4]%Z [[CNum 0; CNum 240; CNum 4]]].
Proof. vm_compute. split; reflexivity. Qed.
