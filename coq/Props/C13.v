(* C13 — rate change.  Property theorems only. *)
From Coq Require Import String.
From Coq Require Import ZArith QArith Qround List Bool.
From RV Require Import Base.PyNum Frame.Frame Map.Stacker Map.StackerSpec Map.Rate Map.RateFile Proofs.RateProofs.
From RV Require Import Formats.Timeline Map.RateWrite Proofs.RateWriteProofs.
From RV Require Proofs.OsuWrite Proofs.OsuWhole.
From RV Require Proofs.RateScaleProofs Proofs.RateWriteCloseBMS Proofs.RateWriteCloseSM Proofs.RateWriteCloseOsu Proofs.RateWriteClosedProofs.
From RV Require Formats.Qua Formats.QuaSpec Formats.Osu Formats.OsuSpec Formats.SM Formats.SMSpec Formats.SMWriteDom Formats.BMS
  Formats.BMSSpec Proofs.QuaProofs Proofs.SMProofs Proofs.SMWriteWholeFile Proofs.SMWriteWholeEx Timing.Snapper Generated.Tables.
Import ListNotations.
Open Scope Q_scope.

(* Map.rate (three edits through the stack of a copy) IS uniform scaling: in every list every offset and length is
   divided by r, every bpm multiplied by r, every other cell, every column set and every row count unchanged *)
Theorem C13_rate_scales : forall r ls, forallb wf_ulist ls = true -> rate_lists r ls = rate_spec r ls.
Proof. exact rate_scales. Qed.

Theorem C13_rate_shape : forall r ls,
  map u_cols (rate_spec r ls) = map u_cols ls /\
  map (fun u => length (u_rows u)) (rate_spec r ls) = map (fun u => length (u_rows u)) ls.
Proof. exact rate_shape. Qed.

Theorem C13_scale_meaning : forall r c x,
  scale_cell r c (CNum x) =
    if ((c =? COL_OFFSET) || (c =? COL_LENGTH))%Z then CNum (Qred (x / r))
    else if (c =? COL_BPM)%Z then CNum (Qred (x * r)) else CNum x.
Proof. exact scale_cell_meaning. Qed.

(* rate 1 is the identity *)
Theorem C13_rate_one : forall ls, ulists_eqb (rate_spec 1 ls) ls = true.
Proof. exact rate_one. Qed.

(* rate a then rate b equals rate a*b *)
Theorem C13_rate_compose : forall a b ls, ~ a == 0 -> ~ b == 0 ->
  ulists_eqb (rate_spec b (rate_spec a ls)) (rate_spec (a * b) ls) = true.
Proof. exact rate_compose. Qed.

(* ---------------------------------------------------------------------------------------------------------------
   File-level fields (Map/RateFile.v: osu_rate = OsuMap.rate, sm_mapset_rate = SMMapSet.rate, mapset_rate = MapSet.rate)
   --------------------------------------------------------------------------------------------------------------- *)

(* OsuMap.rate (as repaired by repo commit 09d92a7): the timed lists are scaled (C13_rate_scales), every sample event's time
   is divided by r with its file and volume unchanged, the preview value is KEPT when it is the marker -1 ("no preview
   point") and divided by r otherwise, every other attribute is unchanged *)
Theorem C13_osu_file_fields_scale : forall r f, wf_osu_file f = true ->
  of_lists (osu_rate r f) = rate_spec r (of_lists f) /\
  of_samples (osu_rate r f) = scale_ulist r (of_samples f) /\
  (of_preview f == -1 -> of_preview (osu_rate r f) = of_preview f) /\
  (~ of_preview f == -1 -> of_preview (osu_rate r f) == of_preview f / r) /\
  of_meta (osu_rate r f) = of_meta f.
Proof. exact osu_file_fields_scale. Qed.
Theorem C13_osu_file_rate_one : forall f, wf_osu_file f = true -> osu_file_eqb (osu_rate 1 f) f = true.
Proof. exact osu_file_rate_one. Qed.
(* composition, exact guard on the preview value: a preview TIME p = -a (negative) becomes the value -1 after rate a and is
   then taken for the marker by the next rate change (the code compares the value with -1) *)
Theorem C13_osu_file_rate_compose : forall a b f, wf_osu_file f = true -> ~ a == 0 -> ~ b == 0 ->
  (of_preview f == -1 \/ ~ of_preview f == - a) ->
  osu_file_eqb (osu_rate b (osu_rate a f)) (osu_rate (a * b) f) = true.
Proof. exact osu_file_rate_compose. Qed.
Theorem C13_osu_file_rate_compose_pos : forall a b f, wf_osu_file f = true -> 0 < a -> 0 < b ->
  (of_preview f == -1 \/ 0 <= of_preview f) ->
  osu_file_eqb (osu_rate b (osu_rate a f)) (osu_rate (a * b) f) = true.
Proof. exact osu_file_rate_compose_pos. Qed.
(* without the guard it is refuted: preview -2, rate 2 then rate 2 gives -1, rate 4 gives -1/2 (replayed on the real code) *)
Theorem C13_osu_file_rate_compose_refuted :
  exists f a b, wf_osu_file f = true /\ 0 < a /\ 0 < b /\ of_preview f = -2 /\
                of_preview (osu_rate b (osu_rate a f)) = -1 /\ of_preview (osu_rate (a * b) f) = (-1 # 2) /\
                osu_file_eqb (osu_rate b (osu_rate a f)) (osu_rate (a * b) f) = false.
Proof. exact osu_file_rate_compose_refuted. Qed.

(* osu's PreviewTime -1 means "no preview point".  A chart without a preview point has none after the rate change (the
   stored value is untouched); a chart with a preview point p has it at p / r, unless p = -r (a negative time landing on
   the marker); in particular for every p >= 0 and r > 0, and at rate 1 for every chart. *)
Theorem C13_osu_preview_unset_kept : forall r f, preview_point (of_preview f) = None ->
  of_preview (osu_rate r f) = of_preview f /\ preview_point (of_preview (osu_rate r f)) = None.
Proof. exact osu_preview_unset_kept. Qed.
Theorem C13_osu_preview_strict : forall r f, ~ r == 0 -> (of_preview f == -1 \/ ~ of_preview f == - r) ->
  preview_scaled_strict r (of_preview f) (of_preview (osu_rate r f)) = true.
Proof. exact osu_preview_strict. Qed.
Theorem C13_osu_preview_strict_refuted :
  exists f r, wf_osu_file f = true /\ 0 < r /\ of_preview f = -2 /\ of_preview (osu_rate r f) = -1 /\
              preview_scaled_strict r (of_preview f) (of_preview (osu_rate r f)) = false.
Proof. exact osu_preview_strict_refuted. Qed.
Theorem C13_osu_preview_point_scales : forall r f, 0 < r -> (of_preview f == -1 \/ 0 <= of_preview f) ->
  preview_scaled_strict r (of_preview f) (of_preview (osu_rate r f)) = true.
Proof. exact osu_preview_point_scales. Qed.
Theorem C13_osu_preview_rate_one : forall f, preview_scaled_strict 1 (of_preview f) (of_preview (osu_rate 1 f)) = true.
Proof. exact osu_preview_rate_one. Qed.
(* the OLD model (before 09d92a7: the value divided whatever it held) turned the marker into a preview point: -1 -> -1/2,
   written "PreviewTime: 0"; the current model keeps the marker on that witness *)
Theorem C13_OLD_osu_preview_unset_refuted :
  exists f r, wf_osu_file f = true /\ 0 < r /\ preview_point (of_preview f) = None /\
              of_preview (osu_rate_OLD r f) = (-1 # 2) /\ preview_point (of_preview (osu_rate_OLD r f)) = Some (-1 # 2) /\
              preview_scaled_strict r (of_preview f) (of_preview (osu_rate_OLD r f)) = false.
Proof. exact OLD_osu_preview_unset_refuted. Qed.
Theorem C13_osu_preview_former_witness_ok :
  of_preview (osu_rate 2 wit_unset_preview) = -1 /\
  preview_scaled_strict 2 (of_preview wit_unset_preview) (of_preview (osu_rate 2 wit_unset_preview)) = true.
Proof. exact osu_preview_former_witness_ok. Qed.

(* SMMapSet.rate: every chart scaled, #OFFSET (when set), sample start and sample length divided by r, the rest unchanged *)
Theorem C13_sm_file_fields_scale : forall r f, wf_sm_file f = true ->
  sf_charts (sm_mapset_rate r f) = map (rate_spec r) (sf_charts f) /\
  match sf_offset f, sf_offset (sm_mapset_rate r f) with
  | Some o, Some o' => o' == o / r | None, None => True | _, _ => False end /\
  sf_sample_start (sm_mapset_rate r f) == sf_sample_start f / r /\
  sf_sample_length (sm_mapset_rate r f) == sf_sample_length f / r /\
  sf_meta (sm_mapset_rate r f) = sf_meta f.
Proof. exact sm_file_fields_scale. Qed.
Theorem C13_sm_file_rate_one : forall f, wf_sm_file f = true -> sm_file_eqb (sm_mapset_rate 1 f) f = true.
Proof. exact sm_file_rate_one. Qed.
Theorem C13_sm_file_rate_compose : forall a b f, wf_sm_file f = true -> ~ a == 0 -> ~ b == 0 ->
  sm_file_eqb (sm_mapset_rate b (sm_mapset_rate a f)) (sm_mapset_rate (a * b) f) = true.
Proof. exact sm_file_rate_compose. Qed.

(* MapSet.rate (every game): as many charts, chart k of the result is chart k rated on its own, i.e. scaled *)
Theorem C13_mapset_rate_each_chart : forall r cs, forallb (forallb wf_ulist) cs = true ->
  length (mapset_rate r cs) = length cs /\
  (forall k, nth_error (mapset_rate r cs) k = option_map (rate_lists r) (nth_error cs k)) /\
  (forall k c, nth_error cs k = Some c -> nth_error (mapset_rate r cs) k = Some (rate_spec r c)).
Proof. exact mapset_rate_each_chart. Qed.

Example C13_example :
  let hits := mkUlist [0; 1]%Z [[CNum 1000; CNum 1]; [CNum 3000; CNum 2]] in
  let holds := mkUlist [0; 1; 2]%Z [[CNum 2000; CNum 0; CNum 500]] in
  let bpms := mkUlist [0; 3; 4]%Z [[CNum 0; CNum 120; CNum 4]] in
  forallb wf_ulist [hits; holds; bpms] = true /\
  rate_lists 2 [hits; holds; bpms]
  = [mkUlist [0; 1]%Z [[CNum 500; CNum 1]; [CNum 1500; CNum 2]];
     mkUlist [0; 1; 2]%Z [[CNum 1000; CNum 0; CNum 250]];
     mkUlist [0; 3; 4]%Z [[CNum 0; CNum 240; CNum 4]]].
Proof. vm_compute. split; reflexivity. Qed.

(* non-vacuity, file level: an osu chart with two sample events and a preview point; an SM mapset with two charts and a
   non-zero offset *)
Example C13_example_osu_file :
  let f := mkOsuFile [mkUlist [0; 1]%Z [[CNum 1000; CNum 1]; [CNum 3000; CNum 2]];
                      mkUlist [0; 3; 4]%Z [[CNum 0; CNum 120; CNum 4]]]
                     (mkUlist [0; 1001; 1002]%Z [[CNum 500; CStr 7; CNum 70]; [CNum 2500; CStr 7; CNum 60]])
                     12345 [CStr 1; CNum 500] in
  wf_osu_file f = true /\
  osu_rate 2 f = mkOsuFile [mkUlist [0; 1]%Z [[CNum 500; CNum 1]; [CNum 1500; CNum 2]];
                            mkUlist [0; 3; 4]%Z [[CNum 0; CNum 240; CNum 4]]]
                           (mkUlist [0; 1001; 1002]%Z [[CNum 250; CStr 7; CNum 70]; [CNum 1250; CStr 7; CNum 60]])
                           (12345 # 2) [CStr 1; CNum 500] /\
  preview_scaled_strict 2 (of_preview f) (of_preview (osu_rate 2 f)) = true.
Proof. vm_compute. repeat split; reflexivity. Qed.
Example C13_example_sm_file :
  let c1 := [mkUlist [0; 1]%Z [[CNum 1000; CNum 0]]; mkUlist [0; 3; 4]%Z [[CNum 500; CNum 120; CNum 4]]] in
  let c2 := [mkUlist [0; 1; 2]%Z [[CNum 2000; CNum 3; CNum 750]]; mkUlist [0; 3; 4]%Z [[CNum 500; CNum 120; CNum 4]]] in
  let f := mkSmFile [c1; c2] (Some 500) 10000 5000 [CStr 1; CBool false] in
  wf_sm_file f = true /\
  sm_mapset_rate 2 f
  = mkSmFile [[mkUlist [0; 1]%Z [[CNum 500; CNum 0]]; mkUlist [0; 3; 4]%Z [[CNum 250; CNum 240; CNum 4]]];
              [mkUlist [0; 1; 2]%Z [[CNum 1000; CNum 3; CNum 375]]; mkUlist [0; 3; 4]%Z [[CNum 250; CNum 240; CNum 4]]]]
             (Some 250) 5000 2500 [CStr 1; CBool false].
Proof. vm_compute. split; reflexivity. Qed.

(* ===============================================================================================================
   Writing the rated chart and reading it back gives the rated timeline (Map/RateWrite.v, Proofs/RateWriteProofs.v).
   Statements over the format models and their reference semantics (qua_denote / osu_denote / sm_denote / bms_denote),
   by composition with each format's own writer theorem.  tl_scale r t: every time and duration of t divided by r, every
   bpm multiplied by r, kinds / columns / counts unchanged.
   =============================================================================================================== *)

(* ---- Quaver: whole document, every chart of C06's strict writer domain, every r <> 0.  QuaRateProofs.survives r c out:
   out = Some d, d well-formed, qua_denote d = Some e, chart_denote c = Some a, and element by element in writing order:
   same kind and lane, start and end within LESS than 1 ms of time / r, same key sounds; timing points within less than
   1 ms of time / r with bpm * r exactly; scroll velocities at time / r with their multiplier; metadata kept. ---- *)
Theorem C13_qua_rate_survives_write : forall r c, ~ r == 0 -> QuaSpec.wf_chartb false c = true ->
  QuaRateProofs.survives r c (Qua.Live.write (QuaRate.qua_rate r c)).
Proof. exact QuaRateProofs.qua_rate_survives_write. Qed.
(* the same for ANY in-memory representation c' of the rated chart (numeric cells by value: pandas may hand an integer
   column back as float after the stacker's concat) that is in the writer's domain *)
Theorem C13_qua_rated_survives_write : forall r c c', ~ r == 0 -> QuaSpec.wf_chartb false c = true ->
  QuaSpec.wf_chartb false c' = true -> QuaRate.chart_rated r c c' -> QuaRateProofs.survives r c (Qua.Live.write c').
Proof. exact QuaRateProofs.qua_rated_survives_write. Qed.
Theorem C13_qua_rate_is_rated : forall r c, QuaRate.chart_rated r c (QuaRate.qua_rate r c).
Proof. exact QuaRateProofs.qua_rate_is_rated. Qed.
Theorem C13_qua_rate_in_writer_domain : forall r c, QuaSpec.wf_chartb false c = true ->
  QuaSpec.wf_chartb false (QuaRate.qua_rate r c) = true.
Proof. exact QuaRateProofs.qua_rate_wf. Qed.
(* in C09's vocabulary: the written document's timeline is the rated timeline at resolution 1 ms, tempo values equal *)
Theorem C13_qua_rate_survives_write_timeline : forall r c, ~ r == 0 -> QuaSpec.wf_chartb false c = true ->
  exists d e a, Qua.Live.write (QuaRate.qua_rate r c) = Some d /\ QuaSpec.qua_denote d = Some e /\
                QuaSpec.chart_denote c = Some a /\
                timeline_close 1 0 (tl_of_qua e) (tl_scale r (tl_of_qua a)) /\
                length (tl_notes (tl_of_qua e)) = length (tl_notes (tl_of_qua a)) /\
                length (tl_tempo (tl_of_qua e)) = length (tl_tempo (tl_of_qua a)).
Proof. exact QuaRateProofs.qua_rate_survives_write_timeline. Qed.
(* and QuaMap.read of that document returns a chart denoting what the document denotes (C06) *)
Theorem C13_qua_rate_read_back : forall r c, QuaSpec.wf_chartb false c = true ->
  exists d c', Qua.Live.write (QuaRate.qua_rate r c) = Some d /\ Qua.Live.read d = Some c' /\
               QuaProofs.ReadSpec d (Some c') /\ QuaSpec.wf_chartb false c' = true.
Proof. exact QuaRateProofs.qua_rate_read_back. Qed.

(* ---- osu: by composition with C01's whole-file writer theorem (Proofs/OsuWhole.v osu_write_denotes; the printers of floats
   and ints are oracle parameters: any printer whose text parses back to the printed value on the numbers it is asked to
   print).  For every chart and rate r <> 0 whose RATED chart lies in C01's write domain wdom (decidable; a fractional preview
   point is inside it - PreviewTime is truncated like every written time; closure of the domain under rate is not proved):
   the rated chart is written, the text is well-formed, every attribute present, and it denotes (OsuRateProofs.survives): the
   same notes up to order with kind and column, start and end within less than 1 ms of time / r; tempo points at exactly
   time / r with bpm * r (within the oracle's 1e-9 relative allowance); sample events within less than 1 ms of time / r
   with file and volume; SVs at time / r. ---- *)
Theorem C13_osu_rate_survives_write : forall (show_num show_inum : Q -> Text.text) (printable iprintable : Q -> bool),
  (forall q, printable q = true -> Text.parse_dec (show_num q) = Some (Qred q)) ->
  (forall q, iprintable q = true -> Text.parse_int (show_inum q) = Some (Qfloor q)) ->
  forall r c ut ua, ~ r == 0 -> OsuWrite.wdom printable iprintable (OsuRate.osu_chart_rate r c) ut ua = true ->
  exists text d, OsuWrite.written show_num show_inum (OsuRate.osu_chart_rate r c) ut ua = Some text /\
                 OsuSpec.osu_denote text = Some d /\ OsuSpec.wf_osu_text text = true /\ OsuSpec.all_present d = true /\
                 OsuRateProofs.survives r c d.
Proof. exact OsuRateProofs.osu_rate_survives_write. Qed.
(* the instance without hypotheses: six-decimal fixed point for floats, str(int) for ints *)
Theorem C13_osu_rate_survives_write_dec6 : forall r c ut ua, ~ r == 0 ->
  OsuWhole.wdom6 (OsuRate.osu_chart_rate r c) ut ua = true ->
  exists text d, OsuWhole.written6 (OsuRate.osu_chart_rate r c) ut ua = Some text /\
                 OsuSpec.osu_denote text = Some d /\ OsuSpec.wf_osu_text text = true /\ OsuSpec.all_present d = true /\
                 OsuRateProofs.survives r c d.
Proof. exact OsuRateProofs.osu_rate_survives_write_dec6. Qed.
(* the oracle-level steps of that composition (kept: they hold for ANY text satisfying C01's write oracle, e.g. reamber's own
   output judged per run): from write_specb, and from its five list conjuncts alone *)
Theorem C13_osu_rate_survives_write_partial : forall r c ut ua written, ~ r == 0 ->
  OsuSpec.write_specb 0 (OsuRate.osu_chart_rate r c) ut ua written = true ->
  exists d, OsuSpec.osu_denote written = Some d /\ OsuSpec.wf_osu_text written = true /\ OsuRateProofs.survives r c d.
Proof. exact OsuRateProofs.osu_rate_survives_write_partial. Qed.
(* the same from the list part of the oracle alone (holds also when the preview point is fractional) *)
Theorem C13_osu_rated_lists_survive_partial : forall r c d, ~ r == 0 ->
  OsuRateProofs.lists_written d (OsuRate.osu_chart_rate r c) = true -> OsuRateProofs.survives r c d.
Proof. exact OsuRateProofs.osu_rated_lists_survive. Qed.
(* the preview point of the rated chart is written as int(preview / r), and as -1 when the chart has none *)
Theorem C13_osu_rate_preview_line : forall r c ut ua, (length (Osu.c_meta c) > 2)%nat ->
  In [Osu.WT (Text.t "PreviewTime: "%string ++ Text.show_int (qtrunc (osu_preview_rate r (Osu.meta_num (Osu.c_meta c) OsuRate.IX_PREVIEW))))]
     (Osu.write_meta (OsuRate.osu_chart_rate r c) ut ua).
Proof. exact OsuRateProofs.osu_rate_preview_line. Qed.

(* ---- StepMania: by composition with C03's whole-file writer theorem, for every mapset and rate whose RATED mapset lies in
   C03's exact domain c03_domb (decidable; closure of that domain under rate is not proved).  Every exact rendering of the
   written tokens is a well-formed .sm text with beat 0 at offset / r, the sample window at start / r and length / r, the
   text fields unchanged, and the source's charts in order: per kind of object the denoted objects are the source's up to
   order, in their columns, at EXACTLY time / r with length / r; the denoted tempo list (C03_sm_write_tempo) has one point per
   tempo row of the source, at offset / r ms with bpm * r. ---- *)
Theorem C13_sm_rate_survives_write : forall r s, SMWriteWholeFile.c03_domb (SMRate.sm_set_rate r s) = true ->
  exists toks, SM.sm_write SMProofs.live_conf SM.current (SMRate.sm_set_rate r s) = Some toks /\
    forall txt, SM.match_toks 0 toks txt = true ->
      exists d, SMSpec.sm_denote txt = Some d /\ SMRate.header_survives r s d /\
                Forall2 (SMRate.chart_survives r) (SMSpec.d_charts d) (SM.s_maps s) /\
                SMSpec.forallb2 (fun tag v => match SMSpec.lookup_last tag (SMSpec.d_items d) None with
                                              | Some x => SMText.text_eqb x v | None => false end)
                                SMSpec.text_field_tags (SM.s_txt s) = true /\
                SMRate.tempo_survives r s d.
Proof. exact SMRateProofs.sm_rate_survives_write. Qed.

(* ---- BMS: by composition with C05's whole-file writer theorem, for every chart and rate whose RATED chart lies in C05's
   write domain (decidable; it demands tempos that ':.3f' prints without loss, which rating can break).  BMSRate.survives:
   every hit and hold of the source exactly once, in its column, within 1/192 beat (at the rated tempo in force) of
   time / r and exactly there on the snap grid, hold ends likewise, the tempo changes at time / r with bpm * r. ---- *)
Theorem C13_bms_rate_survives_write : forall mk lay dflt r c (rd : Q -> BMSText.text),
  BMSSpec.write_dom Tables.Tables.snapper_table mk lay dflt (BMSRate.bms_chart_rate r c) = true ->
  (forall q, BMSText.parse_decimal (rd q) <> None) ->
  exists ls l d, BMS.bms_write Tables.Tables.snapper_table lay dflt (BMSRate.bms_chart_rate r c) = Some ls /\
    BMSSpec.wscript Tables.Tables.snapper_table (BMSRate.bms_chart_rate r c) = Some l /\
    BMSSpec.bms_denote lay (map (BMSSpec.render_with rd) ls) = Some d /\
    BMSRate.survives Tables.Tables.snapper_table dflt r c l d.
Proof. exact (BMSRateProofs.bms_rate_survives_write Tables.Tables.snapper_table Examples.table_ok_live). Qed.

(* ---- the format-level rate functions used above ARE the modelled Map.rate / OsuMap.rate / SMMapSet.rate: embedding the
   typed chart into the stacker model's lists commutes with rating ---- *)
Theorem C13_osu_chart_rate_is_model : forall r c, (length (Osu.c_meta c) > 2)%nat ->
  Embed.osu_file_of (OsuRate.osu_chart_rate r c) = osu_rate r (Embed.osu_file_of c).
Proof. exact EmbedProofs.osu_embed_rate. Qed.
Theorem C13_sm_set_rate_is_model : forall r s, Embed.sm_file_of (SMRate.sm_set_rate r s) = sm_mapset_rate r (Embed.sm_file_of s).
Proof. exact EmbedProofs.sm_embed_rate. Qed.
Theorem C13_bms_chart_rate_is_model : forall r c, Embed.bms_lists (BMSRate.bms_chart_rate r c) = rate_lists r (Embed.bms_lists c).
Proof. exact EmbedProofs.bms_embed_rate. Qed.
Theorem C13_qua_rate_is_model : forall r c, QuaSpec.wf_chartb false c = true -> forallb wf_ulist (Embed.qua_lists c) = true ->
  Embed.qua_lists (QuaRate.qua_rate r c) = rate_lists r (Embed.qua_lists c).
Proof. exact EmbedProofs.qua_embed_rate_wf. Qed.

(* ---- non-vacuity of the write part ---- *)
(* Quaver: a chart with two hits, a hold, a tempo point and an SV, rated by 2, written and denoted: notes at 500, 625 and
   [500, 875], tempo (250 ms, 300 bpm) *)
Example C13_example_qua_write :
  QuaSpec.wf_chartb false Examples.qua_ex = true /\
  match Qua.Live.write (QuaRate.qua_rate 2 Examples.qua_ex), QuaSpec.chart_denote Examples.qua_ex with
  | Some d, Some a =>
      match QuaSpec.qua_denote d with
      | Some e => timeline_closeb 1 0 (tl_of_qua e) (tl_scale 2 (tl_of_qua a)) = true
                  /\ map (fun n => (tn_hold n, tn_col n, tn_time n, tn_len n)) (tl_notes (tl_of_qua e))
                     = [(false, 0%Z, 500, 0); (false, 3%Z, 625, 0); (true, 2%Z, 500, 375)]
                  /\ tl_tempo (tl_of_qua e) = [(250, 300)]
      | None => False end
  | _, _ => False
  end.
Proof. exact Examples.qua_example. Qed.
(* osu: a 7-key chart WITHOUT a preview point (PreviewTime -1) rated by 2 through writer model and reference semantics: C01's
   write oracle accepts the text, the five lists survive, the timeline is the rated one within 1 ms, and the text still says
   "no preview point" *)
Example C13_example_osu_write :
  Osu.meta_num (Osu.c_meta OsuRateProofs.wit_chart) OsuRate.IX_PREVIEW = -1 /\
  match Osu.osu_write (OsuRate.osu_chart_rate 2 OsuRateProofs.wit_chart) (Text.t "Re:Zero"%string) [] with
  | Some wl =>
      let written := Osu.file_lines (OsuProofs.render wl) in
      OsuSpec.write_specb 0 (OsuRate.osu_chart_rate 2 OsuRateProofs.wit_chart) (Text.t "Re:Zero"%string) [] written = true
      /\ match OsuSpec.osu_denote written with
         | Some d => OsuRateProofs.lists_written d (OsuRate.osu_chart_rate 2 OsuRateProofs.wit_chart) = true
                     /\ timeline_closeb 1 0 (tl_of_osu d) (tl_scale 2 (OsuRate.tl_of_chart OsuRateProofs.wit_chart)) = true
                     /\ nth OsuRate.IX_PREVIEW (OsuSpec.d_meta d) None = Some (Osu.MNum (-1))
         | None => False end
  | None => False
  end.
Proof. exact OsuRateProofs.osu_example_survives. Qed.
(* the same chart with a preview point at 12345 ms: written as int(6172.5) = 6172, accepted by C01's oracle; both rated
   charts are in the domain of C13_osu_rate_survives_write_dec6 *)
Example C13_example_osu_fractional_preview :
  match Osu.osu_write (OsuRate.osu_chart_rate 2 OsuRateProofs.wit_chart_pv) (Text.t "Re:Zero"%string) [] with
  | Some wl =>
      let written := Osu.file_lines (OsuProofs.render wl) in
      OsuSpec.write_specb 0 (OsuRate.osu_chart_rate 2 OsuRateProofs.wit_chart_pv) (Text.t "Re:Zero"%string) [] written = true
      /\ match OsuSpec.osu_denote written with
         | Some d => OsuRateProofs.lists_written d (OsuRate.osu_chart_rate 2 OsuRateProofs.wit_chart_pv) = true
                     /\ nth OsuRate.IX_PREVIEW (OsuSpec.d_meta d) None = Some (Osu.MNum 6172)
         | None => False end
  | None => False
  end.
Proof. exact OsuRateProofs.osu_example_fractional_preview. Qed.
Example C13_example_osu_in_domain :
  OsuWhole.wdom6 (OsuRate.osu_chart_rate 2 OsuRateProofs.wit_chart) (Text.t "Re:Zero"%string) [] = true /\
  OsuWhole.wdom6 (OsuRate.osu_chart_rate 2 OsuRateProofs.wit_chart_pv) (Text.t "Re:Zero"%string) [] = true.
Proof. exact OsuRateProofs.osu_example_in_domain. Qed.
(* StepMania / BMS: the formats' own non-vacuity charts, rated, are in the domains of the two theorems *)
Example C13_example_sm_write :
  SMWriteWholeFile.c03_domb (SMRate.sm_set_rate 2 SMWriteWholeEx.c03_ex_set) = true /\
  SMWriteWholeFile.c03_domb (SMRate.sm_set_rate (3 # 4) SMWriteWholeEx.c03_ex_set) = true /\
  SM.s_offset SMWriteWholeEx.c03_ex_set <> Some 0 /\ length (SM.s_maps SMWriteWholeEx.c03_ex_set) = 2%nat.
Proof. exact Examples.sm_example. Qed.
Example C13_example_bms_write :
  BMSSpec.write_dom Tables.Tables.snapper_table Tables.Tables.bms.max_keys Tables.Tables.bms.layout_BME [48;49]%Z (BMSRate.bms_chart_rate 2 Examples.bms_ex) = true /\
  BMSSpec.write_dom Tables.Tables.snapper_table Tables.Tables.bms.max_keys Tables.Tables.bms.layout_BME [48;49]%Z (BMSRate.bms_chart_rate (1 # 2) Examples.bms_ex) = true /\
  length (BMS.w_hits Examples.bms_ex) = 6%nat /\ length (BMS.w_holds Examples.bms_ex) = 2%nat /\
  length (BMS.w_bpms Examples.bms_ex) = 2%nat.
Proof. exact Examples.bms_example. Qed.

(* ===============================================================================================================
   Closure of the writer domains under rate: the survival theorems with the hypothesis on the SOURCE chart.
   Uniform scaling changes no position (Proofs/RateScaleProofs.v): for r > 0 the timing map built from the rated tempo
   rows (every offset / r, every bpm * r, reduced fractions) converts the rated times to the very same positions -- and
   likewise the re-derived tempo script, its millisecond form, time_of, the tempo active at a time, cumulative beats, the
   snap-grid test and C10's boolean domains.
   =============================================================================================================== *)
Theorem C13_scaling_keeps_positions : forall r, 0 < r -> forall tbl bcos os' os, Forall2 (fun a b => a == b / r) os' os ->
  TimingMap.tm_snaps tbl (map (RateScaleProofs.bco_sc r) bcos) os' = TimingMap.tm_snaps tbl bcos os.
Proof. exact RateScaleProofs.tm_snaps_sc. Qed.
Theorem C13_scaling_keeps_script : forall r, 0 < r -> forall tbl l,
  TimingMap.bco_to_bcs tbl (map (RateScaleProofs.bco_sc r) l) = option_map (map (RateScaleProofs.bcs_sc r)) (TimingMap.bco_to_bcs tbl l).
Proof. exact RateScaleProofs.bco_to_bcs_sc. Qed.
Theorem C13_scaling_keeps_beats : forall r, 0 < r -> forall init' init l o' o, init' == init / r -> o' == o / r ->
  Domain2.beats_at init' (map (RateScaleProofs.bcs_sc r) l) o' == Domain2.beats_at init l o.
Proof. exact RateScaleProofs.beats_at_sc. Qed.

(* ---- StepMania: C03's exact write domain is closed under rate for every r > 0, hence the survival theorem holds for
   every mapset of c03_domb (hypothesis on the source, none on the rated mapset) ---- *)
Theorem C13_sm_domain_closed : forall r s, 0 < r -> SMWriteWholeFile.c03_domb s = true ->
  SMWriteWholeFile.c03_domb (SMRate.sm_set_rate r s) = true.
Proof. exact RateWriteCloseSM.c03_domb_rate. Qed.
Theorem C13_sm_rate_survives_write_closed : forall r s, 0 < r -> SMWriteWholeFile.c03_domb s = true ->
  exists toks, SM.sm_write SMProofs.live_conf SM.current (SMRate.sm_set_rate r s) = Some toks /\
    forall txt, SM.match_toks 0 toks txt = true ->
      exists d, SMSpec.sm_denote txt = Some d /\ SMRate.header_survives r s d /\
                Forall2 (SMRate.chart_survives r) (SMSpec.d_charts d) (SM.s_maps s) /\
                SMSpec.forallb2 (fun tag v => match SMSpec.lookup_last tag (SMSpec.d_items d) None with
                                              | Some x => SMText.text_eqb x v | None => false end)
                                SMSpec.text_field_tags (SM.s_txt s) = true /\
                SMRate.tempo_survives r s d.
Proof. exact RateWriteClosedProofs.sm_rate_survives_write_closed. Qed.

(* ---- BMS: closure of write_dom is FALSE in general (':.3f' of bpm * r: C13_bms_write_dom_rate_refuted, the known finding
   bpm-3f-rounding seen through rate); it holds under exactly that guard, for r > 0 ---- *)
Theorem C13_bms_write_dom_rate_refuted :
  exists c r, 0 < r
    /\ BMSSpec.write_dom Tables.Tables.snapper_table Tables.Tables.bms.max_keys Tables.Tables.bms.layout_BME [48;49]%Z c = true
    /\ BMSSpec.write_dom Tables.Tables.snapper_table Tables.Tables.bms.max_keys Tables.Tables.bms.layout_BME [48;49]%Z (BMSRate.bms_chart_rate r c) = false
    /\ BMSSpec.wf_wchart 0 Tables.Tables.snapper_table Tables.Tables.bms.layout_BME [48;49]%Z (BMSRate.bms_chart_rate r c) = true
    /\ BMSSpec.tempo_dom Tables.Tables.snapper_table (BMSRate.bms_chart_rate r c) = true
    /\ forallb BMSSpec.bpm_3f_ok (BMS.w_bpms (BMSRate.bms_chart_rate r c)) = false.
Proof. exact RateWriteClosedProofs.bms_write_dom_rate_refuted. Qed.
Theorem C13_bms_domain_closed : forall tbl r, 0 < r -> forall mk lay dflt c, BMSSpec.write_dom tbl mk lay dflt c = true ->
  forallb BMSSpec.bpm_3f_ok (map (BMSRate.bco_rate r) (BMS.w_bpms c)) = true ->
  BMSSpec.write_dom tbl mk lay dflt (BMSRate.bms_chart_rate r c) = true.
Proof. exact RateWriteCloseBMS.bms_write_dom_rate. Qed.
Theorem C13_bms_rate_survives_write_closed : forall mk lay dflt r c (rd : Q -> BMSText.text),
  0 < r -> BMSSpec.write_dom Tables.Tables.snapper_table mk lay dflt c = true ->
  forallb BMSSpec.bpm_3f_ok (map (BMSRate.bco_rate r) (BMS.w_bpms c)) = true ->
  (forall q, BMSText.parse_decimal (rd q) <> None) ->
  exists ls l d, BMS.bms_write Tables.Tables.snapper_table lay dflt (BMSRate.bms_chart_rate r c) = Some ls /\
    BMSSpec.wscript Tables.Tables.snapper_table (BMSRate.bms_chart_rate r c) = Some l /\
    BMSSpec.bms_denote lay (map (BMSSpec.render_with rd) ls) = Some d /\
    BMSRate.survives Tables.Tables.snapper_table dflt r c l d.
Proof. exact (RateWriteClosedProofs.bms_rate_survives_write_closed Tables.Tables.snapper_table Examples.table_ok_live). Qed.

(* BMS charts whose tempo rows are NOT in time order (C05_bms_write_denotes_any_order): write_dom_any is closed under rate
   under the same guard (sorting commutes with the scaling), and the rated chart survives the write: the tempo changes of
   the file are the source's rows in time order at time / r with bpm * r *)
Theorem C13_bms_domain_any_closed : forall tbl r, 0 < r -> forall mk lay dflt c, BMSSpec.write_dom_any tbl mk lay dflt c = true ->
  forallb BMSSpec.bpm_3f_ok (map (BMSRate.bco_rate r) (BMS.w_bpms c)) = true ->
  BMSSpec.write_dom_any tbl mk lay dflt (BMSRate.bms_chart_rate r c) = true.
Proof. exact RateWriteCloseBMS.bms_write_dom_any_rate. Qed.
Theorem C13_bms_rate_survives_write_any_order : forall mk lay dflt r c (rd : Q -> BMSText.text),
  0 < r -> BMSSpec.write_dom_any Tables.Tables.snapper_table mk lay dflt c = true ->
  forallb BMSSpec.bpm_3f_ok (map (BMSRate.bco_rate r) (BMS.w_bpms c)) = true ->
  (forall q, BMSText.parse_decimal (rd q) <> None) ->
  exists ls l d, BMS.bms_write Tables.Tables.snapper_table lay dflt (BMSRate.bms_chart_rate r c) = Some ls /\
    BMSSpec.wscript Tables.Tables.snapper_table (BMSRate.bms_chart_rate r c) = Some l /\
    BMSSpec.bms_denote lay (map (BMSSpec.render_with rd) ls) = Some d /\
    BMSRate.survives_any Tables.Tables.snapper_table dflt r c l d.
Proof. exact (RateWriteClosedProofs.bms_rate_survives_write_any_order Tables.Tables.snapper_table Examples.table_ok_live). Qed.

(* ---- osu: the structural domain write_domain is closed under rate for every r <> 0; the full domain of the whole-file
   writer theorem also demands that the float printer holds the written numbers, which a rate change can break
   (C13_osu_wdom6_rate_refuted: 1000 ms / 3).  The survival theorem with the source chart in write_domain keeps exactly
   that oracle clause, on the rated numbers. ---- *)
Theorem C13_osu_write_domain_closed : forall r c ut ua, ~ r == 0 -> OsuSpec.write_domain c ut ua = true ->
  OsuSpec.write_domain (OsuRate.osu_chart_rate r c) ut ua = true.
Proof. exact RateWriteCloseOsu.osu_write_domain_rate. Qed.
Theorem C13_osu_wdom6_rate_refuted :
  exists c r, ~ r == 0 /\ OsuWhole.wdom6 c (Text.t "Re:Zero"%string) [] = true
    /\ OsuWhole.wdom6 (OsuRate.osu_chart_rate r c) (Text.t "Re:Zero"%string) [] = false
    /\ OsuSpec.write_domain (OsuRate.osu_chart_rate r c) (Text.t "Re:Zero"%string) [] = true.
Proof. exact RateWriteCloseOsu.osu_wdom6_rate_refuted. Qed.
Theorem C13_osu_rate_survives_write_closed : forall (show_num show_inum : Q -> Text.text) (printable iprintable : Q -> bool),
  (forall q, printable q = true -> Text.parse_dec (show_num q) = Some (Qred q)) ->
  (forall q, iprintable q = true -> Text.parse_int (show_inum q) = Some (Qfloor q)) ->
  forall r c ut ua, ~ r == 0 -> OsuSpec.write_domain c ut ua = true ->
  forallb printable (OsuSpec.wn_numbers (OsuRate.osu_chart_rate r c)) = true -> forallb iprintable (OsuSpec.wi_numbers c) = true ->
  exists text d, OsuWrite.written show_num show_inum (OsuRate.osu_chart_rate r c) ut ua = Some text /\
                 OsuSpec.osu_denote text = Some d /\ OsuSpec.wf_osu_text text = true /\ OsuSpec.all_present d = true /\
                 OsuRateProofs.survives r c d.
Proof. exact RateWriteCloseOsu.osu_rate_survives_write_closed. Qed.
Theorem C13_osu_rate_survives_write_dec6_closed : forall r c ut ua, ~ r == 0 -> OsuSpec.write_domain c ut ua = true ->
  forallb OsuWhole.dec6_printable (OsuSpec.wn_numbers (OsuRate.osu_chart_rate r c)) = true ->
  exists text d, OsuWhole.written6 (OsuRate.osu_chart_rate r c) ut ua = Some text /\
                 OsuSpec.osu_denote text = Some d /\ OsuSpec.wf_osu_text text = true /\ OsuSpec.all_present d = true /\
                 OsuRateProofs.survives r c d.
Proof. exact RateWriteCloseOsu.osu_rate_survives_write_dec6_closed. Qed.

(* ---- non-vacuity of the closed forms: the formats' own example charts lie in the SOURCE domains; rates 7/3 (StepMania),
   2, 1/2, 3/4, 1001/1000 (BMS: guard true), 2 (osu: rated numbers within six decimals) satisfy the remaining guards ---- *)
Example C13_example_closed :
  SMWriteWholeFile.c03_domb SMWriteWholeEx.c03_ex_set = true
  /\ SMWriteWholeFile.c03_domb (SMRate.sm_set_rate (7 # 3) SMWriteWholeEx.c03_ex_set) = true
  /\ BMSSpec.write_dom Tables.Tables.snapper_table Tables.Tables.bms.max_keys Tables.Tables.bms.layout_BME [48;49]%Z Examples.bms_ex = true
  /\ forallb (fun r => forallb BMSSpec.bpm_3f_ok (map (BMSRate.bco_rate r) (BMS.w_bpms Examples.bms_ex))) [2; 1 # 2; 3 # 4; 1001 # 1000] = true
  /\ OsuSpec.write_domain OsuRateProofs.wit_chart (Text.t "Re:Zero"%string) [] = true
  /\ forallb OsuWhole.dec6_printable (OsuSpec.wn_numbers (OsuRate.osu_chart_rate 2 OsuRateProofs.wit_chart)) = true.
Proof. exact RateWriteClosedProofs.closed_example. Qed.
Example C13_example_closed_any_order :
  BMSSpec.write_dom_any Tables.Tables.snapper_table Tables.Tables.bms.max_keys Tables.Tables.bms.layout_BME [48;49]%Z RateWriteClosedProofs.bms_ex_rev = true
  /\ BMSSpec.write_dom Tables.Tables.snapper_table Tables.Tables.bms.max_keys Tables.Tables.bms.layout_BME [48;49]%Z RateWriteClosedProofs.bms_ex_rev = false
  /\ forallb (fun r => forallb BMSSpec.bpm_3f_ok (map (BMSRate.bco_rate r) (BMS.w_bpms RateWriteClosedProofs.bms_ex_rev))) [2; 3 # 4] = true.
Proof. exact RateWriteClosedProofs.closed_example_any. Qed.
