(* Correspondence runner for C09 (read -> convert -> write).
   A case = the SOURCE FILE (text / YAML tree / abstract OJN file), the index k of the source chart (StepMania chart,
   O2Jam difficulty), the key count and the documented column shift of the conversion, and the TARGET FILE the real
   pipeline  B.write(AToB.convert(A.read(file)))  produced (None = the pipeline raised).
   Everything is decided here from the two FILES with the reference interpreters of the formats
   (osu_denote / qua_denote / sm_denote / bms_denote / ojn_denote) and Formats/Timeline.v:
     wf_ok   = the source file is in the domain of C01 / C06 / C02 / C04 / C07 and the conversion is inside the
               composition's domain (conv_ok: what the target FORMAT can hold);
     spec_ok = negb wf || the target file is well-formed in the target format (wf_osu_text / wf_qua_docb / wf_sm_textb /
               B.4 written form) and its timeline equals the source file's, start and end of every note and every tempo point
               within the coarser of the two formats' resolutions at the local tempo (res_pair) + tol;
     corr_ok = negb wf || the target timeline is the one the composition of the DENOTATIONS predicts (source denotation -> what the
               target's writer semantics does to a time -> compare with the target's denotation): whole milliseconds by
               truncation toward zero for osu / Quaver, the nearest snap of the 1/96 Farey grid for BMS / StepMania (exact on
               the grid).  This is sharper than spec (e.g. round() instead of int() stays within 1 ms but is not
               truncation).  It is NOT the composition of the reader / cast / writer models (see docs/C09.md). *)
From Coq Require Import ZArith QArith Qround Qabs List Bool.
From RV Require Export Base.PyNum Formats.Timeline.
From RV Require Import Base.Text Timing.Snapper Timing.Snap Timing.TimingMap Timing.Integrate Generated.Tables.
From RV Require Formats.Osu Formats.OsuSpec Formats.Qua Formats.QuaSpec Formats.SMText Formats.SM Formats.SMSpec
  Formats.BMSText Formats.BMSSpec Formats.O2J Formats.O2JSpec.
Import ListNotations.
Open Scope Q_scope.

(* ---- short constructors for case literals ---- *)
Definition yi := Qua.YInt.   Definition yf := Qua.YFloat.  Definition ys := Qua.YStr.   Definition yb := Qua.YBool.
Definition yl := Qua.YList.  Definition ym := Qua.YMap.    Definition ynan := Qua.YNaN.  Definition ynull := Qua.YNull.
Definition fh := O2JSpec.mkFHdr.  Definition pk := O2JSpec.mkPkg.  Definition fl := O2JSpec.mkFile.

Definition ztext := list Z.
(* a text as its distinct lines (runs of one character written  R c n) plus the sequence of line numbers *)
Inductive seg := L (l : list Z) | R (c n : Z).
Definition unseg (l : list seg) : ztext :=
  flat_map (fun s => match s with L l => l | R c n => repeat c (Z.to_nat n) end) l.
Definition pick_lines (tbl : list (list seg)) (idx : list Z) : list ztext :=
  let t := map unseg tbl in map (fun i => nth (Z.to_nat i) t []) idx.
Definition mk_text (tbl : list (list seg)) (idx : list Z) : ztext := SMText.join [10%Z] (pick_lines tbl idx).

Inductive source :=
| SOsu (tbl : list (list seg)) (idx : list Z)
| SQua (doc : Qua.ytree)
| SSM (tbl : list (list seg)) (idx : list Z)
| SBms (lay : nat) (tbl : list (list seg)) (idx : list Z)
| SO2j (f : O2JSpec.ofile).
Inductive target :=
| TOsu (tbl : list (list seg)) (idx : list Z)
| TQua (doc : Qua.ytree)
| TSM (tbl : list (list seg)) (idx : list Z)
| TBms (lay : nat) (tbl : list (list seg)) (idx : list Z).

Inductive c09case :=
| C09 (dom : bool) (tol : Q) (keys : Z) (shift : Z) (k : nat) (src : source)
      (b : fmt) (tlay : nat)                 (* the target game asked for, and the BMS layout written with *)
      (out : option target).

Record verdict := { corr_ok : bool; spec_ok : bool; wf_ok : bool }.

Definition tbl := Tables.snapper_table.
Definition layout_ix (i : nat) : BMSSpec.slayout := nth i Tables.bms.layouts [].

Definition src_fmt (s : source) : fmt :=
  match s with SOsu _ _ => FOsu | SQua _ => FQua | SSM _ _ => FSM | SBms _ _ _ => FBms | SO2j _ => FO2j end.
Definition tgt_fmt (t : target) : fmt :=
  match t with TOsu _ _ => FOsu | TQua _ => FQua | TSM _ _ => FSM | TBms _ _ _ => FBms end.

(* ---- the source: (in the domain of its own property, timeline of chart k, key count the file declares if it does) ---- *)
Definition c02_wf (txt : ztext) (d : SMSpec.dfile) : bool := SMSpec.c02_dom d && SMSpec.dialect_ok txt d.

Definition src_read (s : source) (k : nat) : bool * option timeline * option Z :=
  match s with
  | SOsu t i =>
      let lines := pick_lines t i in
      match OsuSpec.osu_denote lines with
      | Some d => (OsuSpec.wf_read_text lines, Some (tl_of_osu d), Some (OsuSpec.d_keys d))
      | None => (false, None, None)
      end
  | SQua doc =>
      match QuaSpec.qua_denote doc with
      | Some d => (QuaSpec.wf_docb doc, Some (tl_of_qua d), None)
      | None => (false, None, None)
      end
  | SSM t i =>
      let txt := mk_text t i in
      match SMSpec.sm_denote txt with
      | Some d => (c02_wf txt d, tl_of_sm d k,
                   match nth_error (SMSpec.d_charts d) k with Some c => SMSpec.ref_keys (SMSpec.d_type c) | None => None end)
      | None => (false, None, None)
      end
  | SBms li t i =>
      let lines := pick_lines t i in
      let lay := layout_ix li in
      match BMSSpec.bms_denote lay lines with
      | Some d => (BMSSpec.wf_bms_lines lay lines, Some (tl_of_bms d), None)
      | None => (false, None, None)
      end
  | SO2j f =>
      match O2JSpec.ojn_denote f with
      | Some d => (O2JSpec.wf_file f, tl_of_o2j d k, Some 7%Z)
      | None => (false, None, None)
      end
  end.

(* ---- the target: (well-formed in its format, timeline) ---- *)
(* B.4 well-formed written BMS: every line blank, a header or a valid data line (three-digit measure, two-character
   channel, an even number of base-36 digits), at most one object per (measure, channel, position), and the text denotes *)
Definition wf_bms_written (lay : BMSSpec.slayout) (lines : list ztext) : bool :=
  forallb BMSSpec.written_line_ok lines
  && BMSSpec.no_dup_by BMSSpec.same_slot (flat_map BMSSpec.objs_of_line lines).

Definition tgt_read (t : target) : bool * option timeline :=
  match t with
  | TOsu tb i =>
      let lines := pick_lines tb i in
      match OsuSpec.osu_denote lines with
      | Some d => (OsuSpec.wf_osu_text lines, Some (tl_of_osu d))
      | None => (false, None)
      end
  | TQua doc =>
      match QuaSpec.qua_denote doc with
      | Some d => (QuaSpec.wf_qua_docb doc, Some (tl_of_qua d))
      | None => (false, None)
      end
  | TSM tb i =>
      match SMSpec.sm_denote (mk_text tb i) with           (* wf_sm_text = the text denotes *)
      | Some d => (true, tl_of_sm d 0)
      | None => (false, None)
      end
  | TBms li tb i =>
      let lines := pick_lines tb i in
      let lay := layout_ix li in
      match BMSSpec.bms_denote lay lines with
      | Some d => (wf_bms_written lay lines, Some (tl_of_bms d))
      | None => (false, None)
      end
  end.

(* ---- the composition's domain: what the target format can hold at all ---- *)
Definition first_time (tempo : list tpoint) : Q := match tempo with p :: _ => fst p | [] => 0 end.
Fixpoint pairwise_all {A} (p : A -> A -> bool) (l : list A) : bool :=
  match l with [] => true | x :: r => forallb (p x) r && pairwise_all p r end.
Definition key_ok (b : fmt) (keys : Z) : bool :=
  match b with
  | FOsu => (1 <=? keys)%Z && (keys <=? 18)%Z
  | FQua => (keys =? 4)%Z || (keys =? 7)%Z || (keys =? 8)%Z                  (* QuaMapMode.get_mode *)
  | FSM => (keys =? 3)%Z || (keys =? 4)%Z || (keys =? 6)%Z || (keys =? 7)%Z || (keys =? 8)%Z   (* SMMapChartTypes.get_type *)
  | _ => (1 <=? keys)%Z
  end.
Definition is_grid (b : fmt) : bool := match b with FSM | FBms => true | _ => false end.

(* src: shifted, normalised source timeline.  rf: the resolution used by spec.
   every format: columns inside the key count, a key count the target game has;
   distinct objects of a column, and distinct tempo points, further apart than twice the resolution (a coarser grid cannot
   keep them apart), long notes longer than that on a grid;
   grid formats: a positive tempo everywhere, nothing before the first tempo point (beat 0);
   BMS: first tempo point at 0 ms (the format has no offset), every column a lane of the layout *)
Definition conv_ok (tol : Q) (b : fmt) (keys shift : Z) (lanes : list Z) (rf : Q -> Q) (src : timeline) : bool :=
  let ns := tl_notes src in
  let tp := tl_tempo src in
  key_ok b keys
  && forallb (fun n => (shift <=? tn_col n)%Z && (tn_col n <? keys + shift)%Z && Qle_bool 0 (tn_len n)) ns
  && pairwise_all (fun x y => negb (tn_col x =? tn_col y)%Z
                              || (Qlt_bool (tn_end x + 2 * rf (tn_end x)) (tn_time y)
                                  || Qlt_bool (tn_end y + 2 * rf (tn_end y)) (tn_time x))) ns
  && pairwise_all (fun x y : tpoint => Qlt_bool (2 * rf (fst x)) (Qabs (fst x - fst y))) tp
  && (negb (is_grid b)
      || (match tp with [] => false | _ => true end
          && forallb (fun p : tpoint => Qlt_bool 0 (snd p)) tp
          && forallb (fun n => Qle_bool (first_time tp - tol) (tn_time n)
                               && (negb (tn_hold n) || Qlt_bool (2 * rf (tn_time n)) (tn_len n))) ns))
  && match b with
     | FBms => q_within tol (first_time tp) 0 && forallb (fun n => existsb (Z.eqb (tn_col n)) lanes) ns
     | _ => true
     end.

(* ---- corr: what the target writer's semantics does to a source time ---- *)
Definition near_int (tol t : Q) : bool := q_within tol t (inject_Z (Qfloor (t + (1 # 2)))).
(* int(): truncation toward zero; binary64 may land on the other side of an integer the exact time sits on *)
Definition trunc_ok (tol t t' : Q) : bool :=
  q_within tol t' (inject_Z (qtrunc t)) || (near_int tol t && q_within (1 + tol) t' t).

(* nearest snap of the Farey-96 table relative to the tempo point in force: exact when t is on the grid *)
Fixpoint active_tp (cur : tpoint) (l : list tpoint) (t : Q) : tpoint :=
  match l with
  | p :: r => if Qle_bool (fst p) t then active_tp p r t else cur
  | [] => cur
  end.
Definition on_grid (tol : Q) (tempo : list tpoint) (t : Q) : bool :=
  match tempo with
  | [] => false
  | p :: r =>
      let a := active_tp p r t in
      let bl := 60000 / snd a in
      let x := frac ((t - fst a) / bl) in
      Qle_bool (Qabs (x - snap_frac tbl x) * bl) tol
  end.
(* a tempo point is itself snapped relative to its predecessor: when it is off that grid it moves by up to 1/192 beat of
   the predecessor's tempo, and so does everything after it *)
Fixpoint disp_go (tol : Q) (prev : tpoint) (l : list tpoint) (t : Q) : Q :=
  match l with
  | [] => 0
  | p :: r => if Qle_bool (fst p) t
              then (if on_grid tol [prev] (fst p) then 0 else 60000 / snd prev / 192) + disp_go tol p r t
              else 0
  end.
Definition tempo_disp (tol : Q) (tempo : list tpoint) (t : Q) : Q :=
  match tempo with [] => 0 | p :: r => Qred (disp_go tol p r t) end.
Definition grid_ok (tol extra : Q) (tempo : list tpoint) (tempo_point : bool) (t t' : Q) : bool :=
  let d := tempo_disp tol tempo t in
  if tempo_point || on_grid tol tempo t then q_within (tol + tol + extra + d) t' t
  else q_within (bl_near tempo t / 192 + tol + extra + d) t' t.

(* StepMania writer: a measure has at most 384 rows (a finer position is truncated to the row before it: < 1/96 beat) and
   tempo beats are printed with six decimals (0.0000005 beat at each change of beat length).  Exact regime: every object on
   the 1/48-beat grid of its tempo point and every tempo point a quarter beat multiple after the previous one. *)
Definition on_frac_grid (tol : Q) (den : Z) (tempo : list tpoint) (t : Q) : bool :=
  match tempo with
  | [] => false
  | p :: r =>
      let a := active_tp p r t in
      let bl := 60000 / snd a in
      let x := (t - fst a) / bl * inject_Z den in
      Qle_bool (Qabs (x - inject_Z (Qfloor (x + (1 # 2)))) * bl) (tol * inject_Z den)
  end.
Fixpoint tempo_steps_ok (tol : Q) (prev : tpoint) (l : list tpoint) : bool :=
  match l with
  | [] => true
  | p :: r => on_frac_grid tol 4 [prev] (fst p) && tempo_steps_ok tol p r
  end.
Fixpoint round_slack (l : list tpoint) (prev : Q) : Q :=
  match l with
  | [] => 0
  | p :: r => (1 # 2000000) * Qabs (60000 / snd p - prev) + round_slack r (60000 / snd p)
  end.
Definition sm_exact (tol : Q) (src : timeline) : bool :=
  match tl_tempo src with
  | [] => false
  | p :: r => tempo_steps_ok tol p r
              && forallb (fun n => on_frac_grid tol 48 (tl_tempo src) (tn_time n) && on_frac_grid tol 48 (tl_tempo src) (tn_end n))
                         (tl_notes src)
  end.
Definition sm_extra (tol : Q) (src : timeline) : Q -> Q :=
  if sm_exact tol src then (fun _ => 0)
  else let sl := match tl_tempo src with [] => 0 | p :: r => round_slack r (60000 / snd p) end in
       fun t => Qred (bl_near (tl_tempo src) t / 96 + sl).

Definition time_rule (tol : Q) (b : fmt) (src : timeline) (tempo_point : bool) (t t' : Q) : bool :=
  match b with
  | FOsu => if tempo_point then q_within tol t' t else trunc_ok tol t t'
  | FQua => trunc_ok tol t t'
  | FSM => grid_ok tol (sm_extra tol src t) (tl_tempo src) tempo_point t t'
  | FBms => grid_ok tol 0 (tl_tempo src) tempo_point t t'
  | FO2j => false
  end.
Definition expected_ok (tol e : Q) (b : fmt) (src tgt : timeline) : bool :=
  ms_matchb (fun x y : tnote => Bool.eqb (tn_hold x) (tn_hold y) && (tn_col x =? tn_col y)%Z
                                && time_rule tol b src false (tn_time y) (tn_time x)
                                && time_rule tol b src false (tn_end y) (tn_end x)) (tl_notes tgt) (tl_notes src)
  && ms_matchb (fun x y : tpoint => time_rule tol b src true (fst y) (fst x) && q_within e (snd x) (snd y))
               (tl_tempo tgt) (tl_tempo src).

(* ---- the check ---- *)
Definition BPM_EPS : Q := 1 # 1000000.

Definition check (c : c09case) : verdict :=
  match c with
  | C09 dom tol keys shift k src b tlay out =>
      let '(wf_src, otl, dkeys) := src_read src k in
      match otl with
      | None => {| corr_ok := true; spec_ok := true; wf_ok := negb dom |}      (* the source file does not denote *)
      | Some tl0 =>
          let a := src_fmt src in
          let s := tl_norm (tl_shift shift tl0) in
          let keys_ok := match dkeys with Some kk => (kk =? keys)%Z | None => true end in
          let rf := res_pair a b (tl_tempo s) tol in
          let lanes := match b with FBms => BMSSpec.lanes (layout_ix tlay) | _ => [] end in
          let wf := wf_src && keys_ok && conv_ok tol b keys shift lanes rf s in
          match out with
          | None => {| corr_ok := negb wf; spec_ok := negb wf; wf_ok := negb dom || wf |}     (* the pipeline raised *)
          | Some t =>
              let '(wf_t, ott) := tgt_read t in
              match ott with
              | None => {| corr_ok := negb wf; spec_ok := negb wf; wf_ok := negb dom || wf |}  (* the target does not denote *)
              | Some tt0 =>
                  let tt := tl_norm tt0 in
                  let same_game := match b, tgt_fmt t with
                                   | FOsu, FOsu | FQua, FQua | FSM, FSM | FBms, FBms => true | _, _ => false end in
                  {| corr_ok := negb wf || (same_game && expected_ok tol BPM_EPS b s tt);
                     spec_ok := negb wf || (same_game && wf_t && timeline_close_byb rf BPM_EPS tt s);
                     wf_ok := negb dom || wf |}
              end
          end
      end
  end.

Fixpoint failing_go (i : nat) (l : list c09case) (acc : list nat * list nat * list nat)
  : list nat * list nat * list nat :=
  match l with
  | [] => acc
  | c :: l' =>
      let v := check c in
      let '(a, b, d) := acc in
      failing_go (S i) l'
        ((if corr_ok v then a else i :: a), (if spec_ok v then b else i :: b), (if wf_ok v then d else i :: d))
  end.
Definition failing (l : list c09case) := failing_go 0 l ([], [], []).

(* diagnostics for replays *)
Definition show (c : c09case) : option (timeline * timeline) :=
  match c with
  | C09 _ _ _ shift k src _ _ (Some t) =>
      match src_read src k, tgt_read t with
      | (_, Some a, _), (_, Some b) => Some (tl_norm (tl_shift shift a), tl_norm b)
      | _, _ => None
      end
  | _ => None
  end.
