(* Correspondence runner for C19.  Each case carries a chart, the call made on the real map built from it and
   what the implementation returned.  corr: the model reproduces the implementation's output (rows up to
   permutation, numbers by value, relative tolerance [tol] — 0 in the exact stream; where dominant_bpm has
   several maximisers any of the model's maximal groups is accepted as the reference);  spec: the oracle of
   Algo/AnalysisSpec.v on the IMPLEMENTATION's output;  wf: the case lies in the property's domain. *)
From Coq Require Import ZArith QArith Qabs List Bool.
From RV Require Export Base.PyNum Algo.DominantBpm Algo.ScrollSpeed Algo.AnalysisSpec.
Import ListNotations.
Open Scope Q_scope.

Inductive c19case :=
| CDom (tol : Q) (c : chart) (out : option Q)
| CScroll (tol : Q) (c : chart) (ov : option Q) (out : option (list (Q * option Q)))
| CNorm (tol : Q) (c : chart) (ov : option Q) (out : option (list (Q * Q))).

Record verdict := { corr_ok : bool; spec_ok : bool; wf_ok : bool }.

(* labels of the model's groups whose sum is maximal (within tol): what idxmax may legitimately return *)
Definition model_maximisers (tol : Q) (g : list (Q * Q)) : list Q :=
  map fst (filter (fun x => forallb (fun y => Qle_bool (snd y - snd x) (tol * (1 + snd y))) g) g).

Definition model_refs (tol : Q) (c : chart) (ov : option Q) : option (list Q) :=
  match ov with
  | Some o => if Qeq_bool o 0 then option_map (model_maximisers tol) (dominant_groups c) else Some [o]
  | None => option_map (model_maximisers tol) (dominant_groups c)
  end.
Definition nonempty {A} (l : option (list A)) : option (list A) :=
  match l with Some [] => None | _ => l end.

Definition speed_close (tol : Q) (a b : option Q) : bool :=
  match a, b with
  | None, None => true
  | Some x, Some y => q_close tol x y
  | _, _ => false
  end.
Definition orow_close (tol : Q) (a b : orow) : bool := Qeq_bool (fst a) (fst b) && speed_close tol (snd a) (snd b).
Definition qrow_close (tol : Q) (a b : Q * Q) : bool := Qeq_bool (fst a) (fst b) && q_close tol (snd a) (snd b).

Definition check (k : c19case) : verdict :=
  match k with
  | CDom tol c out =>
      let wf := wf_chart c in
      (* two tempo points at ONE time: pandas' sort of equal keys is unspecified (quicksort), so neither the value nor the
         model's stable order is determined there - correspondence is demanded where the times are distinct *)
      {| corr_ok := negb (distinct_times (tempo_times c))
                    || match nonempty (option_map (model_maximisers tol) (dominant_groups c)), out with
                       | None, None => true
                       | Some ms, Some b => existsb (Qeq_bool b) ms
                       | _, _ => false
                       end;
         spec_ok := negb wf || dominant_specb tol c out;
         wf_ok := wf |}
  | CScroll tol c ov out =>
      let wf := wf_chart c && wf_override ov in
      {| corr_ok := negb (distinct_times (tempo_times c))
                    || match nonempty (model_refs tol c ov), out with
                    | None, None => true
                    | Some refs, Some o =>
                        existsb (fun ref => match scroll_speed_with c ref with
                                            | Some m => match_up (orow_close tol) m o
                                            | None => false
                                            end) refs
                    | _, _ => false
                    end;
         spec_ok := negb wf || scroll_specb tol c ov out;
         wf_ok := wf |}
  | CNorm tol c ov out =>
      let wf := wf_chart c && wf_override ov in
      {| corr_ok := negb (distinct_times (tempo_times c))
                    || match nonempty (model_refs tol c ov), c_svs c, out with
                    | None, _, None => true
                    | Some _, None, None => true
                    | Some refs, Some _, Some o =>
                        existsb (fun ref => match_up (qrow_close tol) (sv_normalize_with c ref) o) refs
                    | _, _, _ => false
                    end;
         spec_ok := negb wf || norm_specb tol c ov out;
         wf_ok := wf |}
  end.

Fixpoint failing_go (i : nat) (l : list c19case) (acc : list nat * list nat * list nat)
  : list nat * list nat * list nat :=
  match l with
  | [] => acc
  | c :: l' =>
      let v := check c in
      let '(a, b, d) := acc in
      failing_go (S i) l'
        ((if corr_ok v then a else i :: a), (if spec_ok v then b else i :: b), (if wf_ok v then d else i :: d))
  end.
Definition failing (l : list c19case) := failing_go 0 l ([], [], []).
