(* Correspondence runner for C10: the harness writes cases (inputs + what the implementation returned);
   each case is evaluated here: model vs implementation (corr), proven oracle on the implementation's
   output (spec), and whether the case lies in the theorem's domain (wf). *)
From Coq Require Import ZArith QArith Qround Qabs List Bool.
From RV Require Export Base.PyNum Timing.Snapper Timing.Snap Timing.TimingMap Timing.Integrate Timing.Domain Timing.Domain2 Generated.Tables.
Import ListNotations.
Open Scope Q_scope.

Definition tbl := Tables.snapper_table.

Definition q_close (tol a b : Q) : bool := Qle_bool (Qabs (a - b)) tol.
Fixpoint list_close (tol : Q) (a b : list Q) : bool :=
  match a, b with
  | [], [] => true
  | x :: a', y :: b' => q_close tol x y && list_close tol a' b'
  | _, _ => false
  end.
Definition opt_list_close (tol : Q) (a b : option (list Q)) : bool :=
  match a, b with
  | None, None => true
  | Some x, Some y => list_close tol x y
  | _, _ => false
  end.
Fixpoint snaps_eq (a b : list snap) : bool :=
  match a, b with
  | [], [] => true
  | x :: a', y :: b' => snap_eq x y && Qeq_bool (s_met x) (s_met y) && snaps_eq a' b'
  | _, _ => false
  end.

Definition is_int_1_8 (q : Q) : bool :=
  Qeq_bool q (inject_Z (Qfloor q)) && Qle_bool 1 q && Qle_bool q 8.
Definition in_table (x : Q) : bool := existsb (Qeq_bool x) tbl.

(* domain of the theorems: exactly the boolean domain of Props/C10.v (C10_offsets_on_grid), restricted to the
   metronomes 1..8 the property speaks of *)
Definition wf_script (l : list bcs) : bool :=
  domainb tbl l [] && forallb (fun c => is_int_1_8 (bs_met c)) l.

(* active_at_time, beats_at, abs_beat, same_met, wf_query, query_on_grid and the boolean domains dom_snapsb, dom_beatsb,
   dom_posb, dom_beats_posb, time_on_gridb come from Timing/Domain2.v: they are the domains / spec functions of the
   theorems C10_ms_roundtrip, C10_beats, C10_beats_of_positions in Props/C10.v *)
Definition mets_1_8 (l : list bcs) : bool := forallb (fun c => is_int_1_8 (bs_met c)) l.

Inductive c10case :=
| COffsets (tol : Q) (init : Q) (l : list bcs) (qs : list snap) (out : option (list Q))
| COffsetsO (tol : Q) (l : list bco) (qs : list snap) (out : option (list Q))
| CSnaps (exact : bool) (tol : Q) (init : Q) (l : list bcs) (os : list Q) (out : option (list snap))
| CBeats (tol : Q) (init : Q) (l : list bcs) (qs : list snap) (os : list Q) (out : option (list Q))
(* TimingMap.beats at arbitrary times (on the grid or not) of a constant-metronome script *)
| CBeatsT (tol : Q) (init : Q) (l : list bcs) (os : list Q) (out : option (list Q))
| CSnapper (x : Q) (out : Q)
| CRederive (init : Q) (l : list bcs) (out : option (list bcs))
(* the timing map built from a tempo list (any order, any positions, equal neighbouring tempos) holds exactly the
   tempo changes given: BpmList.to_timing_map / from_bpm_changes_offset drop, merge or invent nothing *)
| CKeeps (given got : list bco)
(* Snapper(divisions=...) with custom divisions in any listing order: the allowed fractions are those of denominator up to
   max(divisions) (table t, built by the harness from that rule, not from the implementation) *)
| CSnapperT (t : list Q) (x out : Q).

Record verdict := { corr_ok : bool; spec_ok : bool; wf_ok : bool }.

Definition model_tm (init : Q) (l : list bcs) : option (list bco) := from_bcs init l.

Definition bcs_list_eq (a b : list bcs) : bool :=
  (fix go a b := match a, b with
   | [], [] => true
   | x :: a', y :: b' => Qeq_bool (bs_bpm x) (bs_bpm y) && Qeq_bool (bs_met x) (bs_met y)
                         && snap_eq (bs_snap x) (bs_snap y) && Qeq_bool (s_met (bs_snap x)) (s_met (bs_snap y)) && go a' b'
   | _, _ => false end) a b.

(* the conclusion of C10_ms_roundtrip for one query, as a boolean (tol = 0 on the exact stream).  The active change is
   computed once; [on_gridb tbl ((o - fst tc) / bl)] is [time_on_gridb tbl init l o] unfolded. *)
Definition snap_spec_ok (exact : bool) (tol : Q) (init : Q) (l : list bcs) (o : Q) (s : snap) : bool :=
  let tc := active_at_time init l o in
  let c := snd tc in
  let bl := beat_len (bs_bpm c) in
  let t := time_of init l s in
  (* within 1/192 beat at the active tempo *)
  Qle_bool (Qabs (t - o)) (bl / 192 + tol)
  (* exact when the time is on the snap grid relative to the active change *)
  && (negb (on_gridb tbl ((o - fst tc) / bl)) || q_close tol t o)
  (* a position normalised under the active metronome (exact stream only: binary64 rounding legitimately moves a
     time across a tempo change, which changes the active metronome) *)
  && (negb exact || ((0 <=? s_m s)%Z && Qle_bool 0 (s_b s) && Qlt_bool (s_b s) (bs_met c) && Qeq_bool (s_met s) (bs_met c))).

(* the conclusion of C10_beats on the (time, cumulative beat) pairs *)
Definition beats_time_ok (tol : Q) (init : Q) (l : list bcs) (ob : list (Q * Q)) : bool :=
  forallb (fun p => let ba := Qred (beats_at init l (fst p)) in
                    Qle_bool (Qabs (snd p - ba)) ((1 # 192) + tol)
                    && (negb (time_on_gridb tbl init l (fst p)) || q_close tol (snd p) ba)) ob
  && forallb (fun p1 => forallb (fun p2 => negb (Qle_bool (fst p1) (fst p2)) || Qle_bool (snd p1) (snd p2 + tol)) ob) ob.

Definition bco_lex_lt (a b : bco) : bool :=
  Qlt_bool (bo_off a) (bo_off b)
  || (Qeq_bool (bo_off a) (bo_off b) && (Qlt_bool (bo_bpm a) (bo_bpm b)
      || (Qeq_bool (bo_bpm a) (bo_bpm b) && Qlt_bool (bo_met a) (bo_met b)))).
Definition bco_same (a b : bco) : bool :=
  Qeq_bool (bo_off a) (bo_off b) && Qeq_bool (bo_bpm a) (bo_bpm b) && Qeq_bool (bo_met a) (bo_met b).
Fixpoint bco_lists_same (a b : list bco) : bool :=
  match a, b with
  | [], [] => true
  | x :: a', y :: b' => bco_same x y && bco_lists_same a' b'
  | _, _ => false
  end.
Definition keeps_ok (given got : list bco) : bool :=
  bco_lists_same (sort_by bco_lex_lt given) (sort_by bco_lex_lt got).

Definition check (c : c10case) : verdict :=
  match c with
  | CKeeps given got => {| corr_ok := true; spec_ok := keeps_ok given got; wf_ok := true |}
  | CSnapperT t x out =>
      let fl := inject_Z (Qfloor x) in
      {| corr_ok := Qeq_bool (snapper_snap t x) out;
         spec_ok := existsb (fun v => Qeq_bool (v + fl) out) t
                    && forallb (fun v => Qle_bool (Qabs (out - x)) (Qabs (v + fl - x))) t;
         wf_ok := true |}
  | COffsets tol init l qs out =>
      let m := match model_tm init l with None => None | Some b => tm_offsets tbl b qs end in
      let wf := domainb tbl l qs && forallb (fun c => is_int_1_8 (bs_met c)) l in
      {| corr_ok := opt_list_close tol m out;
         spec_ok := negb wf || opt_list_close tol (Some (map (time_of init l) qs)) out;
         wf_ok := wf |}
  | COffsetsO tol l qs out =>
      {| corr_ok := opt_list_close tol (tm_offsets tbl l qs) out; spec_ok := true; wf_ok := true |}
  | CSnaps exact tol init l os out =>
      let m := match model_tm init l with None => None | Some b => tm_snaps tbl b os end in
      (* domain of C10_ms_roundtrip (restricted to the metronomes 1..8 the property speaks of) *)
      let wf := dom_snapsb tbl init l os && mets_1_8 l in
      {| corr_ok := negb exact || match m, out with
                    | None, None => true | Some a, Some b => snaps_eq a b | _, _ => false end;
         spec_ok := negb wf || match out with
                    | None => false
                    | Some ss => (length ss =? length os)%nat
                                 && forallb (fun p => snap_spec_ok exact tol init l (fst p) (snd p)) (combine os ss)
                    end;
         wf_ok := wf |}
  | CBeats tol init l qs os out =>
      let m := match model_tm init l with None => None | Some b => tm_beats tbl b os end in
      (* domain of C10_beats_of_positions (tol = 0 on the exact stream), metronomes 1..8 *)
      let wf := dom_beats_posb tbl tol init l qs os && mets_1_8 l in
      (* domain of C10_beats *)
      let wft := dom_beatsb tbl init l os && mets_1_8 l in
      {| corr_ok := opt_list_close tol m out;
         spec_ok := (negb wf || opt_list_close tol (Some (map abs_beat qs)) out)
                    && (negb wft || match out with
                                    | None => false
                                    | Some bs => (length bs =? length os)%nat && beats_time_ok tol init l (combine os bs)
                                    end);
         wf_ok := wf |}
  | CBeatsT tol init l os out =>
      let m := match model_tm init l with None => None | Some b => tm_beats tbl b os end in
      (* domain of C10_beats *)
      let wf := dom_beatsb tbl init l os && mets_1_8 l in
      {| corr_ok := opt_list_close tol m out;
         spec_ok := negb wf || match out with
                               | None => false
                               | Some bs => (length bs =? length os)%nat && beats_time_ok tol init l (combine os bs)
                               end;
         wf_ok := wf |}
  | CSnapper x out =>
      {| corr_ok := Qeq_bool (snapper_snap tbl x) out;
         spec_ok := Qle_bool (Qabs (x - out)) (1 # 192) && in_table (out - inject_Z (Qfloor x));
         wf_ok := true |}
  | CRederive init l out =>
      let m := match model_tm init l with None => None | Some b => bco_to_bcs tbl b end in
      let wf := wf_script l in
      {| corr_ok := match m, out with None, None => true | Some a, Some b => bcs_list_eq a b | _, _ => false end;
         spec_ok := negb wf || match out with Some b => bcs_list_eq l b | None => false end;
         wf_ok := wf |}
  end.

Fixpoint failing_go (i : nat) (l : list c10case) (acc : list nat * list nat * list nat)
  : list nat * list nat * list nat :=
  match l with
  | [] => acc
  | c :: l' =>
      let v := check c in
      let '(a, b, d) := acc in
      failing_go (S i) l'
        ((if corr_ok v then a else i :: a), (if spec_ok v then b else i :: b), (if wf_ok v then d else i :: d))
  end.
Definition failing (l : list c10case) := failing_go 0 l ([], [], []).
