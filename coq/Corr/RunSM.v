(* Shared by RunC02 / RunC03: the live configuration, text reconstruction from interned lines, comparison of mapsets. *)
From Coq Require Import String ZArith QArith Qround Qabs List Bool.
From RV Require Export Base.PyNum Timing.Snapper Timing.Snap Timing.TimingMap Timing.Reseat Timing.Integrate Timing.Domain
  Formats.SMText Formats.SM Formats.SMSpec Generated.Tables.
Import ListNotations.
Open Scope Q_scope.

Definition conf : smconf :=
  mkConf Tables.sm.hit_string Tables.sm.hold_string_head Tables.sm.hold_string_tail Tables.sm.roll_string_head
         Tables.sm.roll_string_tail Tables.sm.mine_string Tables.sm.lift_string Tables.sm.fake_string
         Tables.sm.keysound_string Tables.sm.metronome Tables.sm.max_snap Tables.sm.max_keys
         Tables.sm.chart_keys Tables.snapper_table.

(* the harness sends a text as its distinct lines plus the sequence of line numbers *)
Definition mk_text (tbl : list text) (idx : list Z) : text :=
  join [10%Z] (map (fun i => nth (Z.to_nat i) tbl []) idx).

Definition rel_close (a b : Q) : bool := Qle_bool (Qabs (a - b)) ((1 # 1000000000) * (1 + Qabs b)).

Definition simple_close (tol : Q) (a b : list (Q * Z)) : bool :=
  forallb2 (fun x y : Q * Z => q_close tol (fst x) (fst y) && (snd x =? snd y)%Z) a b.
Definition hold_close (tol : Q) (a b : list (Q * Z * Q)) : bool :=
  forallb2 (fun x y : Q * Z * Q => q_close tol (fst (fst x)) (fst (fst y)) && (snd (fst x) =? snd (fst y))%Z
                                   && q_close (2 * tol) (snd x) (snd y)) a b.
Definition bpms_close (tol : Q) (a b : list (Q * Q * Q)) : bool :=
  forallb2 (fun x y : Q * Q * Q => q_close tol (fst (fst x)) (fst (fst y)) && rel_close (snd (fst x)) (snd (fst y))
                                   && Qeq_bool (snd x) (snd y)) a b.

Definition chart_close (cmpb : bool) (tol : Q) (a b : smchart) : bool :=
  text_eqb (c_type a) (c_type b) && text_eqb (c_desc a) (c_desc b) && text_eqb (c_diff a) (c_diff b)
  && (c_meter a =? c_meter b)%Z && list_close tol (c_radar a) (c_radar b)
  && (negb cmpb || bpms_close tol (c_bpms a) (c_bpms b))
  && simple_close tol (c_hits a) (c_hits b) && hold_close tol (c_holds a) (c_holds b) && hold_close tol (c_rolls a) (c_rolls b)
  && simple_close tol (c_mines a) (c_mines b) && simple_close tol (c_lifts a) (c_lifts b)
  && simple_close tol (c_fakes a) (c_fakes b) && simple_close tol (c_keys a) (c_keys b).

Definition set_close (cmpb : bool) (tol : Q) (a b : smset) : bool :=
  forallb2 text_eqb (s_txt a) (s_txt b)
  && match s_offset a, s_offset b with Some x, Some y => q_close tol x y | None, None => true | _, _ => false end
  && q_close tol (s_sstart a) (s_sstart b) && q_close tol (s_slen a) (s_slen b) && Bool.eqb (s_sel a) (s_sel b)
  && forallb2 (chart_close cmpb tol) (s_maps a) (s_maps b).

Definition opt_set_close (cmpb : bool) (tol : Q) (a b : option smset) : bool :=
  match a, b with
  | None, None => true
  | Some x, Some y => set_close cmpb tol x y
  | _, _ => false
  end.

(* lazy disjunction under vm_compute (orb evaluates both arguments) *)
Fixpoint first_true {A} (f : A -> bool) (l : list A) : bool :=
  match l with [] => false | a :: l' => if f a then true else first_true f l' end.

Record verdict := { corr_ok : bool; spec_ok : bool; wf_ok : bool }.

Section Failing.
  Context {case : Type} (check : case -> verdict).
  Fixpoint failing_go (i : nat) (l : list case) (acc : list nat * list nat * list nat)
    : list nat * list nat * list nat :=
    match l with
    | [] => acc
    | c :: l' =>
        let v := check c in
        let '(a, b, d) := acc in
        failing_go (S i) l'
          ((if corr_ok v then a else i :: a), (if spec_ok v then b else i :: b), (if wf_ok v then d else i :: d))
    end.
End Failing.
