(* Correspondence runner for C04 (BMS reading).  A case: tolerance (0 = exact stream), index of the layout in
   Tables.bms.layouts, the decoded lines, and the chart BMSMap.read returned (None = it raised). *)
From Coq Require Import ZArith QArith Qround Qabs List Bool.
From RV Require Export Base.PyNum Timing.Snapper Timing.Snap Timing.TimingMap Timing.Reseat Timing.Integrate
  Formats.BMSText Formats.BMS Formats.BMSSpec Formats.BMSGuards Generated.Tables.
Import ListNotations.
Open Scope Q_scope.

Definition tbl := Tables.snapper_table.
Definition layout_ix (i : nat) : layout := nth i Tables.bms.layouts [].
Definition max_keys := Tables.bms.max_keys.

Inductive c04case :=
| CRead (tol : Q) (lay : nat) (lines : list text) (out : option bms_chart)
(* texts whose '#WAVxx' / '#BPMxx' / '#LNOBJ' ids hold lower-case letters (incl. ids that differ only in letter case): wf is
   wf_bms_lines_ids (Formats/BMSGuards.v); outside the domain of the theorems, judged by correspondence and by the oracle *)
| CReadIds (tol : Q) (lay : nat) (lines : list text) (out : option bms_chart).

Record verdict := { corr_ok : bool; spec_ok : bool; wf_ok : bool }.

Definition hit_close (tol : Q) (a b : hit) : bool :=
  (h_col a =? h_col b)%Z && q_close tol (h_off a) (h_off b) && text_eqb (h_sample a) (h_sample b).
Definition hold_close (tol : Q) (a b : hold) : bool :=
  (ho_col a =? ho_col b)%Z && q_close tol (ho_off a) (ho_off b) && q_close (tol + tol) (ho_len a) (ho_len b)
  && text_eqb (ho_sample a) (ho_sample b).
Definition bco_close (tol : Q) (a b : bco) : bool :=
  q_close tol (bo_off a) (bo_off b) && q_close tol (bo_bpm a) (bo_bpm b) && Qeq_bool (bo_met a) (bo_met b).

Definition chart_close (tol : Q) (a b : bms_chart) : bool :=
  multiset_match (hit_close tol) (c_hits a) (c_hits b)
  && multiset_match (hold_close tol) (c_holds a) (c_holds b)
  (* the reseated tempo list is compared on the exact stream only: reseat's threshold tests (0 < rem <= 0.001) are
     not float-robust (C11), the continuous outputs are *)
  && (negb (Qeq_bool tol 0) || pairwise (bco_close tol) (c_bpms a) (c_bpms b))
  && text_eqb (m_title (c_meta a)) (m_title (c_meta b))
  && text_eqb (m_artist (c_meta a)) (m_artist (c_meta b))
  && text_eqb (m_version (c_meta a)) (m_version (c_meta b))
  && text_eqb (m_lnobj (c_meta a)) (m_lnobj (c_meta b))
  && pairwise (fun x y => text_eqb (fst x) (fst y) && q_close tol (snd x) (snd y)) (m_exbpms (c_meta a)) (m_exbpms (c_meta b))
  && pairwise pair_text_eqb (m_samples (c_meta a)) (m_samples (c_meta b))
  && pairwise pair_text_eqb (m_misc (c_meta a)) (m_misc (c_meta b)).

Definition check (c : c04case) : verdict :=
  match c with
  | CRead tol li lines out =>
      let lay := layout_ix li in
      let m := bms_read tbl lay max_keys lines in
      let wf := wf_bms_lines lay lines in
      (* every well-formed text inside the guards lies in the decidable domain of the theorem bms_read_denotes
         (Proofs/BMSDenoteProofs.v).  This is now a THEOREM (C04_text_in_domain, Proofs/BMSParseProofs.v: the reader's line
         loop collects exactly the objects the format assigns to the text); the runner keeps evaluating it per case as a
         redundant runtime cross-check of that proof against the generated texts *)
      let dom := negb (wf && read_guards tbl lines) || read_theorem_domain tbl lay max_keys lines in
      {| corr_ok := dom && match m, out with
                    | None, None => true
                    | Some a, Some b => chart_close tol a b
                    | _, _ => false
                    end;
         spec_ok := negb wf || match out with Some o => c04_specb tol lay lines o | None => false end;
         wf_ok := wf |}
  | CReadIds tol li lines out =>
      let lay := layout_ix li in
      let m := bms_read tbl lay max_keys lines in
      let wf := wf_bms_lines_ids lay lines in
      {| corr_ok := match m, out with
                    | None, None => true
                    | Some a, Some b => chart_close tol a b
                    | _, _ => false
                    end;
         spec_ok := negb wf || match out with Some o => c04_specb tol lay lines o | None => false end;
         wf_ok := wf |}
  end.

(* the guard of the read theorem (used to classify a failing case; not part of wf) *)
Definition guards (c : c04case) : bool :=
  match c with CRead _ li lines _ | CReadIds _ li lines _ => read_guards tbl lines end.

Fixpoint failing_go (i : nat) (l : list c04case) (acc : list nat * list nat * list nat)
  : list nat * list nat * list nat :=
  match l with
  | [] => acc
  | c :: l' =>
      let v := check c in
      let '(a, b, d) := acc in
      failing_go (S i) l'
        ((if corr_ok v then a else i :: a), (if spec_ok v then b else i :: b), (if wf_ok v then d else i :: d))
  end.
Definition failing (l : list c04case) := failing_go 0 l ([], [], []).
