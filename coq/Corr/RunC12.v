From Coq Require Import ZArith QArith Qround List Bool.
From RV Require Export Base.PyNum Frame.Frame Map.Stacker Map.StackerSpec.
Import ListNotations.
Open Scope Q_scope.

Inductive c12case :=
(* m.stack(include_types): member lists -> the stacker's internal frame (all columns, `index` dropped) *)
| CInit (ls : list ulist) (allcols : list Z) (out_rows : list arow)
(* one edit through the stack: member lists before, stacker rows before, op, member lists after, stacker rows after,
   non-member lists before/after *)
| CStep (ls : list ulist) (allcols : list Z) (st_rows_before : list arow) (op : sop)
        (ls_after : list ulist) (st_rows_after : list arow) (rest_before rest_after : list ulist).

Record verdict := { corr_ok : bool; spec_ok : bool; wf_ok : bool }.

Definition arow_eqb_on (cols : list Z) (a b : arow) : bool :=
  forallb (fun c => cell_eqb (alookup c a) (alookup c b)) cols.
Fixpoint arows_eqb_on (cols : list Z) (a b : list arow) : bool :=
  match a, b with
  | [], [] => true
  | x :: a', y :: b' => arow_eqb_on cols x y && arows_eqb_on cols a' b'
  | _, _ => false
  end.

(* coherence: the stacker's copy agrees with the lists it was made from (a stale stacker is outside C12) *)
Definition coherent (ls : list ulist) (rows : list arow) : bool :=
  ulists_eqb (unstack ls rows) ls && Nat.eqb (length rows) (fold_right (fun u n => (length (u_rows u) + n)%nat) O ls).

Definition numeric_cell (c : cell) : bool := match c with CNum _ | CNaN => true | _ => false end.
Definition op_keys (op : sop) : list Z := match op with SAssign k _ _ => [k] | SLoc _ cs _ _ => cs end.
Definition op_is_set (op : sop) : bool := match op with SAssign _ ASet _ | SLoc _ _ ASet _ => true | _ => false end.
Definition op_shape_ok (n : nat) (op : sop) : bool :=
  match op with
  | SAssign _ _ (OVector vs) => Nat.eqb (length vs) n
  | SAssign _ ADiv (OScalar v) => negb (Qeq_bool v 0)
  | SLoc m _ ADiv v => Nat.eqb (length m) n && negb (Qeq_bool v 0)
  | SLoc m _ _ _ => Nat.eqb (length m) n
  | _ => true
  end.
(* arithmetic only touches numeric columns *)
Definition op_numeric (op : sop) (rows : list arow) : bool :=
  forallb (fun r => forallb (fun k => numeric_cell (alookup k r)) (op_keys op)) rows.

Definition check (c : c12case) : verdict :=
  match c with
  | CInit ls allcols out_rows =>
      let wf := forallb wf_ulist ls in
      {| corr_ok := arows_eqb_on allcols (st_rows (stack_init ls)) out_rows;
         spec_ok := negb wf || coherent ls out_rows;
         wf_ok := wf |}
  | CStep ls allcols rows_b op ls_a rows_a rest_b rest_a =>
      let st := mkStacker (map (fun u => length (u_rows u)) ls) rows_b in
      let '(st', ls') := stack_step ls st op in
      let wf := forallb wf_ulist ls && coherent ls rows_b && op_shape_ok (length rows_b) op
                && (op_is_set op || op_numeric op rows_b) in
      {| corr_ok := ulists_eqb ls' ls_a && arows_eqb_on allcols (st_rows st') rows_a;
         spec_ok := negb wf || (ulists_eqb (per_list op ls) ls_a && ulists_eqb rest_b rest_a);
         wf_ok := wf |}
  end.

Fixpoint failing_go (i : nat) (l : list c12case) (acc : list nat * list nat * list nat)
  : list nat * list nat * list nat :=
  match l with
  | [] => acc
  | c :: l' =>
      let v := check c in
      let '(a, b, d) := acc in
      failing_go (S i) l'
        ((if corr_ok v then a else i :: a), (if spec_ok v then b else i :: b), (if wf_ok v then d else i :: d))
  end.
Definition failing (l : list c12case) := failing_go 0 l ([], [], []).
