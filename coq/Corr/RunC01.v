(* Correspondence runner for C01 (osu!mania read/write).  Each case carries an input and what the real
   reamber code returned for it; [check] evaluates model-vs-implementation (corr), the reference
   semantics OsuSpec on the implementation's output (spec) and the domain of the theorems (wf). *)
From Coq Require Import String Ascii.
From Coq Require Import ZArith QArith Qround Qabs List Bool.
From RV Require Export Base.PyNum Base.Text Formats.Osu Formats.OsuSpec.
Import ListNotations.
Open Scope Z_scope.

Inductive c01case :=
(* OsuMap.read(lines) = out  (None: an exception was raised) *)
| CRead (tol : Q) (lines : list text) (out : option chart)
(* chart c, unidecode(title) = ut, unidecode(artist) = ua, OsuMap.write() = out *)
| CWrite (tol : Q) (c : chart) (ut ua : text) (out : option (list text))
(* w1 = some written generation, w2 = write(read(file_lines w1)); ut/ua = unidecode of what was read *)
| CGen (tol : Q) (w1 w2 : list text) (ut ua : text).

Record verdict := { corr_ok : bool; spec_ok : bool; wf_ok : bool }.

(* ---------------------------------------------------------------- comparing written lines token-wise *)
Definition is_num_char (c : Z) : bool :=
  is_digit c || (c =? 43) || (c =? 45) || (c =? 46) || (c =? 101) || (c =? 69).
Fixpoint span_num (s : text) : text * text :=
  match s with
  | [] => ([], [])
  | c :: s' => if is_num_char c then let '(a, r) := span_num s' in (c :: a, r) else ([], s)
  end.
Fixpoint drop_prefix (p s : text) : option text :=
  match p, s with
  | [], _ => Some s
  | x :: p', y :: s' => if x =? y then drop_prefix p' s' else None
  | _ :: _, [] => None
  end.
(* literal tokens exactly; numeric tokens by parsed value *)
Fixpoint wline_match (tol : Q) (l : wline) (s : text) : bool :=
  match l with
  | [] => match s with [] => true | _ => false end
  | WT p :: l' => match drop_prefix p s with Some r => wline_match tol l' r | None => false end
  | WN q :: l' | WI q :: l' =>
                  let '(a, r) := span_num s in
                  match parse_dec a with
                  | Some v => q_close (qmax tol META_TOL) q v && wline_match tol l' r
                  | None => false end
  end.
Fixpoint lines_match (tol : Q) (m : list wline) (o : list text) : bool :=
  match m, o with
  | [], [] => true
  | l :: m', s :: o' => wline_match tol l s && lines_match tol m' o'
  | _, _ => false
  end.

(* ---------------------------------------------------------------- comparing charts row by row *)
Definition chart_close (tol : Q) (a b : chart) : bool :=
  list_eqb (mval_close tol) (c_meta a) (c_meta b)
  && text_eqb (c_bg a) (c_bg b)
  && list_eqb (sample_close tol) (c_samples a) (c_samples b)
  && list_eqb (bpm_close tol) (c_bpms a) (c_bpms b)
  && list_eqb (sv_close tol) (c_svs a) (c_svs b)
  && list_eqb (note_close tol) (c_hits a) (c_hits b)
  && list_eqb (note_close tol) (c_holds a) (c_holds b).

Definition check (c : c01case) : verdict :=
  match c with
  | CRead tol lines out =>
      let wf := read_domain lines in                   (* = the domain of C01_osu_read_denotes *)
      {| corr_ok := match osu_read lines, out with
                    | None, None => true
                    | Some a, Some b => chart_close tol a b
                    | _, _ => false end;
         spec_ok := negb wf || match osu_denote lines, out with
                               | Some d, Some c => denotes tol d c
                               | _, _ => false end;
         wf_ok := wf |}
  | CWrite tol c ut ua out =>
      let wf := write_domain c ut ua in                (* = the chart-level domain of C01_osu_write_wf / _denotes *)
      {| corr_ok := match osu_write c ut ua, out with
                    | None, None => true
                    | Some wl, Some o => lines_match tol wl o
                    | _, _ => false end;
         spec_ok := negb wf || match out with
                               | Some o => write_specb tol c ut ua (file_lines o)
                               | None => false end;
         wf_ok := wf |}
  | CGen tol w1 w2 ut ua =>
      let wf := wf_osu_text (file_lines w1) && read_domain (file_lines w1) in
      {| corr_ok := match osu_read (file_lines w1) with
                    | Some c => match osu_write c ut ua with
                                | Some wl => lines_match tol wl w2
                                | None => false end
                    | None => false end;
         spec_ok := negb wf || (wf_osu_text (file_lines w2) && same_denotation tol (file_lines w1) (file_lines w2));
         wf_ok := wf |}
  end.

Fixpoint failing_go (i : nat) (l : list c01case) (acc : list nat * list nat * list nat)
  : list nat * list nat * list nat :=
  match l with
  | [] => acc
  | c :: l' =>
      let v := check c in
      let '(a, b, d) := acc in
      failing_go (S i) l'
        ((if corr_ok v then a else i :: a), (if spec_ok v then b else i :: b), (if wf_ok v then d else i :: d))
  end.
Definition failing (l : list c01case) := failing_go 0 l ([], [], []).
