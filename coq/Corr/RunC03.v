(* Correspondence runner for C03 (StepMania writing).  A case = an in-memory mapset and the text SMMapSet.write returned.
   corr: the implementation's text is a rendering of the writer model's token list (literals exactly, numbers by value),
         for the current variant only (a regression to an OLD behaviour is a divergence);
   spec: the reference interpreter sm_denote of the implementation's text gives back the mapset (header fields, charts,
         objects per kind and column, times exact or within the written grid);
   wf:   the mapset is in the theorem's domain.
   Additionally, for every case whose mapset lies in the decidable EXACT domain of the whole-file theorem
   (Formats/SMWriteDom.c03_domb_gen on the live constants: rational times exactly on the snap grid, tempo beats hundredths,
   true lcm <= 384, ...) the theorem's conclusion in oracle form (Props/C03.C03_sm_write_spec: write_spec in the exact
   regime) is evaluated on the implementation's text, whether or not the tempo changes lie on measure lines. *)
From Coq Require Import String ZArith QArith Qround Qabs List Bool.
From RV Require Export Corr.RunSM Formats.SMWriteDom Formats.SMReadDom.
Import ListNotations.
Open Scope Q_scope.

Inductive c03case :=
| C03Write (dom : bool) (rated : bool) (tol : Q) (s : smset) (out : option (list text * list Z)).

Definition tbl := Tables.snapper_table.

(* ---- domain ---- *)
Definition tame_str (t : text) : bool :=
  negb (existsb (fun c => (c =? 59)%Z || (c =? 58)%Z || (c =? 10)%Z || (c =? 13)%Z) t)
  && negb (contains (tx "//") t) && text_eqb (strip t) t.

Definition near_int (x : Q) : bool :=
  let r := inject_Z (Qfloor (x + (1 # 2))) in Qle_bool (Qabs (x - r)) (1 # 1000000000).

Definition bpm_lt (a b : Q * Q * Q) : bool := Qlt_bool (fst (fst a)) (fst (fst b)).

(* the tempo point in force at time o *)
Fixpoint active_tempo (cur : Q * Q * Q) (rest : list (Q * Q * Q)) (o : Q) : Q * Q * Q :=
  match rest with
  | nxt :: rest' => if Qle_bool (fst (fst nxt)) o then active_tempo nxt rest' o else cur
  | [] => cur
  end.
Definition on_snap_grid (sorted : list (Q * Q * Q)) (o : Q) : bool :=
  match sorted with
  | [] => false
  | c :: rest =>
      let '(t0, bpm, _) := active_tempo c rest o in
      let x := (o - t0) / (60000 / bpm) in
      Qle_bool t0 o && Qle_bool (Qabs (snapper_snap tbl x - x)) (1 # 1000000000)
  end.
Fixpoint tempo_pairwise (f : Q * Q * Q -> Q * Q * Q -> bool) (l : list (Q * Q * Q)) : bool :=
  match l with
  | a :: ((b :: _) as r) => f a b && tempo_pairwise f r
  | _ => true
  end.
Definition tempo_on_grid (sorted : list (Q * Q * Q)) : bool :=
  tempo_pairwise (fun a b => let x := (fst (fst b) - fst (fst a)) / (60000 / snd (fst a)) in
                             Qlt_bool 0 x && Qle_bool (Qabs (snapper_snap tbl x - x)) (1 # 1000000000)) sorted.
Definition tempo_on_lines (sorted : list (Q * Q * Q)) : bool :=
  tempo_pairwise (fun a b => near_int ((fst (fst b) - fst (fst a)) / (4 * (60000 / snd (fst a))))) sorted.

Definition chart_times (c : smchart) : list Q :=
  map fst (c_hits c ++ c_mines c ++ c_lifts c ++ c_fakes c ++ c_keys c)
  ++ flat_map (fun h : Q * Z * Q => [fst (fst h); fst (fst h) + snd h]) (c_holds c ++ c_rolls c).
Definition chart_cols (c : smchart) : list Z :=
  map snd (c_hits c ++ c_mines c ++ c_lifts c ++ c_fakes c ++ c_keys c) ++ map (fun h : Q * Z * Q => snd (fst h)) (c_holds c ++ c_rolls c).

(* long notes of one column do not overlap *)
Fixpoint longs_disjoint (l : list (Q * Z * Q)) : bool :=
  match l with
  | [] => true
  | a :: r =>
      forallb (fun b : Q * Z * Q =>
                 negb (snd (fst a) =? snd (fst b))%Z
                 || Qlt_bool (fst (fst a) + snd a) (fst (fst b)) || Qlt_bool (fst (fst b) + snd b) (fst (fst a))) r
      && longs_disjoint r
  end.

Fixpoint distinct_cells (l : list (Z * Z * Z)) : bool :=
  match l with
  | [] => true
  | (a, b, c) :: r => negb (existsb (fun x : Z * Z * Z => let '(a', b', c') := x in (a =? a')%Z && (b =? b')%Z && (c =? c')%Z) r)
                      && distinct_cells r
  end.

Definition measure_lcm_ok (ps : list placed) : bool :=
  forallb (fun m => (fold_left Z.lcm (map p_den (filter (fun p => (p_measure p =? m)%Z) ps)) 1 <=? ref_max_rows)%Z)
          (measures_of ps).
Definition cells_of (cf : smconf) (ps : list placed) : list (Z * Z * Z) :=
  map (fun p => let dm := den_max_of cf (map p_den (filter (fun q => (p_measure q =? p_measure p)%Z) ps)) in
                (p_measure p, (p_num p * dm / p_den p)%Z, p_col p)) ps.

Definition chart_wf (c0 : smchart) (cp : smchart * option (list placed)) : bool :=
  let c := fst cp in
  match ref_keys (c_type c) with
  | None => false
  | Some keys =>
      tame_str (c_type c) && tame_str (c_desc c) && tame_str (c_diff c)
      && match c_radar c with [] => false | _ => true end
      && forallb2 (fun a b : Q * Q * Q => Qeq_bool (fst (fst a)) (fst (fst b)) && Qeq_bool (snd (fst a)) (snd (fst b))
                                          && Qeq_bool (snd a) (snd b)) (c_bpms c0) (c_bpms c)
      && forallb (fun k => (0 <=? k)%Z && (k <? keys)%Z) (chart_cols c)
      && forallb (fun h : Q * Z * Q => Qlt_bool 0 (snd h)) (c_holds c ++ c_rolls c)
      && longs_disjoint (c_holds c ++ c_rolls c)
      && forallb (on_snap_grid (sort_by bpm_lt (c_bpms c))) (chart_times c)
      && match snd cp with
         | Some ps => distinct_cells (cells_of conf ps)
         | None => false
         end
  end.

Definition set_wf (pls : list (option (list placed))) (rated : bool) (s : smset) : bool :=
  match s_maps s with
  | [] => false
  | c0 :: _ =>
      let sorted := sort_by bpm_lt (c_bpms c0) in
      forallb tame_str (s_txt s) && (length (s_txt s) =? 16)%nat
      && match sorted with [] => false | _ => true end
      && forallb (fun b : Q * Q * Q => Qlt_bool 0 (snd (fst b)) && Qeq_bool (snd b) 4) sorted
      && tempo_on_grid sorted
      && match s_offset s, sorted with
         | Some o, b :: _ => rated || Qeq_bool o (fst (fst b))
         | _, _ => false
         end
      && forallb (chart_wf c0) (combine (s_maps s) pls)
  end.

Definition exact_regime (pls : list (option (list placed))) (s : smset) : bool :=
  match s_maps s with
  | [] => true
  | c0 :: _ =>
      tempo_on_lines (sort_by bpm_lt (c_bpms c0))
      && forallb (fun pl : option (list placed) => match pl with Some ps => measure_lcm_ok ps | None => false end) pls
  end.


(* the written text lies in the READER's domain (Formats/SMReadDom.v): for a mapset in readback_guard all of c02_domb
   (the conclusion of Props/C03.v : C03_written_text_in_reader_domain, here evaluated on the text the IMPLEMENTATION
   wrote), otherwise everything of c02_domb except the clause on the tempo beats (distinct, on the 1/48 grid), which is
   a property of the mapset, not of the writer. *)
Definition readback_dom (guard : bool) (t : text) (d : dfile) : bool :=
  dialect2 t && hdr_ok d
  && (if guard then c02_dom d else forallb (fun c => forallb (fun n => (n mod 4 =? 0)%Z) (d_rows c)) (d_charts d)).

Definition check (c : c03case) : verdict :=
  match c with
  | C03Write dom rated tol s out =>
      let txt := match out with Some (l, i) => Some (mk_text l i) | None => None end in
      let pls := map (chart_placed conf) (s_maps s) in     (* the writer model's row placement, computed once *)
      let wf := set_wf pls rated s in
      {| corr_ok := (fun v => match sm_write conf v s, txt with
                                      | Some toks, Some t => match_toks tol toks t
                                      | None, None => true
                                      | _, _ => false end) current;
         spec_ok := (if wf then match txt with
                               | Some t => match sm_denote t with
                                           | Some d => write_spec tol (exact_regime pls s) s d
                                           | None => false end
                               | None => false end else true)
                    && (if c03_domb_gen conf s then match txt with
                               | Some t => match sm_denote t with
                                           | Some d => write_spec tol true s d && readback_dom (readback_guard_gen conf s) t d
                                           | None => false end
                               | None => false end else true);
         wf_ok := negb dom || wf |}
  end.

Definition failing (l : list c03case) := failing_go check 0 l ([], [], []).
