(* Correspondence runner for C05 (BMS writing).  A case: tolerance (0 = exact stream), layout index, the
   no_sample_default id, the in-memory chart, and the lines of BMSMap.write(...) decoded and split at CRLF
   (None = it raised). *)
From Coq Require Import ZArith QArith Qround Qabs List Bool.
From RV Require Export Base.PyNum Timing.Snapper Timing.Snap Timing.TimingMap Timing.Reseat Timing.Integrate
  Formats.BMSText Formats.BMS Formats.BMSSpec Generated.Tables.
Import ListNotations.
Open Scope Q_scope.

Definition tbl := Tables.snapper_table.
Definition layout_ix (i : nat) : layout := nth i Tables.bms.layouts [].

Inductive c05case :=
| CWrite (tol : Q) (lay : nat) (dflt : text) (c : wchart) (out : option (list text)).

Record verdict := { corr_ok : bool; spec_ok : bool; wf_ok : bool }.

Definition T_BPM_SP : text := [35;66;80;77;32]%Z.

(* model line vs written line: text equal; the initial tempo (printed by str(float), an oracle) by value *)
Definition wline_eq (m : wline) (t : text) : bool :=
  match m with
  | WText x => text_eqb x t
  | WBpm0 q => starts_with T_BPM_SP t
               && match parse_decimal (skipn 5 t) with
                  | Some v => Qle_bool (Qabs (v - q)) ((1 # 1000000000) * (1 + Qabs q))
                  | None => false
                  end
  end.

Definition check (c : c05case) : verdict :=
  match c with
  | CWrite tol li dflt ch out =>
      let lay := layout_ix li in
      (* shared by model and domain check; not computed when the writer's assert on the number of tempo points fails
         first (then neither the model nor the domain check looks at it) *)
      let sn := if (length (w_bpms ch) <? MAX_BPMS)%nat then write_snaps tbl ch else None in
      let m := bms_write_with tbl lay dflt ch sn in
      let wf := wf_wchart_with tol tbl lay dflt ch sn in
      {| corr_ok := match m, out with
                    | None, None => true
                    | Some a, Some b => pairwise wline_eq a b
                    | _, _ => false
                    end;
         spec_ok := negb wf || match out with Some ls => c05_specb tol tbl lay ch ls | None => false end;
         wf_ok := wf |}
  end.

Fixpoint failing_go (i : nat) (l : list c05case) (acc : list nat * list nat * list nat)
  : list nat * list nat * list nat :=
  match l with
  | [] => acc
  | c :: l' =>
      let v := check c in
      let '(a, b, d) := acc in
      failing_go (S i) l'
        ((if corr_ok v then a else i :: a), (if spec_ok v then b else i :: b), (if wf_ok v then d else i :: d))
  end.
Definition failing (l : list c05case) := failing_go 0 l ([], [], []).
