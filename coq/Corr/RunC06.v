(* Correspondence runner for C06 (Quaver read/write on YAML trees).  Each case carries an input (a document tree
   or an in-memory chart snapshot) and what the implementation returned along the pipeline; it is evaluated here:
   model vs implementation (corr), the oracle of Formats/QuaSpec.v on the implementation's outputs (spec), and
   whether a case the generator claims to be in the theorem's domain really is (wf). *)
From Coq Require Import ZArith QArith Qround Qabs List Bool.
From RV Require Export Base.PyNum Formats.Qua Formats.QuaSpec.
Import ListNotations.
Open Scope Z_scope.

Inductive c06case :=
(* r = QuaMap.read(doc); w1 = r.write(); w2 = QuaMap.read(w1).write() *)
| CDoc (claim : bool) (doc : ytree) (r : option chart) (w1 w2 : option ytree)
(* w1 = c.write(); r1 = QuaMap.read(w1); w2 = r1.write() *)
| CChart (claim : bool) (c : chart) (w1 : option ytree) (r1 : option chart) (w2 : option ytree).

Record verdict := { corr_ok : bool; spec_ok : bool; wf_ok : bool }.

Definition cols_eqv (a b : list Z) : bool :=
  Nat.eqb (length a) (length b) && forallb (fun c => memZ c b) a && forallb (fun c => memZ c a) b.
Definition frame_eqv (a b : frame) : bool :=
  cols_eqv (f_cols a) (f_cols b) && all2 (fun x y => tree_eqb false (YMap x) (YMap y)) (f_rows a) (f_rows b).
Definition chart_eqv (a b : chart) : bool :=
  frame_eqv (c_hits a) (c_hits b) && frame_eqv (c_holds a) (c_holds b) && frame_eqv (c_bpms a) (c_bpms b)
  && frame_eqv (c_svs a) (c_svs b) && all2 (tree_eqb true) (c_meta a) (c_meta b).
Definition ochart_eqv (a b : option chart) : bool :=
  match a, b with None, None => true | Some x, Some y => chart_eqv x y | _, _ => false end.
Definition otree_eqv (a b : option ytree) : bool :=
  match a, b with None, None => true | Some x, Some y => tree_eqb true x y | _, _ => false end.

Definition check (c : c06case) : verdict :=
  match c with
  | CDoc claim doc r w1 w2 =>
      let mr := Live.read doc in
      let mw1 := mr >>= Live.write in
      let mw2 := mw1 >>= Live.read >>= Live.write in
      let wf := wf_docb doc in
      {| corr_ok := ochart_eqv mr r && otree_eqv mw1 w1 && otree_eqv mw2 w2;
         spec_ok := negb (claim && wf) || (read_specb doc r && rw_specb doc w1 && otree_eqv w1 w2);
         wf_ok := negb claim || wf |}
  | CChart claim ch w1 r1 w2 =>
      let mw1 := Live.write ch in
      let mr1 := mw1 >>= Live.read in
      let mw2 := mr1 >>= Live.write in
      let wf := wf_chartb true ch in
      {| corr_ok := otree_eqv mw1 w1 && ochart_eqv mr1 r1 && otree_eqv mw2 w2;
         spec_ok := negb (claim && wf) || (write_specb ch w1 && wr_specb ch r1 && otree_eqv w1 w2);
         wf_ok := negb claim || wf |}
  end.

Fixpoint failing_go (i : nat) (l : list c06case) (acc : list nat * list nat * list nat)
  : list nat * list nat * list nat :=
  match l with
  | [] => acc
  | c :: l' =>
      let v := check c in
      let '(a, b, d) := acc in
      failing_go (S i) l'
        ((if corr_ok v then a else i :: a), (if spec_ok v then b else i :: b), (if wf_ok v then d else i :: d))
  end.
Definition failing (l : list c06case) := failing_go 0 l ([], [], []).
