From Coq Require Import ZArith QArith Qround Qabs List Bool.
From RV Require Export Base.PyNum Timing.Snapper Timing.Snap Timing.TimingMap Timing.Integrate Timing.Reseat Timing.ReseatSpec Timing.ReseatDomain Generated.Tables.
Import ListNotations.
Open Scope Q_scope.

Definition tbl := Tables.snapper_table.

Inductive c11case :=
| CReseat (l : list bcs) (out : option (list bcs))                 (* exact stream: structural equality *)
| CReseatR (l : list bcs) (out : option (list bcs))                (* rounded stream: no structural comparison *)
| CReseatTie (l : list bcs) (out : option (list bcs))              (* two or more changes on one position: wf_ties, oracle reseat_tiesb *)
| CFromReseat (init : Q) (l : list bcs) (out : option (list bco))
| CTmReseat (l : list bco) (out : option (list bco)).

Record verdict := { corr_ok : bool; spec_ok : bool; wf_ok : bool }.

Definition bco_eqb (x y : bco) : bool :=
  Qeq_bool (bo_bpm x) (bo_bpm y) && Qeq_bool (bo_met x) (bo_met y) && Qeq_bool (bo_off x) (bo_off y).
Fixpoint bco_list_eqb (a b : list bco) : bool :=
  match a, b with
  | [], [] => true
  | x :: a', y :: b' => bco_eqb x y && bco_list_eqb a' b'
  | _, _ => false
  end.

Definition check (c : c11case) : verdict :=
  match c with
  | CReseat l out =>
      let m := reseat l in
      let ls := sort_by bcs_lt l in
      let wf := wf_unseated ls in
      {| corr_ok := match m, out with
                    | ROk a, Some b => bcs_list_eqb a b
                    | RExc, None => true
                    | _, _ => false end;
         spec_ok := negb wf || match out with Some r => reseat_specb ls r | None => false end;
         wf_ok := wf |}
  | CReseatTie l out =>
      let ls := sort_by bcs_lt l in
      (* the domain and the statement of Props.C11.C11_reseat_ties_correct_any_order: wf_ties + the input guard (a tie is a gap of
         0 beats, inside every guard); reseat_tiesb (contains reseat_specb_ties) is sound for the clause-by-clause statement
         ReseatTiesP on ANY output (C11_reseat_tiesb_sound) *)
      let wf := wf_ties ls && reseat_guard THRESHOLD ls in
      {| corr_ok := match reseat l, out with
                    | ROk a, Some b => bcs_list_eqb a b
                    | RExc, None => true
                    | _, _ => false end;
         spec_ok := negb wf || match out with Some r => reseat_tiesb ls r | None => false end;
         wf_ok := wf |}
  | CReseatR l out =>
      {| corr_ok := true; spec_ok := true; wf_ok := true |}
  | CFromReseat init l out =>
      {| corr_ok := match from_bcs_reseat init l, out with
                    | Some a, Some b => bco_list_eqb a b | None, None => true | _, _ => false end;
         spec_ok := true; wf_ok := true |}
  | CTmReseat l out =>
      (* oracle on the implementation's own output: every millisecond position of the map's tempo list is still a tempo
         point of the reseated map (the model returning a list is the domain guard: on-grid lists outside the known
         extend-window findings) *)
      {| corr_ok := match tm_reseat tbl l, out with
                    | Some a, Some b => bco_list_eqb a b | None, None => true | _, _ => false end;
         spec_ok := match tm_reseat tbl l, out with
                    | Some a, Some b =>
                        negb (forallb (fun x => existsb (fun y => Qeq_bool (bo_off x) (bo_off y)) a) l)
                        || forallb (fun x => existsb (fun y => Qeq_bool (bo_off x) (bo_off y)) b) l
                    | _, _ => true end;
         wf_ok := true |}
  end.

Fixpoint failing_go (i : nat) (l : list c11case) (acc : list nat * list nat * list nat)
  : list nat * list nat * list nat :=
  match l with
  | [] => acc
  | c :: l' =>
      let v := check c in
      let '(a, b, d) := acc in
      failing_go (S i) l'
        ((if corr_ok v then a else i :: a), (if spec_ok v then b else i :: b), (if wf_ok v then d else i :: d))
  end.
Definition failing (l : list c11case) := failing_go 0 l ([], [], []).
