(* Correspondence runner for C07 (O2Jam .ojn reading).
   A case carries the abstract file F the generator built, the trailing bytes, the byte string that was
   actually handed to O2JMapSet.read (run-length chunks; produced by Python's struct.pack, independently
   of the Coq encoder), and what the implementation returned.
     wf_ok   = F is well formed AND the bytes are exactly  encode_file F ++ trailing
     corr_ok = the implementation's output equals the model read_fixed (the repaired reader)
               [rows up to permutation, times within tol]
     spec_ok = negb wf || the output is what F denotes (ojn_denote), judged on the implementation alone. *)
From Coq Require Import ZArith QArith List Bool.
From RV Require Export Base.PyNum Base.Bytes Formats.O2J Formats.O2JSpec Generated.Tables.
Import ListNotations.
Open Scope Q_scope.

Inductive chunk := Raw (l : list Z) | Rep (b : Z) (n : Z).
Fixpoint expand (cs : list chunk) : list Z :=
  match cs with
  | [] => []
  | Raw l :: r => l ++ expand r
  | Rep b n :: r => repeat b (Z.to_nat n) ++ expand r
  end.

Inductive c07case :=
| CRead (tol : Q) (f : ofile) (trail : list Z) (bytes : list chunk) (out : option oset).

Record verdict := { corr_ok : bool; spec_ok : bool; wf_ok : bool }.

Definition opt_close (tol : Q) (m out : option oset) : bool :=
  match m, out with
  | None, None => true
  | Some a, Some b => oset_close tol a b
  | _, _ => false
  end.

(* the model that counts is the repaired reader (read_fixed); nothing else is accepted *)
Definition corr (tol : Q) (bs : list Z) (out : option oset) : bool := opt_close tol (read_fixed bs) out.

Definition check (c : c07case) : verdict :=
  match c with
  | CRead tol f trail bytes out =>
      let bs := expand bytes in
      let wf := wf_file f && bytes_ok bs && zlist_eqb bs (encode_file f ++ trail) in
      {| corr_ok := corr tol bs out;
         spec_ok := negb wf || specb tol f out;
         wf_ok := wf |}
  end.

Fixpoint failing_go (i : nat) (l : list c07case) (acc : list nat * list nat * list nat)
  : list nat * list nat * list nat :=
  match l with
  | [] => acc
  | c :: l' =>
      let v := check c in
      let '(a, b, d) := acc in
      failing_go (S i) l'
        ((if corr_ok v then a else i :: a), (if spec_ok v then b else i :: b), (if wf_ok v then d else i :: d))
  end.
Definition failing (l : list c07case) := failing_go 0 l ([], [], []).

(* diagnostics for replays: [matches read_fixed; matches the OLD sweep + OLD length; OLD sweep only; OLD length only] *)
Definition which_model (c : c07case) : list bool :=
  match c with
  | CRead tol f trail bytes out =>
      let bs := expand bytes in
      [opt_close tol (read_fixed bs) out; opt_close tol (read_old bs) out;
       opt_close tol (read_with false false bs) out; opt_close tol (read_with true true bs) out]
  end.
