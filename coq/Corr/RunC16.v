From Coq Require Import ZArith QArith Qround List Bool.
From RV Require Export Base.PyNum Frame.Frame Lists.TimedList Lists.SeqSpec.
Import ListNotations.
Open Scope Q_scope.

Inductive c16case :=
(* one transition of an implementation history: list state before, operation, what the implementation returned *)
| CStep (hold : bool) (allowed : list Z) (before : frame) (o : tlop) (out : tlout)
(* constructors: kind 0 = cls(items), 1 = from_dict, 2 = empty(n), 3 = cls([]) *)
| CCtor (kind : Z) (declared : list Z) (defaults : row) (n : nat) (items : list row) (out : option frame).

Record verdict := { corr_ok : bool; spec_ok : bool; wf_ok : bool }.

Definition frame_rows_eqb (a b : frame) : bool :=
  zlist_eqb (fcols a) (fcols b) && rows_eqb (abs_rows a) (abs_rows b).

(* model output vs implementation output; sorted results up to the order of ties (pandas sort is unstable) *)
Definition out_corr (cols : list Z) (is_sort : option bool) (m o : tlout) : bool :=
  match m, o with
  | RFrame a, RFrame b =>
      match is_sort with
      | Some asc => zlist_eqb (fcols a) (fcols b) && perm_rows (abs_rows a) (abs_rows b) && sorted_by cols asc (abs_rows b)
      | None => frame_rows_eqb a b
      end
  | RNat a, RNat b => Nat.eqb a b
  | RItem a, RItem b => optrow_eqb a b
  | RItems c l, RItems c' l' => zlist_eqb c c' && rows_eqb l l'
  | RTime a, RTime b => optq_eqb a b
  | RTime2 a b, RTime2 a' b' => optq_eqb a a' && optq_eqb b b'
  | RExc, RExc => true
  | _, _ => false
  end.

Definition sort_flag (o : tlop) : option bool :=
  match o with
  | OSorted rev => Some (negb rev)
  | OAppend _ true => Some true
  | _ => None
  end.

Definition is_num (c : option cell) : bool := match c with Some (CNum _) => true | _ => false end.
Definition wf_state (hold : bool) (f : frame) : bool :=
  wf_frame f
  && forallb (fun r => is_num (get_cell (fcols f) COL_OFFSET r)) (abs_rows f)
  && (negb hold || forallb (fun r => is_num (get_cell (fcols f) COL_LENGTH r)) (abs_rows f)).
Definition wf_op (f : frame) (o : tlop) : bool :=
  match o with
  | OAppend rows _ => forallb (fun r => Nat.eqb (length r) (length (fcols f)) && is_num (get_cell (fcols f) COL_OFFSET r)) rows
  | OSlice _ _ s => negb (s =? 0)%Z
  | _ => true
  end.

(* constructor model: what the code does today *)
Definition ctor_model (kind : Z) (declared : list Z) (defaults : row) (n : nat) (items : list row) : frame :=
  if (kind =? 2)%Z then
    (* TimedList.empty: df.loc[df.index.repeat(rows)].reset_index(drop=True) *)
    reset_index true (mkFrame declared (map (fun _ => (0%Z, defaults)) (seq 0 n)))
  else mkFrame declared (relabel 0 items).

(* constructor spec: exactly the declared fields; empty(n) has n default rows; items keep their values *)
Definition ctor_spec (kind : Z) (declared : list Z) (defaults : row) (n : nat) (items : list row) (out : frame) : bool :=
  zlist_eqb (fcols out) declared &&
  (if (kind =? 2)%Z then rows_eqb (abs_rows out) (map (fun _ => defaults) (seq 0 n))
   else rows_eqb (abs_rows out) items).

Definition check (c : c16case) : verdict :=
  match c with
  | CStep hold allowed f o out =>
      let wf := wf_state hold f && wf_op f o in
      {| corr_ok := out_corr (fcols f) (sort_flag o) (tl_step hold allowed f o) out;
         spec_ok := negb wf || meets (fcols f) (seq_step hold allowed (fcols f) (abs_rows f) o) out;
         wf_ok := wf |}
  | CCtor kind declared defaults n items out =>
      {| corr_ok := match out with Some o => frame_rows_eqb (ctor_model kind declared defaults n items) o | None => false end;
         spec_ok := match out with Some o => ctor_spec kind declared defaults n items o | None => false end;
         wf_ok := true |}
  end.

Fixpoint failing_go (i : nat) (l : list c16case) (acc : list nat * list nat * list nat)
  : list nat * list nat * list nat :=
  match l with
  | [] => acc
  | c :: l' =>
      let v := check c in
      let '(a, b, d) := acc in
      failing_go (S i) l'
        ((if corr_ok v then a else i :: a), (if spec_ok v then b else i :: b), (if wf_ok v then d else i :: d))
  end.
Definition failing (l : list c16case) := failing_go 0 l ([], [], []).
