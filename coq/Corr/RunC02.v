(* Correspondence runner for C02 (StepMania reading).  A case = a .sm text and what SMMapSet.read returned.
   cmpb: the tempo list is compared structurally only on the float-exact tempo stream (reseat decides on
   remainders that are exactly 0 in rational arithmetic and +-1e-16 in binary64 otherwise).
   corr: the reader model (the current variant only: a regression to an OLD behaviour is a divergence) returns the same;
   spec: on texts in the domain the reference interpreter sm_denote is matched by the implementation's result;
   wf:   the text is in the theorem's domain whenever the generator says it should be. *)
From Coq Require Import String ZArith QArith Qround Qabs List Bool.
From RV Require Export Corr.RunSM.
Import ListNotations.
Open Scope Q_scope.

Inductive c02case :=
| C02Read (dom : bool) (cmpb : bool) (tol : Q) (lines : list text) (idx : list Z) (out : option smset).

Definition c02_wf (txt : text) : bool :=
  match sm_denote txt with
  | Some d => c02_dom d && dialect_ok txt d
              (* the file's tempo script lies in the domain of C10's closed form (hypothesis of C02_read_times_integrate) *)
              && domainb Tables.snapper_table (map (fun tp : Q * Q * Q => mkBcs (snd (fst tp)) 4 (snap_of_beat (fst (fst tp)))) (d_tempo d)) []
  | None => false
  end.

Definition check (c : c02case) : verdict :=
  match c with
  | C02Read dom cmpb tol lines idx out =>
      let txt := mk_text lines idx in
      let wf := c02_wf txt in
      {| corr_ok := opt_set_close cmpb tol (sm_read conf current txt) out;
         spec_ok := if wf then match sm_denote txt, out with
                               | Some d, Some o => read_spec tol d o
                               | _, _ => false end else true;
         wf_ok := negb dom || wf |}
  end.

Definition failing (l : list c02case) := failing_go check 0 l ([], [], []).
