(* Correspondence runner for C02 (StepMania reading).  A case = a .sm text and what SMMapSet.read returned.
   cmpb: the tempo list is compared structurally only on the float-exact tempo stream (reseat decides on
   remainders that are exactly 0 in rational arithmetic and +-1e-16 in binary64 otherwise).
   corr: the reader model (the current variant only: a regression to an OLD behaviour is a divergence) returns the same;
   spec: on texts in the domain the reference interpreter sm_denote is matched by the implementation's result;
   wf:   the text is in the theorem's domain whenever the generator says it should be. *)
From Coq Require Import String ZArith QArith Qround Qabs List Bool.
From RV Require Export Corr.RunSM Formats.SMReadDom.
Import ListNotations.
Open Scope Q_scope.

Inductive c02case :=
| C02Read (dom : bool) (cmpb : bool) (tol : Q) (lines : list text) (idx : list Z) (out : option smset).

(* wf = THE domain of the whole-file theorem Props/C02.v : C02_sm_read_denotes (Formats/SMReadDom.v): well formed for the
   reference semantics, rows a multiple of 4, tempo beats distinct on the 1/48 grid, reader dialect, header items.
   (The C10 timing domain `domainb` is no longer part of wf: it is derived from the 1/48 grid in the proof.) *)
Definition c02_wf (txt : text) : bool := c02_domb txt.

Definition check (c : c02case) : verdict :=
  match c with
  | C02Read dom cmpb tol lines idx out =>
      let txt := mk_text lines idx in
      let wf := c02_wf txt in
      {| corr_ok := opt_set_close cmpb tol (sm_read conf current txt) out;
         spec_ok := if wf then match sm_denote txt, out with
                               | Some d, Some o => read_spec tol d o
                               | _, _ => false end else true;
         wf_ok := negb dom || wf |}
  end.

Definition failing (l : list c02case) := failing_go check 0 l ([], [], []).
