(* Correspondence runner for C17 (full-LN generation).  A case carries the chart as the implementation saw it
   (every entry of Map.objs in order, times scaled to integers by the case's common denominator), gap, threshold,
   what full_ln returned (None = exception) and whether the argument chart was left identical.
   corr: model output = implementation output, rows up to permutation, for some admissible order of the notes
         that share the greatest offset of a column (pandas' sort is not stable);
   spec: the proven oracle specb on the implementation's output (and the input left unchanged);
   wf:   the case lies in the theorems' domain. *)
From Coq Require Import ZArith List Bool.
From RV Require Export Algo.FullLN Algo.FullLNSpec.
Import ListNotations.
Open Scope Z_scope.

(* compact constructors for case literals *)
Definition nh (c o : Z) : note := mkNote c o None.            (* a row without length (hit) *)
Definition nl (c o l : Z) : note := mkNote c o (Some l).      (* a row with length (hold) *)
Definition TL := mkTL.

Inductive c17case := C17 (m : chart) (gap thr : Z) (out : option chart) (unchanged : bool).

Record verdict := { corr_ok : bool; spec_ok : bool; wf_ok : bool }.

Definition col_corr (gap thr : Z) (G Oc : list note) : bool :=
  match G with
  | [] => match Oc with [] => true | _ => false end
  | _ => existsb (fun r => perm_b (ln_column gap thr (reorder_last r G)) Oc) (last_candidates G)
  end.

Definition notes_corr (gap thr : Z) (st O : list note) : bool :=
  let s := isort st in
  let cs := columns s in
  forallb (fun c => col_corr gap thr (group c s) (filter (in_col c) O)) cs
  && forallb (fun n => existsb (Z.eqb (n_col n)) cs) O.

Definition corr (m : chart) (gap thr : Z) (out : option chart) : bool :=
  match full_ln m gap thr, out with
  | None, None => true
  | Some mo, Some io =>
      list_eqb slot_eqb (map tl_slot io) (map tl_slot mo)
      && list_eqb tl_eqb (others io) (others mo)
      && forallb is_hit (slot_notes SHits io)
      && forallb (fun n => negb (is_hit n)) (slot_notes SHolds io)
      && notes_corr gap thr (stacked m) (chart_notes io)
      (* where no tie is involved this is plain multiset equality with the model's own output *)
      && (negb (perm_b (chart_notes mo) (chart_notes io))
          || (perm_b (slot_notes SHits mo) (slot_notes SHits io) && perm_b (slot_notes SHolds mo) (slot_notes SHolds io)))
  | _, _ => false
  end.

Definition check (c : c17case) : verdict :=
  match c with
  | C17 m gap thr out unchanged =>
      let wf := wfb m gap thr in
      {| corr_ok := corr m gap thr out;
         spec_ok := negb wf || (specb m gap thr out && unchanged);
         wf_ok := wf |}
  end.

Fixpoint failing_go (i : nat) (l : list c17case) (acc : list nat * list nat * list nat)
  : list nat * list nat * list nat :=
  match l with
  | [] => acc
  | c :: l' =>
      let v := check c in
      let '(a, b, d) := acc in
      failing_go (S i) l'
        ((if corr_ok v then a else i :: a), (if spec_ok v then b else i :: b), (if wf_ok v then d else i :: d))
  end.
Definition failing (l : list c17case) := failing_go 0 l ([], [], []).
