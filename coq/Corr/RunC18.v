(* Correspondence runner for C18 (hitsound copy).  A case carries the two input charts, what the implementation
   returned, the tie orders pandas' unstable sort_values may have used (recorded by the harness around the call,
   plus the stable order), and whether the harness found the inputs unchanged after the call. *)
From Coq Require Import ZArith List Bool Arith.
From RV Require Export Algo.HitsoundCopy Algo.HitsoundCopySpec.
Import ListNotations.
Open Scope Z_scope.

Definition note_eqb (a b : hnote) : bool :=
  (hn_off a =? hn_off b) && (hn_col a =? hn_col b) && opt_eqb (hn_len a) (hn_len b)
  && (hn_hs a =? hn_hs b) && (hn_ss a =? hn_ss b) && (hn_as a =? hn_as b) && (hn_cs a =? hn_cs b)
  && (hn_vol a =? hn_vol b) && list_eqb (hn_file a) (hn_file b).
Definition sample_eqb (a b : hsample) : bool :=
  (hs_off a =? hs_off b) && list_eqb (hs_file a) (hs_file b) && (hs_vol a =? hs_vol b).

(* canonical relation: the three lists as multisets of full rows (row order is not promised) *)
Definition map_corr (a b : hmap) : bool :=
  meqb note_eqb (hm_hits a) (hm_hits b) && meqb note_eqb (hm_holds a) (hm_holds b)
  && meqb sample_eqb (hm_samples a) (hm_samples b).

(* the stable order (what a dropped or stable sort would give), tried next to the recorded orders *)
Fixpoint ins_idx (x : nat * Z) (l : list (nat * Z)) : list (nat * Z) :=
  match l with
  | [] => [x]
  | y :: l' => if snd x <=? snd y then x :: l else y :: ins_idx x l'
  end.
Definition stable_order (l : list hnote) : list nat :=
  map fst (fold_right ins_idx [] (combine (seq 0 (length l)) (map hn_off l))).

(* a recorded order is None when the implementation did not sort that frame (then: the stable order) *)
Definition all_orders (src tgt : hmap) (recorded : list (option (list nat) * option (list nat)))
  : list (list nat * list nat) :=
  let ss := stable_order (filter loud (notes_df src)) in
  let st := stable_order (map reset_note (notes_df tgt)) in
  let get (d : list nat) (o : option (list nat)) := match o with Some p => p | None => d end in
  let rec' := map (fun pq => (get ss (fst pq), get st (snd pq))) recorded in
  rec' ++ flat_map (fun pq => [(fst pq, st); (ss, snd pq)]) rec' ++ [(ss, st)].

Inductive c18case :=
| C18 (src tgt : hmap) (orders : list (option (list nat) * option (list nat))) (out : hmap) (src_same tgt_same : bool).

Record verdict := { corr_ok : bool; spec_ok : bool; wf_ok : bool }.

Definition check (c : c18case) : verdict :=
  match c with
  | C18 src tgt orders out src_same tgt_same =>
      let w := wf src tgt in
      {| corr_ok := existsb (fun pq => match hitsound_copy (fst pq) (snd pq) src tgt with
                                       | Some m => map_corr m out
                                       | None => false
                                       end) (all_orders src tgt orders);
         spec_ok := negb w || (specb src tgt out && src_same && tgt_same);
         wf_ok := w |}
  end.

Fixpoint failing_go (i : nat) (l : list c18case) (acc : list nat * list nat * list nat)
  : list nat * list nat * list nat :=
  match l with
  | [] => acc
  | c :: l' =>
      let v := check c in
      let '(a, b, d) := acc in
      failing_go (S i) l'
        ((if corr_ok v then a else i :: a), (if spec_ok v then b else i :: b), (if wf_ok v then d else i :: d))
  end.
Definition failing (l : list c18case) := failing_go 0 l ([], [], []).

(* short constructors for the generated case files *)
Definition H (o c hs ss as_ cs v : Z) (f : name) : hnote := mkN o c None hs ss as_ cs v f.
Definition L (o c : Z) (l : option Z) (hs ss as_ cs v : Z) (f : name) : hnote := mkN o c l hs ss as_ cs v f.

