From Coq Require Import ZArith QArith Qround Qabs List Bool.
From RV Require Export Base.PyNum Frame.Frame Lists.TimedList Lists.SeqSpec Map.Stacker Map.StackerSpec Map.Rate.
Import ListNotations.
Open Scope Q_scope.

(* Metamorphic cases: the same operation applied to a chart and to the chart with the rows of its lists permuted.
   What is compared is the MEANING of the two results: lists as multisets of rows, step functions as sets of
   (time, value) pairs, scalars as numbers. *)
Inductive c15case :=
| CSameLists (a b : list ulist)                 (* two charts: list by list the same multiset of rows *)
| CSamePairs (a b : list (Q * Q))               (* two (time, value) series: the same multiset of pairs *)
| CSameVal (a b : Q)
(* model-level tie for rate: scaling the permuted lists is a permutation of scaling the lists *)
| CRatePerm (by_ : Q) (a b : list ulist).

Record verdict := { corr_ok : bool; spec_ok : bool; wf_ok : bool }.

Fixpoint ulists_perm (a b : list ulist) : bool :=
  match a, b with
  | [], [] => true
  | x :: a', y :: b' => zlist_eqb (u_cols x) (u_cols y) && perm_rows (u_rows x) (u_rows y) && ulists_perm a' b'
  | _, _ => false
  end.

Definition pair_row (p : Q * Q) : row := [CNum (fst p); CNum (snd p)].

Definition check (c : c15case) : verdict :=
  match c with
  | CSameLists a b => {| corr_ok := true; spec_ok := ulists_perm a b; wf_ok := true |}
  | CSamePairs a b => {| corr_ok := true; spec_ok := perm_rows (map pair_row a) (map pair_row b); wf_ok := true |}
  | CSameVal a b => {| corr_ok := true; spec_ok := Qeq_bool a b; wf_ok := true |}
  | CRatePerm by_ a b =>
      let wf := ulists_perm a b in
      {| corr_ok := negb wf || ulists_perm (rate_spec by_ a) (rate_spec by_ b); spec_ok := true; wf_ok := wf |}
  end.

Fixpoint failing_go (i : nat) (l : list c15case) (acc : list nat * list nat * list nat)
  : list nat * list nat * list nat :=
  match l with
  | [] => acc
  | c :: l' =>
      let v := check c in
      let '(a, b, d) := acc in
      failing_go (S i) l'
        ((if corr_ok v then a else i :: a), (if spec_ok v then b else i :: b), (if wf_ok v then d else i :: d))
  end.
Definition failing (l : list c15case) := failing_go 0 l ([], [], []).
