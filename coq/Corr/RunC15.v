From Coq Require Import ZArith QArith Qround Qabs List Bool.
From RV Require Export Base.PyNum Frame.Frame Lists.TimedList Lists.SeqSpec Map.Stacker Map.StackerSpec Map.Rate
  Algo.DominantBpm Algo.ScrollSpeed Algo.AnalysisSpec Algo.PermDomain.
Import ListNotations.
Open Scope Q_scope.

(* Metamorphic cases: the same operation applied to a chart and to the chart with the rows of its lists permuted.
   What is compared is the MEANING of the two results: lists as multisets of rows, step functions as sets of
   (time, value) pairs, scalars as numbers. *)
Inductive c15case :=
| CSameLists (a b : list ulist)                 (* two charts: list by list the same multiset of rows *)
| CSamePairs (a b : list (Q * Q))               (* two (time, value) series: the same multiset of pairs *)
| CSameVal (a b : Q)
(* model-level tie for rate: scaling the permuted lists is a permutation of scaling the lists *)
| CRatePerm (by_ : Q) (a b : list ulist)
(* model-level tie for the analysis functions: ca / cb = what the routines look at in the chart and in the permuted chart
   (tempo rows, SV rows, note offsets, in ROW ORDER), a / b = what the implementation returned on them.
   wf  : the pair lies in the boolean domain of C15_dominant_bpm_perm_b / C15_scroll_speed_perm_b (Algo/PermDomain.v)
   corr: the models (Algo/DominantBpm.v, ScrollSpeed.v) reproduce both outputs
   spec: the conclusion of the theorem on the implementation's outputs (same value / same rows in the same order / same SVs) *)
| CDomPerm (ca cb : chart) (a b : option Q)
| CScrollPerm (ca cb : chart) (ov : option Q) (a b : option (list (Q * option Q)))
| CNormPerm (ca cb : chart) (ov : option Q) (a b : option (list (Q * Q))).

Record verdict := { corr_ok : bool; spec_ok : bool; wf_ok : bool }.

Fixpoint ulists_perm (a b : list ulist) : bool :=
  match a, b with
  | [], [] => true
  | x :: a', y :: b' => zlist_eqb (u_cols x) (u_cols y) && perm_rows (u_rows x) (u_rows y) && ulists_perm a' b'
  | _, _ => false
  end.

Definition pair_row (p : Q * Q) : row := [CNum (fst p); CNum (snd p)].

Definition TOL : Q := 1 # 1000000000.
Definition oq_eqb (a b : option Q) : bool :=
  match a, b with Some x, Some y => Qeq_bool x y | None, None => true | _, _ => false end.
Definition oq_close (a b : option Q) : bool :=
  match a, b with Some x, Some y => q_close TOL x y | None, None => true | _, _ => false end.
Fixpoint all2 {A B} (p : A -> B -> bool) (a : list A) (b : list B) : bool :=
  match a, b with [], [] => true | x :: a', y :: b' => p x y && all2 p a' b' | _, _ => false end.
Definition orows_close (m o : option (list (Q * option Q))) : bool :=
  match m, o with
  | Some x, Some y => all2 (fun r s => Qeq_bool (fst r) (fst s) && oq_close (snd r) (snd s)) x y
  | None, None => true | _, _ => false end.
Definition orows_eqb (m o : option (list (Q * option Q))) : bool :=
  match m, o with
  | Some x, Some y => all2 (fun r s => Qeq_bool (fst r) (fst s) && oq_eqb (snd r) (snd s)) x y
  | None, None => true | _, _ => false end.
Definition svs_close (m o : option (list (Q * Q))) : bool :=
  match m, o with
  | Some x, Some y => match_up (fun r s => Qeq_bool (fst r) (fst s) && q_close TOL (snd r) (snd s)) x y
  | None, None => true | _, _ => false end.
Definition svs_permb (m o : option (list (Q * Q))) : bool :=
  match m, o with
  | Some x, Some y => match_up (fun r s => Qeq_bool (fst r) (fst s) && Qeq_bool (snd r) (snd s)) x y
  | None, None => true | _, _ => false end.

Definition check (c : c15case) : verdict :=
  match c with
  | CSameLists a b => {| corr_ok := true; spec_ok := ulists_perm a b; wf_ok := true |}
  | CSamePairs a b => {| corr_ok := true; spec_ok := perm_rows (map pair_row a) (map pair_row b); wf_ok := true |}
  | CSameVal a b => {| corr_ok := true; spec_ok := Qeq_bool a b; wf_ok := true |}
  | CRatePerm by_ a b =>
      let wf := ulists_perm a b in
      {| corr_ok := negb wf || ulists_perm (rate_spec by_ a) (rate_spec by_ b); spec_ok := true; wf_ok := wf |}
  | CDomPerm ca cb a b =>
      let wf := dom_dominant ca cb in
      {| corr_ok := oq_eqb (dominant_bpm ca) a && oq_eqb (dominant_bpm cb) b; spec_ok := negb wf || oq_eqb a b; wf_ok := wf |}
  | CScrollPerm ca cb ov a b =>
      let wf := dom_scroll ca cb in
      {| corr_ok := orows_close (scroll_speed ca ov) a && orows_close (scroll_speed cb ov) b;
         spec_ok := negb wf || orows_eqb a b; wf_ok := wf |}
  | CNormPerm ca cb ov a b =>
      let wf := dom_dominant ca cb in
      {| corr_ok := svs_close (sv_normalize ca ov) a && svs_close (sv_normalize cb ov) b;
         spec_ok := negb wf || svs_permb a b; wf_ok := wf |}
  end.

Fixpoint failing_go (i : nat) (l : list c15case) (acc : list nat * list nat * list nat)
  : list nat * list nat * list nat :=
  match l with
  | [] => acc
  | c :: l' =>
      let v := check c in
      let '(a, b, d) := acc in
      failing_go (S i) l'
        ((if corr_ok v then a else i :: a), (if spec_ok v then b else i :: b), (if wf_ok v then d else i :: d))
  end.
Definition failing (l : list c15case) := failing_go 0 l ([], [], []).
