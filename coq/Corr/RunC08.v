From Coq Require Import ZArith QArith Qround List Bool.
From RV Require Export Base.PyNum Frame.Frame Convert.Cast Convert.Converters Generated.Tables.
Import ListNotations.
Open Scope Q_scope.

(* one converted chart *)
Record pair := mkPair {
  p_src : frame; p_tgt : frame;
  p_declared : list Z; p_defaults : row;
  p_mapping : option (list (Z * source)) }.   (* the mapping ConvertBase.cast was called with (recorded); None = no cast seen *)

(* the whole conversion, for the comparison with conv_run of the GENERATED description of the converter *)
Record convrun := mkConvRun {
  cr_conv : Z;                 (* number of the converter in Tables.convert.converters *)
  cr_args : cargs;             (* shift, raise_bad_mode, the numbers of the declared default strings in this case *)
  cr_src : srcset;             (* source mapset attributes + source charts (lists as frames, attributes) *)
  cr_impl : list chart }.      (* the charts the implementation returned, in order *)

Inductive c08case :=
| CConv (shift : Q) (pairs : list pair)
        (others : list (frame * list Z))        (* target lists not made by cast, with their declared columns *)
        (meta : list (cell * cell))             (* (value required by the source, value found in the target) *)
        (n_src n_out : nat)
        (src_before src_after : list frame)
        (run : option convrun).                 (* None: the implementation raised *)

Record verdict := { corr_ok : bool; spec_ok : bool; wf_ok : bool }.

Definition frame_vals_eqb (a b : frame) : bool :=
  zlist_eqb (fcols a) (fcols b)
  && (fix go x y := match x, y with
                    | [], [] => true
                    | r :: x', s :: y' => row_eqb r s && go x' y'
                    | _, _ => false end) (abs_rows a) (abs_rows b).
Definition frame_eqb (a b : frame) : bool :=
  frame_vals_eqb a b && zlist_eqb (labels a) (labels b).

(* the chart content C08 speaks of: offset, column, length, bpm, multiplier *)
Definition CONTENT : list Z := [0; 1; 2; 3; 5]%Z.
Definition has_col (f : frame) (c : Z) : bool := match col_index c (fcols f) with Some _ => true | None => false end.

Definition content_carried (shift : Q) (src tgt : frame) (declared : list Z) : bool :=
  forallb (fun c =>
    negb (has_col src c && existsb (Z.eqb c) declared)
    || opt_cells_eqb (col_vals (if (c =? COL_COLUMN)%Z then shift_column (- shift) tgt else tgt) c) (col_vals src c))
    CONTENT.

Definition pair_spec (shift : Q) (p : pair) : bool :=
  zlist_eqb (fcols (p_tgt p)) (p_declared p)
  && Nat.eqb (nrows (p_tgt p)) (nrows (p_src p))
  && content_carried shift (p_src p) (p_tgt p) (p_declared p)
  && no_nan (p_tgt p).

Definition pair_corr (shift : Q) (p : pair) : bool :=
  match p_mapping p with
  | None => false
  | Some m => match cast (p_src p) (p_declared p) (p_defaults p) m with
              | None => false
              | Some f => frame_vals_eqb (shift_column shift f) (p_tgt p)
              end
  end.

Definition pair_wf (p : pair) : bool :=
  wf_frame (p_src p)
  && forallb (fun c => negb (has_col (p_src p) c)
                       || match col_vals (p_src p) c with
                          | Some vs => forallb (fun v => match v with CNum _ => true | _ => false end) vs
                          | None => false end) CONTENT.

(* model output = implementation output: same lists in the same (name) order with the same columns and values row by
   row; every attribute the model assigned has that value in the implementation's chart *)
Fixpoint lists_eqb (a b : list (Z * frame)) : bool :=
  match a, b with
  | [], [] => true
  | (n, f) :: a', (n', f') :: b' => (n =? n')%Z && frame_vals_eqb f f' && lists_eqb a' b'
  | _, _ => false
  end.
Definition mval_opt_eqb (a b : option mval) : bool :=
  match a, b with Some x, Some y => mval_eqb x y | _, _ => false end.
Definition chart_eqb (model impl : chart) : bool :=
  lists_eqb (c_lists model) (c_lists impl)
  && forallb (fun kv => mval_opt_eqb (assocM (fst kv) (c_meta model)) (assocM (fst kv) (c_meta impl))) (c_meta model).
Fixpoint charts_eqb (a b : list chart) : bool :=
  match a, b with
  | [], [] => true
  | x :: a', y :: b' => chart_eqb x y && charts_eqb a' b'
  | _, _ => false
  end.
Definition run_corr (r : option convrun) : bool :=
  match r with
  | None => true
  | Some r =>
      match assocZ (cr_conv r) Tables.convert.converters with
      | None => false
      | Some d => match conv_run d (cr_args r) (cr_src r) (cr_impl r) with
                  | None => false
                  | Some outs => charts_eqb outs (cr_impl r)
                  end
      end
  end.
(* the case is inside the domain of C08_converter_preserves *)
Definition run_wf (r : option convrun) : bool :=
  match r with
  | None => true
  | Some r => match assocZ (cr_conv r) Tables.convert.converters with
              | None => false
              | Some d => srcset_wfb d (cr_args r) (cr_src r) (cr_impl r)
              end
  end.

Definition check (c : c08case) : verdict :=
  match c with
  | CConv shift pairs others meta n_src n_out sb sa run =>
      let wf := forallb pair_wf pairs in
      {| corr_ok := forallb (pair_corr shift) pairs && run_corr run;
         spec_ok := negb wf ||
           (forallb (pair_spec shift) pairs
            && forallb (fun o => zlist_eqb (fcols (fst o)) (snd o) && no_nan (fst o)) others
            && forallb (fun m => cell_eqb (fst m) (snd m)) meta
            && Nat.eqb n_src n_out
            && (fix go x y := match x, y with
                              | [], [] => true
                              | a :: x', b :: y' => frame_eqb a b && go x' y'
                              | _, _ => false end) sb sa);
         wf_ok := wf && run_wf run |}
  end.

Fixpoint failing_go (i : nat) (l : list c08case) (acc : list nat * list nat * list nat)
  : list nat * list nat * list nat :=
  match l with
  | [] => acc
  | c :: l' =>
      let v := check c in
      let '(a, b, d) := acc in
      failing_go (S i) l'
        ((if corr_ok v then a else i :: a), (if spec_ok v then b else i :: b), (if wf_ok v then d else i :: d))
  end.
Definition failing (l : list c08case) := failing_go 0 l ([], [], []).
