From Coq Require Import ZArith QArith Qround Qabs List Bool.
From RV Require Export Base.PyNum Frame.Frame Map.Stacker Map.StackerSpec Map.Rate.
Import ListNotations.
Open Scope Q_scope.

Inductive c13case :=
(* copy = m.rate(by): lists of the copy; lists of the original before and after (with labels);  tol = 0 on the exact stream *)
| CRate (tol : Q) (by_ : Q) (src : list ulist) (out : list ulist) (src_before src_after : list frame)
(* file-level time fields: (before, after) pairs that must scale by 1/by *)
| CFields (tol : Q) (by_ : Q) (pairs : list (Q * Q))
(* two charts that must carry the same values: m.rate(1) vs m, m.rate(a).rate(b) vs m.rate(a*b) *)
| CSame (tol : Q) (a b : list ulist).

Record verdict := { corr_ok : bool; spec_ok : bool; wf_ok : bool }.

Definition q_close (tol x y : Q) : bool :=
  Qle_bool (Qabs (x - y)) (tol * (1 + Qabs x)).
Definition cell_close (tol : Q) (a b : cell) : bool :=
  match a, b with
  | CNum x, CNum y => q_close tol x y
  | _, _ => cell_eqb a b
  end.
Fixpoint row_close (tol : Q) (a b : row) : bool :=
  match a, b with
  | [], [] => true
  | x :: a', y :: b' => cell_close tol x y && row_close tol a' b'
  | _, _ => false
  end.
Fixpoint rows_close (tol : Q) (a b : list row) : bool :=
  match a, b with
  | [], [] => true
  | x :: a', y :: b' => row_close tol x y && rows_close tol a' b'
  | _, _ => false
  end.
Fixpoint ulists_close (tol : Q) (a b : list ulist) : bool :=
  match a, b with
  | [], [] => true
  | x :: a', y :: b' => zlist_eqb (u_cols x) (u_cols y) && rows_close tol (u_rows x) (u_rows y) && ulists_close tol a' b'
  | _, _ => false
  end.

Definition frame_eqb (a b : frame) : bool :=
  zlist_eqb (fcols a) (fcols b) && zlist_eqb (labels a) (labels b)
  && (fix go x y := match x, y with
                    | [], [] => true
                    | r :: x', s :: y' => row_eqb r s && go x' y'
                    | _, _ => false end) (abs_rows a) (abs_rows b).
Fixpoint frames_eqb (a b : list frame) : bool :=
  match a, b with
  | [], [] => true
  | x :: a', y :: b' => frame_eqb x y && frames_eqb a' b'
  | _, _ => false
  end.

Definition numeric_content (u : ulist) : bool :=
  forallb (fun r => forallb (fun cv => negb (existsb (Z.eqb (fst cv)) [COL_OFFSET; COL_LENGTH; COL_BPM])
                                       || match snd cv with CNum _ => true | _ => false end)
                            (combine (u_cols u) r)) (u_rows u).

Definition check (c : c13case) : verdict :=
  match c with
  | CRate tol by_ src out sb sa =>
      let wf := forallb wf_ulist src && forallb numeric_content src && Qlt_bool 0 by_ in
      {| corr_ok := ulists_close tol (rate_lists by_ src) out;
         spec_ok := negb wf || (ulists_close tol (rate_spec by_ src) out && frames_eqb sb sa);
         wf_ok := wf |}
  | CFields tol by_ pairs =>
      {| corr_ok := true;
         spec_ok := forallb (fun p => q_close tol (fst p / by_) (snd p)) pairs;
         wf_ok := Qlt_bool 0 by_ |}
  | CSame tol a b =>
      {| corr_ok := true; spec_ok := ulists_close tol a b; wf_ok := true |}
  end.

Fixpoint failing_go (i : nat) (l : list c13case) (acc : list nat * list nat * list nat)
  : list nat * list nat * list nat :=
  match l with
  | [] => acc
  | c :: l' =>
      let v := check c in
      let '(a, b, d) := acc in
      failing_go (S i) l'
        ((if corr_ok v then a else i :: a), (if spec_ok v then b else i :: b), (if wf_ok v then d else i :: d))
  end.
Definition failing (l : list c13case) := failing_go 0 l ([], [], []).
