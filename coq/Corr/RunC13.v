From Coq Require Import ZArith QArith Qround Qabs List Bool.
From RV Require Export Base.PyNum Frame.Frame Map.Stacker Map.StackerSpec Map.Rate Map.RateFile.
Import ListNotations.
Open Scope Q_scope.

Inductive c13case :=
(* copy = m.rate(by): lists of the copy; lists of the original before and after (with labels);  tol = 0 on the exact stream *)
| CRate (tol : Q) (by_ : Q) (src : list ulist) (out : list ulist) (src_before src_after : list frame)
(* osu chart with its file-level fields: rated = osu.rate(by); the original's sample events / preview point / other
   attributes read again after the call; frames of the original's timed lists before and after *)
| COsu (tol : Q) (by_ : Q) (src out : osu_file) (after_samples : ulist) (after_preview : Q) (after_meta : list cell)
       (src_before src_after : list frame)
(* StepMania mapset with its file-level fields (SMMapSet.rate) *)
| CSm (tol : Q) (by_ : Q) (src out : sm_file) (after_offset : option Q) (after_start after_length : Q) (after_meta : list cell)
      (src_before src_after : list (list frame))
(* mapsets without file-level time fields (base MapSet, O2Jam): MapSet.rate rates each chart *)
| CSet (tol : Q) (by_ : Q) (src out : list (list ulist)) (src_before src_after : list (list frame))
(* the strict reading of "the preview point scales": osu's marker -1 ("no preview point") stays the marker *)
| CPreview (tol : Q) (by_ : Q) (before after : Q)
(* two charts that must carry the same values: m.rate(1) vs m, m.rate(a).rate(b) vs m.rate(a*b) *)
| CSame (tol : Q) (a b : list ulist).

Record verdict := { corr_ok : bool; spec_ok : bool; wf_ok : bool }.

Definition q_close (tol x y : Q) : bool :=
  Qle_bool (Qabs (x - y)) (tol * (1 + Qabs x)).
Definition cell_close (tol : Q) (a b : cell) : bool :=
  match a, b with
  | CNum x, CNum y => q_close tol x y
  | _, _ => cell_eqb a b
  end.
Fixpoint row_close (tol : Q) (a b : row) : bool :=
  match a, b with
  | [], [] => true
  | x :: a', y :: b' => cell_close tol x y && row_close tol a' b'
  | _, _ => false
  end.
Fixpoint rows_close (tol : Q) (a b : list row) : bool :=
  match a, b with
  | [], [] => true
  | x :: a', y :: b' => row_close tol x y && rows_close tol a' b'
  | _, _ => false
  end.
Fixpoint ulists_close (tol : Q) (a b : list ulist) : bool :=
  match a, b with
  | [], [] => true
  | x :: a', y :: b' => zlist_eqb (u_cols x) (u_cols y) && rows_close tol (u_rows x) (u_rows y) && ulists_close tol a' b'
  | _, _ => false
  end.

Definition frame_eqb (a b : frame) : bool :=
  zlist_eqb (fcols a) (fcols b) && zlist_eqb (labels a) (labels b)
  && (fix go x y := match x, y with
                    | [], [] => true
                    | r :: x', s :: y' => row_eqb r s && go x' y'
                    | _, _ => false end) (abs_rows a) (abs_rows b).
Fixpoint frames_eqb (a b : list frame) : bool :=
  match a, b with
  | [], [] => true
  | x :: a', y :: b' => frame_eqb x y && frames_eqb a' b'
  | _, _ => false
  end.

Definition numeric_content (u : ulist) : bool :=
  forallb (fun r => forallb (fun cv => negb (existsb (Z.eqb (fst cv)) [COL_OFFSET; COL_LENGTH; COL_BPM])
                                       || match snd cv with CNum _ => true | _ => false end)
                            (combine (u_cols u) r)) (u_rows u).

(* ---- file-level comparisons ---- *)
Definition ulist_close (tol : Q) (a b : ulist) : bool := ulists_close tol [a] [b].
Fixpoint charts_close (tol : Q) (a b : list (list ulist)) : bool :=
  match a, b with
  | [], [] => true
  | x :: a', y :: b' => ulists_close tol x y && charts_close tol a' b'
  | _, _ => false
  end.
Definition oq_close (tol : Q) (a b : option Q) : bool :=
  match a, b with None, None => true | Some x, Some y => q_close tol x y | _, _ => false end.
Definition osu_file_close (tol : Q) (a b : osu_file) : bool :=
  ulists_close tol (of_lists a) (of_lists b) && ulist_close tol (of_samples a) (of_samples b)
  && q_close tol (of_preview a) (of_preview b) && row_close tol (of_meta a) (of_meta b).
Definition sm_file_close (tol : Q) (a b : sm_file) : bool :=
  charts_close tol (sf_charts a) (sf_charts b) && oq_close tol (sf_offset a) (sf_offset b)
  && q_close tol (sf_sample_start a) (sf_sample_start b) && q_close tol (sf_sample_length a) (sf_sample_length b)
  && row_close tol (sf_meta a) (sf_meta b).
Fixpoint frames2_eqb (a b : list (list frame)) : bool :=
  match a, b with
  | [], [] => true
  | x :: a', y :: b' => frames_eqb x y && frames2_eqb a' b'
  | _, _ => false
  end.
(* the strict reading of the preview point, with the run's tolerance on the time *)
Definition preview_strict_close (tol by_ before after : Q) : bool :=
  match preview_point before, preview_point after with
  | None, None => true
  | Some t, Some t' => q_close tol (t / by_) t'
  | _, _ => false
  end.

Definition check (c : c13case) : verdict :=
  match c with
  | CRate tol by_ src out sb sa =>
      let wf := forallb wf_ulist src && forallb numeric_content src && Qlt_bool 0 by_ in
      {| corr_ok := ulists_close tol (rate_lists by_ src) out;
         spec_ok := negb wf || (ulists_close tol (rate_spec by_ src) out && frames_eqb sb sa);
         wf_ok := wf |}
  | COsu tol by_ src out asamp aprev ameta sb sa =>
      let wf := wf_osu_file src && forallb numeric_content (of_samples src :: of_lists src) && Qlt_bool 0 by_ in
      {| corr_ok := osu_file_close tol (osu_rate by_ src) out;
         spec_ok := negb wf || (osu_file_close tol (osu_file_scaled by_ src) out
                                && osu_file_eqb (mkOsuFile (of_lists src) asamp aprev ameta) src && frames_eqb sb sa);
         wf_ok := wf |}
  | CSm tol by_ src out aoff astart alen ameta sb sa =>
      let wf := wf_sm_file src && forallb (forallb numeric_content) (sf_charts src) && Qlt_bool 0 by_ in
      {| corr_ok := sm_file_close tol (sm_mapset_rate by_ src) out;
         spec_ok := negb wf || (sm_file_close tol (sm_file_scaled by_ src) out
                                && sm_file_eqb (mkSmFile (sf_charts src) aoff astart alen ameta) src && frames2_eqb sb sa);
         wf_ok := wf |}
  | CSet tol by_ src out sb sa =>
      let wf := forallb (forallb wf_ulist) src && forallb (forallb numeric_content) src && Qlt_bool 0 by_ in
      {| corr_ok := charts_close tol (mapset_rate by_ src) out;
         spec_ok := negb wf || (charts_close tol (map (rate_spec by_) src) out && frames2_eqb sb sa);
         wf_ok := wf |}
  | CPreview tol by_ before after =>
      {| corr_ok := q_close tol (osu_preview_rate by_ before) after;
         spec_ok := preview_strict_close tol by_ before after;
         wf_ok := Qlt_bool 0 by_ |}
  | CSame tol a b =>
      {| corr_ok := true; spec_ok := ulists_close tol a b; wf_ok := true |}
  end.

Fixpoint failing_go (i : nat) (l : list c13case) (acc : list nat * list nat * list nat)
  : list nat * list nat * list nat :=
  match l with
  | [] => acc
  | c :: l' =>
      let v := check c in
      let '(a, b, d) := acc in
      failing_go (S i) l'
        ((if corr_ok v then a else i :: a), (if spec_ok v then b else i :: b), (if wf_ok v then d else i :: d))
  end.
Definition failing (l : list c13case) := failing_go 0 l ([], [], []).
