(* Correspondence runner for C20 (pattern grouping and combinations).
   A case carries the inputs and everything the implementation returned along its own trajectory:
   Pattern.df after construction, the groups, the filter arrays, the combinations.  Each step is checked
   from the implementation's previous state: model vs implementation (corr), the specification's
   oracle on the implementation's output (spec), and whether the case is in the theorems' domain (wf).
   Does not depend on Proofs/ or Props/.  All numerals in case literals are Z. *)
From Coq Require Import ZArith List Bool.
From RV Require Export Algo.PtnFilter Algo.Pattern Algo.PatternSpec.
Import ListNotations.
Open Scope Z_scope.

Record verdict := { corr_ok : bool; spec_ok : bool; wf_ok : bool }.

(* ---- literal helpers (Z everywhere in literals) *)
Definition NF (w : Z) (ar : list (list Z)) (keys : Z) (inv : bool) : nfilter := mkNF (Z.to_nat w) ar keys inv.
Definition TF (w : Z) (ar : list (list ntype)) (inv : bool) : tfilter := mkTF (Z.to_nat w) ar inv.
Definition A2 {A} (w : Z) (rows : list (list A)) : arr_in A := In2 (Z.to_nat w) rows.
Definition Nt (c o : Z) (t : ntype) : note := mkN c o t.
Definition NLs (t : ntype) (rows : list (Z * Z * Z)) : nlist := mkNL t rows.

Inductive pinput :=
| PDirect (rows : list note)                      (* Pattern(cols, offsets, types) *)
| PLists (nls : list nlist) (tails : bool).       (* Pattern.from_note_lists(lists, include_tails) *)

Inductive creq :=
| RNone
| RCombos (size : Z) (ms2 : bool) (cf kf : option nfilter) (tf : option tfilter)
| RJacks (minlen keys : Z)
| RChordStream (p s keys : Z) (and_lower include_jack : bool).

Inductive c20case :=
| CPipe (inp : pinput) (df : list note) (v : Z) (h : option Z) (aj : bool)
        (groups : option (list (list Z)))                 (* rows as indices into df *)
        (req : creq) (combos : option (list (list (list Z))))
| CCreateCombo (inp : arr_in Z) (keys options : Z) (excl : bool) (out : option (Z * list (list Z)))
| CCreateChord (inp : arr_in Z) (keys options : Z) (excl : bool) (out : option (Z * list (list Z)))
| CCreateType (inp : arr_in ntype) (options : Z) (excl : bool) (out : option (Z * list (list ntype))).

Definition dummy := mkN 0 0 TObject.
Definition dec (df : list note) (i : Z) : note := nth (Z.to_nat i) df dummy.

Definition notes_eqb := list_eqb note_eqb.
Definition groups_eqb := list_eqb notes_eqb.

(* combination arrays: same arrays in the same order, rows of an array up to permutation *)
Definition arrays_eqb (a b : list (list (list note))) : bool :=
  list_eqb (fun x y => perm_b notes_eqb x y) a b.

Definition opt_eqb {A} (eqb : A -> A -> bool) (a b : option A) : bool :=
  match a, b with None, None => true | Some x, Some y => eqb x y | _, _ => false end.

Definition cols_in_keys (keys : Z) (groups : list (list note)) : bool :=
  (1 <=? keys) && forallb (forallb (fun r => in_keys keys (ncol r))) groups.

Definition rows_of {A} (column_vector : bool) (a : arr_in A) : list (list A) :=
  match a with
  | In0 x => [[x]]
  | In1 l => if column_vector then map (fun x => [x]) l else [l]
  | In2 _ rows => rows
  end.

Definition check (c : c20case) : verdict :=
  match c with
  | CPipe inp df v h aj groups req combos =>
      (* step 1: construction.  The sort is not stable in the implementation: relational tie *)
      let rows := match inp with PDirect r => r | PLists nls t => from_note_lists_rows nls t end in
      let exp_rows := match inp with PDirect r => r | PLists nls t => expected_rows nls t end in
      let c1 := init_specb rows df && (length (pattern_init rows) =? length df)%nat in
      let s1 := init_specb exp_rows df in
      (* step 2: grouping, from the implementation's df *)
      let mg := group df v h aj in
      let ig := match groups with None => None | Some g => Some (map (map (dec df)) g) end in
      let c2 := opt_eqb groups_eqb mg ig in
      let w2 := (0 <=? v) && match h with None => true | Some hw => 0 <=? hw end && sorted_offb df in
      let s2 := match ig with Some g => group_specb df v h aj g | None => false end in
      (* step 3: combinations / templates, from the implementation's groups *)
      let ic := match combos with None => None | Some l => Some (map (map (map (dec df))) l) end in
      let '(c3, w3, s3) :=
        match ig with
        | None => (true, true, true)
        | Some g =>
          match req with
          | RNone => (true, true, true)
          | RCombos size ms2 cf kf tf =>
              let n := Z.to_nat size in
              (* outside 0..keys-1 the column hash collides: behaviour there is outside the property's domain *)
              (negb (match kf with None => true
                     | Some f => cols_in_keys (f_keys f) g && forallb (forallb (in_keys (f_keys f))) (f_ar f) end)
               || opt_eqb arrays_eqb (combinations g n ms2 cf kf tf) ic,
               (2 <=? size) && wf_combos g n cf kf tf,
               match ic with Some o => combos_specb g n ms2 cf kf tf o | None => false end)
          | RJacks minlen keys =>
              (negb (cols_in_keys keys g) || opt_eqb arrays_eqb (template_jacks g minlen keys) ic,
               (2 <=? minlen) && cols_in_keys keys g,
               match ic with Some o => jacks_specb g (Z.to_nat minlen) keys o | None => false end)
          | RChordStream p s keys al ij =>
              (negb (ij || cols_in_keys keys g) || opt_eqb arrays_eqb (template_chord_stream g p s keys al ij) ic,
               cols_in_keys keys g,
               match ic with Some o => chord_stream_specb g p s keys al ij o | None => false end)
          end
        end in
      {| corr_ok := c1 && c2 && c3;
         spec_ok := s1 && (negb w2 || s2) && (negb (w2 && w3) || s3);
         wf_ok := w2 && w3 |}
  | CCreateCombo inp keys options excl out =>
      let m := combo_create inp keys options excl in
      let rows := rows_of true inp in
      let wf := (1 <=? keys) && negb (length rows =? 0)%nat && forallb (fun r => negb (length r =? 0)%nat) rows
                && match inp with In0 _ => false | _ => true end in
      {| corr_ok := match m, out with
                    | None, None => true
                    | Some f, Some (w, ar) => (f_w f =? Z.to_nat w)%nat && list_eqb (list_eqb Z.eqb) (f_ar f) ar
                    | _, _ => false end;
         spec_ok := negb wf || match out with
                    | Some (_, ar) => strictly_sorted_rows ar
                        && same_set ar (combo_rows_expected rows keys (Z.testbit options 0) (Z.testbit options 1) (Z.testbit options 2))
                    | None => false end;
         wf_ok := wf |}
  | CCreateChord inp keys options excl out =>
      let m := chord_create inp keys options excl in
      let rows := rows_of false inp in
      (* chord sizes are between 1 and keys *)
      let wf := negb (length rows =? 0)%nat && forallb (forallb (fun x => (1 <=? x) && (x <=? keys))) rows in
      {| corr_ok := match m, out with
                    | None, None => true
                    | Some f, Some (w, ar) => (f_w f =? Z.to_nat w)%nat && list_eqb (list_eqb Z.eqb) (f_ar f) ar
                    | _, _ => false end;
         spec_ok := negb wf || match out with
                    | Some (_, ar) => strictly_sorted_rows ar
                        && same_set ar (chord_rows_expected rows keys (Z.testbit options 0) (Z.testbit options 1) (Z.testbit options 2))
                    | None => false end;
         wf_ok := wf |}
  | CCreateType inp options excl out =>
      let m := type_create inp options excl in
      let rows := rows_of true inp in
      let wf := match inp with In0 _ => false | _ => true end in
      {| corr_ok := match m, out with
                    | None, None => true
                    | Some f, Some (w, ar) => (t_w f =? Z.to_nat w)%nat && same_tset (t_ar f) ar
                                              && (length (t_ar f) =? length ar)%nat
                    | _, _ => false end;
         spec_ok := negb wf || match out with
                    | Some (_, ar) => nodup_trows ar
                        && same_tset ar (type_rows_expected rows (Z.testbit options 0) (Z.testbit options 1))
                    | None => false end;
         wf_ok := wf |}
  end.

Fixpoint failing_go (i : nat) (l : list c20case) (acc : list nat * list nat * list nat)
  : list nat * list nat * list nat :=
  match l with
  | [] => acc
  | c :: l' =>
      let v := check c in
      let '(a, b, d) := acc in
      failing_go (S i) l'
        ((if corr_ok v then a else i :: a), (if spec_ok v then b else i :: b), (if wf_ok v then d else i :: d))
  end.
Definition failing (l : list c20case) := failing_go 0 l ([], [], []).
