From Coq Require Import Arith List Bool.
From RV Require Export Store.Store Store.Ops.
From RV Require Import Store.Effects Store.EffectsInline.
Import ListNotations.

(* one observed call: kind of the operation, number of arguments, which arguments changed (any value, column, dtype,
   row label, list pointer or metadata field reachable from them), and for every mutable result which argument it
   shares mutable state with (identity / shared-memory / in-place mutation probes), if any.
   copy = the result is documented as a copy (then it must share nothing).
   ops  = the programs of the generated effect table (Tables.effects.c14_effects, by index) this call ran: the
          reamber functions the harness called.  An observation of an operation the static analysis calls pure must
          show no change; of one it calls owned, no sharing - the correspondence between the effect abstraction read
          off the source and the implementation.  An empty list or an index outside the table fails (fail closed). *)
Inductive c14case :=
| CObs (k : opkind) (nargs : nat) (copy : bool) (changed : list bool) (aliases : list (option nat)) (ops : list nat).

Record verdict := { corr_ok : bool; spec_ok : bool; wf_ok : bool }.

Definition optnat_eqb (a b : option nat) : bool :=
  match a, b with Some x, Some y => Nat.eqb x y | None, None => true | _, _ => false end.
Fixpoint list_eqb {A} (eqb : A -> A -> bool) (a b : list A) : bool :=
  match a, b with
  | [], [] => true
  | x :: a', y :: b' => eqb x y && list_eqb eqb a' b'
  | _, _ => false
  end.

Definition none_changed (changed : list bool) : bool := forallb negb changed.
Definition none_shared (aliases : list (option nat)) : bool :=
  forallb (fun a => match a with None => true | Some _ => false end) aliases.
Definition in_table (ops : list nat) : bool :=
  negb (Nat.eqb (length ops) 0) && forallb (fun i => Nat.ltb i (length effect_verdicts)) ops.
Definition static_pure (ops : list nat) : bool := forallb (fun i => fst (verdict_of i)) ops.
Definition static_owned (ops : list nat) : bool := forallb (fun i => snd (verdict_of i)) ops.

Definition check (c : c14case) : verdict :=
  match c with
  | CObs k nargs copy changed aliases ops =>
      let '(mc, ma) := model_outcome k nargs in
      {| corr_ok := list_eqb Bool.eqb mc changed && (negb copy || list_eqb optnat_eqb ma aliases)
                    && in_table ops
                    && (negb (static_pure ops) || none_changed changed)
                    && (negb (copy && static_owned ops) || none_shared aliases);
         spec_ok := list_eqb Bool.eqb (repeat false nargs) changed && (negb copy || none_shared aliases);
         wf_ok := Nat.eqb (length changed) nargs |}
  end.

Fixpoint failing_go (i : nat) (l : list c14case) (acc : list nat * list nat * list nat)
  : list nat * list nat * list nat :=
  match l with
  | [] => acc
  | c :: l' =>
      let v := check c in
      let '(a, b, d) := acc in
      failing_go (S i) l'
        ((if corr_ok v then a else i :: a), (if spec_ok v then b else i :: b), (if wf_ok v then d else i :: d))
  end.
Definition failing (l : list c14case) := failing_go 0 l ([], [], []).
