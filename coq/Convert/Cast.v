(* Model of ConvertBase.cast (reamber/algorithms/convert/ConvertBase.py) and TimedList.empty.  Definitions only.
   buffer = target.empty(len(src)); for (to, from) in mapping: buffer.<to> = src.<from> (or the given values). *)
From Coq Require Import ZArith QArith Qround List Bool.
From RV Require Import Base.PyNum Frame.Frame.
Import ListNotations.
Open Scope Q_scope.

Inductive source :=
| FromCol (c : Z)                 (* a column name of the source list *)
| FromVals (vs : list cell).      (* a value array passed directly (e.g. BMS samples rendered as strings) *)

(* TimedList.empty(n): n copies of the default row, labels 0..n-1, exactly the declared columns *)
Definition empty_frame (declared : list Z) (defaults : row) (n : nat) : frame :=
  mkFrame declared (relabel 0 (repeat defaults n)).

Definition col_vals (f : frame) (c : Z) : option (list cell) :=
  match col_index c (fcols f) with
  | None => None
  | Some i => Some (map (fun r => nth i r CNaN) (abs_rows f))
  end.

(* df[k] = array (positional): only an existing column is modelled; an unknown name is outside the domain *)
Fixpoint set_col_rows (i : nat) (vals : list cell) (rows : list (Z * row)) : list (Z * row) :=
  match rows, vals with
  | (lab, r) :: rows', v :: vals' => (lab, set_nth i v r) :: set_col_rows i vals' rows'
  | _, _ => rows
  end.
Definition set_col (k : Z) (vals : list cell) (f : frame) : option frame :=
  match col_index k (fcols f) with
  | None => None
  | Some i => if Nat.eqb (length vals) (nrows f) then Some (mkFrame (fcols f) (set_col_rows i vals (frows f))) else None
  end.

Fixpoint apply_mapping (src : frame) (mapping : list (Z * source)) (buffer : frame) : option frame :=
  match mapping with
  | [] => Some buffer
  | (to, from) :: mapping' =>
      let vals := match from with
                  | FromCol c => col_vals src c
                  | FromVals vs => Some vs
                  end in
      match vals with
      | None => None                                   (* AttributeError / KeyError *)
      | Some vs => match set_col to vs buffer with
                   | None => None
                   | Some b' => apply_mapping src mapping' b'
                   end
      end
  end.

Definition cast (src : frame) (declared : list Z) (defaults : row) (mapping : list (Z * source)) : option frame :=
  apply_mapping src mapping (empty_frame declared defaults (nrows src)).

(* bms.stack().column += shift : every numeric `column` cell moves by shift *)
Definition shift_column (shift : Q) (f : frame) : frame :=
  map_col COL_COLUMN (fun c => match c with CNum x => CNum (Qred (x + shift)) | other => other end) f.

(* ------------------------------------------------------------------ specification *)
Definition cells_eqb (a b : list cell) : bool :=
  (fix go a b := match a, b with
                 | [], [] => true
                 | x :: a', y :: b' => cell_eqb x y && go a' b'
                 | _, _ => false end) a b.
Definition opt_cells_eqb (a b : option (list cell)) : bool :=
  match a, b with Some x, Some y => cells_eqb x y | _, _ => false end.

Definition no_nan (f : frame) : bool :=
  forallb (fun r => forallb (fun c => match c with CNaN => false | _ => true end) r) (abs_rows f).

Definition mapped (mapping : list (Z * source)) (c : Z) : bool := existsb (fun m => (fst m =? c)%Z) mapping.

(* the target has exactly the declared fields, as many rows as the source, every mapped column carries the
   source column's values positionally, every other column the default, and nothing is missing *)
Definition cast_specb (src : frame) (declared : list Z) (defaults : row) (mapping : list (Z * source)) (out : frame) : bool :=
  zlist_eqb (fcols out) declared
  && Nat.eqb (nrows out) (nrows src)
  && forallb (fun m => match snd m with
                       | FromCol c => opt_cells_eqb (col_vals out (fst m)) (col_vals src c)
                       | FromVals vs => opt_cells_eqb (col_vals out (fst m)) (Some vs)
                       end) mapping
  && forallb (fun dc => mapped mapping (fst dc)
                        || opt_cells_eqb (col_vals out (fst dc)) (Some (repeat (snd dc) (nrows src))))
             (combine declared defaults)
  && no_nan out.
