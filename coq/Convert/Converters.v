(* Model of the 16 shipped converters (reamber/algorithms/convert/*.py) and of O2JToSM.convert_merge.  Definitions only.

   The DESCRIPTION of each converter (`conv_desc`: source / target game, loop shape, every `cls.cast` call with the
   target class's live declared fields and defaults, every metadata assignment as an expression tree, the column-shift
   statement, the raise_bad_mode guard, and `SUnknown "<text>"` for anything not recognised) is not written here: it
   is re-derived from the Python source of the tree under test on every run (harness/tables/convert.py ->
   Generated/Tables.v, module Tables.convert, which also carries the syntax types).  This file gives the descriptions
   their meaning (`conv_chart`, `conv_run`: the statements executed in order on a target chart under construction,
   list assignments through Convert/Cast.v's `cast`), the well-formedness check `conv_okb`, and the specification. *)
From Coq Require Import String ZArith QArith Qround List Bool.
From RV Require Import Base.PyNum Base.Text Frame.Frame Convert.Cast Map.StackerSpec Generated.Tables.
Import ListNotations.
Export Tables.convert.
Open Scope Q_scope.

(* ------------------------------------------------------------------ reference constants (format facts) *)
(* games *)
Definition G_OSU : Z := 1.  Definition G_QUA : Z := 2.  Definition G_BMS : Z := 3.  Definition G_O2J : Z := 4.
Definition G_SM : Z := 5.
(* list names *)
Definition L_HITS : Z := 1.  Definition L_HOLDS : Z := 2.  Definition L_BPMS : Z := 3.  Definition L_SVS : Z := 4.
Definition COL_MULTIPLIER : Z := 5.
(* metadata field names the property speaks about (the translator interns every other name by a hash) *)
Definition F_TITLE : Z := 1.  Definition F_ARTIST : Z := 2.  Definition F_CREATOR : Z := 3.  Definition F_VERSION : Z := 4.
Definition F_DIFFICULTY_NAME : Z := 5.  Definition F_DESCRIPTION : Z := 6.  Definition F_DIFFICULTY : Z := 7.
Definition F_DIFFICULTY_VAL : Z := 8.  Definition F_CREDIT : Z := 9.  Definition F_LEVEL : Z := 10.
Definition reference_field_names : list (Z * string) :=
  [(F_TITLE, "title"); (F_ARTIST, "artist"); (F_CREATOR, "creator"); (F_VERSION, "version");
   (F_DIFFICULTY_NAME, "difficulty_name"); (F_DESCRIPTION, "description"); (F_DIFFICULTY, "difficulty");
   (F_DIFFICULTY_VAL, "difficulty_val"); (F_CREDIT, "credit"); (F_LEVEL, "level")]%string.
Definition reference_list_names : list (Z * string) :=
  [(L_HITS, "hits"); (L_HOLDS, "holds"); (L_BPMS, "bpms"); (L_SVS, "svs")]%string.
Definition reference_column_names : list (Z * string) :=
  [(COL_OFFSET, "offset"); (COL_COLUMN, "column"); (COL_LENGTH, "length"); (COL_BPM, "bpm"); (COL_MULTIPLIER, "multiplier")]%string.

(* ------------------------------------------------------------------ charts *)
(* a metadata value of a chart or mapset object *)
Inductive mval :=
| MText (t : list Z) | MBytes (t : list Z) | MInt (z : Z) | MFloat (q : Q) | MBool (b : bool)
| MTexts (l : list (list Z)) | MInts (l : list Z) | MNone | MOther (id : Z) | MNaN.

(* a metadata attribute: (is it an attribute of the mapset object?, field name) *)
Definition mkey := (bool * Z)%type.
Definition mkey_eqb (a b : mkey) : bool := Bool.eqb (fst a) (fst b) && (snd a =? snd b)%Z.
Definition meta := list (mkey * mval).

Record chart := mkChart { c_lists : list (Z * frame); c_meta : meta }.
(* what a converter is applied to: a mapset's own attributes (keys (true, f); empty for a single chart) and its charts *)
Record srcset := mkSrcSet { ss_meta : meta; ss_charts : list chart }.
(* the arguments: column shift, raise_bad_mode, and the numbers under which this run interns declared default strings *)
Record cargs := mkArgs { a_shift : Q; a_raise : bool; a_strs : list (list Z * Z) }.

Fixpoint assocZ {A} (k : Z) (l : list (Z * A)) : option A :=
  match l with
  | [] => None
  | (k', v) :: l' => if (k' =? k)%Z then Some v else assocZ k l'
  end.
Fixpoint assocM (k : mkey) (l : meta) : option mval :=
  match l with
  | [] => None
  | (k', v) :: l' => if mkey_eqb k' k then Some v else assocM k l'
  end.
(* <chart>.<list> = f : the chart class has that list (otherwise None: not modelled) *)
Fixpoint set_list (k : Z) (f : frame) (L : list (Z * frame)) : option (list (Z * frame)) :=
  match L with
  | [] => None
  | (k', g) :: L' => if (k' =? k)%Z then Some ((k', f) :: L') else option_map (cons (k', g)) (set_list k f L')
  end.

Definition empty_chart : chart := mkChart [] [].

(* ------------------------------------------------------------------ metadata expressions *)
Definition asciib (t : list Z) : bool := forallb (fun c => (0 <=? c)%Z && (c <? 128)%Z) t.

(* table functions (`if x == k: return v ... else: return dflt`): Python's == across int / float / bool, str only with str *)
Definition mval_of_tv (v : tv) : mval := match v with TVText t => MText t | TVInt z => MInt z | TVNone => MNone end.
Definition num_key (v : mval) : option Q :=
  match v with MInt z => Some (inject_Z z) | MFloat q => Some q | MBool b => Some (if b then 1 else 0) | _ => None end.
Fixpoint lookup_int (tb : list (Z * tv)) (dflt : tv) (k : Q) : tv :=
  match tb with
  | [] => dflt
  | (z, v) :: tb' => if Qeq_bool k (inject_Z z) then v else lookup_int tb' dflt k
  end.
Fixpoint lookup_text (tb : list (list Z * tv)) (dflt : tv) (k : list Z) : tv :=
  match tb with
  | [] => dflt
  | (t, v) :: tb' => if zlist_eqb t k then v else lookup_text tb' dflt k
  end.
(* min(<list>.offset) *)
Fixpoint min_cells (acc : Q) (vs : list cell) : option Q :=
  match vs with
  | [] => Some acc
  | CNum q :: vs' => min_cells (if Qle_bool q acc then q else acc) vs'
  | _ => None
  end.

Fixpoint max_cells (acc : Q) (vs : list cell) : option Q :=
  match vs with
  | [] => Some acc
  | CNum q :: vs' => max_cells (if Qle_bool acc q then q else acc) vs'
  | _ => None
  end.
(* <chart>.stack().<col>: the values of that column over all lists of the chart that have it (lists without it
   contribute NaN rows, which max() skips, as it skips missing cells) *)
Definition stack_col_vals (c : chart) (col : Z) : list cell :=
  flat_map (fun nf => match col_vals (snd nf) col with
                      | Some vs => filter (fun v => match v with CNaN => false | _ => true end) vs
                      | None => [] end) (c_lists c).

(* the context of one loop iteration: arguments, the mapset's attributes, the source chart and its position, and
   the ORACLE: the chart the implementation produced, consulted only for what is not modelled (EOpaque metadata
   expressions, FromComputed columns) *)
Record ctx := mkCtx { x_args : cargs; x_set : meta; x_chart : chart; x_pos : nat; x_oracle : chart }.

Definition truthy (v : mval) : bool :=
  match v with
  | MText [] | MBytes [] | MTexts [] | MInts [] | MNone | MBool false => false
  | MInt z => negb (z =? 0)%Z
  | MFloat q => negb (Qeq_bool q 0)
  | _ => true
  end.

Fixpoint eval (x : ctx) (e : mexpr) : option mval :=
  match e with
  | EAttr b f => assocM (b, f) (if b then x_set x else c_meta (x_chart x))       (* None = AttributeError *)
  | EInt z => Some (MInt z)
  | EFloat q => Some (MFloat q)
  | EText t => Some (MText t)
  | EListCopy e' => match eval x e' with
                    | Some (MTexts l) => Some (MTexts l)
                    | Some (MInts l) => Some (MInts l)
                    | Some (MText t) => Some (MTexts (map (fun c => [c]) t))   (* list("ab") = ["a", "b"] *)
                    | Some (MBytes t) => Some (MInts t)
                    | _ => None end
  | EToInt e' => match eval x e' with
                 | Some (MInt z) => Some (MInt z)
                 | Some (MFloat q) => Some (MInt (qtrunc q))
                 | Some (MBool b) => Some (MInt (if b then 1 else 0))
                 | _ => None end
  | EDecodeSjis e' => match eval x e' with                      (* shift_jis and unidecode are the identity on ASCII; *)
                      | Some (MBytes t) => if asciib t then Some (MText t) else None   (* anything else is not modelled *)
                      | _ => None end
  | EEncodeSjis e' => match eval x e' with
                      | Some (MText t) => if asciib t then Some (MBytes t) else None
                      | _ => None end
  | EStr e' => match eval x e' with
               | Some (MText t) => Some (MText t)
               | Some (MInt z) => Some (MText (show_int z))
               | _ => None end                                  (* str(float) etc.: not modelled *)
  | ECat a b => match eval x a, eval x b with
                | Some (MText s), Some (MText t) => Some (MText (s ++ t))
                | _, _ => None end
  | ELevelName => match assocM (true, F_LEVEL) (x_set x) with  (* self.level[position of the chart in the mapset] *)
                  | Some (MInts l) => option_map MInt (nth_error l (x_pos x))
                  | _ => None end
  | ELookupInt tb dflt e' => match eval x e' with
                             | Some v => Some (mval_of_tv (match num_key v with Some q => lookup_int tb dflt q | None => dflt end))
                             | None => None end
  | ELookupText tb dflt e' => match eval x e' with
                              | Some v => Some (mval_of_tv (match v with MText t => lookup_text tb dflt t | _ => dflt end))
                              | None => None end
  | EOr a b => match eval x a with
               | Some v => if truthy v then Some v else eval x b
               | None => None end
  | EIf c a b => match eval x c with
                 | Some v => if truthy v then eval x a else eval x b
                 | None => None end
  | ELen l => option_map (fun f => MInt (Z.of_nat (nrows f))) (assocZ l (c_lists (x_chart x)))
  | EFirstOffset l => match assocZ l (c_lists (x_chart x)) with          (* None on an empty list, else min(offset) *)
                      | Some f => match col_vals f COL_OFFSET with
                                  | Some [] => Some MNone
                                  | Some (CNum q :: vs) => option_map MFloat (min_cells q vs)
                                  | _ => None end
                      | None => None end
  | EDefault _ _ v => eval x v
  | EStackMaxPlus col k => match stack_col_vals (x_chart x) col with
                           | [] => Some MNaN                                 (* max of nothing is NaN *)
                           | CNum q :: vs => option_map (fun m => MFloat (Qred (m + inject_Z k))) (max_cells q vs)
                           | _ => None end
  | ENotNaN e' => match eval x e' with
                  | Some MNaN => Some (MBool false)
                  | Some _ => Some (MBool true)
                  | None => None end
  | EOpaque _ => None
  end.

(* the value a metadata assignment stores *)
Definition meta_value (x : ctx) (on_set : bool) (f : Z) (e : mexpr) : option mval :=
  match e with
  | EOpaque _ => assocM (on_set, f) (c_meta (x_oracle x))
  | _ => eval x e
  end.

(* ------------------------------------------------------------------ statements *)
Definition cell_of_rcell (strs : list (list Z * Z)) (r : rcell) : cell :=
  match r with
  | RNum q => CNum q
  | RBool b => CBool b
  | RStr t => CStr (match List.find (fun p => zlist_eqb (fst p) t) strs with Some p => snd p | None => (-1)%Z end)
  | RList0 => CList []
  | RNaN => CNaN
  | RNone => CNone
  end.

(* a mapping entry as ConvertBase.cast receives it: a column name, or a value array (here: what the oracle holds) *)
Definition resolve_source (oracle : chart) (tgt c : Z) (s : msource) : option source :=
  match s with
  | FromColumn c' => Some (FromCol c')
  | FromComputed _ => match assocZ tgt (c_lists oracle) with
                      | Some f => option_map FromVals (col_vals f c)
                      | None => None end
  end.
Fixpoint resolve_mapping (oracle : chart) (tgt : Z) (m : list (Z * msource)) : option (list (Z * source)) :=
  match m with
  | [] => Some []
  | (c, s) :: m' =>
      match resolve_source oracle tgt c s, resolve_mapping oracle tgt m' with
      | Some s', Some r => Some ((c, s') :: r)
      | _, _ => None
      end
  end.

(* <target>.<tgt> = cls.cast(<source chart>.<src>, Class, mapping) *)
Definition cast_step (x : ctx) (src : Z) (tgt : Z) (declared : list Z) (defaults : list rcell) (m : list (Z * msource))
  : option frame :=
  match assocZ src (c_lists (x_chart x)), resolve_mapping (x_oracle x) tgt m with
  | Some f, Some m' => cast f declared (map (cell_of_rcell (a_strs (x_args x))) defaults) m'
  | _, _ => None
  end.

(* effect of one statement on the lists of the target chart under construction *)
Definition step_lists (x : ctx) (s : step) (L : list (Z * frame)) : option (list (Z * frame)) :=
  match s with
  | SCast tgt src declared defaults m =>
      match cast_step x src tgt declared defaults m with
      | Some g => set_list tgt g L
      | None => None
      end
  | SShift => Some (map (fun nf => (fst nf, shift_column (a_shift (x_args x)) (snd nf))) L)
  | SUnknown _ => None
  | _ => Some L
  end.
(* ... and on its attributes (latest assignment first) *)
Definition step_meta (x : ctx) (s : step) (M : meta) : option meta :=
  match s with
  | SMeta b f e => match meta_value x b f e with
                   | Some v => Some (((b, f), v) :: M)
                   | None => None
                   end
  | SGuardMode b f => match assocM (b, f) M with
                      | Some v => if a_raise (x_args x) && negb (truthy v) then None else Some M   (* raise ValueError *)
                      | None => None            (* reads a class default: not modelled *)
                      end
  | SLocal _ e => match e with                   (* name = e: evaluated here (an exception is an exception) *)
                   | EOpaque _ => Some M
                   | _ => match eval x e with Some _ => Some M | None => None end
                   end
  | SUnknown _ => None
  | _ => Some M
  end.
Definition exec_step (x : ctx) (s : step) (st : chart) : option chart :=
  match step_lists x s (c_lists st), step_meta x s (c_meta st) with
  | Some L, Some M => Some (mkChart L M)
  | _, _ => None
  end.
Fixpoint exec_steps (x : ctx) (ss : list step) (st : chart) : option chart :=
  match ss with
  | [] => Some st
  | s :: ss' => match exec_step x s st with
                | Some st' => exec_steps x ss' st'
                | None => None
                end
  end.

Definition steps_of (d : conv_desc) : list step := cd_pre d ++ cd_body d ++ cd_post d.
(* TargetMap(): every list of the class empty, with its declared columns *)
Definition init_chart (d : conv_desc) (strs : list (list Z * Z)) : chart :=
  mkChart (map (fun t => (fst t, empty_frame (fst (snd t)) (map (cell_of_rcell strs) (snd (snd t))) 0)) (cd_tgt_lists d)) [].

(* the target chart made from the source chart at position k (for a target inside a StepMania mapset: the chart's
   attributes under keys (false, _), those of its mapset under (true, _)) *)
Definition conv_chart (d : conv_desc) (a : cargs) (sm : meta) (k : nat) (c : chart) (oracle : chart) : option chart :=
  exec_steps (mkCtx a sm c k oracle) (steps_of d) (init_chart d (a_strs a)).

Fixpoint run_charts (d : conv_desc) (a : cargs) (sm : meta) (oracle : list chart) (k : nat) (cs : list chart)
  : option (list chart) :=
  match cs with
  | [] => Some []
  | c :: cs' => match conv_chart d a sm k c (nth k oracle empty_chart), run_charts d a sm oracle (S k) cs' with
                | Some o, Some os => Some (o :: os)
                | _, _ => None
                end
  end.
(* all target charts in order (a list of charts, a list of one-chart mapsets and a merged mapset are all seen as the
   sequence of their charts) *)
Definition conv_run (d : conv_desc) (a : cargs) (src : srcset) (oracle : list chart) : option (list chart) :=
  match cd_shape d, ss_charts src with
  | ShOne, [_] | ShEach, _ | ShMerge, _ => run_charts d a (ss_meta src) oracle 0 (ss_charts src)
  | ShOne, _ => None
  end.

(* ------------------------------------------------------------------ well-formedness of a description: conv_okb *)
Definition is_unknown (s : step) : bool := match s with SUnknown _ => true | _ => false end.
Definition is_list_step (s : step) : bool := match s with SCast _ _ _ _ _ | SShift => true | _ => false end.
Definition is_shift (s : step) : bool := match s with SShift => true | _ => false end.
Definition has_shift (d : conv_desc) : bool := existsb is_shift (cd_body d).
Definition memZ (k : Z) (l : list Z) : bool := existsb (Z.eqb k) l.

(* the list statements of a loop body: casts, then at most one shift *)
Fixpoint casts_then_shift (l : list step) : bool :=
  match l with
  | [] => true
  | SCast _ _ _ _ _ :: l' => casts_then_shift l'
  | SShift :: l' => match l' with [] => true | _ => false end
  | _ => false
  end.
Definition cast_target (s : step) : list Z := match s with SCast t _ _ _ _ => [t] | _ => [] end.
Definition rcell_eqb (a b : rcell) : bool :=
  match a, b with
  | RNum x, RNum y => Qeq_bool x y
  | RBool x, RBool y => Bool.eqb x y
  | RStr x, RStr y => zlist_eqb x y
  | RList0, RList0 | RNaN, RNaN | RNone, RNone => true
  | _, _ => false
  end.
Fixpoint rcells_eqb (a b : list rcell) : bool :=
  match a, b with
  | [], [] => true
  | x :: a', y :: b' => rcell_eqb x y && rcells_eqb a' b'
  | _, _ => false
  end.
Definition is_from_column (c : Z) (s : msource) : bool := match s with FromColumn c' => (c' =? c)%Z | _ => false end.

(* one cast statement: the class named is the class of the target list; mapping targets are distinct declared
   fields of it; mapped source columns are declared fields of the source list *)
Definition cast_okb (d : conv_desc) (s : step) : bool :=
  match s with
  | SCast t src declared defaults m =>
      match assocZ t (cd_tgt_lists d), assocZ src (cd_src_lists d) with
      | Some (decl', dfl'), Some sdecl =>
          zlist_eqb declared decl' && rcells_eqb defaults dfl'
          && nodupb declared && Nat.eqb (length defaults) (length declared)
          && nodupb (map fst m) && forallb (fun p => memZ (fst p) declared) m
          && forallb (fun p => match snd p with FromColumn c => memZ c sdecl | FromComputed _ => true end) m
      | _, _ => false
      end
  | _ => true
  end.

(* the content the property speaks about, per list: (list, columns that must be carried) *)
Definition role_lists (d : conv_desc) : list (Z * list Z) :=
  [(L_HITS, [COL_OFFSET; COL_COLUMN]); (L_HOLDS, [COL_OFFSET; COL_COLUMN; COL_LENGTH]); (L_BPMS, [COL_OFFSET; COL_BPM])]
  ++ (if memZ L_SVS (map fst (cd_src_lists d)) && memZ L_SVS (map fst (cd_tgt_lists d))
      then [(L_SVS, [COL_OFFSET; COL_MULTIPLIER])] else []).
(* the statement `<target>.L = cls.cast(<source>.L, .., {c: c for c in cols, ..})` *)
Definition carries_list (L : Z) (cols : list Z) (s : step) : bool :=
  match s with
  | SCast t src _ _ m => (t =? L)%Z && (src =? L)%Z
                         && forallb (fun c => existsb (fun p => (fst p =? c)%Z && is_from_column c (snd p)) m) cols
  | _ => false
  end.

(* the four metadata roles: where a game keeps them.  As a SOURCE expression ... *)
Inductive role := RTitle | RArtist | RCreator | RDiffName.
Definition ROLES : list role := [RTitle; RArtist; RCreator; RDiffName].
Definition src_role (game : Z) (r : role) : option mexpr :=
  if (game =? G_OSU)%Z then
    Some (EAttr false match r with RTitle => F_TITLE | RArtist => F_ARTIST | RCreator => F_CREATOR | RDiffName => F_VERSION end)
  else if (game =? G_QUA)%Z then
    Some (EAttr false match r with RTitle => F_TITLE | RArtist => F_ARTIST | RCreator => F_CREATOR | RDiffName => F_DIFFICULTY_NAME end)
  else if (game =? G_BMS)%Z then                    (* a BMS chart has no creator; title / artist / version are bytes *)
    match r with RTitle => Some (EAttr false F_TITLE) | RArtist => Some (EAttr false F_ARTIST) | RCreator => None
            | RDiffName => Some (EAttr false F_VERSION) end
  else if (game =? G_O2J)%Z then                    (* O2Jam: attributes of the mapset; the difficulty name is the level *)
    match r with RTitle => Some (EAttr true F_TITLE) | RArtist => Some (EAttr true F_ARTIST)
            | RCreator => Some (EAttr true F_CREATOR) | RDiffName => Some ELevelName end
  else if (game =? G_SM)%Z then                     (* StepMania: mapset attributes; the chart's `difficulty` *)
    match r with RTitle => Some (EAttr true F_TITLE) | RArtist => Some (EAttr true F_ARTIST)
            | RCreator => Some (EAttr true F_CREDIT) | RDiffName => Some (EAttr false F_DIFFICULTY) end
  else None.
(* ... and as the TARGET attribute (StepMania's `difficulty` is an enumeration: the name goes to `description`) *)
Definition tgt_role (game : Z) (r : role) : option mkey :=
  if (game =? G_OSU)%Z then
    Some (false, match r with RTitle => F_TITLE | RArtist => F_ARTIST | RCreator => F_CREATOR | RDiffName => F_VERSION end)
  else if (game =? G_QUA)%Z then
    Some (false, match r with RTitle => F_TITLE | RArtist => F_ARTIST | RCreator => F_CREATOR | RDiffName => F_DIFFICULTY_NAME end)
  else if (game =? G_BMS)%Z then
    match r with RTitle => Some (false, F_TITLE) | RArtist => Some (false, F_ARTIST) | RCreator => None
            | RDiffName => Some (false, F_VERSION) end
  else if (game =? G_SM)%Z then
    match r with RTitle => Some (true, F_TITLE) | RArtist => Some (true, F_ARTIST) | RCreator => Some (true, F_CREDIT)
            | RDiffName => Some (false, F_DESCRIPTION) end
  else None.

Definition is_src_atom (s e : mexpr) : bool :=
  match s, e with
  | EAttr b f, EAttr b' f' => Bool.eqb b b' && (f =? f')%Z
  | ELevelName, ELevelName => true
  | _, _ => false
  end.
(* the value of e contains the text of the source attribute s: s itself, re-encoded, or placed in an f-string *)
Fixpoint carriesb (s e : mexpr) : bool :=
  is_src_atom s e ||
  match e with
  | EDecodeSjis e' | EEncodeSjis e' | EStr e' => carriesb s e'
  | ECat a b => carriesb s a || carriesb s b
  | _ => false
  end.
Definition role_okb (d : conv_desc) (r : role) : bool :=
  match src_role (cd_src_game d) r, tgt_role (cd_tgt_game d) r with
  | Some se, Some k => existsb (fun s => match s with
                                         | SMeta b f e => mkey_eqb (b, f) k && carriesb se e
                                         | _ => false end) (steps_of d)
  | _, _ => true
  end.

Definition meta_target (s : step) : list mkey := match s with SMeta b f _ => [(b, f)] | _ => [] end.
Fixpoint nodup_keysb (l : list mkey) : bool :=
  match l with
  | [] => true
  | k :: l' => negb (existsb (mkey_eqb k) l') && nodup_keysb l'
  end.
(* attributes an expression reads are declared by the source classes *)
Fixpoint expr_srcs_okb (d : conv_desc) (e : mexpr) : bool :=
  match e with
  | EAttr b f => memZ f (if b then cd_src_set_fields d else cd_src_map_fields d)
  | EListCopy e' | EToInt e' | EDecodeSjis e' | EEncodeSjis e' | EStr e' => expr_srcs_okb d e'
  | ECat a b => expr_srcs_okb d a && expr_srcs_okb d b
  | ELevelName => memZ F_LEVEL (cd_src_set_fields d)
  | ELookupInt _ _ e' | ELookupText _ _ e' | ENotNaN e' => expr_srcs_okb d e'
  | EOr a b => expr_srcs_okb d a && expr_srcs_okb d b
  | EIf c a b => expr_srcs_okb d c && expr_srcs_okb d a && expr_srcs_okb d b
  | ELen l | EFirstOffset l => memZ l (map fst (cd_src_lists d))
  | EDefault b f _ => memZ f (if b then cd_tgt_set_fields d else cd_tgt_map_fields d)
  | _ => true
  end.
Fixpoint uses_chart (e : mexpr) : bool :=
  match e with
  | EAttr b _ => negb b
  | EListCopy e' | EToInt e' | EDecodeSjis e' | EEncodeSjis e' | EStr e' => uses_chart e'
  | ECat a b => uses_chart a || uses_chart b
  | ELevelName | ELen _ | EFirstOffset _ | EStackMaxPlus _ _ => true
  | ELookupInt _ _ e' | ELookupText _ _ e' | ENotNaN e' => uses_chart e'
  | EOr a b => uses_chart a || uses_chart b
  | EIf c a b => uses_chart c || uses_chart a || uses_chart b
  | _ => false
  end.
Definition meta_okb (d : conv_desc) (s : step) : bool :=
  match s with
  | SMeta b f e => memZ f (if b then cd_tgt_set_fields d else cd_tgt_map_fields d)
                   && (negb b || cd_tgt_in_set d) && expr_srcs_okb d e
  | SLocal _ e => expr_srcs_okb d e
  | _ => true
  end.
(* statements outside the loop over a mapset's charts touch only the (shared) target mapset and read only the source mapset *)
Definition outside_okb (s : step) : bool :=
  match s with
  | SMeta b _ e => b && negb (uses_chart e)
  | SLocal _ e => negb (uses_chart e)
  | SCast _ _ _ _ _ | SShift | SGuardMode _ _ => false
  | _ => true
  end.
(* a guard reads an attribute assigned before it, and exists only with a raise_bad_mode parameter *)
Fixpoint guards_okb (d : conv_desc) (assigned : list mkey) (l : list step) : bool :=
  match l with
  | [] => true
  | SMeta b f _ :: l' => guards_okb d ((b, f) :: assigned) l'
  | SGuardMode b f :: l' => cd_raise_arg d && existsb (mkey_eqb (b, f)) assigned && guards_okb d assigned l'
  | _ :: l' => guards_okb d assigned l'
  end.
Definition shape_okb (d : conv_desc) : bool :=
  match cd_shape d with
  | ShOne => match cd_pre d, cd_post d with [], [] => true | _, _ => false end
  | ShEach => forallb outside_okb (cd_pre d ++ cd_post d)
  | ShMerge => cd_tgt_in_set d && forallb outside_okb (cd_pre d ++ cd_post d)
               && forallb (fun s => match s with SMeta true _ _ => false | _ => true end) (cd_body d)
  end.

Definition conv_okb (d : conv_desc) : bool :=
  forallb (fun s => negb (is_unknown s)) (steps_of d)                                  (* everything was recognised *)
  && forallb (fun s => negb (is_list_step s)) (cd_pre d ++ cd_post d)
  && casts_then_shift (filter is_list_step (cd_body d))
  && (negb (has_shift d) || cd_shift_arg d)
  && forallb (cast_okb d) (cd_body d)
  && nodupb (flat_map cast_target (cd_body d))
  && nodupb (map fst (cd_tgt_lists d))
  && forallb (fun lc => existsb (carries_list (fst lc) (snd lc)) (cd_body d)) (role_lists d)   (* content carried *)
  && nodup_keysb (flat_map meta_target (steps_of d))
  && forallb (meta_okb d) (steps_of d)
  && forallb (role_okb d) ROLES                                                       (* title / artist / creator / name *)
  && guards_okb d [] (steps_of d)
  && shape_okb d
  && memZ (cd_src_game d) [G_OSU; G_QUA; G_BMS; G_O2J; G_SM] && memZ (cd_tgt_game d) [G_OSU; G_QUA; G_BMS; G_SM].

(* the name tables of the translator agree with the reference constants above *)
Definition names_agreeb (reference table : list (Z * string)) : bool :=
  forallb (fun p => match assocZ (fst p) table with Some s => String.eqb s (snd p) | None => false end) reference.

(* ------------------------------------------------------------------ the domain: wf of a source chart *)
Definition not_nan (c : cell) : bool := match c with CNaN => false | _ => true end.
Definition col_clean (f : frame) (c : Z) : bool :=
  match col_vals f c with Some vs => forallb not_nan vs | None => false end.
(* every list the source class declares is there, with (at least) its declared columns, rows as wide as the columns,
   and nothing missing in the declared columns; labels and row order are arbitrary *)
Definition src_lists_wfb (d : conv_desc) (c : chart) : bool :=
  forallb (fun ld => match assocZ (fst ld) (c_lists c) with
                     | Some f => nodupb (fcols f) && wf_frame f && forallb (col_clean f) (snd ld)
                     | None => false end) (cd_src_lists d).
(* what is not modelled is supplied consistently: computed columns have one value per source row, none missing *)
Definition computed_wfb (d : conv_desc) (c oracle : chart) : bool :=
  forallb (fun s => match s with
                    | SCast t src _ _ m =>
                        forallb (fun p => match snd p with
                                          | FromColumn _ => true
                                          | FromComputed _ =>
                                              match assocZ t (c_lists oracle), assocZ src (c_lists c) with
                                              | Some fo, Some fs =>
                                                  match col_vals fo (fst p) with
                                                  | Some vs => Nat.eqb (length vs) (nrows fs) && forallb not_nan vs
                                                  | None => false end
                                              | _, _ => false end
                                          end) m
                    | _ => true end) (cd_body d).
Fixpoint meta_steps (x : ctx) (ss : list step) (M : meta) : option meta :=
  match ss with
  | [] => Some M
  | s :: ss' => match step_meta x s M with Some M' => meta_steps x ss' M' | None => None end
  end.
(* every metadata expression evaluates (attributes present, texts ASCII, no float inside an f-string, opaque values
   supplied) and no raise_bad_mode guard fires *)
Definition meta_evalb (d : conv_desc) (x : ctx) : bool :=
  match meta_steps x (steps_of d) [] with Some _ => true | None => false end.
Definition chart_wfb (d : conv_desc) (a : cargs) (sm : meta) (k : nat) (c oracle : chart) : bool :=
  src_lists_wfb d c && computed_wfb d c oracle && meta_evalb d (mkCtx a sm c k oracle).
Fixpoint charts_wfb (d : conv_desc) (a : cargs) (sm : meta) (oracle : list chart) (k : nat) (cs : list chart) : bool :=
  match cs with
  | [] => true
  | c :: cs' => chart_wfb d a sm k c (nth k oracle empty_chart) && charts_wfb d a sm oracle (S k) cs'
  end.
Definition srcset_wfb (d : conv_desc) (a : cargs) (src : srcset) (oracle : list chart) : bool :=
  charts_wfb d a (ss_meta src) oracle 0 (ss_charts src)
  && match cd_shape d, ss_charts src with ShOne, [_] => true | ShOne, _ => false | _, _ => true end.

(* ------------------------------------------------------------------ SPECIFICATION (from the property's text) *)
Definition shift_cell (sh : Q) (c : cell) : cell := match c with CNum x => CNum (Qred (x + sh)) | other => other end.
(* how a content column is carried: as it is, the note column moved by the explicit shift argument *)
Definition carry (d : conv_desc) (a : cargs) (c : Z) (vs : list cell) : list cell :=
  if (c =? COL_COLUMN)%Z && has_shift d then map (shift_cell (a_shift a)) vs else vs.

(* hits / holds / tempo points / scroll velocities: the target list has one row per source row and, column by column
   and row by row IN THE SOURCE'S ROW ORDER, the source's values (so the tuples (offset, column, length) etc. agree as
   lists, hence as multisets) *)
Definition list_preserved (d : conv_desc) (a : cargs) (src out : chart) (L : Z) (cols : list Z) : Prop :=
  exists fs fo, assocZ L (c_lists src) = Some fs /\ assocZ L (c_lists out) = Some fo
    /\ nrows fo = nrows fs
    /\ forall c, In c cols -> exists vs, col_vals fs c = Some vs /\ col_vals fo c = Some (carry d a c vs).
(* the result has exactly the target chart class's lists (same names, same order), each with exactly that class's
   declared columns *)
Definition lists_declared (d : conv_desc) (out : chart) : Prop :=
  map fst (c_lists out) = map fst (cd_tgt_lists d)
  /\ forall L f, assocZ L (c_lists out) = Some f ->
       exists decl dfl, assocZ L (cd_tgt_lists d) = Some (decl, dfl) /\ fcols f = decl.
(* no missing value in any column the target class declares with a default other than NaN *)
Definition declared_default (d : conv_desc) (L c : Z) : option rcell :=
  match assocZ L (cd_tgt_lists d) with
  | Some (decl, dfl) => match col_index c decl with Some i => nth_error dfl i | None => None end
  | None => None
  end.
Definition nothing_missing (d : conv_desc) (out : chart) : Prop :=
  forall L f c r, assocZ L (c_lists out) = Some f -> declared_default d L c = Some r -> r <> RNaN ->
    exists vs, col_vals f c = Some vs /\ forallb not_nan vs = true.
(* every metadata assignment of the converter took effect with the value of its expression *)
Definition meta_as_mapped (d : conv_desc) (x : ctx) (out : chart) : Prop :=
  forall b f e, In (SMeta b f e) (steps_of d) ->
    exists v, meta_value x b f e = Some v /\ assocM (b, f) (c_meta out) = Some v.
(* the text of a metadata value (bytes and text by code points, integers in decimal) *)
Definition mtext (v : mval) : list Z :=
  match v with MText t | MBytes t => t | MInt z => show_int z | _ => [] end.
Definition infix (s t : list Z) : Prop := exists p q, t = p ++ s ++ q.
(* title / artist / creator / difficulty name: the target attribute holds (re-encoded, possibly inside a longer text
   such as "Level 12") the source attribute's text *)
Definition role_carried (d : conv_desc) (x : ctx) (out : chart) (r : role) : Prop :=
  match src_role (cd_src_game d) r, tgt_role (cd_tgt_game d) r with
  | Some se, Some k => exists sv v, eval x se = Some sv /\ assocM k (c_meta out) = Some v /\ infix (mtext sv) (mtext v)
  | _, _ => True
  end.

Definition chart_preserved (d : conv_desc) (a : cargs) (sm : meta) (k : nat) (src oracle out : chart) : Prop :=
  (forall L cols, In (L, cols) (role_lists d) -> list_preserved d a src out L cols)
  /\ lists_declared d out
  /\ nothing_missing d out
  /\ meta_as_mapped d (mkCtx a sm src k oracle) out
  /\ (forall r, role_carried d (mkCtx a sm src k oracle) out r).

(* two source charts that differ only in row labels *)
Definition same_rows (c c' : chart) : Prop :=
  c_meta c = c_meta c'
  /\ Forall2 (fun nf nf' => fst nf = fst nf' /\ fcols (snd nf) = fcols (snd nf') /\ abs_rows (snd nf) = abs_rows (snd nf'))
             (c_lists c) (c_lists c').

(* ------------------------------------------------------------------ comparison with an implementation output *)
Definition mval_eqb (a b : mval) : bool :=
  match a, b with
  | MText x, MText y | MBytes x, MBytes y | MInts x, MInts y => zlist_eqb x y
  | MInt x, MInt y | MOther x, MOther y => (x =? y)%Z
  | MFloat x, MFloat y => Qeq_bool x y
  | MInt x, MFloat y | MFloat y, MInt x => Qeq_bool (inject_Z x) y        (* numbers by value (numpy / Python int vs float) *)
  | MBool x, MBool y => Bool.eqb x y
  | MTexts x, MTexts y => (fix go x y := match x, y with
                                         | [], [] => true
                                         | s :: x', t :: y' => zlist_eqb s t && go x' y'
                                         | _, _ => false end) x y
  | MNone, MNone | MNaN, MNaN => true
  | _, _ => false
  end.
