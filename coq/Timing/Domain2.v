(* C10, second half: boolean DOMAINS and specification functions for the ms -> position -> ms round trip
   (TimingMap.snaps), cumulative beats (TimingMap.beats) and tempo changes handed over in any order.
   Definitions only; shared by Proofs/TimingProofs2.v, Props/C10.v and the correspondence runner Corr/RunC10.v
   (which evaluates these domains on every generated case). *)
From Coq Require Import ZArith QArith Qround Qabs List Bool.
From RV Require Import Base.PyNum Timing.Snapper Timing.Snap Timing.TimingMap Timing.Integrate Timing.Domain.
Import ListNotations.
Open Scope Q_scope.

(* SPEC: the tempo change active at time o (the last change whose time is <= o) together with the time at which it
   starts; change times are the piecewise-linear integration of beat length over the script (Integrate.change_times) *)
Definition active_at_time (init : Q) (l : list bcs) (o : Q) : Q * bcs :=
  match combine (change_times init l) l with
  | [] => (0, mkBcs 1 1 (mkSnap 0 0 1))
  | c :: rest => active_by_time c rest o
  end.

(* SPEC: cumulative beats at time o = the integral of bpm/60000 over [init, o] (tempo piecewise constant) *)
Fixpoint beats_at_go (acc : Q) (cur : Q * bcs) (rest : list (Q * bcs)) (o : Q) : Q :=
  match rest with
  | nxt :: rest' =>
      if Qle_bool (fst nxt) o
      then beats_at_go (acc + (fst nxt - fst cur) * (bs_bpm (snd cur) / MIN_TO_MSEC)) nxt rest' o
      else acc + (o - fst cur) * (bs_bpm (snd cur) / MIN_TO_MSEC)
  | [] => acc + (o - fst cur) * (bs_bpm (snd cur) / MIN_TO_MSEC)
  end.
Definition beats_at (init : Q) (l : list bcs) (o : Q) : Q :=
  match combine (change_times init l) l with
  | [] => 0
  | c :: rest => beats_at_go 0 c rest o
  end.

(* cumulative beat of a position under its own metronome *)
Definition abs_beat (s : snap) : Q := inject_Z (s_m s) * s_met s + s_b s.

Definition same_met (l : list bcs) : bool :=
  match l with [] => false | c :: rest => forallb (fun x => Qeq_bool (bs_met x) (bs_met c)) rest end.

Definition active_met (l : list bcs) (s : snap) : Q :=
  match l with [] => 0 | c :: rest => bs_met (snd (active_go 0 c rest s)) end.

Section Domain2.
  Variable tbl : list Q.

  (* a time lies on the snap grid relative to the change active at that time *)
  Definition time_on_gridb (init : Q) (l : list bcs) (o : Q) : bool :=
    let tc := active_at_time init l o in on_gridb tbl ((o - fst tc) / beat_len (bs_bpm (snd tc))).

  (* DOMAIN of the ms -> position -> ms theorems: a script in the on-grid domain of C10_offsets_on_grid and any
     list of millisecond queries at or after the first change (any order, duplicates) *)
  Definition dom_snapsb (init : Q) (l : list bcs) (os : list Q) : bool :=
    domainb tbl l [] && forallb (Qle_bool init) os.

  (* DOMAIN of the cumulative-beat theorems: additionally one metronome shared by all changes *)
  Definition dom_beatsb (init : Q) (l : list bcs) (os : list Q) : bool :=
    dom_snapsb init l os && same_met l.

  (* a query position normalised under the metronome of the change active at it ... *)
  Definition wf_query (l : list bcs) (s : snap) : bool :=
    (0 <=? s_m s)%Z && Qle_bool 0 (s_b s) && Qlt_bool (s_b s) (active_met l s) && Qeq_bool (s_met s) (active_met l s).
  (* ... and on the snap grid relative to that change *)
  Definition query_on_grid (l : list bcs) (s : snap) : bool :=
    match l with [] => false | c :: rest =>
      let a := snd (active_go 0 c rest s) in on_gridb tbl (seg_beats (bs_met a) (bs_snap a) s) end.

  Fixpoint times_close (tol : Q) (a b : list Q) : bool :=
    match a, b with
    | [], [] => true
    | x :: a', y :: b' => Qle_bool (Qabs (x - y)) tol && times_close tol a' b'
    | _, _ => false
    end.

  (* DOMAIN of the position -> ms -> position theorem: the millisecond queries os are the times of the on-grid
     positions qs (exactly when tol = 0, which is what the theorems assume; the runner passes the tolerance of
     the stream) *)
  Definition dom_posb (tol : Q) (init : Q) (l : list bcs) (qs : list snap) (os : list Q) : bool :=
    domainb tbl l [] && forallb (wf_query l) qs && forallb (query_on_grid l) qs
    && times_close tol (map (time_of init l) qs) os.
  (* DOMAIN of the position form of the cumulative-beat theorem: additionally one metronome *)
  Definition dom_beats_posb (tol : Q) (init : Q) (l : list bcs) (qs : list snap) (os : list Q) : bool :=
    dom_posb tol init l qs os && same_met l.
End Domain2.

(* tempo changes (millisecond form) with pairwise distinct offsets *)
Fixpoint distinct_offsb (l : list bco) : bool :=
  match l with
  | [] => true
  | x :: l' => forallb (fun y => negb (Qeq_bool (bo_off x) (bo_off y))) l' && distinct_offsb l'
  end.
