(* The boolean DOMAIN of the C10 theorems (definitions only; shared by the proofs and by the correspondence runner,
   which evaluates it on every generated case). *)
From Coq Require Import ZArith QArith Qround List Bool.
From RV Require Import Base.PyNum Timing.Snapper Timing.Snap Timing.TimingMap Timing.Integrate.
Import ListNotations.
Open Scope Q_scope.

Definition wfcb (c : bcs) : bool :=
  Qlt_bool 0 (bs_bpm c) && Qlt_bool 0 (bs_met c)
  && (Qnum (s_met (bs_snap c)) =? Qnum (bs_met c))%Z && (Qden (s_met (bs_snap c)) =? Qden (bs_met c))%positive.

Section Domain.
  Variable tbl : list Q.
  Definition is_intb (q : Q) : bool := Qeq_bool q (inject_Z (Qfloor q)).
  Definition on_gridb (x : Q) : bool := existsb (Qeq_bool (frac x)) tbl.
  Definition node_okb (p : bcs) : bool :=
    wfcb p && (0 <=? s_m (bs_snap p))%Z && Qle_bool 0 (s_b (bs_snap p)) && Qlt_bool (s_b (bs_snap p)) (bs_met p) && is_intb (bs_met p).
  Definition step_okb (p c : bcs) : bool :=
    snap_lt (bs_snap p) (bs_snap c) && node_okb c && Qlt_bool (s_b (bs_snap c)) (bs_met p)
    && on_gridb (seg_beats (bs_met p) (bs_snap p) (bs_snap c)).
  Fixpoint script_okb (p : bcs) (rest : list bcs) : bool :=
    match rest with [] => true | c :: rest' => step_okb p c && script_okb c rest' end.
  (* the whole domain of the theorem: head at measure 0 beat 0, script on the grid, queries at or after the head *)
  Definition domainb (l : list bcs) (qs : list snap) : bool :=
    match l with
    | [] => false
    | c0 :: rest =>
        node_okb c0 && (s_m (bs_snap c0) =? 0)%Z && Qeq_bool (s_b (bs_snap c0)) 0 && script_okb c0 rest
        && forallb (fun q => snap_le (bs_snap c0) q && Qle_bool 0 (s_b q)) qs
    end.

End Domain.
