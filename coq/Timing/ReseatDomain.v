(* C11: domain guards and the declarative (Prop) specification of reseating.  Definitions only.
   Everything here is stated on the INPUT list and the integration semantics of Integrate.v; nothing refers to
   the implementation's loop. *)
From Coq Require Import ZArith QArith Qround Qabs List Bool.
From RV Require Import Base.PyNum Timing.Snapper Timing.Snap Timing.TimingMap Timing.Integrate Timing.Reseat Timing.ReseatSpec.
Import ListNotations.
Open Scope Q_scope.

(* ------------------------------------------------------------------ guards on the gaps of the input *)
(* x lies in the "extend window" (0, thr] *)
Definition in_window (thr x : Q) : bool := Qlt_bool 0 x && Qle_bool x thr.

(* d = distance in beats from a change to the next one, met = the metronome of the change.
   measure remainder = frac (d / met), beat remainder = frac d. *)
Definition gap_mq (met d : Q) : Z := Qfloor (d / met).
Definition gap_mr (met d : Q) : Q := d / met - inject_Z (Qfloor (d / met)).
Definition gap_br (d : Q) : Q := d - inject_Z (Qfloor d).

(* no extend branch is taken for this gap *)
Definition gap_noextb (thr met d : Q) : bool :=
  negb (in_window thr (gap_mr met d)) && negb (in_window thr (gap_br d)).
(* weakest guard we can justify: the extend-by-bpm branch needs at least one whole measure,
   the extend-by-metronome branch is only right in its REPLACE sub-branch (gap shorter than a measure) *)
Definition gap_okb (thr met d : Q) : bool :=
  if in_window thr (gap_mr met d) then (1 <=? gap_mq met d)%Z
  else if in_window thr (gap_br d) then (gap_mq met d =? 0)%Z
  else true.

Fixpoint gaps_forall (P : Q -> Q -> bool) (c : bcs) (rest : list bcs) : bool :=
  match rest with
  | [] => true
  | n :: rest' => P (bs_met c) (seg_beats (bs_met c) (bs_snap c) (bs_snap n)) && gaps_forall P n rest'
  end.
Definition gaps_all (P : Q -> Q -> bool) (l : list bcs) : bool :=
  match l with [] => true | c :: rest => gaps_forall P c rest end.

Definition no_extend (thr : Q) (l : list bcs) : bool := gaps_all (gap_noextb thr) l.
Definition reseat_guard (thr : Q) (l : list bcs) : bool := gaps_all (gap_okb thr) l.

(* ------------------------------------------------------------------ declarative specification *)
(* a whole number of measures lies between change c and the next change n *)
Definition whole (c n : bcs) : Prop :=
  let g := seg_beats (bs_met c) (bs_snap c) (bs_snap n) / bs_met c in g == inject_Z (Qfloor g).

(* timeline: every change paired with its time (integration from t0) *)
Definition timeline (t0 : Q) (r : list bcs) : list (Q * bcs) := combine (change_times t0 r) r.

(* STRONG structural spec: the result timeline is the original one, in order, with every original time kept,
   the bpm kept after a whole gap (and whenever a point is inserted), and exactly the non-whole gaps
   possibly receiving ONE extra point strictly inside. *)
Inductive refines : list (Q * bcs) -> list (Q * bcs) -> Prop :=
| rf_last t c u d : t == u -> bs_bpm d == bs_bpm c -> refines [(t, c)] [(u, d)]
| rf_keep t c t' c' ts u d us :
    t == u -> (whole c c' -> bs_bpm d == bs_bpm c) ->
    refines ((t', c') :: ts) us -> refines ((t, c) :: (t', c') :: ts) ((u, d) :: us)
| rf_extra t c t' c' ts u d x e us :
    t == u -> ~ whole c c' -> bs_bpm d == bs_bpm c -> t < x -> x < t' ->
    refines ((t', c') :: ts) us -> refines ((t, c) :: (t', c') :: ts) ((u, d) :: (x, e) :: us).

(* all on measure lines, measures strictly increasing *)
Fixpoint incr_from (prev : Z) (r : list bcs) : Prop :=
  match r with
  | [] => True
  | c :: r' => (prev < s_m (bs_snap c))%Z /\ s_b (bs_snap c) == 0 /\ incr_from (s_m (bs_snap c)) r'
  end.
Definition SeatedP (r : list bcs) : Prop :=
  exists h tl, r = h :: tl /\ s_m (bs_snap h) = 0%Z /\ s_b (bs_snap h) == 0 /\ incr_from 0 tl.

Definition reseat_strong (l r : list bcs) : Prop :=
  SeatedP r /\ refines (timeline 0 l) (timeline 0 r).

(* the property statement, clause by clause (this is what the boolean oracle reseat_specb decides) *)
Definition TimesKeptP (l r : list bcs) : Prop :=
  forall t, In t (times l) -> exists u, In u (times r) /\ t == u.

Definition at_most_one_between (a b : Q) (ts : list Q) : Prop :=
  forall i j x y, nth_error ts i = Some x -> nth_error ts j = Some y ->
                  a < x -> x < b -> a < y -> y < b -> i = j.
Definition OneExtraP (l r : list bcs) : Prop :=
  l <> [] /\
  (forall k a b, nth_error (times l) k = Some a -> nth_error (times l) (S k) = Some b ->
                 at_most_one_between a b (times r)) /\
  (forall a u, nth_error (times l) 0 = Some a -> In u (times r) -> a <= u) /\
  (forall b u, nth_error (times l) (length l - 1) = Some b -> In u (times r) -> u <= b) /\
  (length r <= 2 * length l - 1)%nat.

Definition BpmKeptP (l r : list bcs) : Prop :=
  forall k c t, nth_error l k = Some c -> nth_error (times l) k = Some t ->
    (forall n, nth_error l (S k) = Some n -> whole c n) ->
    exists j d u, nth_error r j = Some d /\ nth_error (times r) j = Some u /\ u == t /\ bs_bpm d == bs_bpm c.

Definition FixpointP (l r : list bcs) : Prop :=
  seated l = true ->
  Forall2 (fun p q => fst p == fst q /\ bs_bpm (snd p) == bs_bpm (snd q)) (timeline 0 l) (timeline 0 r).

(* elapsed time between consecutive original changes is unchanged: both ends are tempo points of r, in order,
   at most two positions apart *)
Definition ElapsedP (l r : list bcs) : Prop :=
  forall k a b, nth_error (times l) k = Some a -> nth_error (times l) (S k) = Some b ->
    exists j j' u v, (j < j' <= j + 2)%nat /\ nth_error (times r) j = Some u /\ nth_error (times r) j' = Some v
                     /\ u == a /\ v == b.

Definition ReseatSpecP (l r : list bcs) : Prop :=
  SeatedP r /\ TimesKeptP l r /\ OneExtraP l r /\ BpmKeptP l r /\ FixpointP l r.

(* strictly increasing list of times *)
Fixpoint incr_offs (o0 : Q) (os : list Q) : Prop :=
  match os with [] => True | o1 :: os' => o0 < o1 /\ incr_offs o1 os' end.
Definition strictly_incr (ts : list Q) : Prop :=
  match ts with [] => True | t :: ts' => incr_offs t ts' end.

(* everything proved about a result r of reseating l *)
Definition ReseatOK (l r : list bcs) : Prop :=
  reseat_strong l r                 (* structural: seated + timeline refinement *)
  /\ reseat_specb l r = true        (* the boolean oracle accepts it *)
  /\ ReseatSpecP l r                (* the property statement, clause by clause *)
  /\ ElapsedP l r                   (* elapsed time between consecutive originals unchanged *)
  /\ strictly_incr (times r).       (* the result's times strictly increase *)

(* a tempo point of a TimingMap sits at init + (integrated time) with the bpm of the listed change *)
Definition bco_near (init : Q) (b : bco) (p : Q * bcs) : Prop :=
  bo_off b == init + fst p /\ bo_bpm b == bs_bpm (snd p).
