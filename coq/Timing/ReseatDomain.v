(* C11: domain guards and the declarative (Prop) specification of reseating.  Definitions only.
   Everything here is stated on the INPUT list and the integration semantics of Integrate.v; nothing refers to
   the implementation's loop. *)
From Coq Require Import ZArith QArith Qround Qabs List Bool.
From RV Require Import Base.PyNum Timing.Snapper Timing.Snap Timing.TimingMap Timing.Integrate Timing.Reseat Timing.ReseatSpec.
Import ListNotations.
Open Scope Q_scope.

(* ------------------------------------------------------------------ guards on the gaps of the input *)
(* x lies in the "extend window" (0, thr] *)
Definition in_window (thr x : Q) : bool := Qlt_bool 0 x && Qle_bool x thr.

(* d = distance in beats from a change to the next one, met = the metronome of the change.
   measure remainder = frac (d / met), beat remainder = frac d. *)
Definition gap_mq (met d : Q) : Z := Qfloor (d / met).
Definition gap_mr (met d : Q) : Q := d / met - inject_Z (Qfloor (d / met)).
Definition gap_br (d : Q) : Q := d - inject_Z (Qfloor d).

(* no extend branch is taken for this gap *)
Definition gap_noextb (thr met d : Q) : bool :=
  negb (in_window thr (gap_mr met d)) && negb (in_window thr (gap_br d)).
(* weakest guard we can justify: the extend-by-bpm branch needs at least one whole measure,
   the extend-by-metronome branch is only right in its REPLACE sub-branch (gap shorter than a measure) *)
Definition gap_okb (thr met d : Q) : bool :=
  if in_window thr (gap_mr met d) then (1 <=? gap_mq met d)%Z
  else if in_window thr (gap_br d) then (gap_mq met d =? 0)%Z
  else true.

Fixpoint gaps_forall (P : Q -> Q -> bool) (c : bcs) (rest : list bcs) : bool :=
  match rest with
  | [] => true
  | n :: rest' => P (bs_met c) (seg_beats (bs_met c) (bs_snap c) (bs_snap n)) && gaps_forall P n rest'
  end.
Definition gaps_all (P : Q -> Q -> bool) (l : list bcs) : bool :=
  match l with [] => true | c :: rest => gaps_forall P c rest end.

Definition no_extend (thr : Q) (l : list bcs) : bool := gaps_all (gap_noextb thr) l.
Definition reseat_guard (thr : Q) (l : list bcs) : bool := gaps_all (gap_okb thr) l.

(* ------------------------------------------------------------------ declarative specification *)
(* a whole number of measures lies between change c and the next change n *)
Definition whole (c n : bcs) : Prop :=
  let g := seg_beats (bs_met c) (bs_snap c) (bs_snap n) / bs_met c in g == inject_Z (Qfloor g).

(* timeline: every change paired with its time (integration from t0) *)
Definition timeline (t0 : Q) (r : list bcs) : list (Q * bcs) := combine (change_times t0 r) r.

(* STRONG structural spec: the result timeline is the original one, in order, with every original time kept,
   the bpm kept after a whole gap (and whenever a point is inserted), and exactly the non-whole gaps
   possibly receiving ONE extra point strictly inside. *)
Inductive refines : list (Q * bcs) -> list (Q * bcs) -> Prop :=
| rf_last t c u d : t == u -> bs_bpm d == bs_bpm c -> refines [(t, c)] [(u, d)]
| rf_keep t c t' c' ts u d us :
    t == u -> (whole c c' -> bs_bpm d == bs_bpm c) ->
    refines ((t', c') :: ts) us -> refines ((t, c) :: (t', c') :: ts) ((u, d) :: us)
| rf_extra t c t' c' ts u d x e us :
    t == u -> ~ whole c c' -> bs_bpm d == bs_bpm c -> t < x -> x < t' ->
    refines ((t', c') :: ts) us -> refines ((t, c) :: (t', c') :: ts) ((u, d) :: (x, e) :: us).

(* all on measure lines, measures strictly increasing *)
Fixpoint incr_from (prev : Z) (r : list bcs) : Prop :=
  match r with
  | [] => True
  | c :: r' => (prev < s_m (bs_snap c))%Z /\ s_b (bs_snap c) == 0 /\ incr_from (s_m (bs_snap c)) r'
  end.
Definition SeatedP (r : list bcs) : Prop :=
  exists h tl, r = h :: tl /\ s_m (bs_snap h) = 0%Z /\ s_b (bs_snap h) == 0 /\ incr_from 0 tl.

Definition reseat_strong (l r : list bcs) : Prop :=
  SeatedP r /\ refines (timeline 0 l) (timeline 0 r).

(* the property statement, clause by clause (this is what the boolean oracle reseat_specb decides) *)
Definition TimesKeptP (l r : list bcs) : Prop :=
  forall t, In t (times l) -> exists u, In u (times r) /\ t == u.

Definition at_most_one_between (a b : Q) (ts : list Q) : Prop :=
  forall i j x y, nth_error ts i = Some x -> nth_error ts j = Some y ->
                  a < x -> x < b -> a < y -> y < b -> i = j.
Definition OneExtraP (l r : list bcs) : Prop :=
  l <> [] /\
  (forall k a b, nth_error (times l) k = Some a -> nth_error (times l) (S k) = Some b ->
                 at_most_one_between a b (times r)) /\
  (forall a u, nth_error (times l) 0 = Some a -> In u (times r) -> a <= u) /\
  (forall b u, nth_error (times l) (length l - 1) = Some b -> In u (times r) -> u <= b) /\
  (length r <= 2 * length l - 1)%nat.

Definition BpmKeptP (l r : list bcs) : Prop :=
  forall k c t, nth_error l k = Some c -> nth_error (times l) k = Some t ->
    (forall n, nth_error l (S k) = Some n -> whole c n) ->
    exists j d u, nth_error r j = Some d /\ nth_error (times r) j = Some u /\ u == t /\ bs_bpm d == bs_bpm c.

Definition FixpointP (l r : list bcs) : Prop :=
  seated l = true ->
  Forall2 (fun p q => fst p == fst q /\ bs_bpm (snd p) == bs_bpm (snd q)) (timeline 0 l) (timeline 0 r).

(* elapsed time between consecutive original changes is unchanged: both ends are tempo points of r, in order,
   at most two positions apart *)
Definition ElapsedP (l r : list bcs) : Prop :=
  forall k a b, nth_error (times l) k = Some a -> nth_error (times l) (S k) = Some b ->
    exists j j' u v, (j < j' <= j + 2)%nat /\ nth_error (times r) j = Some u /\ nth_error (times r) j' = Some v
                     /\ u == a /\ v == b.

Definition ReseatSpecP (l r : list bcs) : Prop :=
  SeatedP r /\ TimesKeptP l r /\ OneExtraP l r /\ BpmKeptP l r /\ FixpointP l r.

(* strictly increasing list of times *)
Fixpoint incr_offs (o0 : Q) (os : list Q) : Prop :=
  match os with [] => True | o1 :: os' => o0 < o1 /\ incr_offs o1 os' end.
Definition strictly_incr (ts : list Q) : Prop :=
  match ts with [] => True | t :: ts' => incr_offs t ts' end.

(* everything proved about a result r of reseating l *)
Definition ReseatOK (l r : list bcs) : Prop :=
  reseat_strong l r                 (* structural: seated + timeline refinement *)
  /\ reseat_specb l r = true        (* the boolean oracle accepts it *)
  /\ ReseatSpecP l r                (* the property statement, clause by clause *)
  /\ ElapsedP l r                   (* elapsed time between consecutive originals unchanged *)
  /\ strictly_incr (times r).       (* the result's times strictly increase *)

(* a tempo point of a TimingMap sits at init + (integrated time) with the bpm of the listed change *)
Definition bco_near (init : Q) (b : bco) (p : Q * bcs) : Prop :=
  bo_off b == init + fst p /\ bo_bpm b == bs_bpm (snd p).

(* ================================================================== lists with TIES (two or more changes on one position)
   Domain wf_ties (ReseatSpec.v): as wf_unseated but positions only non-decreasing.  The guards above apply unchanged: the beat
   distance of a tie is 0, so it is in no window (a zero-length gap takes no branch of the loop).
   Timeline semantics with ties: `timeline t0 l` lists the changes in list order, each with its time; tied changes are
   consecutive entries with equal times.  The change in force at time x is the LAST entry whose time is <= x
   (`active_at`, = Integrate.active_by_time): of a tie group, the last change in list order.  `refines` needs no change: the
   gap between tied changes is whole (0 measures), so both are matched in order by rf_keep, the earlier one keeping its bpm. *)
Fixpoint mono_offs (o0 : Q) (os : list Q) : Prop :=
  match os with [] => True | o1 :: os' => o0 <= o1 /\ mono_offs o1 os' end.
Definition nondecr (ts : list Q) : Prop :=
  match ts with [] => True | t :: ts' => mono_offs t ts' end.

(* all on measure lines, measures non-decreasing *)
Fixpoint nondec_from (prev : Z) (r : list bcs) : Prop :=
  match r with
  | [] => True
  | c :: r' => (prev <= s_m (bs_snap c))%Z /\ s_b (bs_snap c) == 0 /\ nondec_from (s_m (bs_snap c)) r'
  end.
Definition SeatedWeakP (r : list bcs) : Prop :=
  exists h tl, r = h :: tl /\ s_m (bs_snap h) = 0%Z /\ s_b (bs_snap h) == 0 /\ nondec_from 0 tl.

Definition reseat_strong_ties (l r : list bcs) : Prop :=
  SeatedWeakP r /\ refines (timeline 0 l) (timeline 0 r).

(* two consecutive changes of the input are both at time u *)
Definition tie_at (ts : list Q) (u : Q) : Prop :=
  exists k a b, nth_error ts k = Some a /\ nth_error ts (S k) = Some b /\ a == u /\ b == u.

(* consecutive result points: time and measure never decrease; the measure stays iff the time stays, and that happens only
   across a tie of the input (so: measures strictly increasing except across a tie) *)
Definition MeasTiesP (l r : list bcs) : Prop :=
  forall j x y u v, nth_error r j = Some x -> nth_error r (S j) = Some y ->
    nth_error (times r) j = Some u -> nth_error (times r) (S j) = Some v ->
    u <= v /\ (s_m (bs_snap x) <= s_m (bs_snap y))%Z /\ (s_m (bs_snap x) = s_m (bs_snap y) <-> u == v) /\
    (u == v -> tie_at (times l) u).

(* a tie of the input yields two ADJACENT result points at that time, in the input's order, the earlier keeping its bpm *)
Definition TiePairP (l r : list bcs) : Prop :=
  forall k a c b c', nth_error (timeline 0 l) k = Some (a, c) -> nth_error (timeline 0 l) (S k) = Some (b, c') -> a == b ->
    exists j u d v e, nth_error (timeline 0 r) j = Some (u, d) /\ nth_error (timeline 0 r) (S j) = Some (v, e) /\
                      u == a /\ v == a /\ bs_bpm d == bs_bpm c /\ s_m (bs_snap d) = s_m (bs_snap e).

(* entry k of a timeline is the last one at its time *)
Definition last_of_group (ts : list (Q * bcs)) (k : nat) (t : Q) : Prop :=
  forall t' n, nth_error ts (S k) = Some (t', n) -> t < t'.

(* (3) which bpm is in force after a tie.  Let c be the LAST change of its tie group (any change of a strict list), at time t.
   In the input it is in force on [t, next original time).  Its image (u, d) in the result is the last result point at
   time t and is in force on [t, next result point); it carries c's bpm when a whole number of measures follows (then the
   next result point is the next original change) or when an extra point was inserted (next result point before the next
   original change) - i.e. always except when the partial measure after c is shorter than a measure and c itself is re-timed. *)
Definition ActiveLastP (l r : list bcs) : Prop :=
  forall k t c, nth_error (timeline 0 l) k = Some (t, c) -> last_of_group (timeline 0 l) k t ->
    (forall x, t <= x -> (forall t' n, nth_error (timeline 0 l) (S k) = Some (t', n) -> x < t') ->
               active_at (timeline 0 l) x = Some (t, c)) /\
    exists j u d, nth_error (timeline 0 r) j = Some (u, d) /\ u == t /\ last_of_group (timeline 0 r) j t /\
      (forall x, t <= x -> (forall v e, nth_error (timeline 0 r) (S j) = Some (v, e) -> x < v) ->
                 active_at (timeline 0 r) x = Some (u, d)) /\
      ((forall t' n, nth_error (timeline 0 l) (S k) = Some (t', n) -> whole c n) ->
         bs_bpm d == bs_bpm c /\
         forall t' n v e, nth_error (timeline 0 l) (S k) = Some (t', n) -> nth_error (timeline 0 r) (S j) = Some (v, e) -> v == t') /\
      (forall t' n v e, nth_error (timeline 0 l) (S k) = Some (t', n) -> nth_error (timeline 0 r) (S j) = Some (v, e) ->
         v < t' -> bs_bpm d == bs_bpm c).

(* (4) an already seated list, ties allowed: same length, same times, same bpms *)
Definition FixpointTiesP (l r : list bcs) : Prop :=
  seated_weak l = true ->
  length r = length l /\
  Forall2 (fun p q => fst p == fst q /\ bs_bpm (snd p) == bs_bpm (snd q)) (timeline 0 l) (timeline 0 r).

(* the property statement for lists with ties, clause by clause *)
Definition ReseatTiesP (l r : list bcs) : Prop :=
  SeatedWeakP r /\ MeasTiesP l r /\ TimesKeptP l r /\ TiePairP l r /\ OneExtraP l r /\ BpmKeptP l r /\ ElapsedP l r /\
  ActiveLastP l r /\ FixpointTiesP l r /\ nondecr (times r).

Definition ReseatTiesOK (l r : list bcs) : Prop :=
  reseat_strong_ties l r            (* structural: measure lines + timeline refinement (order, stable ties) *)
  /\ reseat_tiesb l r = true        (* the strong boolean oracle accepts it *)
  /\ reseat_specb_ties l r = true   (* and so does the weaker one *)
  /\ ReseatTiesP l r.               (* the property statement, clause by clause *)
