(* SPECIFICATION: what a tempo script means.  Independent of the implementation's Snap arithmetic:
   a position is (measure, beat); inside the segment governed by a tempo change the number of beats
   between two positions is  (measure difference) * metronome + (beat difference); time advances by
   beat length 60000/bpm per beat (piecewise-linear integration over the tempo segments). *)
From Coq Require Import ZArith QArith Qround Qabs List Bool.
From RV Require Import Base.PyNum Timing.Snapper Timing.Snap.
Import ListNotations.
Open Scope Q_scope.

Definition seg_beats (met : Q) (a b : snap) : Q :=
  inject_Z (s_m b - s_m a) * met + (s_b b - s_b a).

Fixpoint time_of_go (t0 : Q) (cur : bcs) (rest : list bcs) (s : snap) : Q :=
  match rest with
  | nxt :: rest' =>
      if snap_le (bs_snap nxt) s
      then time_of_go (t0 + beat_len (bs_bpm cur) * seg_beats (bs_met cur) (bs_snap cur) (bs_snap nxt)) nxt rest' s
      else t0 + beat_len (bs_bpm cur) * seg_beats (bs_met cur) (bs_snap cur) s
  | [] => t0 + beat_len (bs_bpm cur) * seg_beats (bs_met cur) (bs_snap cur) s
  end.

Definition time_of (init : Q) (l : list bcs) (s : snap) : Q :=
  match l with
  | [] => 0
  | c :: rest => time_of_go init c rest s
  end.

(* the tempo change active at position s, with the time at which it starts *)
Fixpoint active_go (t0 : Q) (cur : bcs) (rest : list bcs) (s : snap) : Q * bcs :=
  match rest with
  | nxt :: rest' =>
      if snap_le (bs_snap nxt) s
      then active_go (t0 + beat_len (bs_bpm cur) * seg_beats (bs_met cur) (bs_snap cur) (bs_snap nxt)) nxt rest' s
      else (t0, cur)
  | [] => (t0, cur)
  end.

(* times of the tempo changes themselves *)
Fixpoint change_times_go (t0 : Q) (cur : bcs) (rest : list bcs) : list Q :=
  match rest with
  | nxt :: rest' =>
      let t1 := t0 + beat_len (bs_bpm cur) * seg_beats (bs_met cur) (bs_snap cur) (bs_snap nxt) in
      t1 :: change_times_go t1 nxt rest'
  | [] => []
  end.
Definition change_times (init : Q) (l : list bcs) : list Q :=
  match l with [] => [] | c :: rest => init :: change_times_go init c rest end.

(* the tempo active at time o (last change whose time is <= o), given the change times *)
Fixpoint active_by_time (cur : Q * bcs) (rest : list (Q * bcs)) (o : Q) : Q * bcs :=
  match rest with
  | nxt :: rest' => if Qle_bool (fst nxt) o then active_by_time nxt rest' o else cur
  | [] => cur
  end.
