(* Model of reamber.algorithms.timing.utils.Snapper.Snapper.snap over an arbitrary table.
   The table (self.val as exact num/den) is regenerated from the live Snapper into Generated/Tables.v. *)
From Coq Require Import ZArith QArith Qround Qabs List Bool Lia Lqa.
From RV Require Import Base.PyNum.
Import ListNotations.
Open Scope Q_scope.

(* bisect_left followed by the left/right comparison.  [prev] is val[ix-1] while scanning. *)
Fixpoint bisect_pick (prev : Q) (l : list Q) (rem : Q) : Q :=
  match l with
  | [] => prev
  | v :: l' =>
      if Qle_bool rem v
      then (if Qlt_bool (rem - prev) (v - rem) then prev else v)
      else bisect_pick v l' rem
  end.

Definition snap_frac (tbl : list Q) (rem : Q) : Q :=
  match tbl with
  | [] => 0
  | v0 :: l => if Qle_bool rem v0 then v0 else bisect_pick v0 l rem
  end.

(* Snapper.snap: quo, rem = beat // 1, beat % 1 ; table lookup ; + quo *)
Definition snapper_snap (tbl : list Q) (x : Q) : Q :=
  Qred (snap_frac tbl (frac x) + inject_Z (Qfloor x)).

(* ---- structural obligations on the table (checked by vm_compute on the regenerated table) ---- *)
Fixpoint sorted_gap (g : Q) (prev : Q) (l : list Q) : bool :=
  match l with
  | [] => true
  | v :: l' => Qlt_bool prev v && Qle_bool (v - prev) g && sorted_gap g v l'
  end.
Definition table_ok (g : Q) (tbl : list Q) : bool :=
  match tbl with
  | [] => false
  | v0 :: l => Qeq_bool v0 0 && sorted_gap g v0 l && Qeq_bool (last tbl 0) 1
  end.
