(* Model of reamber.algorithms.timing.utils.reseat_bpm_changes_snap and from_bpm_changes_snap(reseat=True).
   Definitions only.  None = an exception (ValueError from Snap, ZeroDivisionError) or fuel exhausted
   (fuel exhaustion is separated: see reseat_loop's result type). *)
From Coq Require Import ZArith QArith Qround Qabs List Bool.
From RV Require Import Base.PyNum Timing.Snapper Timing.Snap Timing.TimingMap.
Import ListNotations.
Open Scope Q_scope.

Inductive rres (A : Type) := ROk (a : A) | RExc | RFuel.
Arguments ROk {A}. Arguments RExc {A}. Arguments RFuel {A}.

Fixpoint replace_at {A} (i : nat) (x : A) (l : list A) : list A :=
  match l, i with
  | [], _ => []
  | _ :: l', O => x :: l'
  | y :: l', S i' => y :: replace_at i' x l'
  end.
Fixpoint insert_at {A} (i : nat) (x : A) (l : list A) : list A :=
  match i, l with
  | O, _ => x :: l
  | S i', y :: l' => y :: insert_at i' x l'
  | S _, [] => [x]
  end.

(* offsets relative to the first change (offset = 0) *)
Fixpoint rel_offsets_go (off : Q) (parent : bcs) (rest : list bcs) : option (list Q) :=
  match rest with
  | [] => Some []
  | child :: rest' =>
      match snap_sub (bs_snap child) (bs_snap parent) with
      | None => None
      | Some d =>
          let off' := Qred (off + snap_offset d (bs_bpm parent) (bs_met parent)) in
          match rel_offsets_go off' child rest' with
          | None => None
          | Some r => Some (off' :: r)
          end
      end
  end.

Definition set_snap (c : bcs) (m : Z) : bcs :=
  mkBcs (bs_bpm c) (bs_met c) (mkSnap m 0 (s_met (bs_snap c))).

Definition THRESHOLD : Q := 1 # 1000.

Fixpoint reseat_loop (fuel : nat) (thr : Q) (i : nat) (measure : Z) (l : list bcs) (offs : list Q)
  : rres (list bcs) :=
  match fuel with
  | O => RFuel
  | S fuel' =>
    if Nat.eqb (S i) (length l) then ROk l
    else
      match nth_error l i, nth_error l (S i), nth_error offs i, nth_error offs (S i) with
      | Some b0, Some b1, Some o0, Some o1 =>
        let bl := beat_len (bs_bpm b0) in
        let ml := measure_len (bs_bpm b0) (bs_met b0) in
        let od := o1 - o0 in
        let md := od / ml in
        let bd := od / bl in
        let bq := Qfloor bd in
        let br := Qred (bd - inject_Z bq) in
        let mq := Qfloor md in
        let mr := Qred (md - inject_Z mq) in
        let measure := (measure + mq)%Z in
        (* returns (l, offs, measure) after the branch *)
        let step :=
          if Qlt_bool 0 mr && Qle_bool mr thr then
            match snap_norm (measure - 1) 0 (bs_met b0) with
            | None => None
            | Some s =>
              let c := mkBcs (Qred (bs_bpm b0 / (mr + 1))) (bs_met b0) s in
              let off := Qred (inject_Z (mq - 1) * ml + o0) in
              if (mq =? 1)%Z then Some (replace_at i c l, replace_at i off offs, measure)
              else Some (insert_at (S i) c l, insert_at (S i) off offs, (measure - 1)%Z)
            end
          else if Qlt_bool 0 br && Qle_bool br thr then
            let met := qmod (inject_Z bq) (bs_met b0) in
            if Qeq_bool met 0 then None        (* ZeroDivisionError *)
            else
              match snap_norm measure 0 met with
              | None => None
              | Some s =>
                let c := mkBcs (Qred (bs_bpm b0 / ((br + met) / met))) (Qred met) (mkSnap (s_m s) (s_b s) (Qred met)) in
                let off := Qred (o1 - met * bl) in
                if (mq =? 0)%Z then Some (replace_at i c l, replace_at i off offs, (measure + 1)%Z)
                else Some (insert_at (S i) c l, insert_at (S i) off offs, measure)
              end
          else if Qlt_bool thr mr then
            match snap_norm measure 0 (bs_met b0) with
            | None => None
            | Some s =>
              let c := mkBcs (Qred (bs_bpm b0 / mr)) (bs_met b0) s in
              let off := Qred (inject_Z mq * ml + o0) in
              if (mq =? 0)%Z then Some (replace_at i c l, replace_at i off offs, (measure + 1)%Z)
              else Some (insert_at (S i) c l, insert_at (S i) off offs, measure)
            end
          else Some (l, offs, measure) in
        match step with
        | None => RExc
        | Some (l', offs', measure') =>
            match nth_error l' (S i) with
            | None => RExc
            | Some nx => reseat_loop fuel' thr (S i) measure' (replace_at (S i) (set_snap nx measure') l') offs'
            end
        end
      | _, _, _, _ => RExc
      end
  end.

Definition reseat_with (thr : Q) (l : list bcs) : rres (list bcs) :=
  match sort_by bcs_lt l with
  | [] => RExc                                  (* len(bcs_s) - 1 = -1 : the loop would index out of range *)
  | p :: rest =>
      match rel_offsets_go 0 p rest with
      | None => RExc
      | Some offs => reseat_loop (2 * length l + 2) thr 0 0 (p :: rest) (0 :: offs)
      end
  end.
Definition reseat (l : list bcs) : rres (list bcs) := reseat_with THRESHOLD l.

(* from_bpm_changes_snap(initial_offset, bcs_s, reseat=True) *)
Definition from_bcs_reseat (init : Q) (l : list bcs) : option (list bco) :=
  match sort_by bcs_lt l with
  | [] => None
  | p :: _ =>
      if negb ((s_m (bs_snap p) =? 0)%Z && Qeq_bool (s_b (bs_snap p)) 0) then None
      else if existsb (fun c => negb (Qeq_bool (s_b (bs_snap c)) 0)) l
      then match reseat l with
           | ROk r => from_bcs init r
           | _ => None
           end
      else from_bcs init l
  end.

(* TimingMap.reseat(): from_bpm_changes_snap(bco[0].offset, bpm_changes_snap(), reseat=True) *)
Definition tm_reseat (tbl : list Q) (bcos : list bco) : option (list bco) :=
  let bcos := sort_by bco_lt bcos in
  match bcos, bco_to_bcs tbl bcos with
  | b0 :: _, Some l => from_bcs_reseat (bo_off b0) l
  | _, _ => None
  end.
