(* SPECIFICATION for C11 (reseating), stated with the integration semantics of Integrate.v only. *)
From Coq Require Import ZArith QArith Qround Qabs List Bool.
From RV Require Import Base.PyNum Timing.Snapper Timing.Snap Timing.Integrate.
Import ListNotations.
Open Scope Q_scope.

Definition mem_q (t : Q) (ts : list Q) : bool := existsb (Qeq_bool t) ts.

Fixpoint measures_increasing (prev : Z) (l : list bcs) : bool :=
  match l with
  | [] => true
  | c :: l' => (prev <? s_m (bs_snap c))%Z && measures_increasing (s_m (bs_snap c)) l'
  end.
(* every tempo point on a measure line, measures strictly increasing from 0 *)
Definition seated (r : list bcs) : bool :=
  forallb (fun c => Qeq_bool (s_b (bs_snap c)) 0) r &&
  match r with
  | [] => false
  | c :: r' => (s_m (bs_snap c) =? 0)%Z && measures_increasing 0 r'
  end.

Definition times (l : list bcs) : list Q := change_times 0 l.

(* the millisecond position of every original change is still a tempo point *)
Definition times_kept (l r : list bcs) : bool := forallb (fun t => mem_q t (times r)) (times l).

(* at most one extra point per original interval, none outside *)
Fixpoint count_between (a b : Q) (ts : list Q) : nat :=
  match ts with
  | [] => O
  | t :: ts' => ((if Qlt_bool a t && Qlt_bool t b then 1 else 0) + count_between a b ts')%nat
  end.
Fixpoint one_extra_go (prev : Q) (orig : list Q) (rt : list Q) : bool :=
  match orig with
  | [] => forallb (fun t => Qle_bool t prev) rt          (* nothing after the last original change *)
  | t :: orig' => (count_between prev t rt <=? 1)%nat && one_extra_go t orig' rt
  end.
Definition one_extra (l r : list bcs) : bool :=
  match times l with
  | [] => false
  | t0 :: orig => forallb (fun t => Qle_bool t0 t) (times r) && one_extra_go t0 orig (times r)
  end
  && (length r <=? 2 * length l - 1)%nat.

(* the bpm active from an original change is unchanged when a whole number of measures follows *)
Definition bpm_at (r : list bcs) (t : Q) : option Q :=
  match find (fun p => Qeq_bool (fst p) t) (combine (times r) r) with
  | Some p => Some (bs_bpm (snd p))
  | None => None
  end.
Fixpoint bpm_kept_go (lt : list (Q * bcs)) (r : list bcs) : bool :=
  match lt with
  | [] => true
  | (t, c) :: lt' =>
      let whole :=
        match lt' with
        | [] => true
        | (_, n) :: _ =>
            let g := seg_beats (bs_met c) (bs_snap c) (bs_snap n) / bs_met c in
            Qeq_bool g (inject_Z (Qfloor g))
        end in
      (negb whole || match bpm_at r t with Some b => Qeq_bool b (bs_bpm c) | None => false end)
      && bpm_kept_go lt' r
  end.
Definition bpm_kept (l r : list bcs) : bool := bpm_kept_go (combine (times l) l) r.

Definition bcs_eqb (x y : bcs) : bool :=
  Qeq_bool (bs_bpm x) (bs_bpm y) && Qeq_bool (bs_met x) (bs_met y)
  && snap_eq (bs_snap x) (bs_snap y) && Qeq_bool (s_met (bs_snap x)) (s_met (bs_snap y)).
Fixpoint bcs_list_eqb (a b : list bcs) : bool :=
  match a, b with
  | [], [] => true
  | x :: a', y :: b' => bcs_eqb x y && bcs_list_eqb a' b'
  | _, _ => false
  end.
(* reseating a seated list leaves the timeline unchanged: same (time, bpm) steps *)
Fixpoint timeline_eqb (a b : list (Q * bcs)) : bool :=
  match a, b with
  | [], [] => true
  | (t, x) :: a', (u, y) :: b' => Qeq_bool t u && Qeq_bool (bs_bpm x) (bs_bpm y) && timeline_eqb a' b'
  | _, _ => false
  end.
Definition fixpoint_ok (l r : list bcs) : bool :=
  negb (seated l) || timeline_eqb (combine (times l) l) (combine (times r) r).

Definition reseat_specb (l r : list bcs) : bool :=
  seated r && times_kept l r && one_extra l r && bpm_kept l r && fixpoint_ok l r.

(* domain: first change at measure 0 beat 0, strictly increasing normalised positions,
   positive bpm, one shared integer metronome 1..8 *)
Fixpoint wf_unseated_go (met : Q) (prev : snap) (l : list bcs) : bool :=
  match l with
  | [] => true
  | c :: l' =>
      snap_lt prev (bs_snap c) && Qlt_bool 0 (bs_bpm c) && Qeq_bool (bs_met c) met
      && Qeq_bool (s_met (bs_snap c)) met
      && Qle_bool 0 (s_b (bs_snap c)) && Qlt_bool (s_b (bs_snap c)) met
      && wf_unseated_go met (bs_snap c) l'
  end.
Definition wf_unseated (l : list bcs) : bool :=
  match l with
  | [] => false
  | c :: l' =>
      (s_m (bs_snap c) =? 0)%Z && Qeq_bool (s_b (bs_snap c)) 0 && Qlt_bool 0 (bs_bpm c)
      && Qeq_bool (bs_met c) (inject_Z (Qfloor (bs_met c))) && Qle_bool 1 (bs_met c) && Qle_bool (bs_met c) 8
      && Qeq_bool (s_met (bs_snap c)) (bs_met c)
      && wf_unseated_go (bs_met c) (bs_snap c) l'
  end.

(* ---- lists with two or more changes on ONE position (ties): domain wf_ties (non-strict positions).  reseat_specb_ties is the
   weak oracle - measure lines, measures never decreasing, every original time still a tempo point, at most one extra point
   per interval; the strong oracle reseat_tiesb (below) adds the timeline refinement.  Theorems: Proofs/ReseatTiesProofs.v. *)
Fixpoint measures_nondecreasing (prev : Z) (l : list bcs) : bool :=
  match l with
  | [] => true
  | c :: l' => (prev <=? s_m (bs_snap c))%Z && measures_nondecreasing (s_m (bs_snap c)) l'
  end.
Definition seated_weak (r : list bcs) : bool :=
  forallb (fun c => Qeq_bool (s_b (bs_snap c)) 0) r &&
  match r with
  | [] => false
  | c :: r' => (s_m (bs_snap c) =? 0)%Z && measures_nondecreasing 0 r'
  end.
Definition reseat_specb_ties (l r : list bcs) : bool := seated_weak r && times_kept l r && one_extra l r.
Fixpoint wf_ties_go (met : Q) (prev : snap) (l : list bcs) : bool :=
  match l with
  | [] => true
  | c :: l' =>
      (snap_lt prev (bs_snap c) || snap_eq prev (bs_snap c)) && Qlt_bool 0 (bs_bpm c) && Qeq_bool (bs_met c) met
      && Qeq_bool (s_met (bs_snap c)) met
      && Qle_bool 0 (s_b (bs_snap c)) && Qlt_bool (s_b (bs_snap c)) met
      && wf_ties_go met (bs_snap c) l'
  end.
Definition wf_ties (l : list bcs) : bool :=
  match l with
  | [] => false
  | c :: l' =>
      (s_m (bs_snap c) =? 0)%Z && Qeq_bool (s_b (bs_snap c)) 0 && Qlt_bool 0 (bs_bpm c)
      && Qeq_bool (bs_met c) (inject_Z (Qfloor (bs_met c))) && Qle_bool 1 (bs_met c) && Qle_bool (bs_met c) 8
      && Qeq_bool (s_met (bs_snap c)) (bs_met c)
      && wf_ties_go (bs_met c) (bs_snap c) l'
  end.

(* ---- ties, strong oracle (decides the structural relation `refines` of ReseatDomain.v; sound AND complete for it,
   Proofs/ReseatTiesProofs.v).  A timeline is the list of (time, change) pairs in list order; two tied changes are two
   entries with the same time, and the LATER entry is the one in force from that time on (Integrate.active_by_time). *)
Definition wholeb (c n : bcs) : bool :=
  let g := seg_beats (bs_met c) (bs_snap c) (bs_snap n) / bs_met c in Qeq_bool g (inject_Z (Qfloor g)).

(* walk both timelines: every original entry is matched in order by an entry at the same time (bpm kept after a whole gap -
   a zero-length gap between tied changes is whole), and between two matched entries there is either nothing, or - only when
   the gap is not whole - one extra entry strictly inside, the bpm then being kept up to it *)
Fixpoint refinesb (ts us : list (Q * bcs)) : bool :=
  match ts with
  | [] => false
  | (t, c) :: ts' =>
      match ts' with
      | [] => match us with
              | [(u, d)] => Qeq_bool t u && Qeq_bool (bs_bpm d) (bs_bpm c)
              | _ => false
              end
      | (t', c') :: _ =>
          match us with
          | (u, d) :: (((x, e) :: us'') as us') =>
              Qeq_bool t u &&
              (if Qeq_bool x t'
               then (negb (wholeb c c') || Qeq_bool (bs_bpm d) (bs_bpm c)) && refinesb ts' us'
               else negb (wholeb c c') && Qeq_bool (bs_bpm d) (bs_bpm c) && Qlt_bool t x && Qlt_bool x t'
                    && refinesb ts' us'')
          | _ => false
          end
      end
  end.

Definition all_pos (r : list bcs) : bool := forallb (fun c => Qlt_bool 0 (bs_bpm c) && Qlt_bool 0 (bs_met c)) r.

(* the change in force at time x: the last entry (in list order) whose time is <= x *)
Definition active_at (tl : list (Q * bcs)) (x : Q) : option (Q * bcs) :=
  match tl with
  | [] => None
  | p :: rest => if Qle_bool (fst p) x then Some (active_by_time p rest x) else None
  end.

(* the oracle for lists with ties (it is also what the strict lists satisfy): measure lines with non-decreasing measures,
   every original time kept, at most one extra point per interval, positive bpm/metronome, timeline refinement *)
Definition reseat_tiesb (l r : list bcs) : bool :=
  reseat_specb_ties l r && all_pos r && refinesb (combine (times l) l) (combine (times r) r).
