(* Model of reamber.algorithms.timing.utils.snap.Snap and BpmChange{Offset,Snap}. Definitions only. *)
From Coq Require Import ZArith QArith Qround Qabs List Bool.
From RV Require Import Base.PyNum Timing.Snapper.
Import ListNotations.
Open Scope Q_scope.

Record snap := mkSnap { s_m : Z; s_b : Q; s_met : Q }.
Record bcs := mkBcs { bs_bpm : Q; bs_met : Q; bs_snap : snap }.   (* BpmChangeSnap *)
Record bco := mkBco { bo_bpm : Q; bo_met : Q; bo_off : Q }.       (* BpmChangeOffset *)

Definition MIN_TO_MSEC : Q := 60000.
Definition beat_len (bpm : Q) : Q := MIN_TO_MSEC / bpm.
Definition measure_len (bpm met : Q) : Q := beat_len bpm * met.

(* Snap.__post_init__ : None models the ValueError *)
Definition snap_norm (m : Z) (b met : Q) : option snap :=
  let b1 := if (m <? 0)%Z then b + inject_Z m * met else b in
  let mb := if Qlt_bool b1 0 || Qle_bool met b1
            then ((m + qfloordiv b1 met)%Z, qmod b1 met) else (m, b1) in
  if Qlt_bool (snd mb) 0 || (fst mb <? 0)%Z then None
  else Some (mkSnap (fst mb) (Qred (snd mb)) met).

Definition snap_eq (a b : snap) : bool := (s_m a =? s_m b)%Z && Qeq_bool (s_b a) (s_b b).
Definition snap_lt (a b : snap) : bool :=
  (s_m a <? s_m b)%Z || ((s_m a =? s_m b)%Z && Qlt_bool (s_b a) (s_b b)).
(* functools.total_ordering: a > b  :=  not (a < b) and a != b *)
Definition snap_gt (a b : snap) : bool := negb (snap_lt a b) && negb (snap_eq a b).
Definition snap_le (a b : snap) : bool := snap_lt a b || snap_eq a b.

Definition snap_sub (a b : snap) : option snap :=
  snap_norm (s_m a - s_m b) (s_b a - s_b b) (s_met b).

(* Snap.offset(bpm_active) *)
Definition snap_offset (s : snap) (bpm met : Q) : Q :=
  measure_len bpm met * inject_Z (s_m s) + beat_len bpm * s_b s.

(* Snap.from_offset(offset, bco, bcs, snapper) *)
Definition snap_from_offset (tbl : list Q) (offset : Q) (c : bco) (cs : snap) : option snap :=
  let del := offset - bo_off c in
  let ml := measure_len (bo_bpm c) (bo_met c) in
  let measure := qfloordiv del ml in
  let del' := del - inject_Z measure * ml in
  let beat := snapper_snap tbl (del' / beat_len (bo_bpm c)) in
  snap_norm (measure + s_m cs) (beat + s_b cs) (bo_met c).
