(* Model of TimingMap (offsets / snaps / beats), bpm_changes_offset_to_snap, from_bpm_changes_snap(reseat=False).
   Definitions only; None models a raised exception. *)
From Coq Require Import ZArith QArith Qround Qabs List Bool.
From RV Require Import Base.PyNum Timing.Snapper Timing.Snap.
Import ListNotations.
Open Scope Q_scope.

(* stable insertion sort with a strict "less than" *)
Section Sort.
  Context {A : Type} (lt : A -> A -> bool).
  Fixpoint insert_by (x : A) (l : list A) : list A :=
    match l with
    | [] => [x]
    | y :: l' => if negb (lt y x) then x :: l else y :: insert_by x l'   (* x <= y: x (earlier in the input) stays first *)
    end.
  (* inserting from the right keeps equal keys in input order *)
  Definition sort_by (l : list A) : list A := fold_right insert_by [] l.
End Sort.

Fixpoint assoc_nat {A} (i : nat) (l : list (nat * A)) : option A :=
  match l with
  | [] => None
  | (j, v) :: l' => if Nat.eqb i j then Some v else assoc_nat i l'
  end.
Fixpoint all_some {A} (l : list (option A)) : option (list A) :=
  match l with
  | [] => Some []
  | None :: _ => None
  | Some x :: l' => match all_some l' with Some r => Some (x :: r) | None => None end
  end.
(* np.array(results)[inverse permutation]: put results back at the position of their query *)
Definition unpermute {A} (n : nat) (res : list (nat * A)) : option (list A) :=
  all_some (map (fun i => assoc_nat i res) (seq 0 n)).

(* bpm_changes_offset_to_snap: bco_s sorted by offset (stable) *)
Definition bco_lt (a b : bco) : bool := Qlt_bool (bo_off a) (bo_off b).

Fixpoint bco_to_bcs_go (tbl : list Q) (parent : bco) (last_snap : snap) (rest : list bco)
  : option (list bcs) :=
  match rest with
  | [] => Some []
  | child :: rest' =>
      match snap_from_offset tbl (bo_off child) parent last_snap with
      | None => None
      | Some s =>
          let s' := mkSnap (s_m s) (s_b s) (bo_met child) in
          match bco_to_bcs_go tbl child s' rest' with
          | None => None
          | Some r => Some (mkBcs (bo_bpm child) (bo_met child) s' :: r)
          end
      end
  end.

Definition bco_to_bcs (tbl : list Q) (l : list bco) : option (list bcs) :=
  match sort_by bco_lt l with
  | [] => None
  | p :: rest =>
      match snap_norm 0 0 (bo_met p) with
      | None => None
      | Some s0 =>
          match bco_to_bcs_go tbl p s0 rest with
          | None => None
          | Some r => Some (mkBcs (bo_bpm p) (bo_met p) s0 :: r)
          end
      end
  end.

(* from_bpm_changes_snap(initial_offset, bcs_s, reseat=False) *)
Definition bcs_lt (a b : bcs) : bool := snap_lt (bs_snap a) (bs_snap b).

Fixpoint from_bcs_go (off : Q) (parent : bcs) (rest : list bcs) : option (list bco) :=
  match rest with
  | [] => Some []
  | child :: rest' =>
      match snap_sub (bs_snap child) (bs_snap parent) with
      | None => None
      | Some d =>
          let off' := Qred (off + snap_offset d (bs_bpm parent) (bs_met parent)) in
          match from_bcs_go off' child rest' with
          | None => None
          | Some r => Some (mkBco (bs_bpm child) (bs_met child) off' :: r)
          end
      end
  end.

Definition from_bcs (init : Q) (l : list bcs) : option (list bco) :=
  match sort_by bcs_lt l with
  | [] => None
  | p :: rest =>
      if negb ((s_m (bs_snap p) =? 0)%Z && Qeq_bool (s_b (bs_snap p)) 0) then None
      else match from_bcs_go init p rest with
           | None => None
           | Some r => Some (mkBco (bs_bpm p) (bs_met p) init :: r)
           end
  end.

(* ---- TimingMap.offsets ---- *)
(* the negative cursor bc_i is the remaining reversed list of (bco, bcs) pairs *)
Fixpoint skip_snap_gt (q : snap) (l : list (bco * bcs)) : option (list (bco * bcs)) :=
  match l with
  | [] => None                                    (* IndexError *)
  | (o, s) :: l' => if snap_gt (bs_snap s) q then skip_snap_gt q l' else Some l
  end.

Definition offset_at (o : bco) (s : bcs) (q : snap) : option Q :=
  match snap_sub q (bs_snap s) with
  | None => None
  | Some d => Some (Qred (bo_off o + snap_offset d (bs_bpm s) (bs_met s)))
  end.

Fixpoint sweep_offsets (cur : list (bco * bcs)) (qs_desc : list (nat * snap)) : option (list (nat * Q)) :=
  match qs_desc with
  | [] => Some []
  | (i, q) :: qs' =>
      match skip_snap_gt q cur with
      | None => None
      | Some [] => None
      | Some (((o, s) :: _) as cur') =>
          match offset_at o s q, sweep_offsets cur' qs' with
          | Some v, Some r => Some ((i, v) :: r)
          | _, _ => None
          end
      end
  end.

Definition idx_snap_lt (a b : nat * snap) : bool := snap_lt (snd a) (snd b).

Definition tm_offsets (tbl : list Q) (bcos : list bco) (qs : list snap) : option (list Q) :=
  let bcos := sort_by bco_lt bcos in   (* bpm_changes_snap() sorts self.bpm_changes_offset in place *)
  match bco_to_bcs tbl bcos with
  | None => None
  | Some bcss =>
      let sorted := sort_by idx_snap_lt (combine (seq 0 (length qs)) qs) in
      match sweep_offsets (rev (combine bcos bcss)) (rev sorted) with
      | None => None
      | Some res => unpermute (length qs) res
      end
  end.

(* ---- TimingMap.snaps ---- *)
Fixpoint skip_off_gt (q : Q) (l : list (bco * bcs)) : option (list (bco * bcs)) :=
  match l with
  | [] => None
  | (o, s) :: l' => if Qlt_bool q (bo_off o) then skip_off_gt q l' else Some l
  end.

Fixpoint sweep_snaps (tbl : list Q) (cur : list (bco * bcs)) (qs_desc : list (nat * Q)) : option (list (nat * snap)) :=
  match qs_desc with
  | [] => Some []
  | (i, q) :: qs' =>
      match skip_off_gt q cur with
      | None => None
      | Some [] => None
      | Some (((o, s) :: _) as cur') =>
          match snap_from_offset tbl q o (bs_snap s), sweep_snaps tbl cur' qs' with
          | Some v, Some r => Some ((i, v) :: r)
          | _, _ => None
          end
      end
  end.

Definition idx_q_lt (a b : nat * Q) : bool := Qlt_bool (snd a) (snd b).

Definition tm_snaps (tbl : list Q) (bcos : list bco) (os : list Q) : option (list snap) :=
  let bcos := sort_by bco_lt bcos in
  match bco_to_bcs tbl bcos with
  | None => None
  | Some bcss =>
      let sorted := sort_by idx_q_lt (combine (seq 0 (length os)) os) in
      match sweep_snaps tbl (rev (combine bcos bcss)) (rev sorted) with
      | None => None
      | Some res => unpermute (length os) res
      end
  end.

(* ---- TimingMap.beats ---- *)
Fixpoint beats_go (cur : Q) (prev : snap) (l : list (nat * snap)) : option (list (nat * Q)) :=
  match l with
  | [] => Some []
  | (i, c) :: l' =>
      match snap_sub c prev with
      | None => None
      | Some d =>
          let cur' := Qred (cur + inject_Z (s_m d) * s_met prev + s_b d) in
          match beats_go cur' c l' with
          | None => None
          | Some r => Some ((i, cur') :: r)
          end
      end
  end.

Definition tm_beats (tbl : list Q) (bcos : list bco) (os : list Q) : option (list Q) :=
  match os with
  | [] => Some []
  | _ =>
    match tm_snaps tbl bcos os with
    | None => None
    | Some ss =>
        match sort_by idx_snap_lt (combine (seq 0 (length ss)) ss) with
        | [] => Some []
        | (i0, s0) :: rest =>
            let b0 := Qred (s_b s0 + inject_Z (s_m s0) * s_met s0) in
            match beats_go b0 s0 rest with
            | None => None
            | Some r => unpermute (length ss) ((i0, b0) :: r)
            end
        end
    end
  end.
