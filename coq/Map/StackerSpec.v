(* SPECIFICATION for C12: the same assignment applied to each list separately, nothing else touched. *)
From Coq Require Import ZArith QArith Qround List Bool.
From RV Require Import Base.PyNum Frame.Frame Map.Stacker.
Import ListNotations.
Open Scope Q_scope.

(* assignment on ONE list, row j of which sits at stacked position base + j *)
Definition row_set (cols : list Z) (key : Z) (c : cell) (r : row) : row :=
  match col_index key cols with
  | Some i => set_nth i c r
  | None => r                               (* a list that lacks the property is untouched *)
  end.
Definition row_get (cols : list Z) (key : Z) (r : row) : cell :=
  match get_cell cols key r with Some c => c | None => CNaN end.

Fixpoint list_assign (cols : list Z) (key : Z) (o : aop) (rows : list row) (vs : list Q) (dflt : Q) (scalar : bool) : list row :=
  match rows with
  | [] => []
  | r :: rows' =>
      let v := if scalar then dflt else hd dflt vs in
      row_set cols key (cell_arith o (row_get cols key r) v) r :: list_assign cols key o rows' (tl vs) dflt scalar
  end.

Fixpoint row_set_cols (cols : list Z) (keys : list Z) (o : aop) (v : Q) (r : row) : row :=
  match keys with
  | [] => r
  | k :: keys' => row_set_cols cols keys' o v (row_set cols k (cell_arith o (row_get cols k r) v) r)
  end.
Fixpoint list_loc (cols : list Z) (mask : list bool) (keys : list Z) (o : aop) (v : Q) (rows : list row) : list row :=
  match rows, mask with
  | r :: rows', b :: mask' => (if b then row_set_cols cols keys o v r else r) :: list_loc cols mask' keys o v rows'
  | _, _ => rows
  end.

(* each list sees its own slice of the per-row operand / of the mask *)
Fixpoint per_list (op : sop) (ls : list ulist) : list ulist :=
  match ls with
  | [] => []
  | u :: ls' =>
      let n := length (u_rows u) in
      match op with
      | SAssign k o (OScalar v) =>
          mkUlist (u_cols u) (list_assign (u_cols u) k o (u_rows u) [] v true) :: per_list op ls'
      | SAssign k o (OVector vs) =>
          mkUlist (u_cols u) (list_assign (u_cols u) k o (u_rows u) (firstn n vs) 0 false)
          :: per_list (SAssign k o (OVector (skipn n vs))) ls'
      | SLoc m cs o v =>
          mkUlist (u_cols u) (list_loc (u_cols u) (firstn n m) cs o v (u_rows u))
          :: per_list (SLoc (skipn n m) cs o v) ls'
      end
  end.

(* boolean comparison of list values (labels and dtypes are outside C12's statement) *)
Fixpoint rows_eqb' (a b : list row) : bool :=
  match a, b with
  | [], [] => true
  | x :: a', y :: b' => row_eqb x y && rows_eqb' a' b'
  | _, _ => false
  end.
Fixpoint ulists_eqb (a b : list ulist) : bool :=
  match a, b with
  | [], [] => true
  | x :: a', y :: b' => zlist_eqb (u_cols x) (u_cols y) && rows_eqb' (u_rows x) (u_rows y) && ulists_eqb a' b'
  | _, _ => false
  end.

(* well-formed lists: no duplicate column, every row as wide as the columns *)
Fixpoint nodupb (l : list Z) : bool :=
  match l with
  | [] => true
  | x :: l' => negb (existsb (Z.eqb x) l') && nodupb l'
  end.
Definition wf_ulist (u : ulist) : bool :=
  nodupb (u_cols u) && forallb (fun r => Nat.eqb (length r) (length (u_cols u))) (u_rows u).
