(* Model of Map.rate / MapSet.rate (reamber/base/Map.py): deepcopy, then three edits through the stack:
     stack.offset /= by ; stack.bpm *= by ; stack.length /= by.       Definitions only. *)
From Coq Require Import ZArith QArith Qround List Bool.
From RV Require Import Base.PyNum Frame.Frame Map.Stacker Map.StackerSpec.
Import ListNotations.
Open Scope Q_scope.

Definition RATE_OPS (by_ : Q) : list sop :=
  [SAssign COL_OFFSET ADiv (OScalar by_); SAssign COL_BPM AMul (OScalar by_); SAssign COL_LENGTH ADiv (OScalar by_)].

(* run a sequence of edits on one stacker, writing back after each *)
Fixpoint stack_run (ls : list ulist) (st : stacker) (ops : list sop) : list ulist :=
  match ops with
  | [] => ls
  | op :: ops' => let '(st', ls') := stack_step ls st op in stack_run ls' st' ops'
  end.

(* the lists of the rated copy (the source lists are not touched: Python deep copy, see C14) *)
Definition rate_lists (by_ : Q) (ls : list ulist) : list ulist := stack_run ls (stack_init ls) (RATE_OPS by_).

(* ---- specification: every time and duration divided by r, every bpm multiplied by r, all else equal ---- *)
Definition scale_cell (by_ : Q) (col : Z) (c : cell) : cell :=
  match c with
  | CNum x =>
      if ((col =? COL_OFFSET) || (col =? COL_LENGTH))%Z then CNum (Qred (x / by_))
      else if (col =? COL_BPM)%Z then CNum (Qred (x * by_))
      else c
  | _ => c
  end.
Fixpoint scale_row (by_ : Q) (cols : list Z) (r : row) : row :=
  match cols, r with
  | c :: cols', v :: r' => scale_cell by_ c v :: scale_row by_ cols' r'
  | _, _ => r
  end.
Definition scale_ulist (by_ : Q) (u : ulist) : ulist := mkUlist (u_cols u) (map (scale_row by_ (u_cols u)) (u_rows u)).
Definition rate_spec (by_ : Q) (ls : list ulist) : list ulist := map (scale_ulist by_) ls.
