(* Model of Map.Stacker / MapSet.Stacker (reamber/base/Map.py, MapSet.py).  Definitions only.
   Rows of the stacked frame are association lists (column name -> cell): pd.concat of frames with
   different columns fills the missing ones with NaN, which is exactly "lookup of an absent key = NaN". *)
From Coq Require Import ZArith QArith Qround List Bool.
From RV Require Import Base.PyNum Frame.Frame.
Import ListNotations.
Open Scope Q_scope.

Definition arow := list (Z * cell).

Fixpoint alookup (k : Z) (r : arow) : cell :=
  match r with
  | [] => CNaN
  | (k', v) :: r' => if (k' =? k)%Z then v else alookup k r'
  end.
Fixpoint ahas (k : Z) (r : arow) : bool :=
  match r with
  | [] => false
  | (k', _) :: r' => (k' =? k)%Z || ahas k r'
  end.
Fixpoint aset (k : Z) (v : cell) (r : arow) : arow :=
  match r with
  | [] => [(k, v)]
  | (k', v') :: r' => if (k' =? k)%Z then (k, v) :: r' else (k', v') :: aset k v r'
  end.
Definition arestrict (cols : list Z) (r : arow) : row := map (fun c => alookup c r) cols.
Definition to_arow (cols : list Z) (r : row) : arow := combine cols r.

(* one underlying list: its columns and its rows (labels are rewritten by _update and are not part of C12) *)
Record ulist := mkUlist { u_cols : list Z; u_rows : list row }.

(* the stacker: _ixs are implicit in the segment lengths; each stacked row remembers nothing about its origin *)
Record stacker := mkStacker { st_lens : list nat; st_rows : list arow }.

(* Stacker.__init__: pd.concat([v.df ...]).reset_index(); the `index` column (old labels) is never written back *)
Definition stack_rows (ls : list ulist) : list arow :=
  flat_map (fun u => map (to_arow (u_cols u)) (u_rows u)) ls.
Definition stack_init (ls : list ulist) : stacker :=
  mkStacker (map (fun u => length (u_rows u)) ls) (stack_rows ls).

(* _update: obj.df = self._stacked[obj.df.columns].iloc[ix_i:ix_j] *)
Fixpoint unstack (ls : list ulist) (rows : list arow) : list ulist :=
  match ls with
  | [] => []
  | u :: ls' =>
      let n := length (u_rows u) in
      mkUlist (u_cols u) (map (arestrict (u_cols u)) (firstn n rows)) :: unstack ls' (skipn n rows)
  end.

(* arithmetic on cells as pandas does on a float column: NaN propagates; non-numeric cells are outside the domain *)
Inductive aop := AAdd | ASub | AMul | ADiv | ASet.
Definition cell_arith (o : aop) (c : cell) (v : Q) : cell :=
  match o with
  | ASet => CNum v
  | _ =>
    match c with
    | CNum x => CNum (Qred (match o with AAdd => x + v | ASub => x - v | AMul => x * v | ADiv => x / v | ASet => v end))
    | other => other
    end
  end.

(* stack.<key> op= v (whole column; operand either a scalar or one value per stacked row) *)
Inductive operand := OScalar (v : Q) | OVector (vs : list Q).
Fixpoint assign_rows (key : Z) (o : aop) (rows : list arow) (vs : list Q) (dflt : Q) (scalar : bool) : list arow :=
  match rows with
  | [] => []
  | r :: rows' =>
      let v := if scalar then dflt else hd dflt vs in
      aset key (cell_arith o (alookup key r) v) r :: assign_rows key o rows' (tl vs) dflt scalar
  end.
Definition stack_assign (key : Z) (o : aop) (opd : operand) (st : stacker) : stacker :=
  match opd with
  | OScalar v => mkStacker (st_lens st) (assign_rows key o (st_rows st) [] v true)
  | OVector vs => mkStacker (st_lens st) (assign_rows key o (st_rows st) vs 0 false)
  end.

(* stack.loc[mask, cols] op= v (scalar) *)
Fixpoint set_cols (cols : list Z) (o : aop) (v : Q) (r : arow) : arow :=
  match cols with
  | [] => r
  | k :: cols' => set_cols cols' o v (aset k (cell_arith o (alookup k r) v) r)
  end.
Fixpoint loc_rows (mask : list bool) (cols : list Z) (o : aop) (v : Q) (rows : list arow) : list arow :=
  match rows, mask with
  | r :: rows', b :: mask' => (if b then set_cols cols o v r else r) :: loc_rows mask' cols o v rows'
  | _, _ => rows
  end.
Definition stack_loc (mask : list bool) (cols : list Z) (o : aop) (v : Q) (st : stacker) : stacker :=
  mkStacker (st_lens st) (loc_rows mask cols o v (st_rows st)).

(* an edit through the stack: new stacker state and the lists after _update *)
Inductive sop :=
| SAssign (key : Z) (o : aop) (opd : operand)
| SLoc (mask : list bool) (cols : list Z) (o : aop) (v : Q).

Definition stack_apply (op : sop) (st : stacker) : stacker :=
  match op with
  | SAssign k o opd => stack_assign k o opd st
  | SLoc m cs o v => stack_loc m cs o v st
  end.
Definition stack_step (ls : list ulist) (st : stacker) (op : sop) : stacker * list ulist :=
  let st' := stack_apply op st in (st', unstack ls (st_rows st')).
