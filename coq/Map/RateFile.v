(* C13, file-level part.  Model of OsuMap.rate (reamber/osu/OsuMap.py), SMMapSet.rate (reamber/sm/SMMapSet.py) and
   MapSet.rate (reamber/base/MapSet.py), plus the specification of "the file-level time fields scale with the rate".
   Definitions only (proofs in Proofs/RateProofs.v).  Independent of the format models (the Formats directory): the runner imports it.

     OsuMap.rate(by):     osu = super(OsuMap, self.deepcopy()).rate(by)      -> Map.rate = rate_lists on the timed lists
                          osu.samples.offset /= by                           -> one column edit on the sample-event list
                          if osu.preview_time != -1: osu.preview_time /= by  -> the marker -1 ("no preview point") is kept
                                                                                (repo commit 09d92a7; before it: divided
                                                                                whatever the value = osu_rate_OLD below)
     MapSet.rate(by):     copy = self.deepcopy(); copy.maps = [m.rate(by=by) for m in copy.maps]
     SMMapSet.rate(by):   sms = MapSet.rate(by); sms.sample_start /= by; sms.sample_length /= by;
                          if sms.offset is not None: sms.offset /= by

   Every other attribute of the dataclass travels with the deep copy: [of_meta] / [sf_meta] (opaque cells).
   The receiver is never written (deep copy first; the aliasing side is C14's). *)
From Coq Require Import ZArith QArith Qround List Bool.
From RV Require Import Base.PyNum Frame.Frame Map.Stacker Map.StackerSpec Map.Rate.
Import ListNotations.
Open Scope Q_scope.

(* Python float division on exact rationals *)
Definition py_div (x by_ : Q) : Q := Qred (x / by_).

(* ------------------------------------------------------------------ records *)
(* an osu chart: the timed lists of Map.objs (hits, holds, bpms, svs), the sample-event list (columns offset,
   sample_file, volume), the preview point (ms; the format writes -1 for "no preview point"), everything else *)
Record osu_file := mkOsuFile { of_lists : list ulist; of_samples : ulist; of_preview : Q; of_meta : list cell }.

(* a StepMania mapset: its charts (each the timed lists of one SMMap), #OFFSET as the ms of beat 0 (None until a file is
   read or the attribute is set), the sample window (ms), everything else *)
Record sm_file := mkSmFile { sf_charts : list (list ulist); sf_offset : option Q; sf_sample_start : Q;
                             sf_sample_length : Q; sf_meta : list cell }.

(* ------------------------------------------------------------------ model *)
(* TimedList column edit  lst.offset /= by  : the per-list assignment of C12 (no stacker involved) *)
Definition col_div_offset (by_ : Q) (u : ulist) : ulist :=
  mkUlist (u_cols u) (list_assign (u_cols u) COL_OFFSET ADiv (u_rows u) [] by_ true).

(* osu: PreviewTime -1 is the format's marker for "no preview point" (the dataclass default); any other value is a time *)
Definition PREVIEW_UNSET : Q := -1.
(* if osu.preview_time != -1: osu.preview_time /= by     (comparison by value: -1 and -1.0 are the marker) *)
Definition osu_preview_rate (by_ p : Q) : Q := if Qeq_bool p PREVIEW_UNSET then p else py_div p by_.

Definition osu_rate (by_ : Q) (f : osu_file) : osu_file :=
  mkOsuFile (rate_lists by_ (of_lists f)) (col_div_offset by_ (of_samples f)) (osu_preview_rate by_ (of_preview f)) (of_meta f).
(* OLD model (before repo commit 09d92a7): the preview value was divided whatever it held.  Kept only so that the defect
   it had stays stated and checkable (C13_OLD_osu_preview_unset_refuted). *)
Definition osu_rate_OLD (by_ : Q) (f : osu_file) : osu_file :=
  mkOsuFile (rate_lists by_ (of_lists f)) (col_div_offset by_ (of_samples f)) (py_div (of_preview f) by_) (of_meta f).

(* MapSet.rate: every chart of the set is rated on its own (one stacker per chart) *)
Definition mapset_rate (by_ : Q) (charts : list (list ulist)) : list (list ulist) := map (rate_lists by_) charts.

Definition sm_mapset_rate (by_ : Q) (f : sm_file) : sm_file :=
  mkSmFile (mapset_rate by_ (sf_charts f))
           (match sf_offset f with Some o => Some (py_div o by_) | None => None end)
           (py_div (sf_sample_start f) by_) (py_div (sf_sample_length f) by_) (sf_meta f).

(* ------------------------------------------------------------------ specification *)
(* uniform scaling: every time-valued field divided by r, the lists scaled (rate_spec), the rest equal; the preview value is a
   time unless it is the marker -1, which is kept *)
Definition preview_scaled (by_ p : Q) : Q := if Qeq_bool p (-1) then p else Qred (p / by_).
Definition osu_file_scaled (by_ : Q) (f : osu_file) : osu_file :=
  mkOsuFile (rate_spec by_ (of_lists f)) (scale_ulist by_ (of_samples f)) (preview_scaled by_ (of_preview f)) (of_meta f).
Definition sm_file_scaled (by_ : Q) (f : sm_file) : sm_file :=
  mkSmFile (map (rate_spec by_) (sf_charts f)) (option_map (fun o => Qred (o / by_)) (sf_offset f))
           (Qred (sf_sample_start f / by_)) (Qred (sf_sample_length f / by_)) (sf_meta f).

(* What a chart SAYS about its preview point, and the reading of the property under which the marker is not a time:
   a chart without a preview point has none after the rate change, a chart with one has it at time / r *)
Definition preview_point (p : Q) : option Q := if Qeq_bool p PREVIEW_UNSET then None else Some p.
Definition opt_q_eqb (a b : option Q) : bool :=
  match a, b with None, None => true | Some x, Some y => Qeq_bool x y | _, _ => false end.
Definition preview_scaled_strict (by_ : Q) (before after : Q) : bool :=
  opt_q_eqb (preview_point after) (option_map (fun t => t / by_) (preview_point before)).

(* domains *)
Definition notin_cols (k : Z) (cols : list Z) : bool := negb (existsb (Z.eqb k) cols).
Definition wf_samples (u : ulist) : bool :=
  wf_ulist u && notin_cols COL_LENGTH (u_cols u) && notin_cols COL_BPM (u_cols u).
Definition wf_osu_file (f : osu_file) : bool := forallb wf_ulist (of_lists f) && wf_samples (of_samples f).
Definition wf_sm_file (f : sm_file) : bool := forallb (forallb wf_ulist) (sf_charts f).

(* ------------------------------------------------------------------ comparisons (by value) *)
Definition ulist_eqb (a b : ulist) : bool := ulists_eqb [a] [b].
Fixpoint cells_eqb (a b : list cell) : bool :=
  match a, b with [], [] => true | x :: a', y :: b' => cell_eqb x y && cells_eqb a' b' | _, _ => false end.
Fixpoint charts_eqb (a b : list (list ulist)) : bool :=
  match a, b with [], [] => true | x :: a', y :: b' => ulists_eqb x y && charts_eqb a' b' | _, _ => false end.
Definition osu_file_eqb (a b : osu_file) : bool :=
  ulists_eqb (of_lists a) (of_lists b) && ulist_eqb (of_samples a) (of_samples b)
  && Qeq_bool (of_preview a) (of_preview b) && cells_eqb (of_meta a) (of_meta b).
Definition sm_file_eqb (a b : sm_file) : bool :=
  charts_eqb (sf_charts a) (sf_charts b) && opt_q_eqb (sf_offset a) (sf_offset b)
  && Qeq_bool (sf_sample_start a) (sf_sample_start b) && Qeq_bool (sf_sample_length a) (sf_sample_length b)
  && cells_eqb (sf_meta a) (sf_meta b).
