(* C13, "writing the rated chart and reading it back gives the rated timeline": DEFINITIONS for the statements over the
   format models (Formats/Qua.v, Osu.v, SM.v, BMS.v) and the common timeline of Formats/Timeline.v.  Proofs in
   Proofs/RateWriteProofs.v.  Not imported by the runner.

   For each format: the rate change on the format model's own chart type (value level: what Map.rate leaves in the lists;
   numeric cells touched by  /= r  and  *= r  are floats afterwards), the relation "c' is c rated by r" that any
   representation of the rated chart satisfies (numeric cells by VALUE: pandas may hand an int column back as float after
   the stacker's concat), and the scaled timeline. *)
From Coq Require Import String.
From Coq Require Import ZArith QArith Qround Qabs List Bool Permutation.
From RV Require Import Base.PyNum Formats.Timeline.
From RV Require Map.RateFile.
From RV Require Formats.Qua Formats.QuaSpec Formats.Osu Formats.OsuSpec Formats.SM Formats.SMSpec Formats.SMWriteDom
  Formats.BMS Formats.BMSSpec Timing.Snap Timing.TimingMap.
Import ListNotations.
Open Scope Q_scope.

(* ------------------------------------------------------------------ the rated timeline *)
(* every time and duration divided by r, every bpm multiplied by r, kinds / columns / counts unchanged *)
Definition tn_scale (r : Q) (n : tnote) : tnote := mkTN (tn_hold n) (tn_col n) (tn_time n / r) (tn_len n / r).
Definition tp_scale (r : Q) (p : tpoint) : tpoint := (fst p / r, snd p * r).
Definition tl_scale (r : Q) (t : timeline) : timeline := mkTL (map (tn_scale r) (tl_notes t)) (map (tp_scale r) (tl_tempo t)).

(* written timeline vs reference timeline, element by element in writing order: same kind and column, start and end moved
   by LESS than 1 ms (the int() of the osu / Quaver writers), tempo value equal *)
Definition note_lt1 (a b : tnote) : Prop :=
  tn_hold a = tn_hold b /\ tn_col a = tn_col b /\ Qabs (tn_time a - tn_time b) < 1 /\ Qabs (tn_end a - tn_end b) < 1.
Definition tempo_lt1 (a b : tpoint) : Prop := Qabs (fst a - fst b) < 1 /\ snd a == snd b.
Definition timeline_lt1 (a b : timeline) : Prop :=
  Forall2 note_lt1 (tl_notes a) (tl_notes b) /\ Forall2 tempo_lt1 (tl_tempo a) (tl_tempo b).
(* "the same multiset up to R" between a written list and a reference list of another type (Timeline.ms_rel, heterogeneous) *)
Definition msr {A B} (R : A -> B -> Prop) (a : list A) (b : list B) : Prop :=
  exists b', Permutation b b' /\ Forall2 R a b'.

(* ================================================================== Quaver *)
Module QuaRate.
Import Qua QuaSpec.
Local Open Scope Q_scope.

Definition is_time_col (k : Z) : bool := (k =? N_offset)%Z || (k =? N_length)%Z.
Definition scale_q (r : Q) (k : Z) (q : Q) : Q :=
  if is_time_col k then q / r else if (k =? N_bpm)%Z then q * r else q.

(* Map.rate on one cell of column k: the three stacker assignments touch offset, length (divide) and bpm (multiply);
   the result of a float division / multiplication is a float cell *)
Definition rate_cell (r : Q) (k : Z) (v : ytree) : ytree :=
  if is_time_col k || (k =? N_bpm)%Z then
    match num v with Some q => YFloat (Qred (scale_q r k q)) | None => v end
  else v.
Definition rate_row (r : Q) (row : Qua.row) : Qua.row := map (fun kv => (fst kv, rate_cell r (fst kv) (snd kv))) row.
Definition rate_frame (r : Q) (f : frame) : frame := mkFrame (f_cols f) (map (rate_row r) (f_rows f)).
Definition qua_rate (r : Q) (c : chart) : chart :=
  mkChart (rate_frame r (c_hits c)) (rate_frame r (c_holds c)) (rate_frame r (c_bpms c)) (rate_frame r (c_svs c)) (c_meta c).

(* "c' is c rated by r", by value: same columns and keys; a numeric cell of c holds, in c', a numeric cell whose value is
   the scaled one (any of int / float); every other cell is the same cell; metadata equal *)
Definition cell_rated (r : Q) (k : Z) (v v' : ytree) : Prop :=
  match num v with
  | Some q => exists q', num v' = Some q' /\ q' == scale_q r k q
  | None => v' = v
  end.
Definition row_rated (r : Q) (a b : Qua.row) : Prop :=
  Forall2 (fun kv kv' => fst kv' = fst kv /\ cell_rated r (fst kv) (snd kv) (snd kv')) a b.
Definition frame_rated (r : Q) (a b : frame) : Prop := f_cols b = f_cols a /\ Forall2 (row_rated r) (f_rows a) (f_rows b).
Definition chart_rated (r : Q) (c c' : chart) : Prop :=
  frame_rated r (c_hits c) (c_hits c') /\ frame_rated r (c_holds c) (c_holds c') /\
  frame_rated r (c_bpms c) (c_bpms c') /\ frame_rated r (c_svs c) (c_svs c') /\ c_meta c' = c_meta c.

(* what the written document must denote, beyond the timeline: lanes, key sounds and scroll velocities *)
Definition sv_scaled (r : Q) (a b : Q * Q) : Prop := Qabs (fst a - fst b / r) < 1 /\ snd a == snd b.
Definition note_extra (a b : noteD) : Prop := n_lane a = n_lane b /\ texts_eqb (n_ks a) (n_ks b) = true.
End QuaRate.

(* ================================================================== osu!mania *)
Module OsuRate.
Import Osu OsuSpec.
Local Open Scope Q_scope.

Definition IX_PREVIEW : nat := 2%nat.          (* position of PreviewTime in c_meta (Osu.meta_keys) *)

(* OsuMap.rate on the typed chart of Formats/Osu.v: Map.rate on hits / holds / bpms / svs (offset, length divided, bpm
   multiplied; SV multipliers are not tempo), then samples.offset /= r and preview_time /= r unless it is the marker -1;
   everything else kept *)
Definition note_rate (r : Q) (n : note) : note :=
  mkNote (Qred (n_off n / r)) (n_col n) (Qred (n_len n / r)) (n_hs n) (n_ss n) (n_as n) (n_cs n) (n_vol n) (n_file n).
Definition bpm_rate (r : Q) (b : bpmpt) : bpmpt :=
  mkBpm (Qred (b_off b / r)) (Qred (b_bpm b * r)) (b_met b) (b_ss b) (b_ssi b) (b_vol b) (b_kiai b).
Definition sv_rate (r : Q) (s : svpt) : svpt := mkSv (Qred (s_off s / r)) (s_mul s) (s_ss s) (s_ssi s) (s_vol s) (s_kiai s).
Definition sample_rate (r : Q) (s : sample) : sample := mkSample (Qred (sm_off s / r)) (sm_file s) (sm_vol s).
Definition osu_chart_rate (r : Q) (c : chart) : chart :=
  mkChart (set_nth (c_meta c) IX_PREVIEW (MNum (RateFile.osu_preview_rate r (meta_num (c_meta c) IX_PREVIEW)))) (c_bg c)
          (map (sample_rate r) (c_samples c)) (map (bpm_rate r) (c_bpms c)) (map (sv_rate r) (c_svs c))
          (map (note_rate r) (c_hits c)) (map (note_rate r) (c_holds c)).

(* the timeline of an in-memory chart / of a denotation (Timeline.tl_of_osu) *)
Definition tl_of_chart (c : chart) : timeline :=
  mkTL (map (fun n => mkTN false (n_col n) (n_off n) 0) (c_hits c)
        ++ map (fun n => mkTN true (n_col n) (n_off n) (n_len n)) (c_holds c))
       (map (fun b => (b_off b, b_bpm b)) (c_bpms c)).

(* tempo: time exact (printed as a float), value within the write oracle's relative float-printing tolerance *)
Definition tempo_osu (a b : tpoint) : Prop := fst a == fst b /\ Qabs (snd a - snd b) <= META_TOL * (1 + Qabs (snd a)).
(* sample events: time moved by less than 1 ms from time / r, file and volume kept *)
Definition sample_scaled (r : Q) (a b : sample) : Prop :=
  Qabs (sm_off a - sm_off b / r) < 1 /\ sm_file a = sm_file b /\ sm_vol a = sm_vol b.
Definition sv_osu (r : Q) (a b : svpt) : Prop :=
  s_off a == s_off b / r /\ Qabs (s_mul a - s_mul b) <= META_TOL * (1 + Qabs (s_mul a)).
End OsuRate.

(* ================================================================== StepMania *)
Module SMRate.
Import SM SMSpec SMWriteDom.
Local Open Scope Q_scope.

(* SMMapSet.rate on the typed mapset of Formats/SM.v: every chart through Map.rate (offsets and lengths of every object list
   divided, every tempo row's offset divided and bpm multiplied), then offset, sample_start, sample_length divided *)
Definition simple_rate (r : Q) (n : Q * Z) : Q * Z := (Qred (fst n / r), snd n).
Definition long_rate (r : Q) (n : Q * Z * Q) : Q * Z * Q := (Qred (fst (fst n) / r), snd (fst n), Qred (snd n / r)).
Definition tempo_rate (r : Q) (b : Q * Q * Q) : Q * Q * Q := (Qred (fst (fst b) / r), Qred (snd (fst b) * r), snd b).
Definition sm_chart_rate (r : Q) (c : smchart) : smchart :=
  mkChart (c_type c) (c_desc c) (c_diff c) (c_meter c) (c_radar c) (map (tempo_rate r) (c_bpms c))
          (map (simple_rate r) (c_hits c)) (map (long_rate r) (c_holds c)) (map (long_rate r) (c_rolls c))
          (map (simple_rate r) (c_mines c)) (map (simple_rate r) (c_lifts c)) (map (simple_rate r) (c_fakes c))
          (map (simple_rate r) (c_keys c)).
Definition sm_set_rate (r : Q) (s : smset) : smset :=
  mkSet (s_txt s) (match s_offset s with Some o => Some (Qred (o / r)) | None => None end)
        (Qred (s_sstart s / r)) (Qred (s_slen s / r)) (s_sel s) (map (sm_chart_rate r) (s_maps s)).

(* a denoted object vs an object of the source chart: same column, time and length exactly those of the source / r *)
Definition note4_scaled (r : Q) (a b : note4) : Prop :=
  fst (fst a) = fst (fst b) /\ snd (fst a) == snd (fst b) / r /\ snd a == snd b / r.
(* the denoted chart is the source chart rated: header fields equal and, for every kind of object, the denoted objects are
   the source's up to order, each at time / r with length / r *)
Definition chart_survives (r : Q) (dc : dchart) (c : smchart) : Prop :=
  header_match 0 dc (sm_chart_rate r c) = true /\
  forall k, msr (note4_scaled r) (dnotes_of k (d_notes dc)) (chart_list c k).
(* file-level fields of the written header: beat 0 at offset / r, the sample window at start / r, length / r *)
Definition header_survives (r : Q) (s : smset) (d : dfile) : Prop :=
  match s_offset s with Some o => d_beat0 d == o / r | None => False end /\
  (exists x, field_num d "#SAMPLESTART"%string = Some x /\ x * 1000 == s_sstart s / r) /\
  (exists x, field_num d "#SAMPLELENGTH"%string = Some x /\ x * 1000 == s_slen s / r).
(* the tempo list of the written text: as many points as the first chart has tempo rows (all charts carry the same rows in
   C03's domain), and every row (offset, bpm, _) is denoted by a tempo point at offset / r ms with bpm * r *)
Definition tempo_survives (r : Q) (s : smset) (d : dfile) : Prop :=
  match s_maps s with
  | c0 :: _ => length (d_tempo d) = length (c_bpms c0) /\
               forall b, In b (c_bpms c0) -> exists tp : Q * Q * Q, In tp (d_tempo d) /\ snd tp == fst (fst b) / r /\ snd (fst tp) == snd (fst b) * r
  | [] => False
  end.
End SMRate.

(* ================================================================== BMS *)
Module BMSRate.
Import Snap BMS BMSSpec.
Local Open Scope Q_scope.

(* Map.rate on the writer's view of a BMS chart (Formats/BMS.v wchart): no file-level time fields *)
Definition hit_rate (r : Q) (h : hit) : hit := mkHit (h_col h) (Qred (h_off h / r)) (h_sample h).
Definition hold_rate (r : Q) (h : hold) : hold := mkHold (ho_col h) (Qred (ho_off h / r)) (Qred (ho_len h / r)) (ho_sample h).
Definition bco_rate (r : Q) (b : bco) : bco := mkBco (Qred (bo_bpm b * r)) (bo_met b) (Qred (bo_off b / r)).
Definition bms_chart_rate (r : Q) (c : wchart) : wchart :=
  mkW (map (hit_rate r) (w_hits c)) (map (hold_rate r) (w_holds c)) (map (bco_rate r) (w_bpms c))
      (w_samples c) (w_lnobj c) (w_title c) (w_artist c) (w_version c) (w_misc c).

(* the written file denotes the rated chart: [l] is the tempo script of the RATED chart; every hit and hold of the source
   exactly once, in its column, at a time within 1/192 beat (at the rated tempo in force) of time / r and exactly there
   when that is on the snap grid; hold ends likewise; the tempo changes at time / r with bpm * r *)
Definition survives (tbl : list Q) (dflt : BMSText.text) (r : Q) (c : wchart) (l : list bcs) (d : denotation) : Prop :=
  msr (fun h s => sh_col s = h_col h /\ time_rt tbl l (Qred (h_off h / r)) (sh_time s)
                  /\ sh_sample s = sample_of (w_samples c) (sample_id c dflt (h_sample h))) (w_hits c) (d_hits d)
  /\ msr (fun h s => sl_col s = ho_col h /\ time_rt tbl l (Qred (ho_off h / r)) (sl_time s)
                     /\ time_rt tbl l (Qred (Qred (ho_off h / r) + Qred (ho_len h / r))) (sl_time s + sl_len s)
                     /\ sl_sample s = sample_of (w_samples c) (sample_id c dflt (ho_sample h))) (w_holds c) (d_holds d)
  /\ Forall2 (fun b tb => fst tb == bo_off b / r /\ snd tb == bo_bpm b * r) (w_bpms c) (d_tempo d)
  /\ length (d_hits d) = length (w_hits c) /\ length (d_holds d) = length (w_holds c).
(* the same for tempo rows in ANY order: the tempo changes of the file against the rows in time order *)
Definition survives_any (tbl : list Q) (dflt : BMSText.text) (r : Q) (c : wchart) (l : list bcs) (d : denotation) : Prop :=
  msr (fun h s => sh_col s = h_col h /\ time_rt tbl l (Qred (h_off h / r)) (sh_time s)
                  /\ sh_sample s = sample_of (w_samples c) (sample_id c dflt (h_sample h))) (w_hits c) (d_hits d)
  /\ msr (fun h s => sl_col s = ho_col h /\ time_rt tbl l (Qred (ho_off h / r)) (sl_time s)
                     /\ time_rt tbl l (Qred (Qred (ho_off h / r) + Qred (ho_len h / r))) (sl_time s + sl_len s)
                     /\ sl_sample s = sample_of (w_samples c) (sample_id c dflt (ho_sample h))) (w_holds c) (d_holds d)
  /\ Forall2 (fun b tb => fst tb == bo_off b / r /\ snd tb == bo_bpm b * r) (TimingMap.sort_by TimingMap.bco_lt (w_bpms c)) (d_tempo d)
  /\ length (d_hits d) = length (w_hits c) /\ length (d_holds d) = length (w_holds c).
End BMSRate.

(* ================================================================== the format charts as lists of the stacker model *)
(* Embeddings of the typed charts into the list representation of Map/Rate.v / Map/RateFile.v (the one the runner compares
   with the implementation): one ulist per timed list, columns offset = 0, column = 1, length = 2, bpm = 3, metronome = 4,
   multiplier = 5, every other field under an id >= 1000.  Proofs/RateWriteProofs.v shows that the format-level rate
   functions above commute with these embeddings: embed (rate_F r c) = osu_rate / sm_mapset_rate / rate_lists r (embed c). *)
From RV Require Frame.Frame Map.Stacker Map.StackerSpec Map.Rate Map.RateFile.
Module Embed.
Import Frame Stacker StackerSpec Rate RateFile.
Local Open Scope Q_scope.
Definition zc (z : Z) : cell := CNum (inject_Z z).

(* ---- osu ---- *)
Definition osu_hit_cols : list Z := [0; 1; 1010; 1011; 1012; 1013; 1014; 1015]%Z.
Definition osu_hold_cols : list Z := [0; 1; 2; 1010; 1011; 1012; 1013; 1014; 1015]%Z.
Definition osu_bpm_cols : list Z := [0; 3; 4; 1011; 1016; 1014; 1017]%Z.
Definition osu_sv_cols : list Z := [0; 5; 1011; 1016; 1014; 1017]%Z.
Definition osu_sample_cols : list Z := [0; 1018; 1014]%Z.
Definition osu_hit_row (n : Osu.note) : row :=
  [CNum (Osu.n_off n); zc (Osu.n_col n); zc (Osu.n_hs n); zc (Osu.n_ss n); zc (Osu.n_as n); zc (Osu.n_cs n);
   zc (Osu.n_vol n); CList (Osu.n_file n)].
Definition osu_hold_row (n : Osu.note) : row :=
  [CNum (Osu.n_off n); zc (Osu.n_col n); CNum (Osu.n_len n); zc (Osu.n_hs n); zc (Osu.n_ss n); zc (Osu.n_as n);
   zc (Osu.n_cs n); zc (Osu.n_vol n); CList (Osu.n_file n)].
Definition osu_bpm_row (b : Osu.bpmpt) : row :=
  [CNum (Osu.b_off b); CNum (Osu.b_bpm b); zc (Osu.b_met b); zc (Osu.b_ss b); zc (Osu.b_ssi b); zc (Osu.b_vol b);
   CBool (Osu.b_kiai b)].
Definition osu_sv_row (b : Osu.svpt) : row :=
  [CNum (Osu.s_off b); CNum (Osu.s_mul b); zc (Osu.s_ss b); zc (Osu.s_ssi b); zc (Osu.s_vol b); CBool (Osu.s_kiai b)].
Definition osu_sample_row (x : Osu.sample) : row := [CNum (Osu.sm_off x); CList (Osu.sm_file x); zc (Osu.sm_vol x)].
Definition mval_cell (m : Osu.mval) : cell :=
  match m with
  | Osu.MStr t => CList t | Osu.MNum q => CNum q | Osu.MBool b => CBool b
  | Osu.MTags l => CList (concat (map (fun t => t ++ [0%Z]) l))
  end.
(* every attribute but PreviewTime (position 2) *)
Definition meta_rest (m : list Osu.mval) : list cell := map mval_cell (firstn 2 m ++ skipn 3 m).
Definition osu_file_of (c : Osu.chart) : osu_file :=
  mkOsuFile [mkUlist osu_hit_cols (map osu_hit_row (Osu.c_hits c)); mkUlist osu_hold_cols (map osu_hold_row (Osu.c_holds c));
             mkUlist osu_bpm_cols (map osu_bpm_row (Osu.c_bpms c)); mkUlist osu_sv_cols (map osu_sv_row (Osu.c_svs c))]
            (mkUlist osu_sample_cols (map osu_sample_row (Osu.c_samples c)))
            (Osu.meta_num (Osu.c_meta c) OsuRate.IX_PREVIEW)
            (CList (Osu.c_bg c) :: meta_rest (Osu.c_meta c)).

(* ---- StepMania ---- *)
Definition sm_simple_row (n : Q * Z) : row := [CNum (fst n); zc (snd n)].
Definition sm_long_row (n : Q * Z * Q) : row := [CNum (fst (fst n)); zc (snd (fst n)); CNum (snd n)].
Definition sm_tempo_row (b : Q * Q * Q) : row := [CNum (fst (fst b)); CNum (snd (fst b)); CNum (snd b)].
Definition sm_chart_lists (c : SM.smchart) : list ulist :=
  [mkUlist [0; 3; 4]%Z (map sm_tempo_row (SM.c_bpms c));
   mkUlist [0; 1]%Z (map sm_simple_row (SM.c_hits c)); mkUlist [0; 1; 2]%Z (map sm_long_row (SM.c_holds c));
   mkUlist [0; 1; 2]%Z (map sm_long_row (SM.c_rolls c)); mkUlist [0; 1]%Z (map sm_simple_row (SM.c_mines c));
   mkUlist [0; 1]%Z (map sm_simple_row (SM.c_lifts c)); mkUlist [0; 1]%Z (map sm_simple_row (SM.c_fakes c));
   mkUlist [0; 1]%Z (map sm_simple_row (SM.c_keys c))].
Definition sm_file_of (s : SM.smset) : sm_file :=
  mkSmFile (map sm_chart_lists (SM.s_maps s)) (SM.s_offset s) (SM.s_sstart s) (SM.s_slen s)
           (CBool (SM.s_sel s) :: map CList (SM.s_txt s)).

(* ---- BMS ---- *)
Definition bms_lists (c : BMS.wchart) : list ulist :=
  [mkUlist [0; 1; 1020]%Z (map (fun h => [CNum (BMS.h_off h); zc (BMS.h_col h); CList (BMS.h_sample h)]) (BMS.w_hits c));
   mkUlist [0; 1; 2; 1020]%Z (map (fun h => [CNum (BMS.ho_off h); zc (BMS.ho_col h); CNum (BMS.ho_len h); CList (BMS.ho_sample h)])
                                   (BMS.w_holds c));
   mkUlist [0; 3; 4]%Z (map (fun b => [CNum (Snap.bo_off b); CNum (Snap.bo_bpm b); CNum (Snap.bo_met b)]) (BMS.w_bpms c))].

(* ---- Quaver (frames of association rows; a row carries its frame's columns in order: QuaSpec.frame_okb) ---- *)
Definition qua_col_id (k : Z) : Z :=
  if (k =? Qua.N_offset)%Z then 0%Z else if (k =? Qua.N_column)%Z then 1%Z else if (k =? Qua.N_length)%Z then 2%Z
  else if (k =? Qua.N_bpm)%Z then 3%Z else if (k =? Qua.N_metronome)%Z then 4%Z else if (k =? Qua.N_multiplier)%Z then 5%Z
  else (1000 + Z.abs k)%Z.
Definition qua_cell (v : Qua.ytree) : cell :=
  match v with
  | Qua.YInt z => CNum (inject_Z z) | Qua.YFloat q => CNum q | Qua.YNaN => CNaN | Qua.YStr t => CList t
  | Qua.YBool b => CBool b | Qua.YNull => CNone
  | Qua.YList l => CList (concat (map (fun x => match x with Qua.YStr t => t ++ [0%Z] | _ => [1%Z] end) l))
  | Qua.YMap _ => CNone
  end.
Definition qua_frame_ulist (f : Qua.frame) : ulist :=
  mkUlist (map qua_col_id (Qua.f_cols f)) (map (fun row => map (fun kv : Z * Qua.ytree => qua_cell (snd kv)) row) (Qua.f_rows f)).
Definition qua_lists (c : Qua.chart) : list ulist :=
  [qua_frame_ulist (Qua.c_hits c); qua_frame_ulist (Qua.c_holds c); qua_frame_ulist (Qua.c_bpms c); qua_frame_ulist (Qua.c_svs c)].
Definition qua_rows_keyed (f : Qua.frame) : Prop := Forall (fun row => map fst row = Qua.f_cols f) (Qua.f_rows f).
End Embed.
