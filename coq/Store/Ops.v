(* C14: the library operations as store programs (what each does to its arguments, what it returns). *)
From Coq Require Import Arith List Bool.
From RV Require Import Store.Store.
Import ListNotations.

(* operation kinds, as the harness numbers them *)
Inductive opkind :=
| KQuery      (* returns an immutable value (len, offsets, str, float): first/last offset, write(), dominant_bpm, describe *)
| KFresh      (* returns ONE new mutable object computed from all arguments:
                 filter / slice / sort / append / move / deepcopy / rate / convert / full_ln / hitsound_copy /
                 sv_normalize / scroll_speed / pattern extraction / item access *)
| KAliasFirst. (* returns an object that IS (shares state with) the first argument by design: TimedList(tl), Map.stack() *)

Definition program (k : opkind) (nargs : nat) : list instr * list var :=
  match k with
  | KQuery => ([], [])
  | KFresh => ([IAlloc nargs (seq 0 nargs)], [nargs])
  | KAliasFirst => ([IAlias nargs 0], [nargs])
  end.

Definition model_outcome (k : opkind) (nargs : nat) : list bool * list (option nat) :=
  let '(p, rs) := program k nargs in outcome nargs p rs.

(* what C14 demands of an operation that returns a new value / a documented copy *)
Definition spec_outcome (nargs : nat) (nresults : nat) : list bool * list (option nat) :=
  (repeat false nargs, repeat None nresults).
