(* C14: may-alias analysis of flat EFFECT PROGRAMS (what harness/tables/effects.py reads off the Python source, after
   the callees have been inlined by Store/EffectsInline.v) and their meaning as runs of the store model of Store.v.
   Definitions only.

   A flat program is a list of steps over numbered variables; the arguments of the operation are the variables
   0 .. nargs-1.  ABSTRACT OBJECTS: one object ARG that stands for every argument and everything reachable from an
   argument when the operation is called, and one object `site x` per FAlloc x (all objects that step creates).
   The abstract state has  pts v  = the objects variable v may BE, and  heap o = the objects that object o may refer
   to directly (any attribute / element; heap ARG = {ARG}).  Steps are inclusion constraints (x := y is directional):
       FAlloc x     site x  in  pts x
       FAlias x y   pts y   <=  pts x                                   x = y, parameter binding, return
       FLoad  x y   pts y + heap of every object of pts y  <=  pts x    x = y.attr, y[i], a view of y, an element of y
       FReach x y   pts y <= pts x  and  pts x is closed under heap     x = anything reachable from y, at any depth
       FHold  x y   for every o in pts x, o <> ARG:  pts y  <=  heap o  x.attr = y, x holds y, constructor argument
       FWrite x     (checked) ARG not in pts x                          the object x is changed in place
   The analysis is FLOW-INSENSITIVE: the constraints hold for the whole program, whatever the order and the number
   of times its steps run (branches, loops, early returns, exceptions need no treatment).
   A program is PURE when it has no FUnknown and no FWrite x with ARG in pts x; its result is OWNED when, in
   addition, ARG is not in pts rd for a variable rd with a step FReach rd ret (ARG is not reachable from the result).  The state is computed by an (unverified) iteration
   and CHECKED by `closedb`: soundness (Proofs/StoreProofs.v) needs the check only. *)
From Coq Require Import NArith PArith Arith List Bool FSets.FSetPositive FSets.FMapPositive.
From RV Require Import Store.Store.
Import ListNotations.

Inductive fstep :=
| FAlloc (x : N)
| FAlias (x y : N)
| FLoad (x y : N)
| FReach (x y : N)
| FHold (x y : N)
| FWrite (x : N)
| FUnknown.

Module PS := PositiveSet.
Module PM := PositiveMap.

Definition ARG : positive := 1%positive.
Definition vkey (x : N) : positive := N.succ_pos x.
Definition site (x : N) : positive := Pos.succ (N.succ_pos x).

Record astate := mkA { pts : PM.t PS.t; heap : PM.t PS.t }.
Definition get (m : PM.t PS.t) (k : positive) : PS.t :=
  match PM.find k m with Some s => s | None => PS.empty end.
Definition pts_of (st : astate) (x : N) : PS.t := get (pts st) (vkey x).
(* what object o refers to *)
Definition hp (st : astate) (o : positive) : PS.t :=
  if Pos.eqb o ARG then PS.singleton ARG else get (heap st) o.
(* a set of objects and everything they refer to *)
Definition reach (st : astate) (s : PS.t) : PS.t := PS.fold (fun o acc => PS.union (hp st o) acc) s s.

Definition writes (p : list fstep) : list N :=
  flat_map (fun s => match s with FWrite x => [x] | _ => [] end) p.
Definition has_unknown (p : list fstep) : bool :=
  existsb (fun s => match s with FUnknown => true | _ => false end) p.

(* ---- the iteration (not trusted, not verified: its result is checked by closedb) ---- *)
Definition addp (st : astate) (x : N) (s : PS.t) : astate :=
  mkA (PM.add (vkey x) (PS.union s (pts_of st x)) (pts st)) (heap st).
Definition addh (st : astate) (o : positive) (s : PS.t) : astate :=
  if Pos.eqb o ARG then st else mkA (pts st) (PM.add o (PS.union s (get (heap st) o)) (heap st)).
Definition transfer (st : astate) (s : fstep) : astate :=
  match s with
  | FAlloc x => addp st x (PS.singleton (site x))
  | FAlias x y => addp st x (pts_of st y)
  | FLoad x y => addp st x (reach st (pts_of st y))
  | FReach x y => addp st x (reach st (PS.union (pts_of st y) (pts_of st x)))     (* one more level per round *)
  | FHold x y => let r := pts_of st y in PS.fold (fun o st' => addh st' o r) (pts_of st x) st
  | FWrite _ => st
  | FUnknown => st
  end.
Definition measure (st : astate) : nat :=
  PM.fold (fun _ s n => PS.cardinal s + n) (pts st) (PM.fold (fun _ s n => PS.cardinal s + n) (heap st) 0).
Fixpoint iterate (rounds : nat) (p : list fstep) (st : astate) : astate :=
  match rounds with
  | O => st
  | S k =>
      let st' := fold_left transfer p st in
      if Nat.eqb (measure st') (measure st) then st' else iterate k p st'
  end.
Definition init_state (nargs : nat) : astate :=
  mkA (fold_left (fun m k => PM.add (vkey (N.of_nat k)) (PS.singleton ARG) m) (seq 0 nargs) (PM.empty _)) (PM.empty _).
Definition ROUNDS : nat := 60.
Definition solve (nargs : nat) (p : list fstep) : astate := iterate ROUNDS p (init_state nargs).

(* ---- the check ---- *)
Definition reach_in (st : astate) (s t : PS.t) : bool :=      (* s and everything it reaches is inside t *)
  PS.subset s t && PS.for_all (fun o => PS.subset (hp st o) t) s.
Definition step_ok (st : astate) (s : fstep) : bool :=
  match s with
  | FAlloc x => PS.mem (site x) (pts_of st x)
  | FAlias x y => PS.subset (pts_of st y) (pts_of st x)
  | FLoad x y => reach_in st (pts_of st y) (pts_of st x)
  | FReach x y => PS.subset (pts_of st y) (pts_of st x) && reach_in st (pts_of st x) (pts_of st x)
  | FHold x y => PS.for_all (fun o => Pos.eqb o ARG || PS.subset (pts_of st y) (get (heap st) o)) (pts_of st x)
  | FWrite _ => true
  | FUnknown => true
  end.
Definition closedb (nargs : nat) (p : list fstep) (st : astate) : bool :=
  forallb (fun k => PS.mem ARG (pts_of st (N.of_nat k))) (seq 0 nargs)
  && forallb (step_ok st) p.

Definition flat_pureb (nargs : nat) (p : list fstep) (st : astate) : bool :=
  negb (has_unknown p) && closedb nargs p st
  && forallb (fun x => negb (PS.mem ARG (pts_of st x))) (writes p).
(* rd: a variable of the program with a step FReach rd ret (added by flat_of) *)
Definition flat_ownedb (nargs : nat) (p : list fstep) (st : astate) (ret rd : N) : bool :=
  flat_pureb nargs p st && existsb (fun s => match s with FReach x y => N.eqb x rd && N.eqb y ret | _ => false end) p
  && negb (PS.mem ARG (pts_of st rd)).

(* ---- meaning: the runs of the store model a flat program stands for ----
   A step stands for store instructions on the same variables; a RUN of the program is ANY finite sequence of
   instructions each of which is an instance of one of its steps - in any order, any number of times (every path
   through branches and loops, every early exit, is such a sequence).  FHold has no instruction: the store model
   has no references between objects (an argument object stands for everything reachable from it); its constraints
   only make the analysis more careful.  FUnknown has no instruction either, which is why it is refused outright. *)
Definition nv (v : N) : nat := N.to_nat v.
Inductive conc : fstep -> instr -> Prop :=
| CAlloc x srcs : conc (FAlloc x) (IAlloc (nv x) srcs)
| CAlias x y : conc (FAlias x y) (IAlias (nv x) (nv y))
| CLoad x y : conc (FLoad x y) (IAlias (nv x) (nv y))
| CReach x y : conc (FReach x y) (IAlias (nv x) (nv y))
| CWrite x srcs : conc (FWrite x) (IWrite (nv x) srcs).
Definition run_of (p : list fstep) (t : list instr) : Prop :=
  Forall (fun i => exists s, In s p /\ conc s i) t.
