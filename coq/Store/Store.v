(* C14: a store model for "operations never modify their inputs; copies share no mutable state".
   Every argument of a library operation (a chart with everything reachable from it, or a list with its frame)
   is ONE mutable object at a location; its content is abstracted to a VERSION that is bumped by any in-place
   change of anything reachable from it (values, columns, dtypes, row labels, list pointers, metadata fields).
   An operation is a short program over three primitives:
     IAlloc d srcs : d := a fresh object computed from reads of srcs   (deepcopy, df[mask], sort_values, concat, empty(n) ...)
     IAlias d s    : d refers to the same mutable object as s            (TimedList(tl), Map.stack() ...)
     IWrite d srcs : the object d refers to is changed in place          (df[col] = ..., obj.df = ..., item assignment ...)
   Definitions only. *)
From Coq Require Import Arith List Bool.
Import ListNotations.

Definition var := nat.
Definition loc := nat.

Inductive instr :=
| IAlloc (d : var) (srcs : list var)
| IAlias (d : var) (s : var)
| IWrite (d : var) (srcs : list var).

Record store := mkStore { next : loc; versions : list (loc * nat) }.
Definition env := list (var * loc).

Fixpoint lookup {A} (k : nat) (l : list (nat * A)) : option A :=
  match l with
  | [] => None
  | (k', v) :: l' => if Nat.eqb k k' then Some v else lookup k l'
  end.
Fixpoint bump (l : loc) (vs : list (loc * nat)) : list (loc * nat) :=
  match vs with
  | [] => []
  | (l', n) :: vs' => if Nat.eqb l l' then (l', S n) :: vs' else (l', n) :: bump l vs'
  end.

Definition step (e : env) (s : store) (i : instr) : env * store :=
  match i with
  | IAlloc d _ => ((d, next s) :: e, mkStore (S (next s)) ((next s, O) :: versions s))
  | IAlias d src => match lookup src e with
                    | Some l => ((d, l) :: e, s)
                    | None => (e, s)
                    end
  | IWrite d _ => match lookup d e with
                  | Some l => (e, mkStore (next s) (bump l (versions s)))
                  | None => (e, s)
                  end
  end.
Fixpoint run (e : env) (s : store) (p : list instr) : env * store :=
  match p with
  | [] => (e, s)
  | i :: p' => let '(e', s') := step e s i in run e' s' p'
  end.

(* initial state: argument k is variable k at location k *)
Definition init_env (nargs : nat) : env := map (fun k => (k, k)) (seq 0 nargs).
Definition init_store (nargs : nat) : store := mkStore nargs (map (fun k => (k, O)) (seq 0 nargs)).

(* observable outcome of an operation: which arguments changed; for each result, which argument it shares state with *)
Definition changed_args (nargs : nat) (s : store) : list bool :=
  map (fun k => match lookup k (versions s) with Some O => false | _ => true end) (seq 0 nargs).
Definition result_alias (nargs : nat) (e : env) (r : var) : option nat :=
  match lookup r e with
  | Some l => if Nat.ltb l nargs then Some l else None
  | None => None
  end.
Definition outcome (nargs : nat) (p : list instr) (results : list var) : list bool * list (option nat) :=
  let '(e, s) := run (init_env nargs) (init_store nargs) p in
  (changed_args nargs s, map (result_alias nargs e) results).

(* ---- static purity analysis: a program writes only to objects it allocated itself ---- *)
Fixpoint owned_after (own : list var) (p : list instr) : list var :=
  match p with
  | [] => own
  | IAlloc d _ :: p' => owned_after (d :: own) p'
  | IAlias d s :: p' => owned_after (if existsb (Nat.eqb s) own then d :: own else filter (fun v => negb (Nat.eqb v d)) own) p'
  | IWrite _ _ :: p' => owned_after own p'
  end.
Fixpoint pure_from (own : list var) (p : list instr) : bool :=
  match p with
  | [] => true
  | IAlloc d _ :: p' => pure_from (d :: own) p'
  | IAlias d s :: p' => pure_from (if existsb (Nat.eqb s) own then d :: own else filter (fun v => negb (Nat.eqb v d)) own) p'
  | IWrite d _ :: p' => existsb (Nat.eqb d) own && pure_from own p'
  end.
Definition pure (p : list instr) : bool := pure_from [] p.
Definition fresh_results (p : list instr) (results : list var) : bool :=
  forallb (fun r => existsb (Nat.eqb r) (owned_after [] p)) results.
