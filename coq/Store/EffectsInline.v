(* C14: from the generated table of effect programs (Generated/Tables.v, module effects: one program per reamber
   function, read off the source by harness/tables/effects.py) to flat programs and verdicts.  Definitions only.

   `inline` replaces every ECallListed by the bodies of ALL the functions the call may denote, with the callee's
   variables renamed apart (a block of fresh numbers per activation), its parameters bound to the caller's arguments
   (FAlias parameter argument) and the caller's result variable bound to the callee's return variable.  Calls nested
   deeper than DEPTH are not followed: the call is then assumed to change, and to link, everything reachable from its
   arguments and to return anything reachable from them (`havoc`). *)
From Coq Require Import NArith Arith List Bool String FSets.FSetPositive.
From RV Require Import Generated.Tables Store.Store Store.Effects.
Import ListNotations.
Import Tables.effects.

Definition rn (base v : N) : N := (base + v)%N.

Fixpoint active (g : N) (stack : list (N * N)) : option N :=
  match stack with
  | [] => None
  | (g', b) :: st => if N.eqb g g' then Some b else active g st
  end.

(* stack: the activations being inlined, (function index, base of its block of variables) *)
Fixpoint inline (fuel : nat) (tbl : list efun) (stack : list (N * N)) (base next ret : N) (body : list estep)
  {struct fuel} : list fstep * N :=
  match fuel with
  | O => ([FUnknown], next)
  | S k =>
    (fix go (body : list estep) (next : N) {struct body} : list fstep * N :=
       match body with
       | [] => ([], next)
       | s :: rest =>
           let '(o1, n1) :=
             match s with
             | EAlloc x => ([FAlloc (rn base x)], next)
             | EAliasOf x y => ([FAlias (rn base x) (rn base y)], next)
             | ELoad x y => ([FLoad (rn base x) (rn base y)], next)
             | EReach x y => ([FReach (rn base x) (rn base y)], next)
             | EHold x y => ([FHold (rn base x) (rn base y)], next)
             | EWrite x => ([FWrite (rn base x)], next)
             | EReturn x => ([FAlias (rn base ret) (rn base x)], next)
             | EUnknown _ => ([FUnknown], next)
             | ECallListed x ts =>
                 (fix calls (ts : list (N * list (N * N))) (next : N) {struct ts} : list fstep * N :=
                    match ts with
                    | [] => ([], next)
                    | (g, binds) :: ts' =>
                        let '(o, n') :=
                          match nth_error tbl (N.to_nat g) with
                          | None => ([FUnknown], next)
                          | Some fn =>
                              match active g stack with
                              | Some b =>      (* a recursive call: the activation already being inlined stands for it *)
                                  (map (fun pa => FAlias (rn b (fst pa)) (rn base (snd pa))) binds
                                   ++ [FAlias (rn base x) (rn b (ef_ret fn))], next)
                              | None =>
                                  let b := next in
                                  let '(inner, n2) := inline k tbl ((g, b) :: stack) b (b + ef_nvars fn)%N (ef_ret fn) (ef_body fn) in
                                  (map (fun pa => FAlias (rn b (fst pa)) (rn base (snd pa))) binds
                                   ++ inner ++ [FAlias (rn base x) (rn b (ef_ret fn))], n2)
                              end
                          end in
                        let '(o', n'') := calls ts' n' in (o ++ o', n'')
                    end) ts next
             end in
           let '(o2, n2) := go rest n1 in (o1 ++ o2, n2)
       end) body next
  end.

Definition DEPTH : nat := 12.

Definition index_of (tbl : list efun) (f : efun) : N :=
  (fix go (l : list efun) (i : N) : N :=
     match l with [] => i | g :: l' => if String.eqb (ef_name g) (ef_name f) && N.eqb (ef_nvars g) (ef_nvars f) then i else go l' (i + 1)%N end) tbl 0%N.
(* the last variable, rd, is new: everything reachable from the result *)
Definition flat_of (tbl : list efun) (f : efun) : list fstep :=
  let '(p, next) := inline DEPTH tbl [(index_of tbl f, 0%N)] 0%N (ef_nvars f) (ef_ret f) (ef_body f) in
  FReach next (ef_ret f) :: p.
Definition rd_of (tbl : list efun) (f : efun) : N :=
  snd (inline DEPTH tbl [(index_of tbl f, 0%N)] 0%N (ef_nvars f) (ef_ret f) (ef_body f)).
Definition nargs_of (f : efun) : nat := N.to_nat (ef_nargs f).

Definition analyse (tbl : list efun) (f : efun) : bool * bool :=
  let p := flat_of tbl f in
  let st := solve (nargs_of f) p in
  (flat_pureb (nargs_of f) p st, flat_ownedb (nargs_of f) p st (ef_ret f) (rd_of tbl f)).

(* the two decisions, on the table generated from the tree under test *)
Definition effect_pureb (f : efun) : bool := fst (analyse c14_effects f).
Definition effect_ownedb (f : efun) : bool := snd (analyse c14_effects f).

(* operations with an obligation: the listed operations and the protocol hooks Python calls implicitly *)
Definition obliged (f : efun) : bool := ef_listed f || ef_hook f.
Definition documented_copy (f : efun) : bool := ef_copy f.

(* computed once when this file is compiled; the runner looks verdicts up by index *)
Definition effect_verdicts : list (bool * bool) := Eval vm_compute in map (analyse c14_effects) c14_effects.
Definition verdict_of (op : nat) : bool * bool := nth op effect_verdicts (false, false).
