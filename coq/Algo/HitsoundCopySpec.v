(* C18 — specification of hitsound copy, written from the property statement (multisets per time),
   not from the routine: no slots, no loops, no order of rows.

   A "sound atom" is (time, kind, payload, volume): kind 0 = one hitsound bit (payload [bit value]),
   kind 1 = a named sample (payload = the file name).  Because the time is part of the atom, a statement
   "per time t, as multisets" is simply a multiset statement about atoms. *)
From Coq Require Import ZArith List Bool Arith Lia.
From RV Require Import Algo.HitsoundCopy.
Import ListNotations.
Open Scope Z_scope.

(* ------------------------------------------------------------------ multisets as lists with counting *)
Section Multiset.
  Context {A : Type}.
  Variable eqb : A -> A -> bool.

  Fixpoint count (a : A) (l : list A) : nat :=
    match l with [] => O | x :: l' => ((if eqb a x then 1 else 0) + count a l')%nat end.

  (* l1 is a sub-multiset of l2 *)
  Definition msub (l1 l2 : list A) : Prop := forall a, (count a l1 <= count a l2)%nat.
  Definition meq (l1 l2 : list A) : Prop := forall a, count a l1 = count a l2.

  Definition msubb (l1 l2 : list A) : bool := forallb (fun a => (count a l1 <=? count a l2)%nat) l1.
  Definition meqb (l1 l2 : list A) : bool := msubb l1 l2 && msubb l2 l1.
End Multiset.

Fixpoint list_eqb (a b : list Z) : bool :=
  match a, b with
  | [], [] => true
  | x :: a', y :: b' => (x =? y) && list_eqb a' b'
  | _, _ => false
  end.

Definition opt_eqb (a b : option Z) : bool :=
  match a, b with None, None => true | Some x, Some y => x =? y | _, _ => false end.

(* ------------------------------------------------------------------ notes: (time, column, length, kind) *)
Definition ident := (Z * Z * option Z * bool)%type.        (* kind: false = hit, true = hold *)
Definition ident_eqb (a b : ident) : bool :=
  let '(t1, c1, l1, k1) := a in let '(t2, c2, l2, k2) := b in
  (t1 =? t2) && (c1 =? c2) && opt_eqb l1 l2 && Bool.eqb k1 k2.

Definition idents (m : hmap) : list ident :=
  map (fun r => (hn_off r, hn_col r, None, false)) (hm_hits m)
  ++ map (fun r => (hn_off r, hn_col r, hn_len r, true)) (hm_holds m).

Definition notes_preserved (tgt out : hmap) : Prop := meq ident_eqb (idents out) (idents tgt).

(* ------------------------------------------------------------------ sound atoms *)
Definition atom := (Z * Z * list Z * Z)%type.
Definition atom_eqb (a b : atom) : bool :=
  let '(t1, k1, p1, v1) := a in let '(t2, k2, p2, v2) := b in
  (t1 =? t2) && (k1 =? k2) && list_eqb p1 p2 && (v1 =? v2).

Definition bitvals : list Z := [1; 2; 4; 8; 16; 32; 64; 128; 256; 512; 1024; 2048; 4096; 8192; 16384; 32768].
Definition copied_bits : list Z := [2; 4; 8].                (* clap, finish, whistle *)

Definition bit_atoms (bits : list Z) (r : hnote) : list atom :=
  map (fun b => (hn_off r, 0, [b], hn_vol r)) (filter (fun b => Z.land (hn_hs r) b =? b) bits).
Definition file_atoms (r : hnote) : list atom :=
  if name_empty (hn_file r) then [] else [(hn_off r, 1, hn_file r, hn_vol r)].

Definition all_notes (m : hmap) : list hnote := hm_hits m ++ hm_holds m.

(* everything a chart's notes sound *)
Definition note_atoms (m : hmap) : list atom :=
  flat_map (fun r => bit_atoms bitvals r ++ file_atoms r) (all_notes m).
(* what a copy is expected to carry over: claps, finishes, whistles and named samples *)
Definition copy_atoms (m : hmap) : list atom :=
  flat_map (fun r => bit_atoms copied_bits r ++ file_atoms r) (all_notes m).
Definition named_atoms (m : hmap) : list atom := flat_map file_atoms (all_notes m).
Definition sample_atoms (m : hmap) : list atom :=
  flat_map (fun s => if name_empty (hs_file s) then [] else [(hs_off s, 1, hs_file s, hs_vol s)]) (hm_samples m).

Definition hs_in_range (r : hnote) : bool := (0 <=? hn_hs r) && (hn_hs r <? 65536).

(* every sound of the result (on a note or as event sample) was in the source at that time, with multiplicity:
   in particular no more claps / finishes / whistles per time than the source had *)
Definition no_invention (src out : hmap) : Prop :=
  msub atom_eqb (note_atoms out ++ sample_atoms out) (note_atoms src)
  /\ forallb hs_in_range (all_notes out) = true.

(* every named sample of the source is on a result note or an event sample at that time *)
Definition named_conserved (src out : hmap) : Prop :=
  msub atom_eqb (named_atoms src) (named_atoms out ++ sample_atoms out).

(* ------------------------------------------------------------------ "as many as the target's notes can hold" *)
Definition at_time (t : Z) (l : list hnote) : list hnote := filter (fun r => hn_off r =? t) l.
Definition at_tv (t v : Z) (l : list hnote) : list hnote :=
  filter (fun r => (hn_off r =? t) && (hn_vol r =? v)) l.

Fixpoint dedup (l : list Z) : list Z :=
  match l with
  | [] => []
  | x :: l' => if existsb (Z.eqb x) l' then dedup l' else x :: dedup l'
  end.

Definition nbit (b : Z) (l : list hnote) : nat := length (filter (fun r => Z.land (hn_hs r) b =? b) l).
Definition nnamed (l : list hnote) : nat := length (filter (fun r => negb (name_empty (hn_file r))) l).

(* notes needed by the sounds of one volume at one time: one note carries at most one clap, one finish and
   one whistle (of one volume); a named sample needs a note of its own *)
Definition demand_tv (src : hmap) (t v : Z) : nat :=
  let g := at_tv t v (all_notes src) in
  (Nat.max (nbit 2 g) (Nat.max (nbit 4 g) (nbit 8 g)) + nnamed g)%nat.
Definition demand (src : hmap) (t : Z) : nat :=
  fold_right Nat.add O (map (demand_tv src t) (dedup (map hn_vol (at_time t (all_notes src))))).

Definition sounding (r : hnote) : bool := negb (hn_hs r =? 0) || negb (name_empty (hn_file r)).
Definition nsounding (m : hmap) (t : Z) : nat := length (filter sounding (at_time t (all_notes m))).
Definition nnotes (m : hmap) (t : Z) : nat := length (at_time t (all_notes m)).

Definition atom_time (a : atom) : Z := fst (fst (fst a)).
Definition atoms_at (t : Z) (l : list atom) : list atom := filter (fun a => atom_time a =? t) l.

(* per time: as many notes sound as the sounds need, or all of them; when everything fits, everything
   (every clap, finish, whistle, named sample) is on the notes *)
Definition bounded_at (src tgt out : hmap) (t : Z) : Prop :=
  nsounding out t = Nat.min (demand src t) (nnotes tgt t)
  /\ ((demand src t <= nnotes tgt t)%nat -> msub atom_eqb (atoms_at t (copy_atoms src)) (atoms_at t (note_atoms out))).
Definition bounded (src tgt out : hmap) : Prop := forall t, bounded_at src tgt out t.

(* ------------------------------------------------------------------ the specification *)
Record Spec (src tgt out : hmap) : Prop := {
  sp_notes : notes_preserved tgt out;
  sp_noinv : no_invention src out;
  sp_bounded : bounded src tgt out;
  sp_named : named_conserved src out
}.

(* ------------------------------------------------------------------ boolean oracle *)
Definition notes_preservedb (tgt out : hmap) : bool := meqb ident_eqb (idents out) (idents tgt).
Definition no_inventionb (src out : hmap) : bool :=
  msubb atom_eqb (note_atoms out ++ sample_atoms out) (note_atoms src) && forallb hs_in_range (all_notes out).
Definition named_conservedb (src out : hmap) : bool :=
  msubb atom_eqb (named_atoms src) (named_atoms out ++ sample_atoms out).
Definition bounded_atb (src tgt out : hmap) (t : Z) : bool :=
  Nat.eqb (nsounding out t) (Nat.min (demand src t) (nnotes tgt t))
  && (negb (demand src t <=? nnotes tgt t)%nat
      || msubb atom_eqb (atoms_at t (copy_atoms src)) (atoms_at t (note_atoms out))).
Definition times (m : hmap) : list Z := map hn_off (all_notes m).
Definition boundedb (src tgt out : hmap) : bool :=
  forallb (bounded_atb src tgt out) (times src ++ times tgt ++ times out).

Definition specb (src tgt out : hmap) : bool :=
  notes_preservedb tgt out && no_inventionb src out && boundedb src tgt out && named_conservedb src out.

(* ------------------------------------------------------------------ domain and the guards of the known defects *)
Definition name_ok (nm : name) : bool := match nm with [] => false | _ => true end.
Definition src_note_ok (r : hnote) : bool := (0 <=? hn_vol r) && hs_in_range r && name_ok (hn_file r).
Definition tgt_note_ok (r : hnote) : bool := name_ok (hn_file r).
Definition is_some (o : option Z) : bool := match o with Some _ => true | None => false end.

(* domain: source volumes >= 0 (the routine clamps negative ones), hitsound sets are 16-bit, every hold has a
   length (a NaN length would re-classify the hold as a hit) *)
Definition wf (src tgt : hmap) : bool :=
  forallb src_note_ok (all_notes src) && forallb tgt_note_ok (all_notes tgt)
  && forallb (fun r => is_some (hn_len r)) (hm_holds tgt).

(* guard 1: the target carries no sounds of its own *)
Definition tgt_silent (tgt : hmap) : bool := forallb (fun r => negb (sounding r)) (all_notes tgt).
(* guard 2: no source file name contains ';' *)
Definition single_seg (nm : name) : bool := match nm with [_] => true | _ => false end.
Definition no_semicolon (src : hmap) : bool := forallb (fun r => single_seg (hn_file r)) (all_notes src).
(* guard 3: at no time do two named samples of one volume compete for notes that are not there *)
Definition no_multi_overflow_at (src tgt : hmap) (t : Z) : bool :=
  (demand src t <=? nnotes tgt t)%nat
  || forallb (fun v => (nnamed (at_tv t v (all_notes src)) <=? 1)%nat) (map hn_vol (at_time t (all_notes src))).
Definition no_multi_overflow (src tgt : hmap) : bool :=
  forallb (no_multi_overflow_at src tgt) (times src).
