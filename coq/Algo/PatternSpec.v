(* Specification for C20, written from the property statement (not from the algorithm):

   - the pattern holds every note of the note lists, and one tail per hold when tails are requested,
     ordered by time;
   - grouping assigns every note to exactly one group (as a multiset of rows: the implementation
     reports rows, and equal rows are indistinguishable); within a group all times lie within the
     vertical window of the group's FIRST note, all columns within the horizontal window of it,
     and no column repeats when jacks are avoided;
   - the combinations reported for size n are exactly (as a multiset: none missing, none extra) the
     sequences taking one note from each of n consecutive groups that pass the chord-size, column and
     type filters; with make_size2 every such sequence is reported as its n-1 consecutive pairs.

   Each predicate comes with a boolean [..._specb] used as the oracle on implementation outputs. *)
From Coq Require Import ZArith List Bool Permutation Sorted.
From RV Require Import Algo.PtnFilter Algo.Pattern.
Import ListNotations.
Open Scope Z_scope.

(* ---------------------------------------------------------------- multiset equality, decidable *)
Fixpoint remove_one {A} (eqb : A -> A -> bool) (x : A) (l : list A) : option (list A) :=
  match l with
  | [] => None
  | y :: l' => if eqb x y then Some l'
               else match remove_one eqb x l' with None => None | Some r => Some (y :: r) end
  end.
Fixpoint perm_b {A} (eqb : A -> A -> bool) (a b : list A) : bool :=
  match a with
  | [] => match b with [] => true | _ => false end
  | x :: a' => match remove_one eqb x b with None => false | Some b' => perm_b eqb a' b' end
  end.

(* ---------------------------------------------------------------- the pattern's rows *)
Definition heads_of (nls : list nlist) : list note :=
  flat_map (fun nl => map (fun r => mkN (fst (fst r)) (snd (fst r)) (nl_ty nl)) (nl_rows nl)) nls.
Definition tails_of (nls : list nlist) : list note :=
  flat_map (fun nl => if subclassb (nl_ty nl) THold
                      then map (fun r => mkN (fst (fst r)) (snd (fst r) + snd r) TTail) (nl_rows nl)
                      else []) nls.
Definition expected_rows (nls : list nlist) (include_tails : bool) : list note :=
  heads_of nls ++ (if include_tails then tails_of nls else []).

Definition by_off (a b : note) : Prop := noff a <= noff b.
Definition init_spec (rows df : list note) : Prop :=
  Permutation rows df /\ StronglySorted by_off df.

Fixpoint sorted_offb (l : list note) : bool :=
  match l with
  | [] => true
  | x :: l' => match l' with [] => true | y :: _ => (noff x <=? noff y) && sorted_offb l' end
  end.
Definition init_specb (rows df : list note) : bool := perm_b note_eqb rows df && sorted_offb df.

(* ---------------------------------------------------------------- grouping *)
Definition in_window (v : Z) (h : option Z) (r0 r : note) : Prop :=
  noff r0 <= noff r <= noff r0 + v /\
  match h with None => True | Some hw => Z.abs (ncol r - ncol r0) <= hw end.

Definition group_ok (v : Z) (h : option Z) (aj : bool) (g : list note) : Prop :=
  match g with
  | [] => False                                   (* a group has a first note *)
  | r0 :: _ => Forall (in_window v h r0) g
  end /\ (aj = true -> NoDup (map ncol g)).

Definition group_spec (df : list note) (v : Z) (h : option Z) (aj : bool) (groups : list (list note)) : Prop :=
  Permutation (concat groups) df /\ Forall (group_ok v h aj) groups.

Definition in_windowb (v : Z) (h : option Z) (r0 r : note) : bool :=
  (noff r0 <=? noff r) && (noff r <=? noff r0 + v) &&
  match h with None => true | Some hw => Z.abs (ncol r - ncol r0) <=? hw end.
Fixpoint nodupZb (l : list Z) : bool :=
  match l with [] => true | x :: l' => negb (memZ x l') && nodupZb l' end.
Definition group_okb (v : Z) (h : option Z) (aj : bool) (g : list note) : bool :=
  match g with [] => false | r0 :: _ => forallb (in_windowb v h r0) g end
  && (negb aj || nodupZb (map ncol g)).
Definition group_specb (df : list note) (v : Z) (h : option Z) (aj : bool) (groups : list (list note)) : bool :=
  perm_b note_eqb (concat groups) df && forallb (group_okb v h aj) groups.

(* ---------------------------------------------------------------- combinations *)
(* every run of n consecutive elements *)
Fixpoint windows {A} (n : nat) (l : list A) : list (list A) :=
  match l with
  | [] => []
  | _ :: l' => if (n <=? length l)%nat then firstn n l :: windows n l' else []
  end.

(* strict: same length and related position by position *)
Fixpoint forall2b {A B} (f : A -> B -> bool) (a : list A) (b : list B) : bool :=
  match a, b with
  | [], [] => true
  | x :: a', y :: b' => f x y && forall2b f a' b'
  | _, _ => false
  end.

(* a filter lists the allowed rows; [invert] turns it into the list of forbidden rows *)
Definition chord_allowed (cf : option nfilter) (chunk : list (list note)) : bool :=
  match cf with
  | None => true
  | Some f => xorb (f_inv f)
                (existsb (forall2b Z.eqb (map (fun g => Z.of_nat (length g)) chunk)) (f_ar f))
  end.
Definition cols_allowed (kf : option nfilter) (s : list note) : bool :=
  match kf with
  | None => true
  | Some f => xorb (f_inv f) (existsb (forall2b Z.eqb (map ncol s)) (f_ar f))
  end.
Definition types_allowed (tf : option tfilter) (s : list note) : bool :=
  match tf with
  | None => true
  | Some f => xorb (t_inv f) (existsb (forall2b subclassb (map nty s)) (t_ar f))
  end.

Definition allowed_seqs (groups : list (list note)) (size : nat)
           (cf kf : option nfilter) (tf : option tfilter) : list (list note) :=
  flat_map (fun chunk =>
      if chord_allowed cf chunk
      then filter (fun s => cols_allowed kf s && types_allowed tf s) (cart chunk)
      else []) (windows size groups).

(* the consecutive pairs of a sequence *)
Fixpoint pairs_of {A} (s : list A) : list (list A) :=
  match s with
  | x :: ((y :: _) as s') => [x; y] :: pairs_of s'
  | _ => []
  end.

Definition reported (make_size2 : bool) (seqs : list (list note)) : list (list note) :=
  if make_size2 then flat_map pairs_of seqs else seqs.

Definition combos_spec (groups : list (list note)) (size : nat) (make_size2 : bool)
           (cf kf : option nfilter) (tf : option tfilter) (out : list (list (list note))) : Prop :=
  Permutation (concat out) (reported make_size2 (allowed_seqs groups size cf kf tf)).

Definition combos_specb (groups : list (list note)) (size : nat) (make_size2 : bool)
           (cf kf : option nfilter) (tf : option tfilter) (out : list (list (list note))) : bool :=
  perm_b (list_eqb note_eqb) (concat out) (reported make_size2 (allowed_seqs groups size cf kf tf)).

(* domain of the combination theorems: size >= 2; filter rows as wide as the combination; when a column filter is
   given, keys >= 1 and every column of the pattern and of the filter lies in 0..keys-1 *)
Definition in_keys (keys : Z) (c : Z) : bool := (0 <=? c) && (c <? keys).
Definition wf_nfilter_w (size : nat) (f : option nfilter) : bool :=
  match f with
  | None => true
  | Some f => (f_w f =? size)%nat && forallb (fun row => (length row =? size)%nat) (f_ar f)
  end.
Definition wf_combos (groups : list (list note)) (size : nat)
           (cf kf : option nfilter) (tf : option tfilter) : bool :=
  (2 <=? size)%nat
  && wf_nfilter_w size cf && wf_nfilter_w size kf
  && match tf with None => true
     | Some f => (t_w f =? size)%nat && forallb (fun row => (length row =? size)%nat) (t_ar f) end
  && match kf with None => true
     | Some f => (1 <=? f_keys f)
                 && forallb (forallb (in_keys (f_keys f))) (f_ar f)
                 && forallb (forallb (fun r => in_keys (f_keys f) (ncol r))) groups end.

(* ---------------------------------------------------------------- templates *)
Definition is_tail (r : note) : bool := ntype_eqb (nty r) TTail.

(* jacks of length n: one note from each of n consecutive groups, all in the same column 0..keys-1,
   none of them a hold tail *)
Definition jack_seq (keys : Z) (s : list note) : bool :=
  match s with
  | [] => false
  | r0 :: _ => in_keys keys (ncol r0) && forallb (fun r => ncol r =? ncol r0) s
  end && forallb (fun r => negb (is_tail r)) s.
Definition jacks_spec (groups : list (list note)) (n : nat) (keys : Z) (out : list (list (list note))) : Prop :=
  Permutation (concat out) (flat_map pairs_of (filter (jack_seq keys) (flat_map cart (windows n groups)))).
Definition jacks_specb (groups : list (list note)) (n : nat) (keys : Z) (out : list (list (list note))) : bool :=
  perm_b (list_eqb note_eqb) (concat out)
         (flat_map pairs_of (filter (jack_seq keys) (flat_map cart (windows n groups)))).

(* chord stream: pairs from two consecutive groups whose sizes are (primary, secondary) - or, with
   and_lower, any (a, b) or (b, a) with 1 <= a <= primary, 1 <= b <= secondary, or (secondary, primary) -
   not in the same column 0..keys-1 unless jacks are included, neither note a hold tail *)
Definition cs_sizes_ok (p s : Z) (and_lower : bool) (a b : Z) : bool :=
  if and_lower
  then ((a =? p) && (b =? s)) || ((a =? s) && (b =? p))
       || ((1 <=? a) && (a <=? p) && (1 <=? b) && (b <=? s))
       || ((1 <=? b) && (b <=? p) && (1 <=? a) && (a <=? s))
  else (a =? p) && (b =? s).
Definition cs_seq (keys : Z) (include_jack : bool) (s : list note) : bool :=
  match s with
  | [x; y] => (include_jack || negb ((ncol x =? ncol y) && in_keys keys (ncol x)))
              && negb (is_tail x) && negb (is_tail y)
  | _ => false
  end.
Definition chord_stream_expected (groups : list (list note)) (p s keys : Z) (and_lower include_jack : bool)
  : list (list note) :=
  flat_map (fun chunk =>
      match chunk with
      | [g1; g2] => if cs_sizes_ok p s and_lower (Z.of_nat (length g1)) (Z.of_nat (length g2))
                    then filter (cs_seq keys include_jack) (cart chunk) else []
      | _ => []
      end) (windows 2 groups).
Definition chord_stream_spec groups p s keys and_lower include_jack (out : list (list (list note))) : Prop :=
  Permutation (concat out) (chord_stream_expected groups p s keys and_lower include_jack).
Definition chord_stream_specb groups p s keys and_lower include_jack (out : list (list (list note))) : bool :=
  perm_b (list_eqb note_eqb) (concat out) (chord_stream_expected groups p s keys and_lower include_jack).

(* ---------------------------------------------------------------- filter constructors *)
(* what the options are documented to mean, as sets of rows *)
Definition in_range_row (keys : Z) (row : list Z) : Prop := Forall (fun c => 0 <= c < keys) row.

(* REPEAT: every translate of a base row that stays inside 0..keys-1 *)
Definition repeat_rows (keys : Z) (rows : list (list Z)) (r : list Z) : Prop :=
  exists base d, In base rows /\ base <> [] /\ r = map (fun c => c + d) base /\ in_range_row keys r.
(* HMIRROR: the rows and their reflections c -> keys-1-c *)
Definition hmirror_rows (keys : Z) (rows : list (list Z)) (r : list Z) : Prop :=
  In r rows \/ exists base, In base rows /\ r = map (fun c => keys - 1 - c) base.
(* VMIRROR / MIRROR: the rows and their reversals *)
Definition vmirror_rows {A} (rows : list (list A)) (r : list A) : Prop :=
  In r rows \/ exists base, In base rows /\ r = rev base.
(* ANY_ORDER: every reordering of a row *)
Definition any_order_rows {A} (rows : list (list A)) (r : list A) : Prop :=
  exists base, In base rows /\ Permutation base r.
(* AND_LOWER: additionally every row with 1 <= r_k <= max_k;  AND_HIGHER: min_k <= r_k <= keys *)
Definition and_lower_rows (rows : list (list Z)) (r : list Z) : Prop :=
  In r rows \/ Forall2 (fun c mx => 1 <= c <= mx) r (colwise Z.max rows).
Definition and_higher_rows (keys : Z) (rows : list (list Z)) (r : list Z) : Prop :=
  In r rows \/ Forall2 (fun c mn => mn <= c <= keys) r (colwise Z.min rows).

(* boolean oracle for the constructors' output: the same sets enumerated naively *)
Definition mem_row (r : list Z) (rows : list (list Z)) : bool := existsb (list_eqb Z.eqb r) rows.
Definition same_set (a b : list (list Z)) : bool :=
  forallb (fun r => mem_row r b) a && forallb (fun r => mem_row r a) b.
Fixpoint strictly_sorted_rows (l : list (list Z)) : bool :=
  match l with
  | [] => true
  | x :: l' => match l' with [] => true
               | y :: _ => match lex_cmp x y with Lt => strictly_sorted_rows l' | _ => false end end
  end.

(* naive enumerations of the sets above, used by the oracle on the constructors' outputs *)
Definition repeat_enum (keys : Z) (rows : list (list Z)) : list (list Z) :=
  flat_map (fun base =>
      match base with
      | [] => []
      | c0 :: _ => filter (forallb (in_keys keys))
                          (map (fun d => map (fun c => c + d) base) (zrange (0 - c0) (keys - c0)))
      end) rows.
Definition combo_rows_expected (rows : list (list Z)) (keys : Z) (rep hm vm : bool) : list (list Z) :=
  let r1 := if rep then repeat_enum keys rows else rows in
  let r2 := if hm then r1 ++ map (map (fun c => keys - 1 - c)) r1 else r1 in
  if vm then r2 ++ map (@rev Z) r2 else r2.
Definition chord_rows_expected (rows : list (list Z)) (keys : Z) (any lower higher : bool) : list (list Z) :=
  let r1 := if higher then rows ++ cart (map (fun mn => zrange mn (keys + 1)) (colwise Z.min rows)) else rows in
  let r2 := if lower then r1 ++ cart (map (fun mx => zrange 1 (mx + 1)) (colwise Z.max r1)) else r1 in
  if any then flat_map perms r2 else r2.
Definition type_rows_expected (rows : list (list ntype)) (any mirror : bool) : list (list ntype) :=
  if any then flat_map perms rows else if mirror then rows ++ map (@rev ntype) rows else rows.
Definition mem_trow (r : list ntype) (rows : list (list ntype)) : bool := existsb (list_eqb ntype_eqb r) rows.
Definition same_tset (a b : list (list ntype)) : bool :=
  forallb (fun r => mem_trow r b) a && forallb (fun r => mem_trow r a) b.
Fixpoint nodup_trows (l : list (list ntype)) : bool :=
  match l with [] => true | r :: l' => negb (mem_trow r l') && nodup_trows l' end.
