(* C18 — model of reamber/algorithms/osu/hitsound_copy.py.  Definitions only.

   Times (offset, length) are integers: the routine only compares them for equality/order; the harness scales
   every time of a case by one common denominator.  Strings are interned by the harness: a file name is the
   list of its ';'-separated segments, each segment a number (0 = the empty segment), so ""  = [0],
   "a.wav" = [a], "a;b" = [a; b], ";" = [0; 0].  With that representation
       ";".join(names).split(";")  =  concat names          and    len(file) > 0  =  (segment <> 0).

   def hitsound_copy(osu_src, osu_tgt):
       df_src = concat(src.notes)  ; keep rows with any of addition/custom/hitsound/sample set != 0 or file != ""   -> [notes_df], [loud]
       df_src = df_src.sort_values("offset")                     -> [sort_with]  (pandas' default sort is NOT stable:
                                                                     the order of ties is an oracle argument, validated)
       clap/finish/whistle = hitsound_set & 2/4/8                -> [has_bit]
       df_src.groupby("offset")                                  -> [group_by hn_off]
       osu_tgt = deepcopy(osu_tgt); osu_tgt.reset_samples()      -> [reset_note]: the copy starts silent (hitsound/sample/
                                                                     addition/custom set = 0, file = ""; volume kept),
                                                                     event samples emptied
       df = concat(tgt.notes).sort_values("offset").reset_index()-> [sort_with]      (taken from the silent copy)
       for offset, group in df_src:                              -> [run_groups]/[step]
           slot_indexes = positions of df rows at that offset ; slot = 0 ; slot_max = len(slot_indexes)
           for volume-group (ascending volume; files ';'-joined; bit columns summed):     -> [group_by hn_vol], [plan_groups]
               for _ in range(max(claps, finishes, whistles)):   -> [default_loop]
                   if slot == slot_max: break
                   val = 2*(claps>0) + 4*(finishes>0) + 8*(whistles>0), each decremented when positive
                   df[slot].hitsound_set = val ; df[slot].volume = max(volume, 0) ; slot += 1
               for file in files:                                -> [file_loop]
                   if slot == slot_max: samples.append(offset, file, volume) ; continue  (every file without a note is sampled)
                   df[slot].hitsound_file = file ; df[slot].volume = max(volume, 0) ; slot += 1
       holds = df[~isnan(length)] ; hits = df[isnan(length)]     -> tail of [hitsound_copy]

   This is the routine as repaired by /repo commits 19e0cd1 (`break` -> `continue` in the file loop) and a52f30c
   (reset before the target frame is built; reset_samples really clears the note columns).  The behaviour before
   those commits is kept at the end of the file as [*_OLD], only for the refutation witnesses.
*)
From Coq Require Import ZArith List Bool Arith.
Import ListNotations.
Open Scope Z_scope.

Definition name := list Z.

Record hnote := mkN { hn_off : Z; hn_col : Z; hn_len : option Z;       (* None = NaN (hit rows have no length) *)
                      hn_hs : Z; hn_ss : Z; hn_as : Z; hn_cs : Z; hn_vol : Z; hn_file : name }.
Record hsample := mkS { hs_off : Z; hs_file : name; hs_vol : Z }.
Record hmap := mkM { hm_hits : list hnote; hm_holds : list hnote; hm_samples : list hsample }.

Definition name_empty (nm : name) : bool :=
  match nm with [] => true | [0] => true | _ => false end.

Definition set_len (l : option Z) (r : hnote) : hnote :=
  mkN (hn_off r) (hn_col r) l (hn_hs r) (hn_ss r) (hn_as r) (hn_cs r) (hn_vol r) (hn_file r).

(* pd.concat([hits.df, holds.df]): the hit frame has no length column -> NaN *)
Definition notes_df (m : hmap) : list hnote := map (set_len None) (hm_hits m) ++ hm_holds m.

Definition loud (r : hnote) : bool :=
  negb (hn_as r =? 0) || negb (hn_cs r =? 0) || negb (hn_hs r =? 0) || negb (hn_ss r =? 0)
  || negb (name_empty (hn_file r)).

(* ---- sort_values("offset"): any sorting permutation; the permutation actually used is an argument ---- *)
Definition dummy : hnote := mkN 0 0 None 0 0 0 0 0 [0].

Definition apply_perm (p : list nat) (l : list hnote) : list hnote := map (fun i => nth i l dummy) p.

Fixpoint count_nat (x : nat) (l : list nat) : nat :=
  match l with [] => O | y :: l' => (if Nat.eqb x y then 1 else 0) + count_nat x l' end%nat.

Definition perm_ok (p : list nat) (n : nat) : bool :=
  Nat.eqb (length p) n && forallb (fun i => Nat.eqb (count_nat i p) 1) (seq 0 n).

Fixpoint sortedb (l : list hnote) : bool :=
  match l with
  | [] => true
  | x :: l' => match l' with [] => true | y :: _ => (hn_off x <=? hn_off y) && sortedb l' end
  end.

Definition sort_with (p : list nat) (l : list hnote) : option (list hnote) :=
  let s := apply_perm p l in
  if perm_ok p (length l) && sortedb s then Some s else None.

(* ---- groupby(key) (sort=True): distinct keys ascending, rows of a group in frame order ---- *)
Fixpoint uinsert (x : Z) (l : list Z) : list Z :=
  match l with
  | [] => [x]
  | y :: l' => if x <? y then x :: l else if x =? y then l else y :: uinsert x l'
  end.
Definition usort (l : list Z) : list Z := fold_right uinsert [] l.

Definition group_by (key : hnote -> Z) (rows : list hnote) : list (Z * list hnote) :=
  map (fun k => (k, filter (fun r => key r =? k) rows)) (usort (map key rows)).

(* ---- the per-volume-group aggregates ---- *)
Definition has_bit (b : Z) (r : hnote) : bool := Z.land (hn_hs r) b =? b.
Definition count_bit (b : Z) (g : list hnote) : nat := length (filter (has_bit b) g).
Definition group_files (g : list hnote) : list Z :=
  filter (fun s => negb (s =? 0)) (concat (map hn_file g)).

(* ---- slot filling ---- *)
Inductive write := WBits (val vol : Z) | WFile (f : Z) (vol : Z).

Definition do_write (w : write) (r : hnote) : hnote :=
  match w with
  | WBits val vol => mkN (hn_off r) (hn_col r) (hn_len r) val (hn_ss r) (hn_as r) (hn_cs r) vol (hn_file r)
  | WFile f vol => mkN (hn_off r) (hn_col r) (hn_len r) (hn_hs r) (hn_ss r) (hn_as r) (hn_cs r) vol [f]
  end.

Definition pos (n : nat) : bool := negb (Nat.eqb n 0).

(* for _ in range(k): if slot == slot_max: break ; ...      [free] = slot_max - slot *)
Fixpoint default_loop (k c f w free : nat) (vol : Z) : list write * nat :=
  match k with
  | O => ([], free)
  | S k' =>
      match free with
      | O => ([], O)
      | S free' =>
          let val := (if pos c then 2 else 0) + (if pos f then 4 else 0) + (if pos w then 8 else 0) in
          let '(ws, fr) := default_loop k' (Nat.pred c) (Nat.pred f) (Nat.pred w) free' vol in
          (WBits val (Z.max vol 0) :: ws, fr)
      end
  end.

(* for file in files: if slot == slot_max: samples.append(...); continue ; ... *)
Fixpoint file_loop (files : list Z) (free : nat) (off vol : Z) : list write * list hsample * nat :=
  match files with
  | [] => ([], [], free)
  | x :: rest =>
      match free with
      | O => let '(ws, ss, fr) := file_loop rest O off vol in (ws, mkS off [x] vol :: ss, fr)
      | S free' =>
          let '(ws, ss, fr) := file_loop rest free' off vol in
          (WFile x (Z.max vol 0) :: ws, ss, fr)
      end
  end.

Fixpoint plan_groups (off : Z) (vgs : list (Z * list hnote)) (free : nat) : list write * list hsample :=
  match vgs with
  | [] => ([], [])
  | (vol, g) :: rest =>
      let c := count_bit 2 g in
      let f := count_bit 4 g in
      let w := count_bit 8 g in
      let '(w1, free1) := default_loop (Nat.max c (Nat.max f w)) c f w free vol in
      let '(w2, s2, free2) := file_loop (group_files g) free1 off vol in
      let '(w3, s3) := plan_groups off rest free2 in
      (w1 ++ w2 ++ w3, s2 ++ s3)
  end.

(* df.at[slot_indexes[slot], ...] = ... for the successive slots: the rows at [off], in frame order *)
Fixpoint apply_at (off : Z) (ws : list write) (df : list hnote) : list hnote :=
  match df with
  | [] => []
  | r :: df' =>
      if hn_off r =? off then
        match ws with
        | [] => r :: df'
        | w :: ws' => do_write w r :: apply_at off ws' df'
        end
      else r :: apply_at off ws df'
  end.

Definition slots_at (off : Z) (df : list hnote) : nat :=
  length (filter (fun r => hn_off r =? off) df).

Definition step (st : list hnote * list hsample) (og : Z * list hnote) : list hnote * list hsample :=
  let '(df, smp) := st in
  let '(off, g) := og in
  let '(ws, ss) := plan_groups off (group_by hn_vol g) (slots_at off df) in
  (apply_at off ws df, smp ++ ss).

Fixpoint run_groups (ogs : list (Z * list hnote)) (st : list hnote * list hsample) : list hnote * list hsample :=
  match ogs with
  | [] => st
  | og :: rest => run_groups rest (step st og)
  end.

(* OsuMap.reset_samples on the copy: the four set columns and the file column are cleared, volume is kept *)
Definition reset_note (r : hnote) : hnote := mkN (hn_off r) (hn_col r) (hn_len r) 0 0 0 0 (hn_vol r) [0].

Definition is_hit (r : hnote) : bool := match hn_len r with None => true | Some _ => false end.

(* psrc / ptgt: the order in which sort_values left the source rows (after the filter) / the target rows *)
Definition hitsound_copy (psrc ptgt : list nat) (src tgt : hmap) : option hmap :=
  match sort_with psrc (filter loud (notes_df src)), sort_with ptgt (map reset_note (notes_df tgt)) with
  | Some s, Some df =>
      let '(df', smp) := run_groups (group_by hn_off s) (df, []) in
      Some (mkM (filter is_hit df') (filter (fun r => negb (is_hit r)) df') smp)
  | _, _ => None
  end.

(* ================================================================== OLD: the routine before commits 19e0cd1 / a52f30c.
   Kept only so that the refutation theorems can exhibit what the repairs removed. *)
(* OLD: `break` after the first overflowing file *)
Fixpoint file_loop_OLD (files : list Z) (free : nat) (off vol : Z) : list write * list hsample * nat :=
  match files with
  | [] => ([], [], free)
  | x :: rest =>
      match free with
      | O => ([], [mkS off [x] vol], O)
      | S free' =>
          let '(ws, ss, fr) := file_loop_OLD rest free' off vol in
          (WFile x (Z.max vol 0) :: ws, ss, fr)
      end
  end.

Fixpoint plan_groups_OLD (off : Z) (vgs : list (Z * list hnote)) (free : nat) : list write * list hsample :=
  match vgs with
  | [] => ([], [])
  | (vol, g) :: rest =>
      let c := count_bit 2 g in
      let f := count_bit 4 g in
      let w := count_bit 8 g in
      let '(w1, free1) := default_loop (Nat.max c (Nat.max f w)) c f w free vol in
      let '(w2, s2, free2) := file_loop_OLD (group_files g) free1 off vol in
      let '(w3, s3) := plan_groups_OLD off rest free2 in
      (w1 ++ w2 ++ w3, s2 ++ s3)
  end.

Definition step_OLD (st : list hnote * list hsample) (og : Z * list hnote) : list hnote * list hsample :=
  let '(df, smp) := st in
  let '(off, g) := og in
  let '(ws, ss) := plan_groups_OLD off (group_by hn_vol g) (slots_at off df) in
  (apply_at off ws df, smp ++ ss).

Fixpoint run_groups_OLD (ogs : list (Z * list hnote)) (st : list hnote * list hsample) : list hnote * list hsample :=
  match ogs with
  | [] => st
  | og :: rest => run_groups_OLD rest (step_OLD st og)
  end.

(* OLD: the target frame was taken before the (ineffective) reset, so the target's own sounds stayed *)
Definition hitsound_copy_OLD (psrc ptgt : list nat) (src tgt : hmap) : option hmap :=
  match sort_with psrc (filter loud (notes_df src)), sort_with ptgt (notes_df tgt) with
  | Some s, Some df =>
      let '(df', smp) := run_groups_OLD (group_by hn_off s) (df, []) in
      Some (mkM (filter is_hit df') (filter (fun r => negb (is_hit r)) df') smp)
  | _, _ => None
  end.
