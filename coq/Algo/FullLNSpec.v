(* C17 — specification of full-LN generation, written from the property statement (not from full_ln.py).
   Only the data types (note, tlist, chart) and the generic helpers note_eqb / remove1 / is_hit are shared with
   the model file.

   Statement: the result has one note per input note at the same time and column; in each column every note but
   the last becomes a hold ending exactly `gap` before the next note of that column when that leaves at least the
   threshold length and a hit otherwise; the last note of a column keeps its kind and length; no generated hold
   reaches the next note of its column; tempo and other lists are unchanged.  For notes stacked at the same time
   in one column either processing order is accepted. *)
From Coq Require Import ZArith List Bool Permutation.
From RV Require Import Algo.FullLN.
Import ListNotations.
Open Scope Z_scope.

Definition slot_lists (s : slot) (m : chart) : list tlist := filter (fun l => slot_eqb (tl_slot l) s) m.
Definition slot_notes (s : slot) (m : chart) : list note := flat_map tl_notes (slot_lists s m).
(* the notes of a chart the rule speaks about: m.hits and m.holds *)
Definition chart_notes (m : chart) : list note := slot_notes SHits m ++ slot_notes SHolds m.
Definition others (m : chart) : list tlist := slot_lists SOther m.
Definition in_col (c : Z) (n : note) : bool := n_col n =? c.

(* x is what note a becomes when b is the next note of its column *)
Definition Fill (gap thr : Z) (a b x : note) : Prop :=
  n_col x = n_col a /\ n_off x = n_off a /\
  ((thr <= n_off b - n_off a - gap /\ n_len x = Some (n_off b - n_off a - gap)) \/
   (n_off b - n_off a - gap < thr /\ n_len x = None)).

(* One column: I its input notes, O its output notes.  s is a processing order: the notes of I sorted by time
   (any order among equal times); o lists the outputs position by position. *)
Definition ColumnSpec (gap thr : Z) (I O : list note) : Prop :=
  exists s o, Permutation s I /\ Permutation o O /\ length o = length s /\
    (forall i a b, nth_error s i = Some a -> nth_error s (S i) = Some b ->
        n_off a <= n_off b /\ exists x, nth_error o i = Some x /\ Fill gap thr a b x) /\
    (forall i a, nth_error s i = Some a -> nth_error s (S i) = None -> nth_error o i = Some a).

Definition NotesSpec (gap thr : Z) (I O : list note) : Prop :=
  forall c, ColumnSpec gap thr (filter (in_col c) I) (filter (in_col c) O).

Record Spec (m : chart) (gap thr : Z) (m' : chart) : Prop := {
  sp_notes  : NotesSpec gap thr (chart_notes m) (chart_notes m');
  sp_hits   : forall n, In n (slot_notes SHits m') -> n_len n = None;
  sp_holds  : forall n, In n (slot_notes SHolds m') -> n_len n <> None;
  sp_others : others m' = others m;                      (* tempo and every other list: same rows *)
  sp_layout : map tl_slot m' = map tl_slot m
}.

(* the operation is total on the property's domain: an exception is a violation *)
Definition SpecO (m : chart) (gap thr : Z) (o : option chart) : Prop :=
  exists m', o = Some m' /\ Spec m gap thr m'.

(* consequences stated on their own (proved from NotesSpec in Proofs/FullLNProofs.v) *)
Definition key (n : note) : Z * Z := (n_col n, n_off n).
Definition CountKept (I O : list note) : Prop := Permutation (map key I) (map key O).
Definition NoOverlap (I O : list note) : Prop :=
  forall h l n, In h O -> n_len h = Some l -> In n I -> n_col n = n_col h -> n_off h < n_off n ->
                n_off h + l <= n_off n.
Definition LastKept (I O : list note) : Prop :=
  forall c, filter (in_col c) I <> [] ->
    exists a, In a I /\ n_col a = c /\ (forall n, In n I -> n_col n = c -> n_off n <= n_off a) /\ In a O.

(* ------------------------------------------------------------------ boolean oracle *)
Definition filled (gap thr : Z) (a b : note) : note :=
  let d := n_off b - n_off a - gap in
  mkNote (n_col a) (n_off a) (if d <? thr then None else Some d).
Fixpoint expected (gap thr : Z) (cur : note) (rest : list note) : list note :=
  match rest with
  | [] => [cur]
  | b :: rest' => filled gap thr cur b :: expected gap thr b rest'
  end.
Definition expected_col (gap thr : Z) (s : list note) : list note :=
  match s with [] => [] | a :: r => expected gap thr a r end.

Fixpoint sp_insert (x : note) (l : list note) : list note :=
  match l with
  | [] => [x]
  | y :: l' => if n_off y <? n_off x then y :: sp_insert x l' else x :: l
  end.
Fixpoint sp_sort (l : list note) : list note :=
  match l with [] => [] | x :: l' => sp_insert x (sp_sort l') end.
Fixpoint sortedb (s : list note) : bool :=
  match s with
  | [] => true
  | a :: r => match r with [] => true | b :: _ => (n_off a <=? n_off b) && sortedb r end
  end.
Fixpoint perm_b (a b : list note) : bool :=
  match a with
  | [] => match b with [] => true | _ => false end
  | x :: a' => match remove1 x b with Some b' => perm_b a' b' | None => false end
  end.

(* some note r of I can be processed last: the others sorted, then r, is a sorted order whose
   expected result is O as a multiset *)
Definition col_ok (gap thr : Z) (I O : list note) : bool :=
  match I with
  | [] => match O with [] => true | _ => false end
  | _ => existsb (fun r => match remove1 r I with
                           | None => false
                           | Some I' => let s := sp_sort I' ++ [r] in
                                        sortedb s && perm_b (expected_col gap thr s) O
                           end) I
  end.

Fixpoint dedup (l : list Z) : list Z :=
  match l with
  | [] => []
  | x :: r => if existsb (Z.eqb x) r then dedup r else x :: dedup r
  end.
Definition notes_ok (gap thr : Z) (I O : list note) : bool :=
  forallb (fun c => col_ok gap thr (filter (in_col c) I) (filter (in_col c) O)) (dedup (map n_col (I ++ O))).

Definition class_eqb (a b : lclass) : bool :=
  match a, b with CHit, CHit | CHold, CHold | CNone, CNone => true | _, _ => false end.
Fixpoint list_eqb {A} (f : A -> A -> bool) (a b : list A) : bool :=
  match a, b with
  | [], [] => true
  | x :: a', y :: b' => f x y && list_eqb f a' b'
  | _, _ => false
  end.
Definition tl_eqb (a b : tlist) : bool :=
  slot_eqb (tl_slot a) (tl_slot b) && class_eqb (tl_class a) (tl_class b)
  && list_eqb note_eqb (tl_notes a) (tl_notes b) && list_eqb Z.eqb (tl_ids a) (tl_ids b).

Definition specb (m : chart) (gap thr : Z) (o : option chart) : bool :=
  match o with
  | None => false
  | Some m' =>
      notes_ok gap thr (chart_notes m) (chart_notes m')
      && forallb is_hit (slot_notes SHits m')
      && forallb (fun n => negb (is_hit n)) (slot_notes SHolds m')
      && list_eqb tl_eqb (others m') (others m)
      && list_eqb slot_eqb (map tl_slot m') (map tl_slot m)
  end.

(* ------------------------------------------------------------------ domain of the theorems *)
Definition count_slot (s : slot) (m : chart) : nat := length (slot_lists s m).
(* exactly one m.hits (a HitList) and one m.holds (a HoldList); hits carry no length, holds carry one;
   lists that are neither HitList nor HoldList have no (column, offset, length) view *)
Definition wf_chart (m : chart) : bool :=
  (count_slot SHits m =? 1)%nat && (count_slot SHolds m =? 1)%nat
  && forallb (fun l => class_eqb (tl_class l) CHit) (slot_lists SHits m)
  && forallb (fun l => class_eqb (tl_class l) CHold) (slot_lists SHolds m)
  && forallb is_hit (slot_notes SHits m)
  && forallb (fun n => negb (is_hit n)) (slot_notes SHolds m)
  && forallb (fun l => match tl_class l with CNone => match tl_notes l with [] => true | _ => false end | _ => true end) m.
Definition wfb (m : chart) (gap thr : Z) : bool := wf_chart m && (0 <=? gap) && (0 <=? thr).
