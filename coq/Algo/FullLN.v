(* C17 — model of reamber/algorithms/generate/full_ln.py (with Map.Stacker and TimedList.from_dict as used there).
   Definitions only.  Times (offset, length, gap, threshold) are integers: the algorithm only subtracts and
   compares them, and the harness scales every value of a case by the case's common denominator.

   def full_ln(m, gap, ln_as_hit_thres):
       m = m.deepcopy()
       df = m.Stacker([m.hits, m.holds])._stacked                 -> [stacked]
       dfgs = df.loc[:, [offset, column, length]].sort_values([offset]).groupby(column)   -> [isort], [columns], [group]
       for _, dfg in dfgs:
           dfg[diff] = dfg[offset].diff().shift(-1)
           for offset, column, length, diff in rows:               -> [ln_column]
               inv_length = diff - gap
               if isnan(diff):   (last row of the column)  hit if isnan(length) else hold(length)
               elif inv_length >= thres: hold(inv_length)  else: hit
       m.hits  = type(m.hits).from_dict(hits)                      -> [rebuild]
       m.holds = type(m.holds).from_dict(holds)
*)
From Coq Require Import ZArith List Bool.
Import ListNotations.
Open Scope Z_scope.

(* a row of the stacked frame restricted to (column, offset, length); length None = NaN (hits have no length) *)
Record note := mkNote { n_col : Z; n_off : Z; n_len : option Z }.

(* which attribute of the map a list is, and what isinstance says about it *)
Inductive slot := SHits | SHolds | SOther.
Inductive lclass := CHit | CHold | CNone.      (* isinstance(_, HitList) / isinstance(_, HoldList) / neither *)

(* one entry of Map.objs, in dict order.
   tl_notes: the (column, offset, length) view of the rows (empty for non-note lists);
   tl_ids:   the full rows interned as numbers by the harness (compared only for equality). *)
Record tlist := mkTL { tl_slot : slot; tl_class : lclass; tl_notes : list note; tl_ids : list Z }.
Definition chart := list tlist.

Definition slot_eqb (a b : slot) : bool :=
  match a, b with SHits, SHits | SHolds, SHolds | SOther, SOther => true | _, _ => false end.

(* ---- m.Stacker([m.hits, m.holds])._stacked: concat of the frames of m.hits and m.holds, in this order, whatever
   other lists the chart has.  A HitList frame has no length column: concat fills NaN. *)
Definition stack_rows (l : tlist) : list note :=
  match tl_class l with
  | CHit => map (fun n => mkNote (n_col n) (n_off n) None) (tl_notes l)
  | CHold => tl_notes l
  | CNone => []
  end.
Definition in_slot (s : slot) (m : chart) : list tlist := filter (fun l => slot_eqb (tl_slot l) s) m.
Definition stacked (m : chart) : list note :=
  flat_map stack_rows (in_slot SHits m) ++ flat_map stack_rows (in_slot SHolds m).

(* OLD variant, before commit 2c338d8 of the tree under test: m.stack((HitList, HoldList)) collected every list that
   is an instance of either class (StepMania mines, fakes, lifts, keysounds, rolls too).  Kept only to state what was
   wrong with it (Props/C17.v, C17_old_by_type_count_refuted); the checked model is [stacked]. *)
Definition stacked_old_by_type (m : chart) : list note := flat_map stack_rows m.

(* ---- sort_values(["offset"]): pandas' default sort is not stable; the model uses the stable insertion sort and
   everything downstream is stated for any sorted permutation (see full_ln_sorted). *)
Fixpoint insert_off (x : note) (l : list note) : list note :=
  match l with
  | [] => [x]
  | y :: l' => if n_off x <=? n_off y then x :: l else y :: insert_off x l'
  end.
Definition isort (l : list note) : list note := fold_right insert_off [] l.

(* ---- groupby("column"): groups in ascending key order, rows of a group in frame order *)
Fixpoint insert_col (c : Z) (l : list Z) : list Z :=
  match l with
  | [] => [c]
  | d :: l' => if c <? d then c :: l else if c =? d then l else d :: insert_col c l'
  end.
Definition columns (s : list note) : list Z := fold_right insert_col [] (map n_col s).
Definition group (c : Z) (s : list note) : list note := filter (fun n => n_col n =? c) s.

(* ---- the loop over one group *)
Fixpoint ln_column (gap thr : Z) (g : list note) : list note :=
  match g with
  | [] => []
  | n :: rest =>
      match rest with
      | [] => [mkNote (n_col n) (n_off n) (n_len n)]            (* diff is NaN: kind and length kept *)
      | n' :: _ =>
          let inv := n_off n' - n_off n - gap in
          mkNote (n_col n) (n_off n) (if thr <=? inv then Some inv else None) :: ln_column gap thr rest
      end
  end.

Definition is_hit (n : note) : bool := match n_len n with None => true | Some _ => false end.

(* ---- cls.from_dict(rows): no rows -> the empty list of the class; otherwise a frame of exactly these rows, the
   columns that were not given (game-specific fields) filled from the class defaults (a list-valued default gives
   every row a fresh list).  It raises only on a column name the class does not declare; offset/column/length are
   declared by every HitList/HoldList class, so here it always succeeds. *)
Definition rebuild (rows : list note) : option (list note) :=
  match rows with
  | [] => Some []
  | _ => Some rows
  end.

Definition find_slot (s : slot) (m : chart) : option tlist := find (fun l => slot_eqb (tl_slot l) s) m.

Definition set_rows (l : tlist) (rows : list note) : tlist :=
  mkTL (tl_slot l) (tl_class l) rows [].          (* game-specific fields are re-created from defaults *)

Definition ln_rows (gap thr : Z) (s : list note) : list note :=
  flat_map (fun c => ln_column gap thr (group c s)) (columns s).

(* everything after the sort, for an arbitrary sorted frame s *)
Definition full_ln_sorted (m : chart) (s : list note) (gap thr : Z) : option chart :=
  let rows := ln_rows gap thr s in
  match find_slot SHits m, find_slot SHolds m with
  | Some _, Some _ =>                                             (* type(m.hits), type(m.holds) *)
      match rebuild (filter is_hit rows) with
      | None => None
      | Some h =>
          match rebuild (filter (fun n => negb (is_hit n)) rows) with
          | None => None
          | Some o =>
              Some (map (fun l => match tl_slot l with
                                  | SHits => set_rows l h
                                  | SHolds => set_rows l o
                                  | SOther => l
                                  end) m)
          end
      end
  | _, _ => None
  end.

Definition full_ln (m : chart) (gap thr : Z) : option chart := full_ln_sorted m (isort (stacked m)) gap thr.
Definition full_ln_old_by_type (m : chart) (gap thr : Z) : option chart :=
  full_ln_sorted m (isort (stacked_old_by_type m)) gap thr.

(* ---- admissible tie orders: the only freedom an unstable sort has that is visible in the result is which of
   the notes sharing the greatest offset of a column comes last (proved in Proofs/FullLNProofs.v) *)
Definition note_eqb (a b : note) : bool :=
  (n_col a =? n_col b) && (n_off a =? n_off b) &&
  match n_len a, n_len b with
  | None, None => true
  | Some x, Some y => x =? y
  | _, _ => false
  end.
Fixpoint remove1 (x : note) (l : list note) : option (list note) :=
  match l with
  | [] => None
  | y :: l' => if note_eqb x y then Some l' else
               match remove1 x l' with Some r => Some (y :: r) | None => None end
  end.
Definition last_candidates (g : list note) : list note :=
  match rev g with
  | [] => []
  | z :: _ => filter (fun n => n_off n =? n_off z) g
  end.
Definition reorder_last (r : note) (g : list note) : list note :=
  match remove1 r g with Some g' => g' ++ [r] | None => g end.
