(* Specification for C19, written from the property statement (not from the pandas pipelines).

   A chart has tempo points (time, bpm), SV points (time, multiplier) where the game has SVs, and notes.
   * The tempo segment of a tempo point runs from its time to the nearest LATER tempo point (or for
     ever); the active time of a bpm value is the total length of the segments carrying that value,
     clipped to [first tempo point, last object].  A dominant bpm is a bpm value of the chart whose
     active time is maximal (any maximiser).
   * At time t the active bpm is that of the latest tempo point at or before t (before the first tempo
     point: the first one's); the active SV multiplier is that of the latest SV at or before t provided no
     tempo point lies strictly after that SV and at or before t (an SV lasts until the next SV or tempo
     point; an SV AT a tempo point's time applies), otherwise 1; among SVs sharing a time the last in
     row order counts.  speed(t) = active bpm / reference * active multiplier.
   * SV normalisation: exactly one SV per tempo point, at its time, with multiplier * bpm = reference.
   * The reference is the override when one is given, else a dominant bpm.
   [tol] is a relative tolerance used only by the rounded stream; the theorems are stated at tol = 0. *)
From Coq Require Import ZArith QArith Qabs List Bool Permutation.
From RV Require Import Base.PyNum Algo.DominantBpm.
Import ListNotations.
Open Scope Q_scope.

(* ---------- basic notions *)
Fixpoint list_min (l : list Q) : option Q :=
  match l with
  | [] => None
  | x :: l' => match list_min l' with None => Some x | Some m => Some (if Qle_bool x m then x else m) end
  end.
Fixpoint list_max (l : list Q) : option Q :=
  match l with
  | [] => None
  | x :: l' => match list_max l' with None => Some x | Some m => Some (if Qle_bool m x then x else m) end
  end.

Definition tempo_times (c : chart) : list Q := map fst (c_bpms c).
Definition first_tempo (c : chart) : option Q := list_min (tempo_times c).
Definition last_object (c : chart) : option Q := list_max (c_notes c).
Definition first_object (c : chart) : option Q := list_min (c_notes c).

Fixpoint distinct_times (l : list Q) : bool :=
  match l with
  | [] => true
  | x :: l' => negb (existsb (Qeq_bool x) l') && distinct_times l'
  end.

(* the domain of the property: >= 1 tempo point at or before the first object, >= 1 object, no two
   tempo points at one time, positive bpms *)
Definition wf_chart (c : chart) : bool :=
  match first_tempo c, first_object c with
  | Some ft, Some fo =>
      Qle_bool ft fo && distinct_times (tempo_times c) && forallb (fun r => Qlt_bool 0 (snd r)) (c_bpms c)
  | _, _ => false
  end.
Definition wf_override (ov : option Q) : bool :=
  match ov with None => true | Some o => Qlt_bool 0 o end.

(* ---------- active time *)
Definition clip (lo hi x : Q) : Q := Qmin' (Qmax' x lo) hi.
Definition next_tempo (c : chart) (o : Q) : option Q :=
  list_min (filter (fun t => Qlt_bool o t) (tempo_times c)).
Definition segment_time (c : chart) (lo hi o : Q) : Q :=
  let s := clip lo hi o in
  let e := match next_tempo c o with Some t => clip lo hi t | None => hi end in
  if Qlt_bool s e then e - s else 0.
Fixpoint sum_where (b : Q) (f : Q -> Q) (rows : list (Q * Q)) : Q :=
  match rows with
  | [] => 0
  | (o, b') :: rows' => if Qeq_bool b' b then Qred (f o + sum_where b f rows') else sum_where b f rows'
  end.
Definition active_time (c : chart) (b : Q) : Q :=
  match first_tempo c, last_object c with
  | Some lo, Some hi => sum_where b (segment_time c lo hi) (c_bpms c)
  | _, _ => 0
  end.

Definition is_bpm_of (c : chart) (b : Q) : Prop := exists o b', In (o, b') (c_bpms c) /\ b' == b.

Definition is_dominant (tol : Q) (c : chart) (b : Q) : Prop :=
  is_bpm_of c b /\
  forall o b', In (o, b') (c_bpms c) -> active_time c b' - active_time c b <= tol * (1 + active_time c b').

Definition dominantb (tol : Q) (c : chart) (b : Q) : bool :=
  existsb (fun r => Qeq_bool (snd r) b) (c_bpms c)
  && forallb (fun r => Qle_bool (active_time c (snd r) - active_time c b) (tol * (1 + active_time c (snd r)))) (c_bpms c).

(* ---------- active bpm and SV at a time *)
(* the latest row at or before t; among rows at one time the later row wins *)
Fixpoint latest_le (t : Q) (rows : list (Q * Q)) (acc : option (Q * Q)) : option (Q * Q) :=
  match rows with
  | [] => acc
  | r :: rows' =>
      latest_le t rows'
        (if Qle_bool (fst r) t
         then match acc with
              | None => Some r
              | Some a => if Qle_bool (fst a) (fst r) then Some r else acc
              end
         else acc)
  end.
Fixpoint earliest (rows : list (Q * Q)) (acc : option (Q * Q)) : option (Q * Q) :=
  match rows with
  | [] => acc
  | r :: rows' =>
      earliest rows' (match acc with
                      | None => Some r
                      | Some a => if Qlt_bool (fst r) (fst a) then Some r else acc
                      end)
  end.

Definition bpm_at (c : chart) (t : Q) : option Q :=
  match latest_le t (c_bpms c) None with
  | Some r => Some (snd r)
  | None => option_map snd (earliest (c_bpms c) None)
  end.

Definition sv_at (c : chart) (t : Q) : Q :=
  match c_svs c with
  | None => 1
  | Some svs =>
      match latest_le t svs None with
      | None => 1
      | Some s =>
          match latest_le t (c_bpms c) None with
          | None => snd s
          | Some b => if Qle_bool (fst b) (fst s) then snd s else 1
          end
      end
  end.

Definition q_close (tol a b : Q) : bool := Qle_bool (Qabs (a - b)) (tol * Qabs a).
Definition Q_close (tol a b : Q) : Prop := Qabs (a - b) <= tol * Qabs a.

Definition speed_ok (tol : Q) (c : chart) (ref t : Q) (s : option Q) : Prop :=
  exists b v, bpm_at c t = Some b /\ s = Some v /\ Q_close tol (b / ref * sv_at c t) v.
Definition speed_okb (tol : Q) (c : chart) (ref t : Q) (s : option Q) : bool :=
  match bpm_at c t, s with
  | Some b, Some v => q_close tol (b / ref * sv_at c t) v
  | _, _ => false
  end.

Definition has_breakpoint (out : list (Q * option Q)) (t : Q) : Prop := exists r, In r out /\ fst r == t.
Definition has_breakpointb (out : list (Q * option Q)) (t : Q) : bool := existsb (fun r => Qeq_bool (fst r) t) out.

(* scroll speed w.r.t. a given reference: right at every breakpoint, and every tempo / SV point is a breakpoint *)
Definition scroll_ok (tol : Q) (c : chart) (ref : Q) (out : list (Q * option Q)) : Prop :=
  (forall t s, In (t, s) out -> speed_ok tol c ref t s)
  /\ (forall r, In r (c_bpms c) -> has_breakpoint out (fst r))
  /\ (forall r, In r (sv_rows c) -> has_breakpoint out (fst r)).
Definition scroll_okb (tol : Q) (c : chart) (ref : Q) (out : list (Q * option Q)) : bool :=
  forallb (fun r => speed_okb tol c ref (fst r) (snd r)) out
  && forallb (fun r => has_breakpointb out (fst r)) (c_bpms c)
  && forallb (fun r => has_breakpointb out (fst r)) (sv_rows c).

(* SV normalisation w.r.t. a given reference: the output is, up to row order, one SV per tempo row *)
Definition norm_row_ok (tol ref : Q) (row sv : Q * Q) : Prop :=
  fst sv == fst row /\ Q_close tol ref (snd sv * snd row).
Definition norm_row_okb (tol ref : Q) (row sv : Q * Q) : bool :=
  Qeq_bool (fst sv) (fst row) && q_close tol ref (snd sv * snd row).
Definition norm_ok (tol : Q) (c : chart) (ref : Q) (out : list (Q * Q)) : Prop :=
  exists out', Permutation out out' /\ Forall2 (norm_row_ok tol ref) (c_bpms c) out'.

(* greedy matching: take for each tempo row the first not yet used output row that fits *)
Fixpoint extract {A} (p : A -> bool) (l : list A) : option (A * list A) :=
  match l with
  | [] => None
  | x :: l' => if p x then Some (x, l')
               else match extract p l' with Some (y, r) => Some (y, x :: r) | None => None end
  end.
Fixpoint match_up {A B} (p : A -> B -> bool) (rows : list A) (out : list B) : bool :=
  match rows with
  | [] => match out with [] => true | _ => false end
  | r :: rows' => match extract (p r) out with
                  | Some (_, out') => match_up p rows' out'
                  | None => false
                  end
  end.
Definition norm_okb (tol : Q) (c : chart) (ref : Q) (out : list (Q * Q)) : bool :=
  match_up (norm_row_okb tol ref) (c_bpms c) out.

(* ---------- the reference, and the three statements *)
Definition is_reference (tol : Q) (c : chart) (ov : option Q) (ref : Q) : Prop :=
  match ov with Some o => ref = o | None => is_dominant tol c ref end.
(* candidate references: the override, or every bpm value of the chart that is dominant *)
Definition references (tol : Q) (c : chart) (ov : option Q) : list Q :=
  match ov with
  | Some o => [o]
  | None => filter (dominantb tol c) (map snd (c_bpms c))
  end.

Definition dominant_spec (tol : Q) (c : chart) (out : option Q) : Prop :=
  exists b, out = Some b /\ is_dominant tol c b.
Definition dominant_specb (tol : Q) (c : chart) (out : option Q) : bool :=
  match out with Some b => dominantb tol c b | None => false end.

Definition scroll_spec (tol : Q) (c : chart) (ov : option Q) (out : option (list (Q * option Q))) : Prop :=
  exists ref o, out = Some o /\ is_reference tol c ov ref /\ scroll_ok tol c ref o.
Definition scroll_specb (tol : Q) (c : chart) (ov : option Q) (out : option (list (Q * option Q))) : bool :=
  match out with
  | Some o => existsb (fun ref => scroll_okb tol c ref o) (references tol c ov)
  | None => false
  end.

Definition norm_spec (tol : Q) (c : chart) (ov : option Q) (out : option (list (Q * Q))) : Prop :=
  exists ref o, out = Some o /\ is_reference tol c ov ref /\ norm_ok tol c ref o.
Definition norm_specb (tol : Q) (c : chart) (ov : option Q) (out : option (list (Q * Q))) : bool :=
  match out with
  | Some o => existsb (fun ref => norm_okb tol c ref o) (references tol c ov)
  | None => false
  end.
