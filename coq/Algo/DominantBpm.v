(* Model of reamber/algorithms/utils/dominant_bpm.py (definitions only).

     s = m.stack()
     pd.concat([m.bpms.offset, pd.Series(s.offset.max())]).sort_values().diff().dropna()
       .set_axis(m.bpms.bpm).groupby(level=0).sum().idxmax()

   A chart is what the three routines look at: the tempo rows (offset, bpm) in ROW ORDER, the SV rows
   (offset, multiplier) in row order ([None] for games without an [svs] list) and the offsets of
   every row of every other list of the map (notes).  [m.stack()] concatenates ALL lists of the map,
   so [s.offset.max()] ranges over tempo rows, SV rows and notes alike. *)
From Coq Require Import ZArith QArith List Bool.
From RV Require Import Base.PyNum.
Import ListNotations.
Open Scope Q_scope.

Record chart := mkChart {
  c_bpms : list (Q * Q);          (* (offset, bpm), row order *)
  c_svs : option (list (Q * Q));  (* (offset, multiplier), row order; None: the game has no SVs *)
  c_notes : list Q                (* offsets of the rows of all other lists *)
}.

Definition sv_rows (c : chart) : list (Q * Q) := match c_svs c with Some l => l | None => [] end.

(* offsets of m.stack(): every list of the map *)
Definition stack_offsets (c : chart) : list Q :=
  map fst (c_bpms c) ++ map fst (sv_rows c) ++ c_notes c.

Fixpoint qmax_list (l : list Q) : option Q :=
  match l with
  | [] => None
  | x :: l' => match qmax_list l' with None => Some x | Some m => Some (Qmax' x m) end
  end.
Fixpoint qmin_list (l : list Q) : option Q :=
  match l with
  | [] => None
  | x :: l' => match qmin_list l' with None => Some x | Some m => Some (Qmin' x m) end
  end.

(* sort_values on a Series of numbers: only the multiset of values matters *)
Fixpoint qinsert (x : Q) (l : list Q) : list Q :=
  match l with
  | [] => [x]
  | y :: l' => if Qle_bool x y then x :: l else y :: qinsert x l'
  end.
Fixpoint qsort (l : list Q) : list Q :=
  match l with [] => [] | x :: l' => qinsert x (qsort l') end.

(* .diff().dropna(): successive differences *)
Fixpoint diffs (l : list Q) : list Q :=
  match l with
  | a :: ((b :: _) as t) => Qred (b - a) :: diffs t
  | _ => []
  end.

(* .groupby(level=0).sum(): keys ascending, one row per distinct key *)
Fixpoint group_sum (k : Q) (rows : list (Q * Q)) : Q :=
  match rows with
  | [] => 0
  | (b, d) :: rows' => if Qeq_bool b k then Qred (d + group_sum k rows') else group_sum k rows'
  end.
Fixpoint qdedup_sorted (l : list Q) : list Q :=
  match l with
  | a :: ((b :: _) as t) => if Qeq_bool a b then qdedup_sorted t else a :: qdedup_sorted t
  | _ => l
  end.
Definition group_keys (rows : list (Q * Q)) : list Q := qdedup_sorted (qsort (map fst rows)).
Definition groupby_sum (rows : list (Q * Q)) : list (Q * Q) :=
  map (fun k => (k, group_sum k rows)) (group_keys rows).

(* .idxmax(): label of the FIRST maximal value; ValueError on an empty Series *)
Fixpoint idxmax_go (best : Q * Q) (l : list (Q * Q)) : Q * Q :=
  match l with
  | [] => best
  | x :: l' => if Qlt_bool (snd best) (snd x) then idxmax_go x l' else idxmax_go best l'
  end.
Definition idxmax (l : list (Q * Q)) : option Q :=
  match l with [] => None | x :: l' => Some (fst (idxmax_go x l')) end.

(* the labelled interval Series just before the groupby: the i-th interval of the SORTED offsets is
   paired POSITIONALLY with the bpm of the i-th ROW (set_axis) *)
Definition dominant_intervals (c : chart) : option (list (Q * Q)) :=
  match qmax_list (stack_offsets c) with
  | None => None                       (* nothing in the map: not modelled (never generated) *)
  | Some last =>
      let sorted := qsort (map fst (c_bpms c) ++ [last]) in
      let d := diffs sorted in
      (* set_axis raises on a length mismatch; lengths always agree here *)
      if Nat.eqb (length d) (length (c_bpms c)) then Some (combine (map snd (c_bpms c)) d) else None
  end.

Definition dominant_groups (c : chart) : option (list (Q * Q)) :=
  match dominant_intervals c with None => None | Some rows => Some (groupby_sum rows) end.

(* None = ValueError("attempt to get argmax of an empty sequence") *)
Definition dominant_bpm (c : chart) : option Q :=
  match dominant_groups c with None => None | Some g => idxmax g end.
