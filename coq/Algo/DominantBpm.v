(* Model of reamber/algorithms/utils/dominant_bpm.py (definitions only), as of /repo commit d3e6d46:

     bpms  = m.bpms.sorted()
     notes = m.stack((HitList, HoldList)).offset
     last  = notes.max() if len(notes) else m.stack().offset.max()
     pd.concat([bpms.offset, pd.Series(last)]).clip(upper=last).diff().dropna()
       .set_axis(bpms.bpm).groupby(level=0).sum().idxmax()

   The model of the code BEFORE that commit is kept at the end under the names [*_old]; it is used only by
   the [_old_refuted] theorems (why the repair was needed).

   A chart is what the three routines look at: the tempo rows (offset, bpm) in ROW ORDER, the SV rows
   (offset, multiplier) in row order ([None] for games without an [svs] list) and the offsets of
   every row of every other list of the map (notes).  [m.stack()] concatenates ALL lists of the map,
   so [s.offset.max()] ranges over tempo rows, SV rows and notes alike. *)
From Coq Require Import ZArith QArith List Bool.
From RV Require Import Base.PyNum.
Import ListNotations.
Open Scope Q_scope.

Record chart := mkChart {
  c_bpms : list (Q * Q);          (* (offset, bpm), row order *)
  c_svs : option (list (Q * Q));  (* (offset, multiplier), row order; None: the game has no SVs *)
  c_notes : list Q                (* offsets of the rows of all other lists *)
}.

Definition sv_rows (c : chart) : list (Q * Q) := match c_svs c with Some l => l | None => [] end.

(* offsets of m.stack(): every list of the map *)
Definition stack_offsets (c : chart) : list Q :=
  map fst (c_bpms c) ++ map fst (sv_rows c) ++ c_notes c.

Fixpoint qmax_list (l : list Q) : option Q :=
  match l with
  | [] => None
  | x :: l' => match qmax_list l' with None => Some x | Some m => Some (Qmax' x m) end
  end.
Fixpoint qmin_list (l : list Q) : option Q :=
  match l with
  | [] => None
  | x :: l' => match qmin_list l' with None => Some x | Some m => Some (Qmin' x m) end
  end.

(* sort_values on a Series of numbers: only the multiset of values matters *)
Fixpoint qinsert (x : Q) (l : list Q) : list Q :=
  match l with
  | [] => [x]
  | y :: l' => if Qle_bool x y then x :: l else y :: qinsert x l'
  end.
Fixpoint qsort (l : list Q) : list Q :=
  match l with [] => [] | x :: l' => qinsert x (qsort l') end.

(* .diff().dropna(): successive differences *)
Fixpoint diffs (l : list Q) : list Q :=
  match l with
  | a :: ((b :: _) as t) => Qred (b - a) :: diffs t
  | _ => []
  end.

(* .groupby(level=0).sum(): keys ascending, one row per distinct key *)
Fixpoint group_sum (k : Q) (rows : list (Q * Q)) : Q :=
  match rows with
  | [] => 0
  | (b, d) :: rows' => if Qeq_bool b k then Qred (d + group_sum k rows') else group_sum k rows'
  end.
Fixpoint qdedup_sorted (l : list Q) : list Q :=
  match l with
  | a :: ((b :: _) as t) => if Qeq_bool a b then qdedup_sorted t else a :: qdedup_sorted t
  | _ => l
  end.
Definition group_keys (rows : list (Q * Q)) : list Q := qdedup_sorted (qsort (map fst rows)).
Definition groupby_sum (rows : list (Q * Q)) : list (Q * Q) :=
  map (fun k => (k, group_sum k rows)) (group_keys rows).

(* .idxmax(): label of the FIRST maximal value; ValueError on an empty Series *)
Fixpoint idxmax_go (best : Q * Q) (l : list (Q * Q)) : Q * Q :=
  match l with
  | [] => best
  | x :: l' => if Qlt_bool (snd best) (snd x) then idxmax_go x l' else idxmax_go best l'
  end.
Definition idxmax (l : list (Q * Q)) : option Q :=
  match l with [] => None | x :: l' => Some (fst (idxmax_go x l')) end.

(* m.bpms.sorted(): sort_values("offset"), modelled as a stable sort of the rows *)
Fixpoint binsert (x : Q * Q) (l : list (Q * Q)) : list (Q * Q) :=
  match l with
  | [] => [x]
  | y :: l' => if Qle_bool (fst x) (fst y) then x :: l else y :: binsert x l'
  end.
Fixpoint bsort (l : list (Q * Q)) : list (Q * Q) :=
  match l with [] => [] | x :: l' => binsert x (bsort l') end.

(* last = notes.max() if len(notes) else m.stack().offset.max()
   ([c_notes] = the rows of every HitList / HoldList (sub)class of the map) *)
Definition last_offset (c : chart) : option Q :=
  match qmax_list (c_notes c) with
  | Some l => Some l
  | None => qmax_list (stack_offsets c)
  end.

(* the labelled interval Series just before the groupby: tempo rows in time order, their offsets followed by
   [last], everything clipped at [last], successive differences, labelled with the bpm of the SAME sorted row *)
Definition dominant_intervals (c : chart) : option (list (Q * Q)) :=
  match last_offset c with
  | None => None                       (* nothing in the map: not modelled (never generated) *)
  | Some last =>
      let rows := bsort (c_bpms c) in
      let d := diffs (map (fun o => Qmin' o last) (map fst rows ++ [last])) in
      (* set_axis raises on a length mismatch; lengths always agree here *)
      if Nat.eqb (length d) (length rows) then Some (combine (map snd rows) d) else None
  end.

Definition dominant_groups (c : chart) : option (list (Q * Q)) :=
  match dominant_intervals c with None => None | Some rows => Some (groupby_sum rows) end.

(* None = ValueError("attempt to get argmax of an empty sequence") *)
Definition dominant_bpm (c : chart) : option Q :=
  match dominant_groups c with None => None | Some g => idxmax g end.

(* ---------------------------------------------------------------------------------------------------
   OLD model: dominant_bpm before commit d3e6d46
     s = m.stack()
     pd.concat([m.bpms.offset, pd.Series(s.offset.max())]).sort_values().diff().dropna()
       .set_axis(m.bpms.bpm).groupby(level=0).sum().idxmax()
   ([s.offset.max()] ranges over tempo rows, SV rows and notes; the i-th interval of the SORTED offsets is
   paired POSITIONALLY with the bpm of the i-th ROW) *)
Definition dominant_intervals_old (c : chart) : option (list (Q * Q)) :=
  match qmax_list (stack_offsets c) with
  | None => None
  | Some last =>
      let d := diffs (qsort (map fst (c_bpms c) ++ [last])) in
      if Nat.eqb (length d) (length (c_bpms c)) then Some (combine (map snd (c_bpms c)) d) else None
  end.
Definition dominant_bpm_old (c : chart) : option Q :=
  match dominant_intervals_old c with None => None | Some rows => idxmax (groupby_sum rows) end.
