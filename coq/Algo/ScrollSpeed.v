(* Models of reamber/algorithms/analysis/scroll_speed.py and reamber/algorithms/generate/sv_normalize.py
   (definitions only).  The pandas pipelines are transcribed as list operations; [None] in a cell is NaN/None.
   pandas' sort_values is modelled as a stable sort (insertion sort). *)
From Coq Require Import ZArith QArith List Bool.
From RV Require Import Base.PyNum Algo.DominantBpm.
Import ListNotations.
Open Scope Q_scope.

Definition orow := (Q * option Q)%type.      (* (offset, nullable value) *)

Definition oq_eq (a b : option Q) : bool :=
  match a, b with
  | None, None => true
  | Some x, Some y => Qeq_bool x y
  | _, _ => false
  end.

(* stable sort by offset: an element is inserted BEFORE later-listed rows of equal key *)
Fixpoint oinsert (x : orow) (l : list orow) : list orow :=
  match l with
  | [] => [x]
  | y :: l' => if Qle_bool (fst x) (fst y) then x :: l else y :: oinsert x l'
  end.
Fixpoint osort (l : list orow) : list orow :=
  match l with [] => [] | x :: l' => oinsert x (osort l') end.

Fixpoint ffill_go (prev : option Q) (l : list orow) : list orow :=
  match l with
  | [] => []
  | (o, v) :: l' =>
      let v' := match v with Some _ => v | None => prev end in
      (o, v') :: ffill_go v' l'
  end.
Definition ffill (l : list orow) : list orow := ffill_go None l.

Fixpoint bfill (l : list orow) : list orow :=
  match l with
  | [] => []
  | (o, v) :: l' =>
      let r := bfill l' in
      let v' := match v with
                | Some _ => v
                | None => match r with (_, w) :: _ => w | [] => None end
                end in
      (o, v') :: r
  end.

(* drop_duplicates(): keep the first of identical rows (NaN equals NaN there) *)
Definition orow_eq (a b : orow) : bool := Qeq_bool (fst a) (fst b) && oq_eq (snd a) (snd b).
Fixpoint dedup_go (seen : list orow) (l : list orow) : list orow :=
  match l with
  | [] => []
  | x :: l' => if existsb (orow_eq x) seen then dedup_go seen l' else x :: dedup_go (x :: seen) l'
  end.
Definition drop_duplicates (l : list orow) : list orow := dedup_go [] l.

(* the bpm step function:  concat(bpm rows, (offset_min, None), (offset_max, None)).sort_values("offset")
   .ffill().bfill().drop_duplicates() *)
Definition bpm_frame (c : chart) (omin omax : Q) : list orow :=
  drop_duplicates (bfill (ffill (osort
    (map (fun r => (fst r, Some (snd r))) (c_bpms c) ++ [(omin, None); (omax, None)])))).

(* .groupby("offset").last(): per offset the LAST non-null value in concat order *)
Fixpoint last_nonnull (k : Q) (rows : list orow) (acc : option Q) : option Q :=
  match rows with
  | [] => acc
  | (o, v) :: rows' =>
      if Qeq_bool o k then last_nonnull k rows' (match v with Some _ => v | None => acc end)
      else last_nonnull k rows' acc
  end.

(* the SV step function: tempo points reset the multiplier to 1, then head (1) / tail (None) markers,
   then the SV rows; groupby-last, ffill *)
Definition sv_frame (c : chart) (svs : list (Q * Q)) (omin omax : Q) : list orow :=
  let rows := map (fun r => (fst r, Some 1)) (c_bpms c) ++ [(omin, Some 1); (omax, None)]
              ++ map (fun r => (fst r, Some (snd r))) svs in
  let keys := qdedup_sorted (qsort (map fst rows)) in
  ffill (map (fun k => (k, last_nonnull k rows None)) keys).

(* pd.merge(L, R, on="offset", how="outer").sort_values("offset") *)
Definition mrow := (Q * option Q * option Q)%type.
Definition merge_outer (L R : list orow) : list mrow :=
  let keys := qdedup_sorted (qsort (map fst L ++ map fst R)) in
  flat_map (fun k =>
    let ls := filter (fun r => Qeq_bool (fst r) k) L in
    let rs := filter (fun r => Qeq_bool (fst r) k) R in
    match ls, rs with
    | [], _ => map (fun r => (k, None, snd r)) rs
    | _, [] => map (fun l => (k, snd l, None)) ls
    | _, _ => flat_map (fun l => map (fun r => (k, snd l, snd r)) rs) ls
    end) keys.

Definition fill_both (l : list mrow) : list mrow :=
  let offs := map (fun r => fst (fst r)) l in
  let bcol := bfill (ffill (map (fun r => (fst (fst r), snd (fst r))) l)) in
  let mcol := bfill (ffill (map (fun r => (fst (fst r), snd r)) l)) in
  map (fun p => (fst (fst p), snd (fst p), snd (snd p))) (combine bcol mcol).

Definition speed_of (ref : Q) (b m : option Q) : option Q :=
  match b, m with
  | Some b, Some m => Some (Qred (b / ref * m))
  | _, _ => None
  end.

(* everything of scroll_speed except the choice of the reference bpm *)
Definition scroll_speed_with (c : chart) (ref : Q) : option (list orow) :=
  match qmin_list (stack_offsets c), qmax_list (stack_offsets c) with
  | Some omin, Some omax =>
      let df := bpm_frame c omin omax in
      match c_svs c with
      | None => Some (map (fun r => (fst r, speed_of ref (snd r) (Some 1))) df)
      | Some svs =>
          let m := fill_both (merge_outer df (sv_frame c svs omin omax)) in
          Some (map (fun r => (fst (fst r), speed_of ref (snd (fst r)) (snd r))) m)
      end
  | _, _ => None
  end.

(* bpm = override_bpm if override_bpm else dominant_bpm(m) *)
Definition reference_bpm (c : chart) (ov : option Q) : option Q :=
  match ov with
  | Some o => if Qeq_bool o 0 then dominant_bpm c else Some o
  | None => dominant_bpm c
  end.

Definition scroll_speed (c : chart) (ov : option Q) : option (list orow) :=
  match reference_bpm c ov with
  | None => None
  | Some ref => scroll_speed_with c ref
  end.

(* sv_normalize: one row per tempo row, in row order, multiplier = bpm_dom / bpm *)
Definition sv_normalize_with (c : chart) (ref : Q) : list (Q * Q) :=
  map (fun r => (fst r, Qred (ref / snd r))) (c_bpms c).

Definition sv_normalize (c : chart) (ov : option Q) : option (list (Q * Q)) :=
  match reference_bpm c ov with
  | None => None
  | Some ref => match c_svs c with None => None (* AttributeError: no svs *) | Some _ => Some (sv_normalize_with c ref) end
  end.
