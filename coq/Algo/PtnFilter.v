(* Model of reamber/algorithms/pattern/filters/PtnFilter.py  (definitions only, no proofs).

   Note types are Python classes in the implementation; the model uses a small enum closed under the
   subclass relation the code can observe through [issubclass]:
     object > Note > {Hit > GHit (a game's hit class, e.g. OsuHit), Hold > GHold, HoldTail}.
   A filter array ([.ar], a 2-D numpy array) is a width (its shape[1], which survives when there are
   no rows) and a list of rows.  [None] = the Python code raises (ValueError / IndexError). *)
From Coq Require Import ZArith List Bool.
Import ListNotations.
Open Scope Z_scope.

Inductive ntype := TObject | TNote | THit | THold | TTail | TGHit | TGHold.

Definition ntype_code (t : ntype) : Z :=
  match t with TObject => 0 | TNote => 1 | THit => 2 | THold => 3 | TTail => 4 | TGHit => 5 | TGHold => 6 end.
Definition ntype_eqb (a b : ntype) : bool := ntype_code a =? ntype_code b.

(* issubclass(x, c) *)
Definition subclassb (x c : ntype) : bool :=
  match c with
  | TObject => true
  | TNote => negb (ntype_eqb x TObject)
  | THit => ntype_eqb x THit || ntype_eqb x TGHit
  | THold => ntype_eqb x THold || ntype_eqb x TGHold
  | _ => ntype_eqb x c
  end.

(* ---------------------------------------------------------------- generic list helpers *)
Fixpoint list_eqb {A} (eqb : A -> A -> bool) (a b : list A) : bool :=
  match a, b with
  | [], [] => true
  | x :: a', y :: b' => eqb x y && list_eqb eqb a' b'
  | _, _ => false
  end.

(* some position where both have an element and [f] holds *)
Fixpoint any2 {A B} (f : A -> B -> bool) (a : list A) (b : list B) : bool :=
  match a, b with
  | x :: a', y :: b' => f x y || any2 f a' b'
  | _, _ => false
  end.

(* [f] holds on every position of the common prefix (Python: enumerate over the shorter) *)
Fixpoint all2 {A B} (f : A -> B -> bool) (a : list A) (b : list B) : bool :=
  match a, b with
  | x :: a', y :: b' => f x y && all2 f a' b'
  | _, _ => true
  end.

Fixpoint map2 {A B C} (f : A -> B -> C) (a : list A) (b : list B) : list C :=
  match a, b with
  | x :: a', y :: b' => f x y :: map2 f a' b'
  | _, _ => []
  end.

Fixpoint zrange_n (lo : Z) (n : nat) : list Z :=
  match n with O => [] | S n' => lo :: zrange_n (lo + 1) n' end.
(* list(range(lo, hi)) *)
Definition zrange (lo hi : Z) : list Z := zrange_n lo (Z.to_nat (hi - lo)).

(* all ways of taking one element from each list, first list most significant *)
Fixpoint cart {A} (ls : list (list A)) : list (list A) :=
  match ls with
  | [] => [[]]
  | l :: ls' => flat_map (fun a => map (cons a) (cart ls')) l
  end.

Fixpoint insert_all {A} (x : A) (l : list A) : list (list A) :=
  match l with
  | [] => [[x]]
  | y :: l' => (x :: l) :: map (cons y) (insert_all x l')
  end.
(* itertools.permutations as a set of rows (the callers de-duplicate and sort afterwards) *)
Fixpoint perms {A} (l : list A) : list (list A) :=
  match l with
  | [] => [[]]
  | x :: l' => flat_map (insert_all x) (perms l')
  end.

(* np.unique(rows, axis=0): sorted lexicographically, duplicates removed *)
Fixpoint lex_cmp (a b : list Z) : comparison :=
  match a, b with
  | [], [] => Eq
  | [], _ => Lt
  | _, [] => Gt
  | x :: a', y :: b' => match x ?= y with Eq => lex_cmp a' b' | c => c end
  end.
Fixpoint uinsert (r : list Z) (l : list (list Z)) : list (list Z) :=
  match l with
  | [] => [r]
  | x :: l' => match lex_cmp r x with Lt => r :: l | Eq => l | Gt => x :: uinsert r l' end
  end.
Definition unique_rows (l : list (list Z)) : list (list Z) := fold_right uinsert [] l.

(* np.min / np.max along axis 0 of a non-empty 2-D array *)
Definition colwise (f : Z -> Z -> Z) (rows : list (list Z)) : list Z :=
  match rows with [] => [] | r :: rs => fold_left (map2 f) rs r end.
Definition list_min (r : list Z) : option Z :=
  match r with [] => None | x :: r' => Some (fold_left Z.min r' x) end.
Definition list_max (r : list Z) : option Z :=
  match r with [] => None | x :: r' => Some (fold_left Z.max r' x) end.

Definition opt_bind {A B} (o : option A) (f : A -> option B) : option B :=
  match o with None => None | Some a => f a end.
Fixpoint omap {A B} (f : A -> option B) (l : list A) : option (list B) :=
  match l with
  | [] => Some []
  | x :: l' => match f x with None => None | Some y =>
                 match omap f l' with None => None | Some ys => Some (y :: ys) end end
  end.

(* ---------------------------------------------------------------- filter objects *)
(* PtnFilterCombo / PtnFilterChord: integer array, keys, invert_filter *)
Record nfilter := mkNF { f_w : nat; f_ar : list (list Z); f_keys : Z; f_inv : bool }.
(* PtnFilterType *)
Record tfilter := mkTF { t_w : nat; t_ar : list (list ntype); t_inv : bool }.

(* numpy broadcasting of an (r, w) array against a length-[size] vector: w = size, or w = 1.
   (A length-1 vector, i.e. size = 1, also broadcasts against any w; size 1 is outside the property's
   sizes 2..4 and that case is not modelled - the generator does not produce it.) *)
Definition bcast_ok (w size : nat) : bool := (w =? size)%nat || (w =? 1)%nat.
Definition bcast_row (size : nat) (row : list Z) : list Z :=
  if (length row =? size)%nat then row else repeat (hd 0 row) size.

(* PtnFilterChord.filter:  hit = bool((self.ar == data).all(axis=1).any())  -  [data] is a row of the
   filter array (after numpy broadcasting); [invert_filter] negates *)
Definition chord_filter (f : nfilter) (data : list Z) : option bool :=
  if bcast_ok (f_w f) (length data)
  then Some (xorb (f_inv f)
               (existsb (fun row => list_eqb Z.eqb (bcast_row (length data) row) data) (f_ar f)))
  else None.

(* OLD variant, NOT the code any more (before commit 1bc6769):  [data in self.ar], which numpy evaluates as
   (self.ar == data).any()  - some position of some row equal.  Kept only for the refutation witnesses. *)
Definition chord_filter_old_any (f : nfilter) (data : list Z) : option bool :=
  if bcast_ok (f_w f) (length data)
  then Some (xorb (f_inv f)
               (existsb (fun row => any2 Z.eqb (bcast_row (length data) row) data) (f_ar f)))
  else None.

(* sum(row * keys ** arange(n-1, -1, -1)) *)
Fixpoint row_hash (keys : Z) (row : list Z) : Z :=
  match row with
  | [] => 0
  | c :: r => c * keys ^ Z.of_nat (length r) + row_hash keys r
  end.
Definition memZ (x : Z) (l : list Z) : bool := existsb (Z.eqb x) l.

(* PtnFilterCombo.filter on an (m, size) column array *)
Definition combo_filter (f : nfilter) (size : nat) (data : list (list Z)) : option (list bool) :=
  if bcast_ok (f_w f) size
  then let self_ := map (fun row => row_hash (f_keys f) (bcast_row size row)) (f_ar f) in
       Some (map (fun d => xorb (f_inv f) (memZ (row_hash (f_keys f) d) self_)) data)
  else None.

(* PtnFilterType.filter on an (m, size) type array *)
Definition type_filter (f : tfilter) (size : nat) (data : list (list ntype)) : option (list bool) :=
  match data with
  | [] => Some []
  | _ =>
    if (size <? t_w f)%nat && negb (length (t_ar f) =? 0)%nat then None   (* data[:, ix] IndexError *)
    else Some (map (fun d => xorb (t_inv f) (existsb (fun row => all2 subclassb d row) (t_ar f))) data)
  end.

(* ---------------------------------------------------------------- constructors (option expansion) *)
(* the [combos] / [chord_sizes] / [types] argument as numpy sees it *)
Inductive arr_in (A : Type) :=
| In0 (x : A)                         (* scalar (ndim 0) *)
| In1 (l : list A)                    (* 1-D list *)
| In2 (w : nat) (rows : list (list A)).  (* rectangular 2-D list, at least one row *)
Arguments In0 {A}. Arguments In1 {A}. Arguments In2 {A}.

Definition shift_row (d : Z) (row : list Z) : list Z := map (fun c => c + d) row.

Definition repeat_expand (keys : Z) (rows : list (list Z)) : option (list (list Z)) :=
  match rows with
  | [] => None                                    (* np.concatenate([]) *)
  | _ =>
    opt_bind (omap (fun row =>
       match list_min row, list_max row with
       | Some mn, Some mx =>
           let freedom := keys - mx + mn in
           Some (map (fun d => shift_row (d - mn) row) (zrange 0 freedom))
       | _, _ => None                             (* np.min of an empty row *)
       end) rows) (fun l => Some (concat l))
  end.

Definition hmirror (keys : Z) (rows : list (list Z)) := rows ++ map (map (fun c => (keys - 1) - c)) rows.
Definition vmirror {A} (rows : list (list A)) := rows ++ map (@rev A) rows.

(* PtnFilterCombo.create; a 1-D argument becomes a column vector ([..., np.newaxis]) *)
Definition combo_create (combos : arr_in Z) (keys options : Z) (exclude : bool) : option nfilter :=
  match combos with In0 _ => None | _ =>     (* 0-d input: not a usable filter; outside the model *)
  let '(w, rows) := match combos with
                    | In0 x => (1%nat, [[x]])
                    | In1 l => (1%nat, map (fun x => [x]) l)
                    | In2 w rows => (w, rows) end in
  opt_bind (if Z.testbit options 0 then repeat_expand keys rows else Some rows) (fun rows1 =>
  let rows2 := if Z.testbit options 1 then hmirror keys rows1 else rows1 in
  let rows3 := if Z.testbit options 2 then vmirror rows2 else rows2 in
  Some (mkNF w (unique_rows rows3) keys exclude))
  end.

(* PtnFilterChord.create; a 1-D argument becomes ONE row (np.expand_dims axis 0) *)
Definition chord_create (sizes : arr_in Z) (keys options : Z) (exclude : bool) : option nfilter :=
  let '(w, rows) := match sizes with
                    | In0 x => (1%nat, [[x]])
                    | In1 l => (length l, [l])
                    | In2 w rows => (w, rows) end in
  match rows with [] => None | _ =>
  (* AND_HIGHER with some minimum above keys concatenates an EMPTY float array: the array becomes float64 and
     AND_LOWER's range(1, i + 1) then raises TypeError *)
  if Z.testbit options 2 && Z.testbit options 1 && existsb (fun mn => keys <? mn) (colwise Z.min rows) then None else
  let rows1 := if Z.testbit options 2
               then rows ++ cart (map (fun i => zrange i (keys + 1)) (colwise Z.min rows)) else rows in
  let rows2 := if Z.testbit options 1
               then rows1 ++ cart (map (fun i => zrange 1 (i + 1)) (colwise Z.max rows1)) else rows1 in
  let rows3 := if Z.testbit options 0 then flat_map perms rows2 else rows2 in
  Some (mkNF w (unique_rows rows3) keys exclude)
  end.

(* np.unique(list(map(str, rows)), return_index=True): rows without duplicates (order: by repr) *)
Fixpoint dedupe_t (l : list (list ntype)) : list (list ntype) :=
  match l with
  | [] => []
  | r :: l' => if existsb (list_eqb ntype_eqb r) l' then dedupe_t l' else r :: dedupe_t l'
  end.

(* PtnFilterType.create; ANY_ORDER takes precedence over MIRROR (if / elif) *)
Definition type_create (types : arr_in ntype) (options : Z) (exclude : bool) : option tfilter :=
  match types with In0 _ => None | _ =>       (* 0-d input: shape[1] IndexError *)
  let '(w, rows) := match types with
                    | In0 x => (1%nat, [[x]])
                    | In1 l => (1%nat, map (fun x => [x]) l)
                    | In2 w rows => (w, rows) end in
  let rows1 := if Z.testbit options 0 then flat_map perms rows
               else if Z.testbit options 1 then vmirror rows else rows in
  Some (mkTF w (dedupe_t rows1) exclude)
  end.
