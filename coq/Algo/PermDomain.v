(* C15 — boolean side conditions of the permutation-invariance theorems for dominant_bpm / scroll_speed / sv_normalize
   (Proofs/PermAnalysisProofs.v), and the boolean "same chart, rows permuted" relation.  Definitions only: the
   correspondence runner (Corr/RunC15.v) evaluates them on every generated case. *)
From Coq Require Import ZArith QArith List Bool.
From RV Require Import Base.PyNum Algo.DominantBpm Algo.ScrollSpeed Algo.AnalysisSpec.
Import ListNotations.
Open Scope Q_scope.

(* structural equality of fractions and "given in lowest terms" *)
Definition q_same (a b : Q) : bool := (Qnum a =? Qnum b)%Z && (Qden a =? Qden b)%positive.
Definition canonb (q : Q) : bool := q_same (Qred q) q.
(* every offset of the chart is a reduced fraction (a condition on the representation handed to the model) *)
Definition canon_offsets (c : chart) : bool := forallb canonb (stack_offsets c).
(* SVs at one time carry the same multiplier *)
Definition svs_agreeb (c : chart) : bool :=
  forallb (fun r1 => forallb (fun r2 => negb (Qeq_bool (fst r1) (fst r2)) || q_same (snd r1) (snd r2)) (sv_rows c)) (sv_rows c).

(* multiset equality of rows (structural equality of the fractions: the harness emits reduced fractions) *)
Fixpoint remove_pair (x : Q * Q) (l : list (Q * Q)) : option (list (Q * Q)) :=
  match l with
  | [] => None
  | y :: l' => if q_same (fst x) (fst y) && q_same (snd x) (snd y) then Some l'
               else match remove_pair x l' with Some r => Some (y :: r) | None => None end
  end.
Fixpoint perm_pairsb (a b : list (Q * Q)) : bool :=
  match a with
  | [] => match b with [] => true | _ => false end
  | x :: a' => match remove_pair x b with Some b' => perm_pairsb a' b' | None => false end
  end.
Definition an_chart_permb (c c' : chart) : bool :=
  perm_pairsb (c_bpms c) (c_bpms c')
  && match c_svs c, c_svs c' with Some x, Some y => perm_pairsb x y | None, None => true | _, _ => false end
  && perm_pairsb (map (fun q => (q, 0)) (c_notes c)) (map (fun q => (q, 0)) (c_notes c')).

(* the whole domain of C15_scroll_speed_perm / C15_dominant_bpm_perm *)
Definition dom_dominant (c c' : chart) : bool := an_chart_permb c c' && distinct_times (tempo_times c).
Definition dom_scroll (c c' : chart) : bool := dom_dominant c c' && canon_offsets c && svs_agreeb c.
