(* Model of reamber/algorithms/pattern/Pattern.py and combos/PtnCombo.py, _PtnCJack.py,
   _PtnCChordStream.py  (definitions only, no proofs).

   Times are only compared, added and subtracted by this code, so they are modelled over Z (the harness
   scales all times of a case by their common denominator).  A row of Pattern.df is a [note]
   (column, offset, type).  [None] = the Python code raises. *)
From Coq Require Import ZArith List Bool.
From RV Require Export Algo.PtnFilter.
Import ListNotations.
Open Scope Z_scope.

Record note := mkN { ncol : Z; noff : Z; nty : ntype }.

Definition note_eqb (a b : note) : bool :=
  (ncol a =? ncol b) && (noff a =? noff b) && ntype_eqb (nty a) (nty b).

(* ---------------------------------------------------------------- Pattern.__init__ / from_note_lists *)
(* a NoteList: the class of its items and its rows (column, offset, length); length is ignored for hits *)
Record nlist := mkNL { nl_ty : ntype; nl_rows : list (Z * Z * Z) }.

Definition from_note_lists_rows (nls : list nlist) (include_tails : bool) : list note :=
  flat_map (fun nl =>
      map (fun r => mkN (fst (fst r)) (snd (fst r)) (nl_ty nl)) (nl_rows nl)
      ++ (if include_tails && subclassb (nl_ty nl) THold
          then map (fun r => mkN (fst (fst r)) (snd (fst r) + snd r) TTail) (nl_rows nl)
          else []))
    (filter (fun nl => negb (length (nl_rows nl) =? 0)%nat) nls).

(* DataFrame.sort_values("offset", ignore_index=True).  pandas' default sort is not stable; the model
   is the stable sort and the correspondence is "sorted by offset and a permutation of the rows". *)
Fixpoint ins_sorted (r : note) (l : list note) : list note :=
  match l with
  | [] => [r]
  | x :: l' => if noff r <=? noff x then r :: l else x :: ins_sorted r l'
  end.
Definition pattern_init (rows : list note) : list note := fold_right ins_sorted [] rows.

Definition from_note_lists (nls : list nlist) (include_tails : bool) : list note :=
  pattern_init (from_note_lists_rows nls include_tails).

(* ---------------------------------------------------------------- masks *)
(* ar[mask] *)
Fixpoint mask_select {A} (l : list A) (m : list bool) : list A :=
  match l, m with
  | x :: l', b :: m' => if b then x :: mask_select l' m' else mask_select l' m'
  | _, _ => []
  end.

(* is_grouped[~is_grouped] |= mask *)
Fixpoint scatter_or (g m : list bool) : list bool :=
  match g with
  | [] => []
  | true :: g' => true :: scatter_or g' m
  | false :: g' => match m with
                   | [] => false :: g'
                   | b :: m' => b :: scatter_or g' m'
                   end
  end.

Fixpoint take_while {A} (f : A -> bool) (l : list A) : list A :=
  match l with
  | [] => []
  | x :: l' => if f x then x :: take_while f l' else []
  end.

(* bisect_left / bisect_right(lo=start) on the offsets of Pattern.df, which __init__ keeps sorted:
   on a sorted list they return the number of elements < x, resp. lo + the number of elements <= x
   from position lo on. *)
Definition bisect_left (l : list Z) (x : Z) : nat := length (take_while (fun y => y <? x) l).
Definition bisect_right_lo (l : list Z) (x : Z) (lo : nat) : nat :=
  (lo + length (take_while (fun y => (y <=? x)%Z) (skipn lo l)))%nat.

(* [cols_.index(c) for c in set(cols_)]: the first occurrence of every column *)
Fixpoint first_occ (seen : list Z) (cols : list Z) : list bool :=
  match cols with
  | [] => []
  | c :: cols' => negb (memZ c seen) :: first_occ (c :: seen) cols'
  end.

Definition v_mask (ar : list note) (offset v_window : Z) (avoid_jack : bool) : list bool :=
  let offsets := map noff ar in
  let cols := map ncol ar in
  let n := length ar in
  let s := bisect_left offsets offset in
  let e := bisect_right_lo offsets (offset + v_window) s in
  if (s =? e)%nat then repeat false n
  else repeat false s
       ++ (if avoid_jack then first_occ [] (firstn (e - s) (skipn s cols)) else repeat true (e - s))
       ++ repeat false (n - e).

Definition h_mask (ar : list note) (column h_window : Z) : list bool :=
  map (fun r => Z.abs (column - ncol r) <=? h_window) ar.

(* ---------------------------------------------------------------- Pattern.group *)
(* the for-loop over df.itertuples(); state = (is_grouped, df_groups) *)
Fixpoint group_loop (ar : list note) (v : Z) (h : option Z) (aj : bool)
         (rows : list (nat * note)) (g : list bool) (acc : list (list note))
  : list bool * list (list note) :=
  match rows with
  | [] => (g, acc)
  | (ix, r) :: rows' =>
      if nth ix g false then group_loop ar v h aj rows' g acc
      else
        let ung := mask_select ar (map negb g) in
        let m0 := v_mask ung (noff r) v aj in
        let m := match h with None => m0 | Some hw => map2 andb m0 (h_mask ung (ncol r) hw) end in
        group_loop ar v h aj rows' (scatter_or g m) (acc ++ [mask_select ung m])
  end.

Definition enumerate {A} (l : list A) : list (nat * A) := combine (seq 0 (length l)) l.

Definition group (ar : list note) (v : Z) (h : option Z) (aj : bool) : option (list (list note)) :=
  if v <? 0 then None
  else if match h with Some hw => hw <? 0 | None => false end then None
  else Some (snd (group_loop ar v h aj (enumerate ar) (repeat false (length ar)) [])).

(* ---------------------------------------------------------------- PtnCombo.combinations *)
(* groups[i:i+size] for i in range(0, len - size + 1) *)
Definition chunks {A} (size : nat) (groups : list A) : list (list A) :=
  map (fun i => firstn size (skipn i groups)) (seq 0 (length groups + 1 - size)).

(* np.asarray(np.meshgrid( *chunk )).T.reshape(-1, size): rows (x1,...,xn) enumerated with
   xn most significant, then x(n-1), ..., x3, then x1, and x2 least significant ('xy' indexing) *)
Definition mesh {A} (chunk : list (list A)) : list (list A) :=
  let k := (length chunk - 2)%nat in
  map (fun t => skipn k t ++ rev (firstn k t)) (cart (rev (skipn 2 chunk) ++ firstn 2 chunk)).

(* sliding_window_view(ar, [ar.shape[0], 2]).reshape(-1, 2) *)
Definition fold_pairs {A} (size : nat) (ar : list (list A)) : list (list A) :=
  flat_map (fun w => map (fun row => firstn 2 (skipn w row)) ar) (seq 0 (size - 1)).

Definition apply_mask {A} (l : list A) (om : option (list bool)) : option (list A) :=
  match om with None => None | Some m => Some (mask_select l m) end.

(* [ct] is the chord-size test: PtnFilterChord.filter, i.e. [chord_filter] *)
Definition combinations_with (ct : nfilter -> list Z -> option bool)
           (groups : list (list note)) (size : nat) (make_size2 : bool)
           (cf kf : option nfilter) (tf : option tfilter) : option (list (list (list note))) :=
  opt_bind
    (omap (fun chunk =>
        match cf with
        | None => Some (chunk, true)
        | Some f => match ct f (map (fun g => Z.of_nat (length g)) chunk) with
                    | None => None | Some b => Some (chunk, b) end
        end) (chunks size groups))
    (fun flagged =>
  let chs := map fst (filter snd flagged) in
  opt_bind
    (omap (fun chunk =>
        let combos := mesh chunk in
        opt_bind (match kf with
                  | None => Some combos
                  | Some f => apply_mask combos (combo_filter f size (map (map ncol) combos))
                  end) (fun combos1 =>
        match tf with
        | None => Some combos1
        | Some f => apply_mask combos1 (type_filter f size (map (map nty) combos1))
        end)) chs)
    (fun combo_list =>
  let combo_list := filter (fun c => negb (length c =? 0)%nat) combo_list in
  (* sliding_window_view with a window (m, 2) wider than an (m, 1) array raises ValueError *)
  if make_size2 && (size <? 2)%nat && negb (length combo_list =? 0)%nat then None
  else Some (if make_size2 then map (fold_pairs size) combo_list else combo_list))).

Definition combinations := combinations_with chord_filter.
(* OLD variant (element-wise chord test, before commit 1bc6769); only for the refutation witnesses *)
Definition combinations_old := combinations_with chord_filter_old_any.

(* ---------------------------------------------------------------- templates *)
Definition template_jacks (groups : list (list note)) (minimum_length keys : Z)
  : option (list (list (list note))) :=
  if minimum_length <? 2 then None
  else
    let n := Z.to_nat minimum_length in
    match combo_create (In2 n [repeat 0 n]) keys 1 false,
          type_create (In2 n [TTail :: repeat TObject (n - 1)]) 1 true with
    | Some kf, Some tf => combinations groups n true None (Some kf) (Some tf)
    | _, _ => None
    end.

Definition template_chord_stream_with (ct : nfilter -> list Z -> option bool)
           (groups : list (list note)) (primary secondary keys : Z)
           (and_lower include_jack : bool) : option (list (list (list note))) :=
  match chord_create (In2 2 [[primary; secondary]]) keys (if and_lower then 3 else 0) false,
        (if include_jack then Some None
         else match combo_create (In2 2 [[0; 0]]) keys 1 true with
              | Some f => Some (Some f) | None => None end),
        type_create (In2 2 [[TTail; TObject]]) 1 true with
  | Some cf, Some kf, Some tf => combinations_with ct groups 2 true (Some cf) kf (Some tf)
  | _, _, _ => None
  end.
Definition template_chord_stream := template_chord_stream_with chord_filter.
Definition template_chord_stream_old := template_chord_stream_with chord_filter_old_any.
